"""Probe for refactoring 2: render()/get_dependencies()/_resolve_dependencies()."""
from htmltools import (
    HTML,
    HTMLDependency,
    HTMLDocument,
    MetadataNode,
    Tag,
    TagList,
    div,
    head_content,
    span,
    tags,
)
from htmltools._core import _resolve_dependencies
from htmltools._jsx import JSXTag


class Meta(MetadataNode):
    def __repr__(self):
        return "Meta()"


def dep(name, version="1.0", **kw):
    return HTMLDependency(name, version, source={"href": "/lib"}, **kw)


def show(label, fn):
    try:
        print(f"{label}: {fn()!r}")
    except Exception as e:  # noqa
        print(f"{label}: raised {type(e).__name__}: {e}")


class Widget:
    """Tagifiable that expands to a TagList with dependencies."""

    def __init__(self, n):
        self.n = n

    def tagify(self):
        return TagList(dep(f"w{self.n}"), span(f"w{self.n}", dep("shared", "2.0")), Meta())


class OverridingTag(Tag):
    """Tag subclass with its own get_dependencies (returns a generator)."""

    def get_dependencies(self, dedup=True):
        yield dep("from-override", "9.9")
        yield from super().get_dependencies(dedup=dedup)


a1, a2, a3 = dep("a", "1.0"), dep("a", "2.0"), dep("a", "1.5")
b1, b1_again = dep("b", "1.0"), dep("b", "1.0", script={"src": "other.js"})

cases = {
    "empty-taglist": TagList(),
    "empty-div": div(),
    "only-meta": TagList(Meta(), Meta()),
    "only-dep": TagList(a1),
    "text": TagList("a", "b"),
    "void-with-dep": tags.br(a1),
    "dups-upgrade": TagList(a1, div(a2, span(a3)), b1),
    "dups-downgrade": TagList(a2, div(a1), a3),
    "same-version-first-wins": div(b1, b1_again),
    "order": div(dep("z"), span(dep("y"), span(dep("x"))), dep("w"), Meta(), dep("z", "0.1")),
    "single-text-with-deps": div(a1, "only text", Meta(), b1),
    "inline": span(a1, span("x", b1, _add_ws=False), "t", _add_ws=False),
    "widget": div(Widget(1), Widget(2), Meta()),
    "widget-taglist": TagList(Widget(3), "txt", Widget(4)),
    "override": div(OverridingTag("o", a1, span(b1)), a2),
    "head-content": div(head_content(tags.title("T")), head_content(tags.title("T")), "x"),
    "html": div(HTML("<i>raw</i>"), a1),
    "jsx": div(JSXTag("Foo", div(a1), b=1), Meta()),
    "script": tags.script(a1, "x < y"),
}

for name, obj in cases.items():
    show(f"{name}/render", obj.render)
    show(f"{name}/deps", obj.get_dependencies)
    show(f"{name}/deps-nodedup", lambda: obj.get_dependencies(dedup=False))
    if isinstance(obj, Tag):
        show(f"{name}/children-deps-nodedup", lambda: obj.children.get_dependencies(dedup=False))
    show(f"{name}/str", lambda: str(obj))
    show(f"{name}/html", obj.get_html_string) if "widget" not in name and name != "jsx" else None

# identity: the very same objects are returned, fresh list each time
tl = TagList(a1, div(a2), b1)
d1 = tl.get_dependencies()
d2 = tl.get_dependencies()
show("identity/objects", lambda: [x is y for x, y in zip(d1, [a2, b1])])
show("identity/fresh-list", lambda: d1 is not d2)
nd1 = tl.get_dependencies(dedup=False)
nd1.append("junk")
show("identity/mutating-result-is-harmless", lambda: tl.get_dependencies(dedup=False))
r = tl.render()
show("render/keys", lambda: list(r.keys()))
show("render/deps-are-copies", lambda: [x is y for x, y in zip(r["dependencies"], [a2, b1])])
show("render/deps-equal", lambda: [x == y for x, y in zip(r["dependencies"], [a2, b1])])

# truthiness of dedup
for flag in (0, 1, "", "yes", None, [], [0]):
    show(f"dedup={flag!r}", lambda: TagList(a1, a2).get_dependencies(dedup=flag))
show("tag-dedup-positional", lambda: div(a1, a2).get_dependencies(False))

# _resolve_dependencies directly
show("resolve/empty", lambda: _resolve_dependencies([]))
show("resolve/one", lambda: _resolve_dependencies([a1]))
show("resolve/order", lambda: _resolve_dependencies([b1, a1, dep("c"), a2, b1_again, a3]))
show("resolve/identity", lambda: [x is y for x, y in zip(_resolve_dependencies([b1, a1, a2, b1_again]), [b1, a2])])
show("resolve/bad-item", lambda: _resolve_dependencies([a1, None]))
show("resolve/bad-item-str", lambda: _resolve_dependencies(["x"]))

weird = dep("weird")
weird.name = ["unhashable"]
show("resolve/unhashable-name", lambda: _resolve_dependencies([weird]))
weird2 = dep("a")
weird2.version = "not-a-version"
show("resolve/uncomparable-version", lambda: _resolve_dependencies([a1, weird2]))
show("resolve/uncomparable-version-first", lambda: _resolve_dependencies([weird2]))

# non-tagified object reaches get_html_string via render of custom tagify returning itself
class Lazy:
    def tagify(self):
        return self

show("non-tagified/render", lambda: div(Lazy(), a1).render())
show("non-tagified/taglist-render", lambda: TagList(a1, Lazy()).render())

# documents (use Tag.render internally)
show("doc", lambda: HTMLDocument(div(a1, Meta(), "x"), a2, b1).render())
show("doc-empty", lambda: HTMLDocument().render())
