# Probe for refactoring 5: Tag.__init__ / consolidate_attrs argument partitioning (attrs vs children),
# and the class/style algebra on tags built that way.
from collections import OrderedDict, UserDict, defaultdict
from types import MappingProxyType

from htmltools import HTML, Tag, TagList, consolidate_attrs, css, div, span, tags, HTMLDependency
from htmltools._core import TagAttrDict


def show(label, fn):
    try:
        r = fn()
        print(label, "->", repr(r))
    except Exception as e:  # noqa: BLE001
        print(label, "-> EXC", type(e).__name__, str(e))


def state(t):
    return (t.name, t.add_ws, list(t.attrs.items()), [type(v).__name__ for v in t.attrs.values()],
            [type(c).__name__ for c in t.children], str(t))


dep = HTMLDependency("d", "1.0", source={"subdir": "."}, script={"src": "x.js"})

arg_sets = [
    (),
    ("a",),
    ({"class": "a"},),
    ({"class": "a"}, "kid", {"class": "b"}, "kid2", {"id": "i"}),
    ("kid", {"class": HTML("<h>")}, {"class": "p&"}, span("s", class_="in")),
    ({}, {}, "x", {}),
    (None, {"class": None}, None, "x"),
    ([{"class": "in-list"}], "y"),           # dict inside a list is a child -> error
    (("t", {"a": "b"}),),
    (OrderedDict(class_="od"), defaultdict(str, style="s:1;"), TagAttrDict(class_="tad"), "k"),
    (MappingProxyType({"class": "mp"}),),       # not a dict -> child -> error
    (UserDict({"class": "ud"}),),               # not a dict -> child -> error
    (1, 2.5, True, "s", HTML("<raw>"), TagList("a", "b"), [1, [2, None]], dep),
    ({"class": ["bad"]}, "never"),
    ("kid", object()),
    ({"class": ["bad"]}, object()),              # attr error comes first
    (iter(["gen"]),),
    ({"class": "a", "style": "x:1;"}, {"style": "y:2;", "class_": "b"}),
    ({1: "x"},),
]
kw_sets = [
    {},
    {"class_": "kw"},
    {"class_": HTML("kw<")},
    {"style": css(fontSize="1px"), "id": None, "hidden": True, "data_n": 3},
    {"_add_ws": False},
    {"_add_ws": "no"},
    {"class_": ["bad"]},
]

for i, a in enumerate(arg_sets):
    if i == 16:
        continue  # iterator args are single-use; handled separately below
    for j, kw in enumerate(kw_sets):
        show(f"Tag[{i},{j}]", lambda: state(Tag("div", *a, **kw)))
        show(f"div[{i},{j}]", lambda: state(div(*a, **kw)))

        def cons(a=a, kw=kw):
            attrs, children = consolidate_attrs(*a, **kw)
            return (type(attrs).__name__, list(attrs.items()), [type(v).__name__ for v in attrs.values()],
                    type(children).__name__, [type(c).__name__ for c in children],
                    [c is o for c, o in zip(children, [x for x in a if not isinstance(x, dict)])])

        show(f"consolidate[{i},{j}]", cons)

        def algebra(a=a, kw=kw):
            t = Tag("p", *a, **kw)
            r1 = t.add_class("zz") is t
            h = (t.has_class("zz"), t.has_class("a"), t.has_class("kw"))
            t.add_style("q:0;", prepend=True)
            t.remove_class("a").remove_class("zz")
            return (r1, h, list(t.attrs.items()))

        show(f"algebra[{i},{j}]", algebra)

show("iterator child Tag", lambda: state(Tag("div", iter(["gen"]))))
show("iterator child consolidate", lambda: consolidate_attrs(iter(["gen"]))[0])
show("generator child", lambda: state(div((str(i) for i in range(3)), {"class": "g"})))

# the returned children list is a fresh list; input dicts are not modified; attrs are copies
d1 = {"class": "a"}
d2 = {"class_": "b", "x": None}
kid = span("k")
attrs, children = consolidate_attrs(d1, kid, d2, "s", class_="c")
print("fresh", attrs, children, d1, d2, children[0] is kid, attrs is not d1)
children.append("more")
attrs["class"] = "changed"
print("inputs after mutation", d1, d2)
t = div(d1, kid, d2)
t.add_class("new").remove_class("a")
print("tag dicts untouched", d1, d2, state(t), t.children[0] is kid)
show("consolidate name positional clash", lambda: consolidate_attrs(_name="x"))
show("Tag no name", lambda: Tag())
show("Tag name only", lambda: state(Tag("x-y")))
show("Tag dict name", lambda: state(Tag({"a": "b"})))
show("tags.head", lambda: state(tags.head({"class": "h"}, tags.title("t"))))
show("nested same dict reused", lambda: str(div(d1, div(d1, "in"), d1)))
