# Probe for refactoring 4: _resolve_dependencies / TagList.get_dependencies / HTMLDependency.as_html_tags
import copy

from packaging.version import Version

from htmltools import HTML, HTMLDependency, HTMLDocument, Tag, TagList, div, head_content, span, tags
from htmltools._core import _resolve_dependencies


def show(label, fn):
    try:
        res = fn()
        print(label, "->", repr(res))
    except BaseException as e:  # noqa: BLE001
        print(label, "-> EXC", type(e).__name__, str(e)[:200])


def ids(deps):
    return ["%s-%s#%s" % (d.name, d.version, getattr(d, "tagid", "?")) for d in deps]


def mk(name, version, tagid, **kw):
    d = HTMLDependency(name, version, **kw)
    d.tagid = tagid
    return d


a1 = mk("a", "1.0", "a1")
a1b = mk("a", "1.0", "a1b")
a2 = mk("a", "2.0", "a2")
a10 = mk("a", "10.0", "a10")
a2pre = mk("a", "2.0rc1", "a2pre")
b1 = mk("b", "1.2.3", "b1")
b0 = mk("b", Version("0.9"), "b0")
c1 = mk("c", "1", "c1")
empty_name = mk("", "1", "e")

resolve_cases = {
    "empty": [],
    "single": [a1],
    "distinct": [b1, a1, c1],
    "newer later": [a1, b1, a2],
    "newer first": [a2, b1, a1],
    "equal versions keep first": [a1, a1b, b1],
    "equal versions keep first 2": [a1b, a1],
    "same object twice": [a1, b1, a1, a1],
    "numeric not lexical": [a2, a10, a1],
    "numeric not lexical 2": [a10, a2],
    "prerelease": [a2pre, a2, a2pre],
    "prerelease 2": [a2, a2pre],
    "many": [c1, a1, b0, a2, b1, a1b, a10, b0, c1, empty_name, a2pre],
    "tuple input": (a1, a2),
}
for name, deps in resolve_cases.items():
    before = list(deps)
    show("resolve " + name, lambda: ids(_resolve_dependencies(deps)))
    print("  input unchanged", list(deps) == before, all(x is y for x, y in zip(deps, before)))
show("resolve generator", lambda: ids(_resolve_dependencies(d for d in [a1, a2, b1])))
show("resolve result is new list", lambda: (lambda l: _resolve_dependencies(l) is not l)([a1]))

# odd versions / names: which comparisons are (not) evaluated
n1 = mk("n", None, "n1")
n2 = mk("n", None, "n2")
i1 = mk("i", 1, "i1")
i2 = mk("i", 2, "i2")
show("resolve None version once", lambda: ids(_resolve_dependencies([n1])))
show("resolve None version same object twice", lambda: ids(_resolve_dependencies([n1, n1])))
show("resolve None version two objects", lambda: ids(_resolve_dependencies([n1, n2])))
show("resolve int versions", lambda: ids(_resolve_dependencies([i1, i2, i1])))
show("resolve mixed version types", lambda: ids(_resolve_dependencies([a1, mk("a", 3, "a-int")])))
show("resolve unhashable name", lambda: ids(_resolve_dependencies([mk(["l"], "1", "l")])))
show("resolve unhashable name 2", lambda: ids(_resolve_dependencies([a1, mk(["l"], "1", "l"), a2])))
show("resolve None name", lambda: ids(_resolve_dependencies([mk(None, "1", "x"), mk(None, "2", "y")])))
show("resolve non-dep", lambda: _resolve_dependencies([a1, "str"]))
show("resolve None", lambda: _resolve_dependencies(None))

CMP_LOG = []


class LoggedVersion:
    def __init__(self, v):
        self.v = v

    def __gt__(self, other):
        CMP_LOG.append((self.v, other.v))
        return self.v > other.v

    def __repr__(self):
        return "LV%d" % self.v


lv = [mk("x", LoggedVersion(v), "x%d" % i) for i, v in enumerate([2, 1, 3, 3, 2])]
lv.insert(2, mk("y", LoggedVersion(9), "y"))
lv.append(lv[0])
show("resolve logged", lambda: ids(_resolve_dependencies(lv)))
print("  comparisons", CMP_LOG)

# ---- get_dependencies ---------------------------------------------------------
tree = TagList(
    a1,
    div(b1, span(a2, "t", div(c1, a1b)), a1),
    "text",
    HTML("<raw>"),
    span(b0),
    TagList(c1, div(a10)),
    head_content(tags.title("T")),
    head_content(tags.title("T")),
)
show("deps dedup", lambda: ids(tree.get_dependencies()))
show("deps dedup kw", lambda: ids(tree.get_dependencies(dedup=True)))
show("deps no dedup", lambda: ids(tree.get_dependencies(dedup=False)))
for flag in [0, 1, "", "x", None, [], [0]]:
    show("deps dedup=%r" % (flag,), lambda: len(tree.get_dependencies(dedup=flag)))
show("deps repeat", lambda: tree.get_dependencies() == tree.get_dependencies())
show("deps fresh list", lambda: tree.get_dependencies(dedup=False) is not tree.get_dependencies(dedup=False))
show("deps identity kept", lambda: tree.get_dependencies(dedup=False)[0] is a1)
show("deps empty", lambda: (TagList().get_dependencies(), TagList().get_dependencies(dedup=False), div().get_dependencies()))
show("deps no deps", lambda: TagList("a", div(span("b"))).get_dependencies())
d = div(b1, span(a2), a1)
show("tag deps", lambda: (ids(d.get_dependencies()), ids(d.get_dependencies(False)), ids(d.get_dependencies(dedup=False))))
show("tag deps positional", lambda: ids(d.get_dependencies(True)))
show("taglist deps positional", lambda: ids(tree.get_dependencies(True)))


class NotTagified:
    def tagify(self):
        return div(c1)


show("untagified child ignored", lambda: ids(TagList(a1, NotTagified()).get_dependencies()))
show("render deps", lambda: ids(TagList(a1, NotTagified(), div(a2)).render()["dependencies"]))
show("render html", lambda: TagList(a1, NotTagified(), div(a2)).render()["html"])

# ---- as_html_tags -------------------------------------------------------------------
full = HTMLDependency(
    "full",
    "1.2",
    source={"subdir": "sub dir"},
    script=[{"src": "s 1.js"}, {"src": "dir/s2.js", "defer": "", "type": "module"}],
    stylesheet=[{"href": "c1.css"}, {"href": "c 2.css", "media": "print", "rel": "alternate"}],
    meta=[{"name": "viewport", "content": "w=1"}, {"name": "x", "content": "<&\">", "http-equiv": "y"}],
    head=TagList(tags.title("T<"), HTML("<!-- c -->"), "plain<"),
)
url = HTMLDependency("url", "3", source={"href": "https://cdn.x/y"}, script={"src": "u.js"}, stylesheet={"href": "u.css"})
nosrc = HTMLDependency("nosrc", "0.1", script={"src": "n.js"}, meta={"name": "n", "content": "c"})
bare = HTMLDependency("bare", "0")
strhead = HTMLDependency("strhead", "1", head="<b>raw</b>")

for name, dep in [("full", full), ("url", url), ("nosrc", nosrc), ("bare", bare), ("strhead", strhead), ("a1", a1)]:
    before = copy.deepcopy(dep.__dict__)
    for kw in [{}, {"lib_prefix": None}, {"lib_prefix": "my/lib", "include_version": False}, {"lib_prefix": ""}]:
        def run():
            t = dep.as_html_tags(**kw)
            return (type(t).__name__, [type(x).__name__ + ":" + getattr(x, "name", "") for x in t], str(t))

        show("as_html_tags %s %r" % (name, kw), run)
    show("  as_dict %s" % name, lambda: dep.as_dict())
    show("  str %s" % name, lambda: str(dep))
    show("  repr %s" % name, lambda: repr(dep))
    t1, t2 = dep.as_html_tags(), dep.as_html_tags()
    print("  repeat equal", t1 == t2, "fresh", t1 is not t2, all(x is not y for x, y in zip(t1, t2) if isinstance(x, Tag)))
    print("  dep unchanged", copy.deepcopy(dep.__dict__) == before)
    t1.append("zzz")
    for x in t1:
        if isinstance(x, Tag):
            x.attrs["mutated"] = "1"
            x.append("kid")
    print("  after mutating result", str(dep.as_html_tags()) == str(t2), copy.deepcopy(dep.__dict__) == before)


class Obj:
    pass


# Exceptions: the first failing item in meta -> link -> script order is reported
bad = HTMLDependency("bad", "1", script={"src": "s.js", "x": "sx"}, stylesheet={"href": "h.css", "x": "lx"}, meta={"name": "n", "content": "c", "x": "mx"})
show("as_html_tags ok", lambda: str(bad.as_html_tags()))
bad.script[0]["x"] = Obj()
show("as_html_tags bad script", lambda: str(bad.as_html_tags()))
bad.script[0]["_name"] = "dup"
show("as_html_tags bad script _name", lambda: str(bad.as_html_tags()))
bad.stylesheet[0]["_add_ws"] = "no"
show("as_html_tags bad link _add_ws", lambda: str(bad.as_html_tags()))
bad.meta[0]["x"] = ["list"]
show("as_html_tags bad meta", lambda: str(bad.as_html_tags()))
bad.meta.append("not a dict")
bad.meta[0]["x"] = "ok"
show("as_html_tags meta not mapping", lambda: str(bad.as_html_tags()))


class SubDep(HTMLDependency):
    def as_dict(self, *, lib_prefix="lib", include_version=True):
        LOG.append("as_dict")
        return LoggedDict(super().as_dict(lib_prefix=lib_prefix, include_version=include_version))


class LoggedDict(dict):
    def __getitem__(self, k):
        LOG.append(k)
        return super().__getitem__(k)


LOG = []
sd = SubDep("sd", "1", script={"src": "s.js"}, meta={"name": "n", "content": "c"}, stylesheet={"href": "h.css"})
show("subclass as_dict", lambda: str(sd.as_html_tags()))
print("  access order", LOG)

# ---- documents ------------------------------------------------------------------------
doc = HTMLDocument(div("x", full, a1), span(a2, url), nosrc, lang="en")
r = doc.render()
print("doc html", repr(r["html"]))
print("doc deps", ids(r["dependencies"]) if all(hasattr(d, "tagid") for d in r["dependencies"]) else [d.name + "-" + str(d.version) for d in r["dependencies"]])
r2 = doc.render(lib_prefix=None, include_version=False)
print("doc html 2", repr(r2["html"]))
print("doc repeat", doc.render()["html"] == r["html"])
