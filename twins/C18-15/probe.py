# Probe for refactoring 5: HTMLTextDocument extraction of serialized dependencies
import json

from htmltools import HTML, HTMLDependency, HTMLTextDocument, TagList, div, head_content, tags
import htmltools


def show(label, fn):
    try:
        out = fn()
    except Exception as e:  # noqa: BLE001
        print(label, "-> EXC", type(e).__name__, str(e)[:160])
    else:
        print(label, "->", repr(out))


def describe(d):
    return (
        d.name,
        str(d.version),
        d.source,
        d.script,
        d.stylesheet,
        d.meta,
        d.all_files,
        None if d.head is None else d.head.get_html_string(),
    )


extract = HTMLTextDocument._static_extract_serialized_html_deps


def run_extract(html):
    out_html, deps = extract(html)
    return (out_html, type(deps).__name__, [describe(d) for d in deps])


a = HTMLDependency("a", "1.0", source={"href": "https://x.test/a"}, script={"src": "a.js"})
a_same = HTMLDependency("a", "1.0", source={"href": "https://x.test/a"}, script={"src": "a.js"})
a2 = HTMLDependency("a", "2.0", source={"subdir": "s"}, stylesheet=[{"href": "a.css"}], all_files=True)
b = HTMLDependency(
    "b", "0.1", meta={"name": "m", "content": "c"}, head=TagList(tags.title("x </script> y"), "\n", HTML("<!--k-->"))
)
hc = head_content(tags.title("T"))


def ser(d, indent=None):
    return d.serialize_to_script_json(indent=indent).get_html_string()


OPEN = '<script type="application/json" data-html-dependency="">'
inputs = {
    "empty": "",
    "no_deps": "<html><head></head><body>hi</body></html>",
    "one": "<p>" + ser(a) + "</p>",
    "one_indented": "<p>" + ser(a, 2) + "</p>",
    "dup_identical": ser(a) + "x" + ser(a) + "y" + ser(a_same),
    "dup_diff_format": ser(a) + ser(a, 2) + ser(a, 0),
    "interleaved": ser(b) + ser(a) + "mid" + ser(b) + ser(a2) + ser(a) + ser(hc) + ser(hc) + "end",
    "adjacent": ser(a2) + ser(a2) + ser(b),
    "only_dep": ser(hc),
    "newlines_inside": OPEN + '{\r\n"name": "nl",\n "version": "1"\r}' + "</script>",
    "wrong_attr_order": '<script data-html-dependency="" type="application/json">{"name":"w","version":"1"}</script>',
    "single_quotes": "<script type='application/json' data-html-dependency=''>{}</script>",
    "unterminated": OPEN + '{"name":"u","version":"1"}',
    "nested_open": OPEN + OPEN + '{"name":"n","version":"1"}</script></script>',
    "uppercase_close": OPEN + '{"name":"uc","version":"1"}</SCRIPT>' + ser(a),
    "empty_payload": "q" + OPEN + "</script>r",
    "bad_json": ser(a) + OPEN + "{not json}</script>",
    "bad_json_twice": OPEN + "{x}</script>" + OPEN + "{x}</script>",
    "json_not_object": OPEN + "[1, 2]</script>",
    "json_string": OPEN + '"abc"</script>',
    "missing_version": OPEN + '{"name": "only"}</script>',
    "unknown_key": OPEN + '{"name": "k", "version": "1", "bogus": 1}</script>',
    "bad_source": OPEN + '{"name": "k", "version": "1", "source": {"x": 1}}</script>',
    "bad_version": ser(a) + OPEN + '{"name": "k", "version": "not a version"}</script>',
    "unicode": OPEN + json.dumps({"name": "é✓", "version": "1", "head": "<b>ü</b>"}) + "</script>",
    "unicode_raw": OPEN + json.dumps({"name": "é✓", "version": "1"}, ensure_ascii=False) + "</script>",
    "whitespace_variants": OPEN + '{"name":"w","version":"1"}</script>' + OPEN + '{"name":"w", "version":"1"}</script>',
}
for k, v in inputs.items():
    show(f"extract:{k}", lambda: run_extract(v))

for bad in (None, b"bytes" + OPEN.encode() + b"{}</script>", 5, HTML("x"), ["x"]):
    show(f"extract_type:{type(bad).__name__}", lambda: run_extract(bad))


class S(str):
    pass


show("extract_strsub", lambda: (lambda r: (r, type(extract(S("a" + ser(a)))[0]).__name__))(run_extract(S("a" + ser(a)))))

# repeated calls are independent of each other
x1 = run_extract(inputs["interleaved"])
run_extract(inputs["dup_identical"])
x2 = run_extract(inputs["interleaved"])
print("repeatable", x1 == x2)
d1 = extract(inputs["one"])[1][0]
d2 = extract(inputs["one"])[1][0]
print("fresh_objects", d1 is not d2, d1 == d2)

# via the constructor / render
def render_doc(doc, **kw):
    r = doc.render(**kw)
    return (r["html"], [(d.name, str(d.version)) for d in r["dependencies"]], doc._html, len(doc._deps))


T = "<html><head>@@</head><body>{}</body></html>"
show("doc:none", lambda: render_doc(HTMLTextDocument(T.format(""), deps_replace_pattern="@@")))
show("doc:body", lambda: render_doc(HTMLTextDocument(T.format(ser(a) + "t" + ser(b) + ser(a)), deps_replace_pattern="@@")))
show(
    "doc:body+explicit",
    lambda: render_doc(
        HTMLTextDocument(T.format(ser(a) + ser(hc)), deps=[a2, hc, a], deps_replace_pattern="@@"),
        lib_prefix=None,
        include_version=False,
    ),
)
given = [a2]
doc = HTMLTextDocument(T.format(ser(b)), deps=given, deps_replace_pattern="@@")
print("doc:deps_list_extended_in_place", doc._deps is given, [d.name for d in given])
show("doc:bad_json", lambda: HTMLTextDocument(T.format(OPEN + "{oops</script>"), deps_replace_pattern="@@"))
show("doc:html_none", lambda: HTMLTextDocument(None, deps_replace_pattern="@@"))  # type: ignore
show("doc:no_pattern_body_deps", lambda: render_doc(HTMLTextDocument(T.format(ser(a)))))

# round trip through json render mode
htmltools.html_dependency_render_mode = "json"
try:
    txt = str(div("content", a, b, a_same, hc, head_content(tags.title("T"))))
finally:
    htmltools.html_dependency_render_mode = "tags"
print(txt)
show("roundtrip", lambda: render_doc(HTMLTextDocument("<html><head>@@</head><body>" + txt + "</body></html>", deps_replace_pattern="@@")))
