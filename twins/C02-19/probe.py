# Probe for refactoring 4: the module-level escape tables / tag-name tables and the code that reads them.
import itertools

from htmltools import HTML, Tag, TagList, div, span, tags, html_escape
from htmltools import _core, _util


def show(label, fn):
    try:
        r = fn()
        print(label, "->", type(r).__name__, repr(r))
    except BaseException as e:  # noqa: BLE001
        print(label, "-> EXC", type(e).__name__)


# the tables themselves: type, order of keys, contents
for name in ("HTML_ESCAPE_TABLE", "HTML_ATTRS_ESCAPE_TABLE"):
    t = getattr(_util, name)
    print(name, type(t).__name__, list(t.items()), "|".join(t))
print(_util.HTML_ESCAPE_TABLE is _util.HTML_ATTRS_ESCAPE_TABLE)
for name in ("_VOID_TAG_NAMES", "_NO_ESCAPE_TAG_NAMES"):
    t = getattr(_core, name)
    print(name, type(t).__name__, len(t), sorted(t))
print(_util._html_escape is _util.html_escape)

# html_escape over an alphabet of special characters (exhaustive up to length 3)
ALPHABET = ["&", "<", ">", '"', "'", "\r", "\n", "a", ";", "&amp;", "&#10;"]
for n in range(0, 4):
    for combo in itertools.product(ALPHABET, repeat=n):
        s = "".join(combo)
        print(repr(s), repr(html_escape(s)), repr(html_escape(s, attr=True)))
for s in ["", "plain", 'q"uote']:
    print(repr(s), html_escape(s) is s, html_escape(s, attr=True) is s)
for flag in [0, 1, None, "", "x", [], [0]]:
    show("attr=%r" % (flag,), lambda: html_escape("<'&\n>", flag))
for bad in [5, None, b"a<b", HTML("<b>"), ["<"]]:
    show("bad %s" % type(bad).__name__, lambda: html_escape(bad))
    show("bad-attr %s" % type(bad).__name__, lambda: html_escape(bad, attr=True))

# every tag name in the tables, plus near misses, with zero / one / several children
names = sorted(_core._VOID_TAG_NAMES) + sorted(_core._NO_ESCAPE_TAG_NAMES) + [
    "div", "span", "p", "SCRIPT", "Style", "script ", "BR", "textarea", "title", "noscript", "", "x-y",
]
TEXT = "a<b>&\"c'"
for nm in names:
    print(repr(nm), repr(str(Tag(nm))))
    print(repr(nm), repr(str(Tag(nm, TEXT))))
    print(repr(nm), repr(str(Tag(nm, HTML(TEXT)))))
    print(repr(nm), repr(str(Tag(nm, TEXT, TEXT))))
    print(repr(nm), repr(str(Tag(nm, TEXT, span(TEXT), 1, title=TEXT))))
    print(repr(nm), repr(Tag(nm, TEXT, _add_ws=False).get_html_string(2, "\r\n")))

# odd names: str subclass, HTML name, unhashable / set-valued names
class S(str):
    pass


for nm in [S("script"), S("br"), HTML("script"), HTML("br"), ("script",), frozenset({"script"}), {"script"}, ["br"], None, 5]:
    show("name %r none" % (nm,), lambda: Tag(nm).get_html_string())
    show("name %r one" % (nm,), lambda: Tag(nm, TEXT).get_html_string())
    show("name %r two" % (nm,), lambda: Tag(nm, TEXT, "<2>").get_html_string())

# the tables are read at call time
saved = dict(_util.HTML_ESCAPE_TABLE)
_util.HTML_ESCAPE_TABLE["a"] = "[A]"
print(repr(html_escape("a<a")), repr(html_escape("a<a", attr=True)), repr(str(div("banana&"))))
del _util.HTML_ESCAPE_TABLE["a"]
print(_util.HTML_ESCAPE_TABLE == saved, list(_util.HTML_ESCAPE_TABLE))
_core._NO_ESCAPE_TAG_NAMES.add("pre")
_core._VOID_TAG_NAMES.add("custom")
print(repr(str(Tag("pre", "<"))), repr(str(Tag("pre", "<", "&"))), repr(str(Tag("custom"))))
_core._NO_ESCAPE_TAG_NAMES.discard("pre")
_core._VOID_TAG_NAMES.discard("custom")
print(repr(str(Tag("pre", "<"))), repr(str(Tag("pre", "<", "&"))), repr(str(Tag("custom"))))

# the usual ways text gets in
x = div()
x.append(TEXT, 3)
x.extend([TEXT, [TEXT, 2.5]])
x.insert(0, TEXT)
print(repr(str(x)), repr(x.render()["html"]))
print(repr(str(TagList(TEXT, tags.script(TEXT), tags.style(TEXT, TEXT), tags.br(), tags.img(src=TEXT)))))
print(repr(HTML("<i>") + TEXT), repr(TEXT + HTML("<i>")))
