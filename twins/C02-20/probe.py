# Probe for refactoring 5: TagList.get_html_string (inline children: text, HTML, _repr_html_ objects).
import itertools

from htmltools import HTML, HTMLDependency, Tag, TagList, div, span, tags

LOG = []


def show(label, fn):
    del LOG[:]
    try:
        r = fn()
        print(label, "->", type(r).__name__, repr(r), repr(str(r)), LOG)
    except BaseException as e:  # noqa: BLE001
        print(label, "-> EXC", type(e).__name__, str(e), LOG)


class Repr:
    def __init__(self, text="<b>r&</b>"):
        self.text = text

    def _repr_html_(self):
        LOG.append("repr_html")
        return self.text


class ReprBoom:
    def _repr_html_(self):
        LOG.append("repr_html boom")
        raise KeyError("boom")


class ReprHTML:
    def _repr_html_(self):
        LOG.append("repr_html HTML")
        return HTML("<u>")


class OnlyTagifiable:
    def tagify(self):
        LOG.append("tagify")
        return "<tagified&>"


class Both:
    def tagify(self):
        LOG.append("tagify")
        return "<tagified&>"

    def _repr_html_(self):
        LOG.append("repr_html both")
        return "<both>"


class S(str):
    pass


class RaddStr(str):
    def __radd__(self, other):
        LOG.append("RaddStr.__radd__")
        return "RADD(" + str(other) + ")"


dep = HTMLDependency("d", "1.0")
T = "a<b>&c"

pool = {
    "text": T,
    "empty": "",
    "amp": "&amp;",
    "close": "</div><!--",
    "html": HTML("<i>raw&</i>"),
    "div": div(T),
    "span": span(T),
    "emptyspan": span(),
    "repr": Repr(),
    "reprhtml": ReprHTML(),
    "dep": dep,
    "sub": S("<s>"),
    "radd": RaddStr("<radd>"),
    "script": tags.script(T, T),
}

variants = [
    {},
    {"indent": 2},
    {"indent": 1, "eol": "\r\n"},
    {"add_ws": False},
    {"indent": 3, "add_ws": False, "eol": ""},
    {"_escape_strings": False},
    {"_escape_strings": False, "indent": 2, "add_ws": False},
    {"_escape_strings": 0, "add_ws": 1, "indent": True},
    {"_escape_strings": "yes", "add_ws": "", "indent": 0},
]

# all ordered pairs and a selection of triples of children
keys = list(pool)
combos = [()] + [(k,) for k in keys] + list(itertools.product(keys, repeat=2))
combos += [c for i, c in enumerate(itertools.product(keys, repeat=3)) if i % 17 == 0]
for combo in combos:
    tl = TagList(*[pool[k] for k in combo])
    for v in variants:
        show("%s %s" % ("+".join(combo), sorted(v.items())), lambda: tl.get_html_string(**v))

# the same children inside ordinary and raw-text elements
for combo in [c for c in combos if 1 <= len(c) <= 2]:
    kids = [pool[k] for k in combo]
    for mk in (div, span, tags.script, tags.style, tags.p):
        show("%s(%s)" % (mk.__name__ if hasattr(mk, "__name__") else "tag", "+".join(combo)), lambda: str(mk(*kids)))
        show("nested %s" % "+".join(combo), lambda: div(mk(*kids), *kids).get_html_string(1, "\n"))

# objects that can only get in through .data, and error paths
odd = {
    "tagifiable": OnlyTagifiable(),
    "both": Both(),
    "boom": ReprBoom(),
    "int": 5,
    "none": None,
    "bytes": b"<b>",
    "list": ["<"],
}
for name, obj in odd.items():
    for before in ([], [T], [div("x")], [Repr()]):
        for v in variants[:1] + variants[3:6]:
            tl = TagList(*before)
            tl.data.append(obj)
            tl.data.append("<after>")
            show("odd %s after %d %s" % (name, len(before), sorted(v.items())), lambda: tl.get_html_string(**v))
    show("odd %s tagify+render" % name, lambda: TagList(T).__class__(*([obj] if name in ("tagifiable", "both", "boom") else [])).render()["html"])

# bad indent values: the indentation is computed before the child is asked for its markup
for indent in [1.5, "x", None, -1, [1]]:
    for kids in ([Repr()], [T], [div("x"), Repr()], [span("x"), Repr()], [span("x"), T], [T, Repr()]):
        show("indent %r %s" % (indent, [type(k).__name__ for k in kids]), lambda: TagList(*kids).get_html_string(indent))
        show("indent %r no-ws %s" % (indent, [type(k).__name__ for k in kids]), lambda: TagList(*kids).get_html_string(indent, add_ws=False))

# plain usage
x = div()
x.append(T, 3, Repr("<r>"))
x.extend([T, [HTML("<h>"), 2.5]])
x.insert(0, T)
show("mixed", lambda: str(x))
show("mixed render", lambda: x.render()["html"])
show("taglist str", lambda: str(TagList(T, OnlyTagifiable(), Both(), span(T), T)))
