# Probe for Tag.get_html_string (opening tag / attribute writer) and the renderers built on it.
import itertools
from html.parser import HTMLParser

from htmltools import HTML, HTMLDependency, Tag, TagList, div, span, tags
from htmltools._core import TagAttrDict


def show(label, fn):
    try:
        r = fn()
        print(label, "->", type(r).__name__, repr(r))
    except Exception as e:  # noqa: BLE001
        print(label, "!!", type(e).__name__, str(e))


class Tok(HTMLParser):
    def __init__(self):
        super().__init__(convert_charrefs=True)
        self.ev = []

    def handle_starttag(self, tag, attrs):
        self.ev.append(("start", tag, attrs))

    def handle_startendtag(self, tag, attrs):
        self.ev.append(("startend", tag, attrs))

    def handle_endtag(self, tag):
        self.ev.append(("end", tag))

    def handle_data(self, data):
        self.ev.append(("data", data))


def tokens(s):
    p = Tok()
    p.feed(s)
    p.close()
    return p.ev


VALUES = [
    "plain",
    "",
    " lead and trail ",
    "a&b",
    "<>",
    '"dq"',
    "'sq'",
    "cr\rlf\ncrlf\r\n",
    "&amp; &#10; already",
    "tab\tnbsp emoji\U0001F600",
    HTML("raw & < > \" ' \r\n"),
    HTML(""),
    True,
    0,
    -1.5e-7,
]
NAMES = ["id", "class_", "data_x_y", "aria-label", "_", "x:y", "A"]

# one attribute
for nm, v in itertools.product(NAMES, VALUES):
    t = div(**{nm: v})
    s = t.get_html_string()
    print(f"one {nm!r} {v!r} ->", repr(s), tokens(s))

# several attributes, insertion order, merged values, skipped values
t = div(
    {"z": "1", "a": "2"},
    {"class": "c1 <", "hidden": True, "gone": None, "nope": False},
    "text",
    m=HTML("<m>"),
    class_=HTML("c2 &"),
    a="3'",
)
for indent, eol in [(0, "\n"), (1, "\n"), (3, "\r\n"), (2, "")]:
    show(f"multi indent={indent} eol={eol!r}", lambda: t.get_html_string(indent, eol))
print("multi tokens", tokens(t.get_html_string()))
show("multi str", lambda: str(t))
show("multi repr", lambda: repr(t))
show("multi render", lambda: t.render())

# no attributes; void / non-void / no-escape tags; children variants
cases = {
    "empty div": div(),
    "div attrs only": div(id="a", title='q"'),
    "br": tags.br(),
    "br attrs": tags.br(class_="x<y", data_n=1),
    "br child": tags.br("x", id="i"),
    "input": tags.input(type="text", value="a&b", disabled=True),
    "img": tags.img(src="a b.png?x=1&y=2", alt=""),
    "script": tags.script("if (a < b && c) {}", type="text/javascript", data_x="<&>"),
    "style": tags.style("a > b {}", media="(min-width: 1px) & x"),
    "single text": div("a<b", id="1"),
    "single html": div(HTML("a<b"), id="1"),
    "two text": div("a", "b", id="1"),
    "nested": div(span("x", class_="s"), "t", tags.p(tags.b("y", id="b<"), title="p'"), id="root"),
    "inline": span(span("a", x="1"), span("b", y='"'), z="&"),
    "no ws": div(span("a", k="v"), _add_ws=False, k2="v2"),
    "dep child": div(HTMLDependency("d", "1.0", source={"subdir": "x"}, script={"src": "a.js"}), id="d"),
    "dep child void": tags.br(HTMLDependency("d", "1.0", source={"subdir": "x"}, script={"src": "a.js"}), id="d"),
    "numbers": div(1, 2.5, n=3, f=4.5),
    "Tag custom": Tag("my-el", {"some_attr": "v<"}, "c", other_="o"),
    "Tag upper": Tag("DIV", ID="x"),
}
for label, t in cases.items():
    show(label, lambda: t.get_html_string())
    show(label + " i2", lambda: t.get_html_string(2, "|"))
    print(label, "tokens", tokens(t.get_html_string()))

# attrs mutated after construction
t = div("x", a="1")
t.attrs["b_"] = "<2>"
t.attrs.update({"c": HTML("<3>")}, c="'4'")
del t.attrs["a"]
show("mutated", lambda: t.get_html_string())
t.attrs.clear()
show("cleared", lambda: t.get_html_string())

# values put in the dict behind TagAttrDict's back
t = div()
dict.__setitem__(t.attrs, "n", 5)
show("raw int value", lambda: t.get_html_string())
t = div(ok="<1>")
dict.__setitem__(t.attrs, "n", None)
show("raw None value", lambda: t.get_html_string())
t = div()
dict.__setitem__(t.attrs, 5, "v&")
dict.__setitem__(t.attrs, None, HTML("h&"))
show("raw non-str keys", lambda: t.get_html_string())
t = div()
dict.__setitem__(t.attrs, "b", b"x")
show("raw bytes value", lambda: t.get_html_string())

# attrs replaced by other mapping types / non mappings
t = div("c")
t.attrs = {"plain_dict": "a<", "h": HTML("<h>")}
show("plain dict attrs", lambda: t.get_html_string())
t.attrs = {}
show("empty dict attrs", lambda: t.get_html_string())
t.attrs = None
show("None attrs", lambda: t.get_html_string())
t.attrs = [("a", "b")]
show("list attrs", lambda: t.get_html_string())

# unusual names: evaluated (and failing) before the attributes are read
class Boom(dict):
    def items(self):
        print("  items() called")
        return super().items()

t = div(a="1")
t.attrs = Boom(a="1")
show("boom ok", lambda: t.get_html_string())
t.name = 5
show("int name", lambda: t.get_html_string())
t.name = None
show("None name", lambda: t.get_html_string())
t.name = HTML("h-name")
show("HTML name", lambda: t.get_html_string())
t.attrs = Boom({"q": 'x"<', "r": HTML('y"<')})
show("HTML name attrs", lambda: t.get_html_string())
t.attrs = Boom()
show("HTML name no attrs", lambda: t.get_html_string())
t.name = "br"
show("void renamed", lambda: t.get_html_string())

# through TagList / document renderers
tl = TagList(div("a", id="1"), "txt", span(class_="s&"), tags.br(x="'"))
show("taglist", lambda: tl.get_html_string())
show("taglist i1", lambda: tl.get_html_string(1, "\n"))
print("taglist tokens", tokens(tl.get_html_string()))
from htmltools import HTMLDocument
show("doc", lambda: HTMLDocument(div("x", id="a&b"), lang="en").render()["html"])
