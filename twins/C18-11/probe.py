# Probe for refactoring 1: shared helper for the <head> dependency tags used by
# HTMLDocument._hoist_head_content and HTMLTextDocument.render.
from htmltools import (
    HTML,
    HTMLDependency,
    HTMLDocument,
    HTMLTextDocument,
    Tag,
    TagList,
    div,
    head_content,
    span,
    tags,
)


def show(label, fn):
    try:
        out = fn()
    except Exception as e:  # noqa: BLE001
        print(label, "-> EXC", type(e).__name__, str(e)[:200])
    else:
        print(label, "->", repr(out))


def dep(name, version="1.0", **kw):
    return HTMLDependency(name, version, **kw)


a1 = dep("a", "1.0", source={"href": "https://x.test/a"}, script={"src": "a.js"})
a2 = dep("a", "2.0", source={"href": "https://x.test/a2"}, script=[{"src": "a2.js", "defer": ""}])
b = dep(
    "b",
    "0.3",
    source={"subdir": "libdir/b"},
    stylesheet=[{"href": "b one.css"}, {"href": "b2.css", "media": "print"}],
    meta={"name": "viewport", "content": "width=device-width"},
    head="<script>var x = 1 < 2;</script>",
)
c = dep("c", "3", head=TagList(tags.title("T & t"), tags.link(rel="icon", href="i.png")))
nohead = dep("plain", "9.9.9")
hc1 = head_content(tags.title("My <Title>"))
hc1b = head_content(tags.title("My <Title>"))
hc2 = head_content(tags.title("Other"), HTML("<!-- raw -->"))
hc_empty = head_content()


def render_doc(doc, **kw):
    r = doc.render(**kw)
    return (r["html"], [(d.name, str(d.version)) for d in r["dependencies"]])


cases = {
    "nodeps": lambda: HTMLDocument(div("x")),
    "one": lambda: HTMLDocument(div("x", a1)),
    "dup_versions": lambda: HTMLDocument(div(a1, span(a2, "t"), a1, b)),
    "many": lambda: HTMLDocument(div(b, c, nohead, a2, a1), hc1, hc2, hc1b, hc_empty),
    "html_root": lambda: HTMLDocument(tags.html(tags.body(div(c, b)), lang="en"), data_x="1"),
    "html_root_head": lambda: HTMLDocument(
        tags.html(a1, tags.head(tags.title("pre"), hc2), tags.body("b", hc1))
    ),
    "body_root": lambda: HTMLDocument(tags.body(div(hc1), hc1b, class_="k")),
    "taglist": lambda: HTMLDocument(TagList("a", b, "c", a2), "d", hc2),
    "empty": lambda: HTMLDocument(),
}

for name, mk in cases.items():
    for kw in (
        {},
        {"lib_prefix": None},
        {"lib_prefix": "my/libs", "include_version": False},
        {"lib_prefix": "", "include_version": True},
    ):
        show(f"doc:{name}:{sorted(kw.items())}", lambda: render_doc(mk(), **kw))
    # rendering twice from the same object gives the same answer
    d = mk()
    show(f"doc:{name}:twice", lambda: render_doc(d) == render_doc(d))

# _hoist_head_content directly
show("hoist_not_html", lambda: HTMLDocument._hoist_head_content(div(a1), "lib", True))
show(
    "hoist_direct",
    lambda: str(
        HTMLDocument._hoist_head_content(Tag("html", b, Tag("body", a1, hc1)), None, False)
    ),
)
orig = Tag("html", Tag("head", "h"), Tag("body", a1))
show("hoist_no_mutation_before", lambda: str(orig))
show("hoist_result", lambda: str(HTMLDocument._hoist_head_content(orig, "L", True)))
show("hoist_no_mutation_after", lambda: str(orig))

# HTMLTextDocument
tmpl = "<html><head><!-- deps --></head><body><!-- deps -->x</body></html>"
text_cases = {
    "none": lambda: HTMLTextDocument(tmpl),
    "empty_list": lambda: HTMLTextDocument(tmpl, deps=[], deps_replace_pattern="<!-- deps -->"),
    "one": lambda: HTMLTextDocument(tmpl, deps=[a1], deps_replace_pattern="<!-- deps -->"),
    "many": lambda: HTMLTextDocument(
        tmpl, deps=[b, a1, a2, c, hc1, hc1b, hc2, nohead], deps_replace_pattern="<!-- deps -->"
    ),
    "nomatch": lambda: HTMLTextDocument(tmpl, deps=[b], deps_replace_pattern="@@nothing@@"),
    "deps_without_pattern": lambda: HTMLTextDocument(tmpl, deps=[b]),
    "serialized": lambda: HTMLTextDocument(
        "<html><head>HERE</head><body>"
        + str(a1.serialize_to_script_json())
        + "mid"
        + str(c.serialize_to_script_json(indent=2))
        + str(a1.serialize_to_script_json())
        + "</body></html>",
        deps=[b],
        deps_replace_pattern="HERE",
    ),
}
for name, mk in text_cases.items():
    for kw in ({}, {"lib_prefix": None, "include_version": False}, {"lib_prefix": "zz"}):
        show(f"text:{name}:{sorted(kw.items())}", lambda: render_doc(mk(), **kw))
    show(f"text:{name}:twice", lambda: (lambda d: render_doc(d) == render_doc(d))(mk()))


# A dependency whose as_html_tags raises: exception type and no mutation of inputs
class Boom(HTMLDependency):
    def as_html_tags(self, *, lib_prefix="lib", include_version=True):
        raise RuntimeError("boom " + self.name)


boom = Boom("boom", "1")
holder = div("k", boom)
show("boom_doc", lambda: render_doc(HTMLDocument(holder)))
show("boom_holder_intact", lambda: str(holder))
show(
    "boom_text",
    lambda: render_doc(HTMLTextDocument(tmpl, deps=[a1, boom], deps_replace_pattern="<!-- deps -->")),
)


# A dependency with a non-str name makes the metadata script fail first
class Odd(HTMLDependency):
    pass


odd = Odd("odd", "1")
odd.name = 5  # type: ignore
show("oddname_doc", lambda: render_doc(HTMLDocument(div(odd))))
show(
    "oddname_text",
    lambda: render_doc(HTMLTextDocument(tmpl, deps=[odd], deps_replace_pattern="<!-- deps -->")),
)
