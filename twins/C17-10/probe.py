"""Probe for C17 / refactoring 5: the copy path (Tag.__copy__ / HTMLDocument.__copy__), which carries the
saved display hook (`prev_displayhook`) and the collected children of a tag that is used as a context manager."""
import sys
from copy import copy, deepcopy

from htmltools import HTML, HTMLDocument, Tag, TagList, div, span, tags


def show(label, value):
    print(f"{label}: {value}")


class MyTag(Tag):
    def __init__(self, *args, extra=None, **kwargs):
        super().__init__("my-tag", *args, **kwargs)
        self.extra = extra if extra is not None else ["e"]


class SlotCopy:
    """A field value that records how it is copied."""

    log = []

    def __init__(self, n):
        self.n = n

    def __copy__(self):
        SlotCopy.log.append(self.n)
        return SlotCopy(self.n + 1)


class MyDoc(HTMLDocument):
    pass


top = []
orig = sys.displayhook
base = top.append
sys.displayhook = base
try:
    # fresh tag
    t = div("a", span("b"), id="x", class_="c")
    cp = copy(t)
    show("type", (type(cp).__name__, cp is not t))
    show("dict keys", list(cp.__dict__))
    show("equal html", str(cp) == str(t))
    show("fields copied", (cp.children is not t.children, cp.attrs is not t.attrs, type(cp.children).__name__, type(cp.attrs).__name__))
    show("kids shared", cp.children[1] is t.children[1])
    show("prev", cp.prev_displayhook)
    cp.append("only in copy")
    cp.attrs["id"] = "y"
    show("independent", (str(t), str(cp)))
    show("direct __copy__", str(t.__copy__()) == str(t))

    # copy made while the original is entered
    t = div(id="orig")
    with t:
        sys.displayhook("k1")
        hk = sys.displayhook
        cp = copy(t)
        show("copy keeps saved hook", cp.prev_displayhook == base)
        show("copy does not touch hook", sys.displayhook is hk)
        try:
            with cp:
                show("entered copy", "unexpected")
        except RuntimeError as e:
            show("enter copy", f"RuntimeError: {e}")
        show("chain intact", (sys.displayhook is hk, t.prev_displayhook == base, cp.prev_displayhook == base))
        sys.displayhook("k2")
        show("copy kids frozen", [str(c) for c in cp.children])
    show("after", (sys.displayhook == base, [str(x) for x in top], t.prev_displayhook))
    # the copy still believes it is entered; exiting it hands it to the saved hook once
    top.clear()
    cp.__exit__(None, None, None)
    show("copy exit", (sys.displayhook == base, [str(x) for x in top], cp.prev_displayhook))
    top.clear()
    with cp:
        sys.displayhook("k3")
    show("copy reusable", [str(x) for x in top])

    # copy made inside a block is collected like any other tag
    top.clear()
    proto = tags.li("item")
    with tags.ul() as _:
        for i in range(3):
            c = copy(proto)
            c.append(i)
            sys.displayhook(c)
    show("proto untouched", str(proto))
    show("ul", repr(str(top[0])))

    # copies used as nested context managers
    top.clear()
    outer, inner = div(id="o"), span(id="i")
    o2, i2 = copy(outer), copy(inner)
    with o2:
        with i2:
            sys.displayhook("deep")
        sys.displayhook("shallow")
    show("nested copies", (repr(str(top[0])), str(outer), str(inner), len(top)))

    # subclass with extra fields / field copy order
    m = MyTag("kid", extra=[1, 2], data_x="1")
    mc = copy(m)
    show("subclass", (type(mc).__name__, str(mc), mc.extra, mc.extra is not m.extra, list(mc.__dict__)))
    m.slot = SlotCopy(1)
    m.slot2 = SlotCopy(10)
    SlotCopy.log.clear()
    mc = copy(m)
    show("slot copies", (SlotCopy.log, mc.slot.n, mc.slot2.n, m.slot.n, list(mc.__dict__)))

    # a field whose copy fails
    class NoCopy:
        def __copy__(self):
            raise PermissionError("no copy")

    m.nc = NoCopy()
    try:
        copy(m)
        show("nocopy", "no exc")
    except Exception as e:
        show("nocopy", f"{type(e).__name__}: {e}")
    del m.nc

    # deepcopy is unaffected
    t = div("a", span("b"))
    dc = deepcopy(t)
    show("deepcopy", (str(dc) == str(t), dc.children[1] is not t.children[1], dc.prev_displayhook))

    # methods that copy internally
    t = div(tags.head(tags.title("x")), "a", None, 1)
    tg = t.tagify()
    show("tagify", (tg is not t, str(tg) == str(t), tg.prev_displayhook))
    with t:
        tg = t.tagify()
        show("tagify entered", (tg.prev_displayhook == base, str(tg)))
    top.clear()

    # HTMLDocument
    doc = HTMLDocument(div("body"), "txt", lang="en")
    dcp = copy(doc)
    show("doc", (type(dcp).__name__, dcp is not doc, list(dcp.__dict__)))
    show("doc fields", (dcp._content is not doc._content, dcp._html_attr_args is not doc._html_attr_args, dcp._html_attr_args))
    dcp.append("more")
    show("doc independent", (len(doc._content), len(dcp._content)))
    show("doc render", (doc.render()["html"] != dcp.render()["html"], repr(doc.render()["html"])))
    md = copy(MyDoc("z"))
    show("doc subclass", (type(md).__name__, [str(c) for c in md._content]))
    show("doc direct", type(doc.__copy__()).__name__)
finally:
    sys.displayhook = orig
