"""Deterministic probe for block-layout rendering (Tag.get_html_string /
TagList.get_html_string).  Prints repr of outputs or exception type names."""
import random

from htmltools import HTML, HTMLDependency, Tag, TagList, a, div, span, tags
from htmltools import head_content

p, strong, em, h1, ul, li, br, img = (
    tags.p, tags.strong, tags.em, tags.h1, tags.ul, tags.li, tags.br, tags.img
)


class Repr:
    """Object with _repr_html_ returning a str."""

    def __init__(self, s):
        self.s = s

    def _repr_html_(self):
        return self.s


class ReprRetHTML:
    """_repr_html_ returns an HTML object (accumulator turns into HTML)."""

    def _repr_html_(self):
        return HTML("<i>raw&</i>")


class ReprRetInt:
    def _repr_html_(self):
        return 7


class ReprRaises:
    def _repr_html_(self):
        raise KeyError("boom")


class Lazy:
    """Tagifiable but not ReprHtml."""

    def tagify(self):
        return div("lazy", span("x"))


class LazyAndRepr:
    """Both Tagifiable and ReprHtml: ReprHtml branch wins."""

    def tagify(self):
        return div("never")

    def _repr_html_(self):
        return "<b>both</b>"


class Loud:
    """Records the order of calls made on it."""

    log = []

    def __init__(self, k):
        self.k = k

    def _repr_html_(self):
        Loud.log.append(self.k)
        return "<loud%d/>" % self.k


def show(label, fn):
    try:
        r = fn()
        print(label, "->", type(r).__name__, repr(str(r)))
    except BaseException as e:  # noqa: BLE001
        print(label, "-> EXC", type(e).__name__, repr(str(e))[:120])


dep = HTMLDependency("d", "1.0", source={"subdir": "."}, script={"src": "x.js"})


def fixed_cases():
    c = {}
    c["empty_div"] = div()
    c["empty_span"] = span()
    c["void_br"] = br()
    c["void_img_attr"] = img(src="a&b.png")
    c["void_with_child"] = Tag("br", "x", span("y"))
    c["void_only_dep"] = Tag("hr", dep)
    c["single_text"] = div("a < b")
    c["single_html"] = div(HTML("<x&>"))
    c["single_empty_text"] = div("")
    c["single_text_plus_dep"] = div(dep, "txt")
    c["single_num"] = div(3.5)
    c["two_texts"] = div("a", "b")
    c["text_then_block"] = div("a", div("b"))
    c["block_then_text"] = div(div("b"), "a")
    c["inline_runs"] = div("a", span("b"), "c", div("d"), "e", span("f"), em("g"))
    c["nested3"] = div(div(div("deep"), "t"), p("x", strong("y")), class_="outer")
    c["nested_empty"] = div(div(), span(), div(span()))
    c["only_inline_child"] = div(span("x"))
    c["only_block_child"] = div(div("x"))
    c["inline_parent_inline_kids"] = span("a", strong("b"), "c", em(a("d", href="#")))
    c["inline_in_inline_deep"] = span(span(span("x", "y")))
    c["ul"] = ul(li("one"), li("two", span("2")), li())
    c["h1_mix"] = h1("T", em("i"), HTML("<!-- c -->"), "z")
    c["html_runs"] = div(HTML("<a>"), HTML("<b>"), div(), HTML("<c>"))
    c["repr_child"] = div(Repr("<r/>"), "t", Repr("<r2/>"), div("b"), Repr("<r3/>"))
    c["repr_first_in_block"] = div(Repr("<r/>"), div())
    c["repr_only"] = div(Repr("<r/>"))
    c["repr_ret_html"] = div("<1>", ReprRetHTML(), "<2>", span("<3>"), div("<4>"))
    c["repr_ret_html_first"] = div(ReprRetHTML(), "<2>", div("<4>"))
    c["repr_ret_int"] = div("a", ReprRetInt())
    c["repr_raises"] = div("a", ReprRaises())
    c["lazy"] = div("a", Lazy())
    c["lazy_only"] = div(Lazy())
    c["lazy_and_repr"] = div("a", LazyAndRepr(), div())
    c["deps_between"] = div(dep, "a", dep, div("b"), dep, "c", dep)
    c["deps_only"] = div(dep, dep)
    c["head_content"] = div(head_content(tags.title("t")), span("s"), "x")
    c["script_multi"] = tags.script("if (a < b) {", "x = '&';", "}")
    c["script_single"] = tags.script("a < b && c")
    c["style_multi"] = tags.style("a > b {", HTML("c&d"), "}")
    c["script_in_div"] = div(tags.script("1<2", "3>4"), tags.style("x>y"))
    c["script_with_tag"] = tags.script("a<b", span("c<d"), "e<f")
    c["noWS_parent"] = div("a", div("b"), span("c"), _add_ws=False)
    c["noWS_child_block"] = div("a", div("b", div("c"), _add_ws=False), "d", div("e"))
    c["noWS_span_between"] = div(span("a", _add_ws=False), span("b"), span("c", _add_ws=False))
    c["noWS_all"] = div(
        div("x", div("y", _add_ws=False), _add_ws=False), div("z", "w", _add_ws=False)
    )
    c["noWS_first_then_text"] = div(div("b", "c", _add_ws=False), "t", div("u"))
    c["noWS_nested_multi"] = div(div(div("i", "j"), "k", _add_ws=False), div("l", "m"))
    c["attrs"] = div("x", span("y"), id="i", class_="c d", data_x='q"<>&', title=HTML("<&>"))
    c["pre_newlines"] = tags.pre("l1\nl2", span("s\n"), "\n")
    c["text_with_eol"] = div("a\nb", div("c\r\nd"))
    c["taglist_empty"] = TagList()
    c["taglist_text"] = TagList("only <t>")
    c["taglist_texts"] = TagList("a", "b", HTML("<c>"))
    c["taglist_mix"] = TagList("a", div("b"), span("c"), "d", div(div("e"), "f"), dep, "g")
    c["taglist_blocks"] = TagList(div("a"), div("b", span("c")), div())
    c["taglist_inline"] = TagList(span("a"), span("b"), "c")
    c["taglist_dep_first"] = TagList(dep, div("a"), dep, "b")
    c["taglist_noWS"] = TagList(div("a", _add_ws=False), "t", span("s", _add_ws=False), div("b"))
    c["taglist_repr"] = TagList(Repr("<r/>"), div(), ReprRetHTML(), "<t>", div("<u>"))
    c["taglist_lazy"] = TagList("a", Lazy())
    # odd, hand-made states
    t = div("a", div("b"))
    t.children.data.append(42)
    c["int_in_data"] = t
    t = tags.script("a", "b")
    t.children.data.append(42)
    c["int_in_script_data"] = t
    t = div("a", span("b"), div("c"))
    t.add_ws = 0
    c["add_ws_zero"] = t
    t = div("a", span("b"), div("c"))
    t.add_ws = "yes"
    c["add_ws_str"] = t
    t = div("a", span("b", "c"), div("d", "e"))
    t.children[1].add_ws = None
    c["child_add_ws_none"] = t
    t = div("a", div("b"))
    t.name = HTML("sec")
    c["name_html"] = t
    t = div()
    t.name = HTML("br")
    c["name_html_empty"] = t
    t = div()
    t.name = HTML("sec")
    c["name_html_empty_nonvoid"] = t
    t = div("one <text>")
    t.name = HTML("sec")
    c["name_html_single_text"] = t
    t = div(HTML("one <html>"))
    t.name = HTML("script")
    c["name_html_script_single"] = t
    t = div("a<b", "c<d")
    t.name = HTML("style")
    c["name_html_style_multi"] = t
    t = div()
    t.name = ["div"]
    c["name_list_empty"] = t
    t = div("x")
    t.name = 5
    c["name_int"] = t
    t = div("a", div("b"))
    t.name = ""
    c["name_empty"] = t
    t = div("a", "b")
    del t.add_ws
    c["add_ws_deleted"] = t
    t = div("a", span("b"))
    del t.children[1].add_ws
    c["child_add_ws_deleted"] = t
    return c


INDENTS = [0, 1, 3, -1, True]
EOLS = ["\n", "\r\n", "", "<EOL>"]


def gen_tree(rng, depth):
    kind = rng.random()
    if depth <= 0 or kind < 0.25:
        return rng.choice(
            ["t", "a<b", "", HTML("<h&>"), HTML(""), Repr("<r/>"), dep, "x\ny", 7]
        )
    name = rng.choice(["div", "p", "span", "em", "ul", "li", "br", "script", "style", "pre", "a"])
    n = rng.choice([0, 1, 1, 2, 3, 4])
    kids = [gen_tree(rng, depth - 1) for _ in range(n)]
    kw = {}
    if rng.random() < 0.2:
        kw["_add_ws"] = False
    if rng.random() < 0.3:
        kw["class_"] = "k" + str(rng.randrange(9))
    return Tag(name, *kids, **kw)


def main():
    cases = fixed_cases()
    for name, obj in cases.items():
        show("default " + name, lambda: obj.get_html_string())
        show("str " + name, lambda: str(obj))
        for ind in INDENTS:
            for eol in EOLS:
                show(
                    "case %s indent=%r eol=%r" % (name, ind, eol),
                    lambda: obj.get_html_string(ind, eol),
                )

    # keyword forms, unusual indent / eol values
    weird = ["inline_runs", "nested3", "taglist_mix", "noWS_child_block", "single_text",
             "empty_div", "taglist_empty", "taglist_text", "script_multi", "repr_ret_html"]
    for name in weird:
        obj = cases[name]
        for ind in ["x", 1.5, None, 2**3, False]:
            show("weird-indent %s %r" % (name, ind), lambda: obj.get_html_string(indent=ind))
        for eol in [HTML("\n"), HTML("<br>"), None, 5, b"\n"]:
            show("weird-eol %s %r" % (name, eol), lambda: obj.get_html_string(eol=eol))
            show("weird-eol2 %s %r" % (name, eol), lambda: obj.get_html_string(2, eol))

    # TagList keyword-only parameters
    for name, obj in cases.items():
        if not isinstance(obj, TagList):
            obj = obj.children
        for add_ws in [True, False, 0, "y", None]:
            for esc in [True, False]:
                show(
                    "kids %s add_ws=%r esc=%r" % (name, add_ws, esc),
                    lambda: obj.get_html_string(2, "\n", add_ws=add_ws, _escape_strings=esc),
                )
                show(
                    "kids0 %s add_ws=%r esc=%r" % (name, add_ws, esc),
                    lambda: obj.get_html_string(add_ws=add_ws, _escape_strings=esc),
                )

    # order of side effects
    Loud.log = []
    t = div(Loud(1), div(Loud(2), "x", Loud(3)), span(Loud(4)), Loud(5), ReprRaises(), Loud(6))
    show("loud", lambda: t.get_html_string())
    print("loud log", Loud.log)
    Loud.log = []
    t = div(Loud(1), div(Loud(2), Lazy(), Loud(3)), Loud(4))
    show("loud lazy", lambda: t.get_html_string())
    print("loud lazy log", Loud.log)
    Loud.log = []
    t = div(Loud(1), span(Loud(2)))
    show("loud bad indent", lambda: t.get_html_string("x"))
    print("loud bad indent log", Loud.log)
    Loud.log = []
    t = TagList(span(Loud(1)), Loud(2), div(Loud(3)))
    show("loud bad eol", lambda: t.get_html_string(1, None))
    print("loud bad eol log", Loud.log)

    # render() / tagify path and subclass overriding
    for name in ["lazy", "lazy_only", "taglist_lazy", "nested3", "taglist_mix", "deps_between"]:
        show("render " + name, lambda: cases[name].render()["html"])

    class Shout(Tag):
        def get_html_string(self, indent=0, eol="\n"):
            return "[%r|%r|%s]" % (indent, eol, super().get_html_string(indent, eol))

    t = div("a", Shout("div", "b", Shout("span", "c", "d")), Shout("span", "e"), _add_ws=True)
    show("subclass", lambda: t.get_html_string(1, "\r\n"))
    t2 = div(Shout("span", "e", _add_ws=False), Shout("div", "f"), _add_ws=False)
    show("subclass noWS", lambda: t2.get_html_string(1, "\r\n"))

    # seeded random trees
    rng = random.Random(606)
    for i in range(250):
        tree = gen_tree(rng, 4)
        if not isinstance(tree, Tag):
            tree = TagList(tree)
        ind = rng.choice([0, 0, 1, 2, 5])
        eol = rng.choice(["\n", "\n", "", "\r\n", "|"])
        show("rand %d indent=%r eol=%r" % (i, ind, eol), lambda: tree.get_html_string(ind, eol))
        if i % 5 == 0:
            tl = TagList(tree, "t", gen_tree(rng, 2), gen_tree(rng, 2))
            show("randlist %d" % i, lambda: tl.get_html_string(ind, eol))


main()
