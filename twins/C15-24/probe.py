"""Probe for property C15: attribute normalisation / merging / consolidate_attrs.

Prints repr of results (or exception type + message) deterministically.
"""
from __future__ import annotations

import collections
import types

from htmltools import HTML, Tag, TagList, consolidate_attrs, div, span, tags
from htmltools._core import TagAttrDict


def show(label, fn):
    try:
        res = fn()
    except BaseException as e:  # noqa: BLE001
        print(f"{label}: EXC {type(e).__name__}: {e}")
    else:
        print(f"{label}: {res!r}")


def describe(d):
    """Ordered description of an attribute mapping including value types."""
    return [(k, type(v).__name__, str(v)) for k, v in d.items()]


class MyStr(str):
    pass


class MyInt(int):
    pass


class MyFloat(float):
    pass


class MyHTML(HTML):
    pass


class MyDict(dict):
    pass


class NoItems:
    pass


VALUES = [
    None,
    False,
    True,
    "",
    " ",
    "a",
    "a b",
    "<&\"'>",
    0,
    1,
    -3,
    10**20,
    0.0,
    -0.0,
    1.5,
    1e100,
    float("inf"),
    float("nan"),
    HTML(""),
    HTML("<b>&\"'"),
    MyStr("sub"),
    MyInt(7),
    MyFloat(2.5),
    MyHTML("<i>"),
    b"bytes",
    [1],
    ("t",),
    {"a": 1},
    object,
    1 + 2j,
    span("x"),
    TagList("x"),
]

NAMES = [
    "",
    "_",
    "__",
    "___",
    "a",
    "a_",
    "a__",
    "_a",
    "_a_",
    "class_",
    "for_",
    "data_foo_bar",
    "data_foo_bar_",
    "data-foo",
    "data-foo_",
    "aria_label__",
    "Foo_Bar_",
    "a-",
    "a-_",
    "x y_",
    MyStr("my_str_"),
]

print("== _normalize_attr_value ==")
for i, v in enumerate(VALUES):
    def f(v=v):
        r = TagAttrDict._normalize_attr_value(v)
        return (type(r).__name__, r if not isinstance(r, HTML) else str(r), r is v)
    show(f"val[{i}] {type(v).__name__}", f)

print("== _normalize_attr_name ==")
for n in NAMES:
    def f(n=n):
        r = TagAttrDict._normalize_attr_name(n)
        return (type(r).__name__, r)
    show(f"name {n!r}", f)
for bad in [None, 1, b"a_", ["a_"], ("a_",)]:
    show(f"name bad {bad!r}", lambda bad=bad: TagAttrDict._normalize_attr_name(bad))

print("== TagAttrDict construction: every name x a few values ==")
for n in NAMES:
    for v in ["v", True, None, 3, HTML("<h>")]:
        show(f"ctor {n!r}={v!r}", lambda n=n, v=v: describe(TagAttrDict({n: v})))

print("== TagAttrDict construction: every value ==")
for i, v in enumerate(VALUES):
    show(f"ctor val[{i}]", lambda v=v: describe(TagAttrDict({"k_": v})))
    show(f"ctor kw val[{i}]", lambda v=v: describe(TagAttrDict(k_=v)))

print("== merging within one call ==")
MERGE_CASES = [
    (({"class": "a"}, {"class_": "b"}), {"class_": "c"}),
    (({"class": "a", "id": "i"}, {"id": "j", "class": "b"}), {}),
    (({"a_b": "1"}, {"a-b": "2"}, {"a_b_": "3"}), {"a_b": "4", "a_b_": "5"}),
    (({"x": None}, {"x": "1"}, {"x": False}, {"x": True}, {"x": 2}), {"x": 2.5}),
    (({"x": True}, {"x": True}), {"x": True}),
    (({"x": ""}, {"x": ""}), {}),
    (({"x": "<a>"}, {"x": HTML("<b>")}), {}),
    (({"x": HTML("<b>")}, {"x": "<a&\"'>"}), {}),
    (({"x": HTML("<b>")}, {"x": HTML("&amp;")}), {"x": "p&q"}),
    (({"x": "p&q"}, {"x": "r<s"}, {"x": HTML("<b>")}), {"x_": "t\"u"}),
    (({"x": 1}, {"x": HTML("<b>")}, {"x": 2}), {}),
    (({"x": True}, {"x": HTML("<b>")}), {}),
    (({"x": HTML("<b>")}, {"x": True}), {}),
    (({"x": MyStr("<m>")}, {"x": MyHTML("<n>")}), {"x": MyStr("o&")}),
    (({"x": MyHTML("<n>")}, {"x": MyStr("<m>")}), {}),
    (({"b": "1", "a": "2"}, {"c": "3", "a": "4"}), {"b": "5", "d": "6"}),
    ((), {}),
    (({},), {}),
    (({}, {}), {"k": None}),
    ((MyDict(a_="1"), collections.OrderedDict(a="2"), TagAttrDict(a__="3")), {"a": "4"}),
    ((types.MappingProxyType({"m_p": "1"}),), {"m_p_": "2"}),
    (({"style": "color:red;"}, {"style": "margin:0"}), {"style": HTML("x:'y'")}),
]
for i, (pos, kw) in enumerate(MERGE_CASES):
    show(f"merge[{i}] TagAttrDict", lambda pos=pos, kw=kw: describe(TagAttrDict(*pos, **kw)))
    show(f"merge[{i}] div", lambda pos=pos, kw=kw: str(div(*pos, **kw)))
    show(
        f"merge[{i}] div+kids",
        lambda pos=pos, kw=kw: str(div("k1", *pos, span("k2"), **kw)),
    )

    def cons(pos=pos, kw=kw):
        attrs, kids = consolidate_attrs("c1", *pos, 2, None, **kw)
        return (type(attrs).__name__, describe(attrs), kids)

    show(f"merge[{i}] consolidate", cons)

    def rebuild(pos=pos, kw=kw):
        attrs, kids = consolidate_attrs("c1", *pos, span("z"), **kw)
        a = div(attrs, *kids)
        b = div("c1", *pos, span("z"), **kw)
        return (a == b, str(a) == str(b), describe(a.attrs) == describe(b.attrs))

    show(f"merge[{i}] rebuild", rebuild)

print("== errors and atomicity ==")


def atomic(pos, kw):
    d = TagAttrDict({"keep": "1", "x": "old"})
    try:
        d.update(*pos, **kw)
    except BaseException as e:  # noqa: BLE001
        return ("EXC", type(e).__name__, str(e), describe(d))
    return ("OK", describe(d))


ERR_CASES = [
    (({"x": "new"}, {"y": [1]}), {}),
    (({"x": "new", "y": object()},), {"z": "1"}),
    (({"x": "new"},), {"y": b"b"}),
    (({"x": "new"}, NoItems()), {}),
    (({"x": "new"}, [("a", "b")]), {}),
    (({"x": "new"}, "str"), {}),
    (({"x": "new"}, None), {}),
    (({"x": "new"}, {1: "v"}), {}),
    (({"x": "new"}, {1: None}), {}),
    (({"x": "new"}, {1: False}), {}),
    (({"x": "new"}, {None: "v"}), {}),
    (({"x": "new"}, {("t",): "v"}), {}),
    (({1: [1]},), {}),
    (({"x": "new"}, {b"b_": "v"}), {}),
    (({"x": "n1"}, {"x": "n2"}), {"x": "n3", "keep_": None, "w": True}),
]
for i, (pos, kw) in enumerate(ERR_CASES):
    show(f"err[{i}] update", lambda pos=pos, kw=kw: atomic(pos, kw))
    show(f"err[{i}] ctor", lambda pos=pos, kw=kw: describe(TagAttrDict(*pos, **kw)))
    show(f"err[{i}] consolidate", lambda pos=pos, kw=kw: consolidate_attrs(*[p for p in pos if isinstance(p, dict)], **kw))

print("== update / item assignment replace rather than append ==")


def upd():
    d = TagAttrDict({"class": "a", "id": "i"}, class_="b")
    out = [describe(d)]
    d.update({"class_": "c"})
    out.append(describe(d))
    d.update({"class": "d"}, {"class": "e"}, class_="f", new_attr="n")
    out.append(describe(d))
    d["class_"] = "g"
    out.append(describe(d))
    d["id"] = None
    out.append(describe(d))
    d["id"] = False
    out.append(describe(d))
    d["id"] = True
    out.append(describe(d))
    d["data_x_"] = 5
    out.append(describe(d))
    d["data_x"] = 5.5
    out.append(describe(d))
    d["h"] = HTML("<h>")
    out.append(describe(d))
    d["h"] = "<plain>"
    out.append(describe(d))
    d.update()
    out.append(describe(d))
    d.update({})
    out.append(describe(d))
    d.update(h=None)
    out.append(describe(d))
    return out


for j, line in enumerate(upd()):
    print(f"upd step {j}: {line!r}")

for i, v in enumerate(VALUES):
    def seti(v=v):
        d = TagAttrDict(k="0")
        d["k_"] = v
        return describe(d)
    show(f"setitem val[{i}]", seti)
for bad in [None, 1, b"a_", ["a_"], ("a_",)]:
    def setn(bad=bad):
        d = TagAttrDict(k="0")
        d[bad] = "v"
        return describe(d)
    show(f"setitem name {bad!r}", setn)

    def setn_none(bad=bad):
        d = TagAttrDict(k="0")
        d[bad] = None
        return describe(d)
    show(f"setitem name {bad!r} None", setn_none)


def tag_updates():
    t = div({"class": "a"}, class_="b", id="x")
    out = [str(t)]
    t.attrs.update({"class": "z"}, data_q_=1)
    out.append(str(t))
    t.attrs["class_"] = "y"
    out.append(str(t))
    t.attrs.update(class_=None)
    out.append(str(t))
    return out


show("tag updates", tag_updates)

print("== Tag construction: dict / non-dict partition ==")
PART_CASES = [
    ("a", {"x": "1"}, "b", {"y": "2"}, None, 3, 4.5, span("s"), {"x": "3"}),
    (MyDict(x="1"), "kid", TagAttrDict(y_="2"), collections.OrderedDict(z="3")),
    ([{"inlist": "1"}, "k"], ({"intuple": "1"},), TagList("tl", {"notattr": 1} and "q")),
    (TagList("a", "b"), [["n1", ["n2"]], None], HTML("<raw>"), "<esc>"),
    (types.MappingProxyType({"mp": "1"}),),
    (object(),),
    ({"x": [1]}, object()),
    (object(), {"x": [1]}),
    (b"bytes",),
    ({"a": "1"}, {"a": "2"}),
    (),
]
for i, args in enumerate(PART_CASES):
    def mk(args=args):
        t = Tag("div", *args, k_w="v")
        return (str(t), describe(t.attrs), [type(c).__name__ for c in t.children])
    show(f"part[{i}] Tag", mk)

    def cons(args=args):
        attrs, kids = consolidate_attrs(*args, k_w="v")
        return (
            type(attrs).__name__,
            describe(attrs),
            [type(c).__name__ for c in kids],
            [a is b for a, b in zip(kids, [x for x in args if not isinstance(x, dict)])],
            len(kids),
        )
    show(f"part[{i}] consolidate", cons)

show("Tag _add_ws bad", lambda: Tag("div", {"a": "1"}, _add_ws="yes"))
show("Tag _add_ws False", lambda: str(Tag("div", {"a": "1"}, "x", _add_ws=False)))
show("consolidate _add_ws bad", lambda: consolidate_attrs({"a": "1"}, _add_ws=1))
show("consolidate _add_ws ok", lambda: consolidate_attrs({"a": "1"}, "c", _add_ws=False))
show("consolidate _name clash", lambda: consolidate_attrs({"a": "1"}, _name="x"))
show("consolidate empty", lambda: consolidate_attrs())
show("consolidate only kw", lambda: consolidate_attrs(a_b_=1, c=None, d=True))
show("consolidate bad child", lambda: consolidate_attrs("ok", object()))
show("consolidate bad attr + bad child", lambda: consolidate_attrs({"a": [1]}, object()))
show("consolidate kids identity", lambda: (lambda L: consolidate_attrs(L, {"a": 1})[1][0] is L)([1, 2]))


def cons_fresh():
    src = {"a_": "1"}
    attrs, _ = consolidate_attrs(src)
    attrs["zz"] = "2"
    return (src, attrs, type(attrs) is dict)


show("consolidate returns fresh plain dict", cons_fresh)

print("== rendering of merged attrs through tag functions ==")
show("tags.a", lambda: str(tags.a({"href": "u?a=1&b=2"}, "t", class_="c1", href=None)))
show("tags.input", lambda: str(tags.input(
    {"type": "checkbox"}, checked=True, disabled=False, data_n=0, value=1.0)))
show("add_class after merge", lambda: str(div({"class": "a"}, class_="b").add_class("c").add_class("p", prepend=True)))
show("add_style after merge", lambda: str(div({"style": "a:1;"}, style="b:2;").add_style("c:3;")))
show("has_class", lambda: (div({"class": "a"}, class_="b c").has_class("c"), div(class_=None).has_class("c")))
