"""Probe for property C14: TagList / Tag child normalisation.

Prints a deterministic transcript; must be byte-identical before/after a refactoring.
"""
from __future__ import annotations

import collections
import copy

from htmltools import HTML, HTMLDependency, HTMLDocument, Tag, TagList, div, span, tags
from htmltools._core import _tagchilds_to_tagnodes, is_tag_child, is_tag_node
from htmltools._util import flatten


class MyTagifiable:
    def tagify(self):
        return span("tagified")

    def __repr__(self):
        return "MyTagifiable()"


class MyTagifiableList:
    def tagify(self):
        return TagList("a", [1, None, (2.5,)], span("b"))

    def __repr__(self):
        return "MyTagifiableList()"


class MyReprHtml:
    def _repr_html_(self):
        return "<i>repr</i>"

    def __repr__(self):
        return "MyReprHtml()"


class MyStr(str):
    pass


class MyInt(int):
    def __str__(self):
        return "MyInt<%d>" % int(self)


class MyFloat(float):
    pass


class MyList(list):
    pass


Pt = collections.namedtuple("Pt", ["x", "y"])


class Plain:
    def __repr__(self):
        return "Plain()"


def gen(*xs):
    for x in xs:
        yield x


def desc(x):
    """Deterministic description of a stored node."""
    if isinstance(x, Tag):
        return ("Tag", x.name, [desc(c) for c in x.children], dict(x.attrs))
    if isinstance(x, HTMLDependency):
        return ("Dep", x.name, str(x.version))
    if isinstance(x, HTML):
        return ("HTML", x.as_string())
    if isinstance(x, str):
        return (type(x).__name__, str.__str__(x))
    return (type(x).__name__, repr(x))


def show(label, tl):
    items = list(tl)
    print(label, "len=%d" % len(items), [desc(c) for c in items])
    print("   all is_tag_node:", all(is_tag_node(c) for c in items),
          "| type:", type(tl).__name__)


def attempt(label, fn):
    try:
        res = fn()
    except BaseException as e:  # noqa: BLE001
        print(label, "-> EXC", type(e).__name__, "|", str(e))
        return None
    else:
        print(label, "-> ok", type(res).__name__)
        return res


dep = HTMLDependency("mydep", "1.2.3")
VALID_SAMPLES = [
    ("empty", ()),
    ("strings", ("a", "", "hello world", "<b>&</b>")),
    ("numbers", (0, 1, -3, 2.5, -0.0, 1e100, float("inf"), float("nan"), True, False)),
    ("none", (None, None)),
    ("mixed", ("a", None, 1, [2, None, ["b", (3.5, None, [[]], ())]], "c")),
    ("nested_empty", ([], (), [[], [()]], TagList(), [TagList([])])),
    ("taglist_nested", (TagList("x", TagList("y", [TagList(1)])), [TagList(None)], "z")),
    ("tags", (div("k", 1, [2]), span(), tags.p(None, "q", id="i"))),
    ("html", (HTML("<raw/>"), HTML(""), [HTML("x")])),
    ("dep", (dep, [dep, None])),
    ("tagifiable", (MyTagifiable(), [MyTagifiableList()], MyReprHtml())),
    ("subclasses", (MyStr("ms"), MyInt(7), MyFloat(1.5), MyList(["in", MyList([1])]), Pt(1, "y"))),
    ("string_whole", ("abc", ["def", ("ghi",)])),
    ("deep", ([[[[[[[[[["deep", None, 9]]]]]]]]]],)),
]

INVALID_VALUES = [
    ("object", Plain()),
    ("dict", {"a": 1}),
    ("set", {1}),
    ("frozenset", frozenset([1])),
    ("bytes", b"xy"),
    ("bytearray", bytearray(b"xy")),
    ("complex", 1j),
    ("generator", gen(1, 2)),
    ("range", range(2)),
    ("type", int),
    ("function", len),
    ("nested_bad", ["ok", [1, (Plain(),)]]),
    ("nested_dict", [None, [{"k": "v"}]]),
    ("good_then_bad", ["a", 1, Plain(), {"second": 1}]),
]


def section(title):
    print()
    print("=" * 8, title)


# ---------------------------------------------------------------------------
section("construction")
for name, args in VALID_SAMPLES:
    show("TagList(%s)" % name, TagList(*args))
    show("div(%s).children" % name, div(*args).children)
    show("Tag('x', %s).children" % name, Tag("x", *args).children)
    show("HTMLDocument(%s)._content" % name, HTMLDocument(*args)._content)

for name, v in INVALID_VALUES:
    attempt("TagList(%s)" % name, lambda v=v: TagList(v))
    attempt("TagList('a', %s, 'b')" % name, lambda v=v: TagList("a", v, "b"))
    if not isinstance(v, dict):
        attempt("div(%s)" % name, lambda v=v: div(v))
    attempt("Tag('x', [%s])" % name, lambda v=v: Tag("x", [v]))

# dicts passed directly to Tag are attributes, not children
t = Tag("x", {"a": "1"}, "kid", {"b": "2"}, [1], c="3")
print(desc(t))

# ---------------------------------------------------------------------------
section("append / extend / insert")
for name, args in VALID_SAMPLES:
    tl = TagList("start", 0)
    tl.append(*args) if args else tl.append(None)
    show("append(*%s)" % name, tl)

    tl = TagList("start", 0)
    tl.append(list(args))
    show("append(list %s)" % name, tl)

    tl = TagList("start", 0)
    tl.extend(args)
    show("extend(%s)" % name, tl)

    tl = TagList("start", 0)
    tl.extend(gen(*args))
    show("extend(gen %s)" % name, tl)

    for idx in (0, 1, 2, 5, -1, -5):
        tl = TagList("start", 0)
        tl.insert(idx, list(args))
        show("insert(%d, %s)" % (idx, name), tl)

    tg = div("start", 0)
    attempt("   Tag.append(*%s)" % name, lambda: tg.append(*args))
    tg.extend(args)
    tg.insert(1, list(args))
    show("Tag ops %s" % name, tg.children)

    doc = HTMLDocument("start")
    attempt("   HTMLDocument.append(*%s)" % name, lambda: doc.append(*args))
    show("HTMLDocument.append %s" % name, doc._content)

# string handling in extend/insert/append
tl = TagList()
tl.extend("abc")
show("extend('abc')", tl)
tl.extend(MyStr("sub"))
show("extend(MyStr)", tl)
tl.extend(HTML("<h/>"))
show("extend(HTML)", tl)
tl.insert(1, "xyz")
show("insert(1,'xyz')", tl)
tl.insert(0, None)
show("insert(0,None)", tl)
tl.insert(True, 5)
show("insert(True,5)", tl)
tl.append("one", ["two", None], 3)
show("append multi", tl)
attempt("append()", lambda: TagList().append())
attempt("extend(None)", lambda: TagList().extend(None))
attempt("extend(5)", lambda: TagList().extend(5))
attempt("insert('a', 'x')", lambda: TagList("q").insert("a", "x"))
attempt("insert(1.5, 'x')", lambda: TagList("q").insert(1.5, "x"))

section("failure leaves list unchanged")
for name, v in INVALID_VALUES:
    tl = TagList("keep", 1, span("s"))
    before = [desc(c) for c in tl]
    attempt("append(%s)" % name, lambda: tl.append(v))
    attempt("append('ok', %s)" % name, lambda: tl.append("ok", v))
    attempt("extend([%s])" % name, lambda: tl.extend(["ok", v]))
    attempt("insert(1, %s)" % name, lambda: tl.insert(1, v))
    attempt("iadd [%s]" % name, lambda: tl.__iadd__(["ok", v]))
    attempt("add [%s]" % name, lambda: tl + ["ok", v])
    attempt("radd [%s]" % name, lambda: ["ok", v] + tl)
    print("   unchanged:", [desc(c) for c in tl] == before, len(tl))

    tg = div("keep", 1)
    before = [desc(c) for c in tg.children]
    attempt("Tag.append(%s)" % name, lambda: tg.append("ok", v))
    attempt("Tag.extend([%s])" % name, lambda: tg.extend(["ok", v]))
    attempt("Tag.insert(0, %s)" % name, lambda: tg.insert(0, [v]))
    print("   tag unchanged:", [desc(c) for c in tg.children] == before)

# extend with top-level invalid-but-iterable args (these are iterated!)
for name, v in [("dict", {"a": 1, "b": 2}), ("set1", {"only"}), ("range", range(3)),
                ("bytes", b"AB"), ("gen", gen("g", None, [1]))]:
    tl = TagList("keep")
    attempt("extend(top-level %s)" % name, lambda: tl.extend(v))
    show("   after", tl)

# ---------------------------------------------------------------------------
section("+, reflected +, +=")
base_args = ("base", 1, span("s"))
OPERANDS = [
    ("list", ["a", None, [1, (2.5,)]]),
    ("tuple", ("a", (None,), 2)),
    ("empty_list", []),
    ("taglist", TagList("t", [3])),
    ("str", "whole"),
    ("empty_str", ""),
    ("mystr", MyStr("mine")),
    ("html", HTML("<x/>")),
    ("tag", div("inner", 1)),
    ("gen", None),  # replaced per use
    ("none", None),
    ("int", 3),
    ("dict", {"k": 1}),
    ("plain", Plain()),
    ("tagifiable", MyTagifiable()),
    ("dep", dep),
    ("list_bad", ["ok", Plain()]),
]
for name, op in OPERANDS:
    mk = (lambda: gen("g1", None, [2])) if name == "gen" else (lambda op=op: op)
    base = TagList(*base_args)
    r = attempt("base + %s" % name, lambda: base + mk())
    if r is not None:
        show("   result", r)
        print("   new object:", r is not base)
    show("   base after +", base)

    base = TagList(*base_args)
    r = attempt("%s + base" % name, lambda: mk() + base)
    if r is not None:
        show("   result", r)
    r = attempt("base.__radd__(%s)" % name, lambda: base.__radd__(mk()))
    if r is not None:
        show("   result", r)
    show("   base after radd", base)

    base = TagList(*base_args)
    alias = base

    def do_iadd():
        global base
        base += mk()
        return base

    r = attempt("base += %s" % name, do_iadd)
    if r is not None:
        print("   same object:", r is alias)
    show("   alias after +=", alias)

# ---------------------------------------------------------------------------
section("slicing / repetition / copy")
tl = TagList("a", 1, [None, 2.5, span("s")], HTML("<h/>"), dep, MyTagifiable())
show("full", tl)
for sl in (slice(None), slice(1, 3), slice(None, None, -1), slice(10, 20), slice(-2, None), slice(0, None, 2)):
    show("slice %r" % (sl,), tl[sl])
for n in (0, 1, 2, -1):
    show("tl * %d" % n, tl * n)
    show("%d * tl" % n, n * tl)
t2 = TagList("p", 1)
t2 *= 2
show("imul", t2)
show("copy", copy.copy(tl))
show("tagify", tl.tagify())
show("tagify list-returning", TagList("pre", MyTagifiableList(), "post").tagify())
tl[1:3] = ["raw-set"]
show("slice-assign", tl)
attempt("tl[0]", lambda: print("   ", desc(tl[0])))
attempt("tl[99]", lambda: tl[99])
print("render:", repr(str(TagList("a", 1, [None, 2.5, span("s")], HTML("<h/>")))))
print("render:", repr(str(div("a", 1, [None, 2.5, span("s")], HTML("<h/>"), MyInt(3), True))))

# ---------------------------------------------------------------------------
section("is_tag_child / is_tag_node")
PRED_VALUES = [
    "s", "", MyStr("m"), HTML("h"), 0, 1, True, False, 2.5, float("nan"), MyInt(1), MyFloat(2.0),
    None, [], [1], (), (1, "a"), MyList(), Pt(1, 2), TagList(), TagList("x"), div(), span("x"),
    dep, MyTagifiable(), MyTagifiableList(), MyReprHtml(), Plain(), {"a": 1}, {1}, frozenset(),
    b"b", bytearray(b"b"), range(3), 1j, int, len, gen(1), [Plain()], collections.deque([1]),
    memoryview(b"ab"), collections.UserList([1]), collections.UserString("us"), object,
]
for v in PRED_VALUES:
    a, b = is_tag_child(v), is_tag_node(v)
    lab = type(v).__name__
    if not isinstance(v, (Tag, TagList, HTMLDependency)) and " at 0x" not in repr(v):
        lab = (lab + ":" + repr(v))[:28]
    print("%-28s child=%r(%s) node=%r(%s)" % (lab, a, type(a).__name__, b, type(b).__name__))

# every accepted value is a tag child
for name, args in VALID_SAMPLES:
    print("accepted => is_tag_child:", name, all(is_tag_child(a) for a in args))

# ---------------------------------------------------------------------------
section("_tagchilds_to_tagnodes / flatten directly")
DIRECT = [
    "abc", "", MyStr("sub"), HTML("<h>"), [], (), ["a", None, 1, [2.5, (True, [None])]],
    TagList("x", [1]), [TagList("x"), [TagList()]], ("t", div("d")), [MyInt(4), MyFloat(0.5)],
    [Plain()], ["a", {"d": 1}], [1, 1j], {"k": 1}, {"k": Plain()}, [b"b"],
]
for v in DIRECT:
    r = attempt("_tagchilds_to_tagnodes(%s)" % type(v).__name__, lambda v=v: _tagchilds_to_tagnodes(v))
    if r is not None:
        print("   ", [desc(c) for c in r], "is input:", r is v)
attempt("_tagchilds_to_tagnodes(gen)", lambda: print("   ", _tagchilds_to_tagnodes(gen("a", 1, None, [2]))))
attempt("_tagchilds_to_tagnodes(None)", lambda: _tagchilds_to_tagnodes(None))
attempt("_tagchilds_to_tagnodes(3)", lambda: _tagchilds_to_tagnodes(3))

FLAT = [
    [], [[]], [None], [1, [2], ["3", [4, None, 5]]], (1, (2, [3, TagList(4, [5])])),
    ["ab", ("cd",)], [{"a": 1}, {2}], "abc", gen(1, [2, None], (3,)), [gen(1)], [MyList([1, [2]]), Pt(3, [4])],
    [0, False, "", 0.0, None, [], ()],
]
for v in FLAT:
    r = attempt("flatten(%s)" % type(v).__name__, lambda v=v: flatten(v))
    if r is not None:
        print("   ", [(type(c).__name__, repr(c)) if not hasattr(c, "gi_frame") else "generator" for c in r])
attempt("flatten(None)", lambda: flatten(None))
attempt("flatten(5)", lambda: flatten(5))

# input objects are not altered
orig = ["a", [1, None, ["b"]], TagList("c", [2])]
snapshot = repr(orig)
TagList(orig)
flatten(orig)
_tagchilds_to_tagnodes(orig)
print("input unaltered:", repr(orig) == snapshot)

# recursion on a self-containing list
cyc = ["x"]
cyc.append(cyc)
attempt("TagList(cyclic)", lambda: TagList(cyc))
attempt("flatten(cyclic)", lambda: flatten(cyc))
print("done")
