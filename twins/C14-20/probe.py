# Probe for refactoring 5: TagList.tagify (splicing of tagified children back into the list)
import copy
from htmltools import TagList, Tag, div, span, HTML, HTMLDependency, is_tag_node
from htmltools._core import MetadataNode

LOG = []


def desc(v):
    if isinstance(v, TagList):
        return type(v).__name__ + "<" + ", ".join(desc(i) for i in v.data) + ">"
    if isinstance(v, (list, tuple)):
        return type(v).__name__ + "[" + ", ".join(desc(i) for i in v) + "]"
    if isinstance(v, (str, int, float, Tag)) or v is None:
        return type(v).__name__ + ":" + repr(str(v))
    if isinstance(v, T):
        return "T(" + v.name + ")"
    return type(v).__name__


def show(label, fn):
    try:
        print(label, "->", desc(fn()))
    except BaseException as e:  # noqa
        print(label, "!!", type(e).__name__, str(e))


class T:
    """Tagifiable returning a fixed value; logs the call order."""

    def __init__(self, name, value):
        self.name = name
        self.value = value

    def tagify(self):
        LOG.append("tagify:" + self.name)
        if isinstance(self.value, BaseException):
            raise self.value
        return self.value


class Meta(MetadataNode):
    def __copy__(self):
        LOG.append("Meta.__copy__")
        return Meta()


class TagifiableMeta(MetadataNode):
    """Both Tagifiable and MetadataNode: tagify wins, it is not copied."""

    def tagify(self):
        LOG.append("TagifiableMeta.tagify")
        return "tm"

    def __copy__(self):
        LOG.append("TagifiableMeta.__copy__")
        return TagifiableMeta()


class Repr:
    def _repr_html_(self):
        return "<r/>"


class LoggedTL(TagList):
    """Records every container-protocol call made by tagify()."""

    def __len__(self):
        LOG.append("len")
        return super().__len__()

    def __getitem__(self, i):
        LOG.append("get:%r" % (i,))
        return super().__getitem__(i)

    def __setitem__(self, i, v):
        LOG.append("set:%r=%s" % (i, desc(v)))
        super().__setitem__(i, v)

    def __copy__(self):
        LOG.append("copy")
        return super().__copy__()


def raw(cls, *items):
    """Build a list without normalisation so that odd stored values can be probed."""
    tl = cls()
    tl.data.extend(items)
    return tl


def bad_taglist():
    r = TagList("ok")
    r.data.append(object())
    return r


dep = HTMLDependency("d", "1.0")
cases = [
    ("empty", lambda c: c()),
    ("plain", lambda c: c("a", 1, HTML("<b>"), Repr())),
    ("tags", lambda c: c(div("a", span("b")), "x")),
    ("t-str", lambda c: c("a", T("1", "s"), "b")),
    ("t-tag", lambda c: c(T("1", div("d")), "b")),
    ("t-html", lambda c: c(T("1", HTML("<i>"))),),
    ("t-dep", lambda c: c(T("1", dep))),
    ("t-empty-tl", lambda c: c("a", T("1", TagList()), "b")),
    ("t-only-empty", lambda c: c(T("1", TagList()))),
    ("t-tl-many", lambda c: c("a", T("1", TagList("x", div("y"), "z")), "b")),
    ("t-many", lambda c: c(T("1", TagList("p", "q")), T("2", TagList()), T("3", "r"), T("4", TagList("s")))),
    ("t-adjacent-empty", lambda c: c(T("1", TagList()), T("2", TagList()), T("3", TagList()))),
    ("t-nested-not-recursed", lambda c: c(T("1", T("inner", "never")))),
    ("t-tl-with-tagifiable", lambda c: c(T("1", TagList(T("inner", "never"), "k")))),
    ("t-subclass-tl", lambda c: c(T("1", LoggedTL("u", "v")))),
    ("t-returns-list", lambda c: c(T("1", ["l", 1]))),
    ("t-returns-none", lambda c: c("a", T("1", None))),
    ("t-returns-int", lambda c: c(T("1", 5))),
    ("t-returns-object", lambda c: c(T("1", object()))),
    ("t-raw-tl-numbers", lambda c: c(T("1", raw(TagList, 1, 2.5, None, ["n", None], "s")))),
    ("t-bad-tl", lambda c: c("a", T("0", "zero"), T("1", bad_taglist()), T("2", "two"))),
    ("t-raises", lambda c: c(T("1", "one"), T("2", ValueError("boom")), T("3", "three"), Meta())),
    ("meta", lambda c: c("a", Meta(), dep, "b", Meta())),
    ("tagifiable-meta", lambda c: c(TagifiableMeta(), Meta())),
    ("nested-taglist-tagifiable", lambda c: c(div(T("deep", TagList("1", "2")), Meta()), T("top", "t"))),
    ("raw-nested-taglist", lambda c: raw(c, "a", TagList("n1", T("n", "nn")), "b")),
    ("raw-none", lambda c: raw(c, "a", None, 3)),
]

for cls in (TagList, LoggedTL):
    print("=====", cls.__name__)
    for label, make in cases:
        orig = make(cls)
        before = list(orig.data)
        LOG.clear()
        res = None

        def run():
            global res
            res = orig.tagify()
            return res

        show(label, run)
        print("    log:", LOG)
        print(
            "    orig-unchanged:", len(before) == len(orig.data) and all(a is b for a, b in zip(before, orig.data)),
            "new-object:", res is not orig,
            "type:", type(res).__name__,
            "nodes-ok:", None if res is None else all(is_tag_node(i) for i in res),
            "meta-copied:", None if res is None else [
                (i in [id(b) for b in before]) for i in [id(r) for r in res if isinstance(r, MetadataNode)]
            ],
        )
        res = None

# through Tag.tagify / render
show("tag.tagify", lambda: div("a", T("1", TagList("x", span("y"))), T("2", "z")).tagify())
show("render", lambda: TagList("a", T("1", TagList("x", span("y"))), dep).render()["html"])
show("str", lambda: str(TagList(T("1", TagList(1, 2)), "b")))
