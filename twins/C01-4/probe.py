
import htmltools
from htmltools import HTML, Tag, TagList, div, span, tags, HTMLDependency
from htmltools._core import TagAttrDict, _normalize_text, _tagchilds_to_tagnodes
from htmltools._util import html_escape


def show(label, fn):
    try:
        res = fn()
        print(label, "->", type(res).__name__, repr(res))
    except BaseException as e:  # noqa: BLE001
        print(label, "-> EXC", type(e).__name__)


NASTY = [
    "",
    "plain",
    " lead and trail ",
    "a&b",
    "<x>",
    'q"uote',
    "ap'os",
    "line\nbreak",
    "cr\rret",
    "tab\there",
    "&amp;",
    "&&<<>>\"\"''",
    "unicodé ☃ \U0001f600",
    "a=b;c:d",
]


class StrSub(str):
    pass


class Tagifiable_:
    def tagify(self):
        return span("tagified")


class ReprHtml_:
    def _repr_html_(self):
        return "<i>repr & html</i>"


dep = HTMLDependency("dep", "1.0", source={"subdir": "."}, script={"src": "x.js"})


def probe_escape():
    for s in NASTY + [StrSub("sub<&>"), StrSub("subplain")]:
        for attr in (False, True):
            show(f"html_escape({s!r},attr={attr})", lambda: html_escape(s, attr=attr))
            show(
                f"html_escape identity({s!r},{attr})",
                lambda: html_escape(s, attr=attr) is s,
            )
        show(f"html_escape default({s!r})", lambda: html_escape(s))
        show(f"_normalize_text({s!r})", lambda: _normalize_text(s))
        show(f"_normalize_text(HTML({s!r}))", lambda: _normalize_text(HTML(s)))
    for bad in [None, 1, 1.5, b"bytes", HTML("<b>"), ["l"], True]:
        show(f"html_escape(bad {bad!r})", lambda: html_escape(bad))
        show(f"html_escape(bad {bad!r}, attr)", lambda: html_escape(bad, attr=True))
        show(f"_normalize_text(bad {bad!r})", lambda: _normalize_text(bad))
    show("html_escape truthy attr", lambda: html_escape("a'b", attr=1))
    show("html_escape falsy attr", lambda: html_escape("a'b", attr=0))
    show("html_escape positional", lambda: html_escape("a\"b", True))


def probe_attrdict():
    names = ["a", "a_", "_a", "a_b", "a__b_", "_", "__", "", "class_", "data_x_y", "aB_C", "for_", "a-b_"]
    for n in names + [StrSub("sub_name_")]:
        show(f"_normalize_attr_name({n!r})", lambda: TagAttrDict._normalize_attr_name(n))
        show(
            f"_normalize_attr_name type({n!r})",
            lambda: type(TagAttrDict._normalize_attr_name(n)).__name__,
        )
    for bad in [None, 1, b"a_", ("a_",)]:
        show(f"_normalize_attr_name(bad {bad!r})", lambda: TagAttrDict._normalize_attr_name(bad))
    values = [
        None, False, True, 0, 1, -3, 1.5, float("inf"), float("nan"), "", "s", "a&b",
        HTML(""), HTML("<b>"), StrSub("ss"), 10**30, 1e100,
    ]
    for v in values:
        show(f"_normalize_attr_value({v!r})", lambda: TagAttrDict._normalize_attr_value(v))
    s = "same"
    h = HTML("h")
    show("value identity str", lambda: TagAttrDict._normalize_attr_value(s) is s)
    show("value identity HTML", lambda: TagAttrDict._normalize_attr_value(h) is h)
    for bad in [[1], {"a": 1}, (1,), b"b", object, 1j, Tag("p")]:
        show(f"_normalize_attr_value(bad {type(bad).__name__})", lambda: TagAttrDict._normalize_attr_value(bad))

    show("TagAttrDict()", lambda: TagAttrDict())
    show("TagAttrDict kwargs", lambda: TagAttrDict(class_="a", id=1, hidden=True, off=False, none=None, data_x=1.5))
    show("TagAttrDict order", lambda: list(TagAttrDict({"z": 1, "a": 2}, m=3, b=4).items()))
    show("TagAttrDict merge", lambda: TagAttrDict({"class": "a"}, {"class_": "b"}, class_="c"))
    show("TagAttrDict merge HTML/plain", lambda: TagAttrDict({"x": HTML("<a>")}, {"x": "b&\"c"}))
    show("TagAttrDict merge plain/HTML", lambda: TagAttrDict({"x": "b&\"c"}, {"x": HTML("<a>")}))
    show("TagAttrDict merge HTML/HTML", lambda: TagAttrDict({"x": HTML("<a>")}, {"x": HTML("&b")}))
    show("TagAttrDict merge 3", lambda: TagAttrDict({"x": "1<"}, {"x": HTML("<a>")}, {"x_": "'3'"}))
    show("TagAttrDict merge none mid", lambda: TagAttrDict({"x": "1"}, {"x": None}, {"x": False}, {"x": True}, {"x": 2}))
    show("TagAttrDict bad value", lambda: TagAttrDict({"x": [1]}))
    show("TagAttrDict bad value, None name", lambda: TagAttrDict({None: None}))
    show("TagAttrDict bad name", lambda: TagAttrDict({1: "v"}))
    show("TagAttrDict bad name+bad value", lambda: TagAttrDict({1: [1]}))
    show("TagAttrDict non-mapping", lambda: TagAttrDict([("a", 1)]))

    def setitem_seq():
        d = TagAttrDict(a="1")
        d["a"] = "2"
        d["b_c_"] = 3
        d["n"] = None
        d["f"] = False
        d["t"] = True
        d["a_"] = HTML("<h>")
        return list(d.items())

    show("setitem seq", setitem_seq)

    def setitem_bad():
        d = TagAttrDict(a="1")
        d["x"] = [1]
        return d

    show("setitem bad", setitem_bad)

    def setitem_badname_none():
        d = TagAttrDict(a="1")
        d[1] = None
        return d

    show("setitem bad name w/ None", setitem_badname_none)

    def setitem_badname():
        d = TagAttrDict(a="1")
        d[1] = "v"
        return d

    show("setitem bad name", setitem_badname)

    def update_seq():
        d = TagAttrDict(a="1", b="2")
        d.update({"b": "3", "c_": 4}, {"c": HTML("<5>")}, a=None, d_e=True)
        return list(d.items())

    show("update seq", update_seq)

    def update_partial_fail():
        d = TagAttrDict(a="1")
        try:
            d.update({"q": "ok"}, {"r": object()})
        except TypeError:
            pass
        return list(d.items())

    show("update partial fail", update_partial_fail)


def probe_children():
    show("tagnodes str", lambda: _tagchilds_to_tagnodes("abc"))
    show("tagnodes mixed", lambda: _tagchilds_to_tagnodes(["a", 1, 2.5, None, ["b", [3, None]], (4,), HTML("<h>"), True]))
    show("tagnodes nums", lambda: _tagchilds_to_tagnodes([0, -1, 1e100, float("nan"), 10**25, False]))
    show("tagnodes bad", lambda: _tagchilds_to_tagnodes(["a", object()]))
    show("tagnodes bad dict", lambda: _tagchilds_to_tagnodes([{"a": 1}]))
    show("tagnodes taglist", lambda: _tagchilds_to_tagnodes([TagList("a", TagList(1, "b")), div()]))
    show("tagnodes generator", lambda: _tagchilds_to_tagnodes(x for x in ["g", 1]))


def trees():
    yield "empty div", div()
    yield "empty span", span()
    yield "void br", tags.br()
    yield "void img attrs", tags.img(src="a&b.png", alt='say "hi"')
    yield "void with child", tags.br("x")
    yield "void with tag child", tags.hr(span())
    yield "void with only dep", tags.input(dep, type="text")
    yield "div only dep", div(dep)
    yield "div dep + text", div(dep, "t")
    yield "custom tag", Tag("my-elem", "x", data_a="1")
    yield "uppercase void name", Tag("BR")
    yield "uppercase script", Tag("SCRIPT", "a<b")
    for s in NASTY:
        yield f"text leaf {s!r}", div(s)
        yield f"inline text leaf {s!r}", span(s)
        yield f"attr val {s!r}", div(title=s)
        yield f"HTML leaf {s!r}", div(HTML(s))
        yield f"HTML attr {s!r}", div(title=HTML(s))
        yield f"two text leaves {s!r}", div(s, s)
        yield f"text+tag {s!r}", div(s, span(s), s)
        yield f"script {s!r}", tags.script(s)
        yield f"style {s!r}", tags.style(s, s)
    yield "numbers", div(1, 2.5, -0.0, 10**20, id=7, data_f=1.25)
    yield "bools attrs", div(hidden=True, x=False, y=None, z="")
    yield "many attrs order", div({"z": "1", "a": "2"}, {"m_n": "3"}, b_="4", class_="c1", **{"data-q": "5"})
    yield "merged attrs", div({"class": "a"}, class_="b<", style=HTML("x:'y'"))
    yield "merged HTML/plain", div({"class": HTML("<a>")}, class_='b"')
    yield "nested block", div(div(div("deep")), div(), "tail")
    yield "nested inline", span(span(span("deep")), span(), "tail")
    yield "mixed inline/block", div(span("a"), "b", div("c"), span("d"), span("e"), "f", tags.br(), "g")
    yield "inline parent block child", span(div("a"), "b", span("c"))
    yield "adjacent text", div("a", "b", 1, HTML("<c>"), "d", span(), "e", "f")
    yield "addws false block", div("a", div("b"), "c", _add_ws=False)
    yield "addws true inline", Tag("span", "a", Tag("span", "b", _add_ws=True), "c", _add_ws=True)
    yield "text first then block", div("a", div("b"))
    yield "block first then text", div(div("b"), "a")
    yield "empty strings", div("", "", span(""), "")
    yield "single empty", div("")
    yield "single HTML empty", div(HTML(""))
    yield "lists", div(["a", ["b", span("c")]], TagList("d", tags.p("e")))
    yield "strsub child", div(StrSub("s<ub"))
    yield "strsub children", div(StrSub("s<ub"), StrSub("2&"))
    yield "reprhtml child", div(ReprHtml_())
    yield "reprhtml children", div("a", ReprHtml_(), div(), ReprHtml_(), ReprHtml_())
    yield "script with tag child", tags.script("a<b", span("c<d"), "e&f")
    yield "style nested script", tags.style(tags.script("a<b"), "x>y")
    yield "table", tags.table(tags.tr(tags.td("1"), tags.td(tags.b("2"), "3")), tags.tr())
    yield "head/meta", tags.head(tags.meta(charset="utf-8"), tags.title("T&C"), tags.link(rel="x", href="?a=1&b=2"))
    yield "pre ws", tags.pre("  a\n  b  ")
    yield "taglist", TagList("a", div("b"), span("c"), "d", 5)
    yield "taglist empty", TagList()
    yield "taglist deps only", TagList(dep, dep)
    yield "taglist dep first", TagList(dep, "a", dep, div(), dep, span(), dep)
    yield "taglist inline tags", TagList(span("a"), span("b"), tags.a("c", href="#"))
    yield "taglist HTML", TagList(HTML("<x>"), HTML("<y>"), "z<", HTML(""))


def probe_render():
    for label, t in trees():
        show(f"str[{label}]", lambda: str(t))
        show(f"ghs[{label}]", lambda: t.get_html_string())
        show(f"ghs indent2 eol rn[{label}]", lambda: t.get_html_string(2, "\r\n"))
        show(f"ghs indent0 eol ''[{label}]", lambda: t.get_html_string(indent=0, eol=""))
        show(f"render[{label}]", lambda: t.render()["html"])
        if isinstance(t, Tag):
            show(f"children ghs[{label}]", lambda: t.children.get_html_string(1, "|", add_ws=False))
            show(
                f"children ghs noesc[{label}]",
                lambda: t.children.get_html_string(3, "\n", add_ws=True, _escape_strings=False),
            )
        else:
            show(f"tl ghs addws False[{label}]", lambda: t.get_html_string(1, "|", add_ws=False))
            show(f"tl ghs noesc[{label}]", lambda: t.get_html_string(_escape_strings=False))

    # Non-tagified / error paths
    show("untagified", lambda: div(Tagifiable_()).get_html_string())
    show("untagified after text", lambda: div("a", Tagifiable_()).get_html_string())
    show("untagified str()", lambda: str(div(Tagifiable_())))
    show("untagified taglist", lambda: TagList("x", Tagifiable_()).get_html_string())
    show("bad indent empty", lambda: div().get_html_string("x"))
    show("bad indent float", lambda: div("a", "b").get_html_string(1.5))
    show("bad indent taglist empty", lambda: TagList().get_html_string("x"))
    show("bad indent taglist tag only", lambda: TagList(span()).get_html_string("x"))
    show("bad indent taglist text", lambda: TagList("a").get_html_string("x"))
    show("bad indent taglist text no ws", lambda: TagList("a").get_html_string("x", add_ws=False))
    show("neg indent", lambda: div("a", div("b")).get_html_string(-2))
    show("bool indent", lambda: div("a", div("b")).get_html_string(True))
    show("bad eol empty", lambda: div().get_html_string(0, None))
    show("bad eol single text", lambda: div("a").get_html_string(0, None))
    show("bad eol children", lambda: div("a", "b").get_html_string(0, None))
    show("bad eol inline children", lambda: span("a", "b").get_html_string(0, None))
    show("bad eol untagified", lambda: div("a", Tagifiable_()).get_html_string(0, None))
    show("bad eol taglist one", lambda: TagList("a").get_html_string(0, None))
    show("bad eol taglist two", lambda: TagList("a", div()).get_html_string(0, None))
    show("bad eol taglist two inline", lambda: TagList("a", "b").get_html_string(0, None, add_ws=False))
    show("bad name int", lambda: Tag(1, "a").get_html_string())
    show("bad name none", lambda: Tag(None).get_html_string())
    show("bad name int with bad attr", lambda: _bad_attr_tag(1).get_html_string())
    show("bad attr value int (bypass)", lambda: _bad_attr_tag("div").get_html_string())
    show("bad attr key int (bypass)", lambda: _bad_key_tag().get_html_string())
    show("add_ws non-bool", lambda: Tag("div", "a", _add_ws=1))
    show("add_ws attr set to int", lambda: _addws_int().get_html_string())
    show("add_ws attr set to int in taglist", lambda: TagList("a", _addws_int(), "b").get_html_string(add_ws=0))
    show("add_ws taglist truthy str", lambda: TagList("a", span("s"), "b").get_html_string(add_ws="yes"))
    show("mutated children non-str", lambda: _raw_child_tag(5).get_html_string())
    show("mutated children non-str x2", lambda: _raw_child_tag(5, 6).get_html_string())
    show("mutated children None", lambda: _raw_child_tag(None, "a").get_html_string())
    show("mutated children bytes noesc", lambda: _raw_child_tag(b"x", "a", name="script").get_html_string())


def _bad_attr_tag(name):
    t = Tag(name, "c", a="ok")
    dict.__setitem__(t.attrs, "n", 5)
    return t


def _bad_key_tag():
    t = Tag("div", "c", a="ok")
    dict.__setitem__(t.attrs, 7, "v")
    return t


def _addws_int():
    t = Tag("div", "a", span("b"))
    t.add_ws = 0
    return t


def _raw_child_tag(*kids, name="div"):
    t = Tag(name)
    t.children.data.extend(kids)
    return t


def main():
    probe_escape()
    probe_attrdict()
    probe_children()
    probe_render()


if __name__ == "__main__":
    main()
