# Probe for the tag-name tables (_VOID_TAG_NAMES / _NO_ESCAPE_TAG_NAMES) that decide
# between "<x/>" and "<x></x>" and between verbatim and escaped text, and for
# _normalize_text.
import itertools
from htmltools import HTML, HTMLDependency, Tag, TagList, div, tags, svg
from htmltools import _core


def show(label, fn):
    try:
        r = fn()
        print(label, "->", type(r).__name__, repr(str(r)))
    except BaseException as e:  # noqa
        print(label, "-> EXC", type(e).__name__, str(e)[:100])


class MyStr(str):
    pass


class OddStr(str):
    """Equal to (and hashing like) 'script', whatever its text."""

    def __hash__(self):
        return hash("script")

    def __eq__(self, other):
        return other == "script" if type(other) is str else NotImplemented


class NoHash(str):
    __hash__ = None


class Raw:
    def _repr_html_(self):
        return "<raw&>"

    def __repr__(self):
        return "Raw()"


# contents of the tables (order-independent view) and membership of many names
print(sorted(_core._VOID_TAG_NAMES), len(_core._VOID_TAG_NAMES))
print(sorted(_core._NO_ESCAPE_TAG_NAMES), len(_core._NO_ESCAPE_TAG_NAMES))
names = sorted(set(
    list(_core._VOID_TAG_NAMES) + list(_core._NO_ESCAPE_TAG_NAMES)
    + [n for n in dir(tags) if not n.startswith("_")] + [n for n in dir(svg) if not n.startswith("_")]
    + ["BR", "Br", "SCRIPT", "Style", " br", "br ", "", "scripts", "styl", "style\n", "b r", "area base", "x-script", "wbr\t"]
))
for nm in names:
    print(nm, nm in _core._VOID_TAG_NAMES, nm in _core._NO_ESCAPE_TAG_NAMES)
for odd in (None, 1, 1.0, (), ("br",), frozenset(["br"]), b"br", MyStr("br"), MyStr("script"), OddStr("whatever")):
    show(f"in-void {odd!r}", lambda: odd in _core._VOID_TAG_NAMES)
    show(f"in-noesc {odd!r}", lambda: odd in _core._NO_ESCAPE_TAG_NAMES)
for unh in ([], ["br"], {}, {"br"}, {"script", "style"}, set(), NoHash("br"), NoHash("script")):
    show(f"in-void unhashable {type(unh).__name__} {sorted(unh)!r}", lambda: unh in _core._VOID_TAG_NAMES)
    show(f"in-noesc unhashable {type(unh).__name__} {sorted(unh)!r}", lambda: unh in _core._NO_ESCAPE_TAG_NAMES)

# rendering for every name x children shape
dep = HTMLDependency("d", "1.0", source={"href": "x"}, script={"src": "s.js"})
childsets = [
    (), ("",), ("a<b&c>",), (HTML("a<b&c>"),), (dep,), (dep, "t<"), ("a<", "b&"), ("a<", HTML("<b>"), Raw()),
    (Raw(),), (div("in<"),), (MyStr("<m>"),),
]
for nm in names:
    for kids in childsets:
        show(f"render {nm!r} {len(kids)}", lambda: Tag(nm, *kids, title="q\"<").get_html_string())
for nm in (MyStr("br"), MyStr("script"), MyStr("style"), OddStr("whatever"), OddStr("br"), NoHash("br"), NoHash("script"), NoHash("div")):
    for kids in childsets:
        show(f"render-odd {type(nm).__name__}:{str(nm)} {len(kids)}", lambda: Tag(nm, *kids).get_html_string(1, "\r\n"))
for nm in (None, 5, ["script"], {"br"}, b"br"):
    for kids in childsets[:4]:
        show(f"render-bad {nm!r} {len(kids)}", lambda: Tag(nm, *kids).get_html_string())

# tag functions and documents
show("tags.script", lambda: str(tags.script("if (a<b && c>d) {}")))
show("tags.style", lambda: str(tags.style("a > b { c: 'd' }", HTML("e<f"), "g&h")))
show("tags.br", lambda: str(tags.br()))
show("tags.br kids", lambda: str(tags.br("x<")))
show("tags.img", lambda: str(tags.img(src="a&b")))
show("head", lambda: str(tags.head(tags.meta(charset="utf-8"), tags.link(href="x"), tags.script(src="y"), tags.style())))
show("svg.style", lambda: str(svg.style("a<b")))
show("svg.script", lambda: str(svg.script("a<b", "c<d")))
show("dep tags", lambda: str(dep.as_html_tags()))
show("dep json", lambda: str(HTMLDependency("d", "1", head="<script>a<b</script>").serialize_to_script_json()))

# _normalize_text directly
for v in ["", "a", "<&>\"'\n\r", "&amp;", MyStr("<m&>"), HTML(""), HTML("<&>\"'"), HTML(MyStr("<x>")), HTML(5), HTML(None),
          None, 5, 1.5, b"<b>", ["<l>"], ("<t>",), div("<d>"), TagList("<x>"), Raw(), object, ...]:
    show(f"_normalize_text {type(v).__name__}:{str(v)!r}", lambda: _core._normalize_text(v))
r = _core._normalize_text("plain")
print(type(r) is str, r)
s = MyStr("no-specials")
print(_core._normalize_text(s) is s, type(_core._normalize_text(MyStr("sp<"))) is str)
h = HTML("<h>")
r = _core._normalize_text(h)
print(type(r) is str, r, r is h.data)
show("_normalize_text()", lambda: _core._normalize_text())
show("_normalize_text(txt=)", lambda: _core._normalize_text(txt="k<"))
show("_normalize_text 2 args", lambda: _core._normalize_text("a", "b"))
