"""Probe for refactoring 5: HTMLDocument._hoist_head_content and HTMLTextDocument.render."""
from htmltools import (
    HTML,
    HTMLDependency,
    HTMLDocument,
    HTMLTextDocument,
    Tag,
    TagList,
    div,
    head_content,
    span,
    tags,
)

hoist = HTMLDocument._hoist_head_content


def show(label, fn):
    try:
        res = fn()
    except BaseException as e:  # noqa: BLE001
        print(label, "-> EXC", type(e).__name__)
    else:
        print(label, "->", repr(res))


a1 = HTMLDependency("a", "1.0", source={"subdir": "s"}, script={"src": "a.js"})
a2 = HTMLDependency(
    "a",
    "2.0",
    source={"href": "https://x.test/a"},
    script=[{"src": "a.js", "defer": ""}, {"src": "a b.js"}],
    stylesheet={"href": "a.css"},
    meta={"name": "m", "content": "c"},
)
b1 = HTMLDependency("b", "1.2.3", source={"subdir": "t"}, stylesheet=[{"href": "b.css", "media": "print"}])
nohtml = HTMLDependency("quiet", "0.1")
hcT = head_content(tags.title("T"))
hcT2 = head_content(tags.title("T"))
hcU = head_content(tags.title("U"), tags.meta(name="k", content="v"))
html, head, body = tags.html, tags.head, tags.body


def snapshot(t):
    """Structure of a tag tree incl. identity-free listing of metadata nodes."""
    if isinstance(t, Tag):
        return (t.name, dict(t.attrs), [snapshot(c) for c in t.children])
    if isinstance(t, HTMLDependency):
        return "DEP:" + repr(t)
    return repr(t)


def run_hoist(x, lib_prefix="lib", include_version=True):
    before = snapshot(x)
    child_ids = [id(c) for c in x.children]
    res = hoist(x, lib_prefix, include_version)
    assert snapshot(x) == before, "input mutated"
    assert [id(c) for c in x.children] == child_ids, "input children replaced"
    assert res is not x
    return (res.get_html_string(), [repr(d) for d in res.get_dependencies()])


docs = {
    "html empty": lambda: html(),
    "html head only": lambda: html(head()),
    "html head+body no deps": lambda: html(head(tags.title("t")), body("b")),
    "html no head": lambda: html(body("b", a1)),
    "html head not first": lambda: html(a1, head(tags.title("t")), body("b", b1)),
    "html head last": lambda: html(body("b", a2), head()),
    "html two heads": lambda: html(head(id="first"), head(id="second"), body(a1)),
    "html head nested deeper only": lambda: html(body(head(id="inner"), a1)),
    "html head has children + deps": lambda: html(head(tags.title("t"), tags.meta(name="x"), b1), body(a1, a2)),
    "html text then head": lambda: html("txt", head(), body(hcT, hcT2, hcU)),
    "html dep without tags": lambda: html(head(), body(nohtml)),
    "html HEAD uppercase is not head": lambda: html(Tag("HEAD"), body(a1)),
    "html only strings": lambda: html("a", HTML("<b>")),
    "html attrs": lambda: html(head(), body(a1), lang="en", class_="c"),
    "html add_ws false": lambda: Tag("html", head(), body(a1), _add_ws=False),
    "html many": lambda: html(head(), body(div(b1, a1, span(hcU, a2)), hcT, nohtml, b1)),
}
for label, mk in docs.items():
    for lp, iv in (("lib", True), (None, True), ("", False), ("pre/fix", False)):
        show("hoist %s lp=%r iv=%r" % (label, lp, iv), lambda: run_hoist(mk(), lp, iv))

show("hoist div", lambda: run_hoist(div("x")))
show("hoist body", lambda: run_hoist(body("x")))
show("hoist HTML uppercase", lambda: run_hoist(Tag("HTML")))
show("hoist TagList", lambda: hoist(TagList(html()), "lib", True))
show("hoist None", lambda: hoist(None, "lib", True))
show("hoist str", lambda: hoist("html", "lib", True))
show("hoist missing args", lambda: hoist(html()))

# shared <head> object must be copied, not mutated
shared_head = head(tags.title("shared"))
x = html(shared_head, body(a1))
r1 = hoist(x, "lib", True)
r2 = hoist(x, "lib", True)
show("shared head untouched", lambda: shared_head.get_html_string())
show("result heads distinct", lambda: (r1.children[0] is not shared_head, r1.children[0] is not r2.children[0]))
show("body shared", lambda: r1.children[1] is x.children[1])
show("idempotent text", lambda: r1.get_html_string() == r2.get_html_string())
show("double hoist", lambda: hoist(r1, "lib", True).get_html_string())

# dependency names / versions that are not plain strings
odd_int = HTMLDependency(5, "1")
odd_html = HTMLDependency(HTML("<n>"), "1")
odd_none = HTMLDependency(None, "1")
odd_ver = HTMLDependency("v", 3)
odd_ver_none = HTMLDependency("vn", None)
for label, d in (
    ("int name", odd_int),
    ("HTML name", odd_html),
    ("None name", odd_none),
    ("int version", odd_ver),
    ("None version", odd_ver_none),
):
    show("hoist " + label, lambda: run_hoist(html(head(), body(d))))
    show("doc " + label, lambda: HTMLDocument(div(d)).render()["html"])
    show("textdoc " + label, lambda: HTMLTextDocument("<h>@@</h>", deps=[d], deps_replace_pattern="@@").render()["html"])

# Full documents
contents = {
    "plain": lambda: (div("x", a1),),
    "empty": lambda: (),
    "body tag": lambda: (body("x", a1, class_="bc"),),
    "html tag": lambda: (html(head(tags.title("t")), body(b1)),),
    "html tag no head": lambda: (html(body(b1, hcT)),),
    "two roots": lambda: (div(a1), div(a2, hcT, hcT2)),
    "deps only": lambda: (a1, b1),
    "string": lambda: ("just text",),
}
for label, mk in contents.items():
    show("doc " + label, lambda: HTMLDocument(*mk()).render())
    show("doc attrs " + label, lambda: HTMLDocument(*mk(), lang="en").render(lib_prefix=None, include_version=False)["html"])

d = HTMLDocument(div(a1, hcT))
show("doc render repeat", lambda: d.render() == d.render())
d.append(span(b1, hcT2, hcU))
show("doc after append", lambda: d.render()["html"])

# HTMLTextDocument.render
tmpl = "<html><head>@@</head><body>@@ x</body></html>"
for label, deps in (
    ("none", None),
    ("empty", []),
    ("one", [a1]),
    ("many not deduped", [a1, a2, a1, b1, hcT, hcT2, hcU, nohtml]),
):
    pat = None if deps is None else "@@"
    for lp, iv in (("lib", True), (None, False)):
        show(
            "textdoc %s lp=%r iv=%r" % (label, lp, iv),
            lambda: (lambda r: (r["html"], [repr(x) for x in r["dependencies"]]))(
                HTMLTextDocument(tmpl, deps=None if deps is None else list(deps), deps_replace_pattern=pat).render(
                    lib_prefix=lp, include_version=iv
                )
            ),
        )
show("textdoc pattern absent", lambda: HTMLTextDocument("<p></p>", deps=[a1], deps_replace_pattern="@@").render()["html"])
show("textdoc pattern only", lambda: HTMLTextDocument("<p>@@</p>", deps_replace_pattern="@@").render()["html"])
td = HTMLTextDocument(tmpl, deps=[a1, b1], deps_replace_pattern="@@")
r = td.render()
show("textdoc deps are deep copies", lambda: (r["dependencies"][0] is not a1, r["dependencies"][0] == a1, r["dependencies"] is not td._deps))
show("textdoc render repeat", lambda: td.render() == td.render())
show("textdoc positional args rejected", lambda: td.render("lib"))

# history independence
first = HTMLDocument(div(a1, b1, hcT)).render()["html"]
for mk in docs.values():
    hoist(mk(), "lib", True)
show("stable after history", lambda: HTMLDocument(div(a1, b1, hcT)).render()["html"] == first)
