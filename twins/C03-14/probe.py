# Probe for refactoring 4: TagAttrDict._normalize_attr_value / _normalize_attr_name (now
# module-level functions shared with JSXTagAttrDict) and everything that calls them.
import copy
import decimal
import fractions
from htmltools import HTML, Tag, TagList, div, span, tags, consolidate_attrs
from htmltools._core import TagAttrDict
from htmltools._jsx import JSXTagAttrDict, JSXTag, jsx_tag_create, jsx


def show(label, fn):
    try:
        out = fn()
        print(label, "=>", type(out).__name__, repr(out))
    except Exception as e:  # noqa: BLE001
        print(label, "=> EXC", type(e).__name__, "|", str(e))


class StrSub(str):
    pass


class IntSub(int):
    def __str__(self):
        return "IntSub!"


class FloatSub(float):
    def __str__(self):
        return "Float<Sub>"


class HTMLSub(HTML):
    pass


class Weird:
    def __eq__(self, other):
        return True

    __hash__ = None


VALUES = [
    ("None", None), ("False", False), ("True", True), ("0", 0), ("1", 1), ("-0.0", -0.0), ("0.0", 0.0),
    ("1.0", 1.0), ("nan", float("nan")), ("inf", float("inf")), ("big", 10**30), ("1e-7", 1e-7),
    ("empty str", ""), ("str", "a<b>&\"'\r\n"), ("StrSub", StrSub("s&")), ("HTML", HTML("<i>&")),
    ("HTMLSub", HTMLSub("<s>")), ("HTML empty", HTML("")), ("IntSub", IntSub(3)), ("FloatSub", FloatSub(2.5)),
    ("list", [1]), ("tuple", ()), ("dict-in-kwarg", {"a": 1}), ("set", {1}), ("bytes", b"x"), ("complex", 2j),
    ("Decimal", decimal.Decimal("1.5")), ("Fraction", fractions.Fraction(1, 2)), ("object", Weird()),
    ("type", int), ("Tag", span("x")), ("TagList", TagList("x")), ("jsx", jsx("a<b")), ("function", len),
    ("Ellipsis", ...), ("NotImplemented", NotImplemented),
]

for label, v in VALUES:
    show(f"static value {label}", lambda: TagAttrDict._normalize_attr_value(v))
    show(f"instance value {label}", lambda: TagAttrDict()._normalize_attr_value(v))
    show(f"identity kept {label}", lambda: TagAttrDict._normalize_attr_value(v) is v)
    show(f"div kwarg {label}", lambda: str(div(data_v=v)))
    show(f"div dict {label}", lambda: str(div({"data-v": v})))
    show(f"setitem {label}", lambda: (lambda d: (d.__setitem__("k", v), dict(d), [type(x).__name__ for x in d.values()]))(TagAttrDict(k="old")))
    show(f"merge with plain {label}", lambda: str(div({"c": "p<"}, c=v)))
    show(f"merge with HTML {label}", lambda: str(div({"c": HTML("h<")}, c=v)))
    show(f"add_class {label}", lambda: str(div(class_="a").add_class(v)))
    show(f"input {label}", lambda: str(tags.input(disabled=v, value=v)))
    show(f"consolidate {label}", lambda: consolidate_attrs({"a": v}, b=v)[0])

NAMES = ["", "_", "__", "a", "a_", "a__", "_a", "_a_", "a_b", "a_b_", "a-b", "a-b_", "class_", "for_",
         "data_foo_Bar_", "aria_label", "A_B", "x y", "a\"b", "a=b", "<", "é_é", StrSub("s_s_")]
for n in NAMES:
    show(f"name {n!r}", lambda: (TagAttrDict._normalize_attr_name(n), type(TagAttrDict._normalize_attr_name(n)).__name__))
    show(f"jsx name {n!r}", lambda: (JSXTagAttrDict._normalize_attr_name(n), type(JSXTagAttrDict._normalize_attr_name(n)).__name__))
    show(f"instance name {n!r}", lambda: (TagAttrDict()._normalize_attr_name(n), JSXTagAttrDict()._normalize_attr_name(n)))
    show(f"div name {n!r}", lambda: str(div({n: "v"})))
    show(f"jsxdict name {n!r}", lambda: dict(JSXTagAttrDict(**{str(n): [1, None]})))
for n in [None, 1, b"a_", ("a_",), 1.5]:
    show(f"bad name {n!r}", lambda: TagAttrDict._normalize_attr_name(n))
    show(f"bad jsx name {n!r}", lambda: JSXTagAttrDict._normalize_attr_name(n))
    show(f"bad name in dict {n!r}", lambda: str(div({n: "v"})))
    show(f"bad name, dropped value {n!r}", lambda: str(div({n: None})))



def show_type_only(label, fn):
    # arity errors: only the exception type is compared (the text names the function)
    try:
        print(label, "=>", repr(fn()))
    except Exception as e:  # noqa: BLE001
        print(label, "=> EXC", type(e).__name__)


show_type_only("no-arg value", lambda: TagAttrDict._normalize_attr_value())
show_type_only("no-arg name", lambda: TagAttrDict._normalize_attr_name())
show_type_only("no-arg jsx name", lambda: JSXTagAttrDict._normalize_attr_name())
show_type_only("two-arg value", lambda: TagAttrDict._normalize_attr_value(1, 2))
show("kwarg x value", lambda: TagAttrDict._normalize_attr_value(x=True))
show("kwarg x name", lambda: TagAttrDict._normalize_attr_name(x="a_b_"))
show("kwarg x jsx name", lambda: JSXTagAttrDict._normalize_attr_name(x="a_b_"))
show("is staticmethod", lambda: [isinstance(vars(c)[n], staticmethod) for c, n in [
    (TagAttrDict, "_normalize_attr_name"), (TagAttrDict, "_normalize_attr_value"), (JSXTagAttrDict, "_normalize_attr_name")]])


# subclass overrides are still honoured by __setitem__ / update
class Upper(TagAttrDict):
    @staticmethod
    def _normalize_attr_name(x):
        return TagAttrDict._normalize_attr_name(x).upper()

    @staticmethod
    def _normalize_attr_value(x):
        if x == "drop":
            return None
        return TagAttrDict._normalize_attr_value(x)


u = Upper({"a_b_": "1", "c": "drop"}, d=True)
u["e_f"] = HTML("<")
u["g"] = "drop"
show("Upper", lambda: dict(u))
show("Upper copy", lambda: (type(copy.copy(u)).__name__, dict(copy.copy(u))))


class JUpper(JSXTagAttrDict):
    @staticmethod
    def _normalize_attr_name(x):
        return x.upper()


ju = JUpper(a_b=1)
ju["c_d"] = 2
ju.update({"e_": 3}, f_=4)
show("JUpper", lambda: dict(ju))

# JSX rendering end to end
Foo = jsx_tag_create("Foo")
show("jsx tag", lambda: str(Foo(div(class_="a\"b", data_x_=True), class_="c'd", on_click_=jsx("() => 1"), style="a:b;c:d", x_y_=None, z=False, n=5)))
show("jsx attrs", lambda: dict(Foo(a_b_=1, c__=2, _d=3).attrs))
j = JSXTag("Bar", a_=1)
j.attrs["b_c_"] = [1, "x\"y"]
j.attrs.update({"d_e": {"k": None}}, f_g_=True)
show("jsx attrs after", lambda: (dict(j.attrs), str(j)))
