"""Probe for HTMLTextDocument.render: how the dependency markup is put into the text."""
import itertools
from htmltools import HTML, Tag, TagList, HTMLDependency, HTMLTextDocument, div, tags, head_content


def show(label, fn):
    try:
        out = fn()
        print(label, "=>", type(out).__name__, repr(out))
    except BaseException as e:  # noqa
        print(label, "=> EXC", type(e).__name__)


def dep(name="foo", version="1.0.0", **kw):
    kw.setdefault("source", {"subdir": "sub dir/" + name})
    return HTMLDependency(name, version, **kw)


D_SCRIPT = dep("foo", script={"src": "a&b.js"})
D_CSS = dep("bar<&>", "2.1", stylesheet={"href": "s'\".css"})
D_HEAD_STR = dep("h1", "0.1", head="<meta name='x' content=\"<&>\">")
D_HEAD_HTML = dep("h2", "0.2", head=HTML("<script>if (a<b && c>d) {}</script>"))
D_HEAD_TAG = dep("h3", "0.3", head=tags.script("if (a<b && c>d) { '</x>' }"))
D_HEAD_LIST = dep("h4", "0.4", head=TagList(tags.style("a > b { c: '&' }"), "t<x", HTML("<!-- c & d -->")))
D_META = dep("m", "3", meta={"name": "viewport", "content": "a&b<c>"})
D_MULTI = dep("multi", "9", script=[{"src": "1.js"}, {"src": "2.js", "defer": ""}], stylesheet=[{"href": "1.css"}])
D_BACKSL = dep("bs", "1", head=HTML(r"<script>x = '\1 \g<0> \\ & $1';</script>"))
ALL = [D_SCRIPT, D_CSS, D_HEAD_STR, D_HEAD_HTML, D_HEAD_TAG, D_HEAD_LIST, D_META, D_MULTI, D_BACKSL]

TEMPLATES = [
    '<html><head><meta data-foo=""></head><body></body></html>',
    '<html><head><meta data-foo=""><meta data-foo=""></head><body><meta data-foo=""></body></html>',
    '<html><head></head><body>no placeholder</body></html>',
    '',
    '<meta data-foo="">',
    'x<meta data-foo="">',
    '<meta data-foo="">y',
    '<html><head>&amp; &lt;kept&gt; <meta data-foo=""> é \\1 </head></html>',
    'line1\r\n<meta data-foo="">\nline3',
]
PATTERNS = ['<meta data-foo="">', "", "<head>", "nomatch", "<", "\\1", "é", ".*", "\n"]


def render(doc, **kw):
    r = doc.render(**kw)
    return (r["html"], [(d.name, str(d.version)) for d in r["dependencies"]])


# 1. every template x pattern, with 0, 1 and all dependencies
for (ti, t), (pi, p) in itertools.product(enumerate(TEMPLATES), enumerate(PATTERNS)):
    show(f"t{ti} p{pi} nodeps", lambda: render(HTMLTextDocument(t, deps=[], deps_replace_pattern=p)))
    show(f"t{ti} p{pi} one", lambda: render(HTMLTextDocument(t, deps=[D_HEAD_HTML], deps_replace_pattern=p)))
    show(f"t{ti} p{pi} all", lambda: render(HTMLTextDocument(t, deps=list(ALL), deps_replace_pattern=p)))

# 2. each dependency alone, with the rendering options
for i, d in enumerate(ALL):
    for lp, iv in itertools.product(["lib", None, "", "my lib/<&>"], [True, False]):
        show(
            f"dep{i} lib_prefix={lp!r} include_version={iv}",
            lambda: render(HTMLTextDocument(TEMPLATES[0], deps=[d], deps_replace_pattern=PATTERNS[0]), lib_prefix=lp, include_version=iv),
        )

# 3. dependencies serialised inside the text are extracted and rendered too (not deduplicated)
body = str(
    div(
        "hello<",
        D_HEAD_TAG.serialize_to_script_json(),
        HTML("<b>raw & kept</b>"),
        D_SCRIPT.serialize_to_script_json(),
        D_HEAD_TAG.serialize_to_script_json(),
        D_BACKSL.serialize_to_script_json(indent=2),
    )
)
for pi, p in enumerate(PATTERNS):
    show(f"embedded p{pi}", lambda: render(HTMLTextDocument("<head><meta data-foo=\"\"></head>" + body, deps_replace_pattern=p)))
    show(
        f"embedded+given p{pi}",
        lambda: render(HTMLTextDocument("<head><meta data-foo=\"\"></head>" + body, deps=[D_SCRIPT, D_CSS], deps_replace_pattern=p)),
    )

# 4. the pattern appears inside the dependency markup itself: only one substitution is made
D_SELF = dep("self", "1", head=HTML('<meta data-foo=""><!-- <meta data-foo=""> -->'))
show("self-referential", lambda: render(HTMLTextDocument(TEMPLATES[1], deps=[D_SELF], deps_replace_pattern=PATTERNS[0])))

# 5. rendering twice gives the same thing, and returns copies of the dependencies
def twice():
    deps = [D_SCRIPT, D_HEAD_LIST]
    doc = HTMLTextDocument(TEMPLATES[0], deps=deps, deps_replace_pattern=PATTERNS[0])
    r1 = doc.render()
    r2 = doc.render(lib_prefix=None)
    return (
        r1["html"] == doc.render()["html"],
        r1["html"] == r2["html"],
        r1["dependencies"] == deps,
        r1["dependencies"] is deps,
        [a is b for a, b in zip(r1["dependencies"], deps)],
        doc._html,
        len(doc._deps),
        sorted(r1.keys()),
    )


show("twice", twice)

# 6. bad / unusual arguments
show("deps without pattern", lambda: HTMLTextDocument("<html></html>", deps=[D_SCRIPT]))
show("no deps no pattern", lambda: render(HTMLTextDocument("<html></html>")))
show("no deps, pattern", lambda: render(HTMLTextDocument("<html>X</html>", deps_replace_pattern="X")))
show("embedded, no pattern", lambda: render(HTMLTextDocument(body)))
show("pattern int", lambda: render(HTMLTextDocument("<html>5</html>", deps=[D_SCRIPT], deps_replace_pattern=5)))
show("pattern bytes", lambda: render(HTMLTextDocument("<html>5</html>", deps=[], deps_replace_pattern=b"5")))
show("pattern HTML", lambda: render(HTMLTextDocument("<html>5</html>", deps=[D_SCRIPT], deps_replace_pattern=HTML("5"))))
show("html None", lambda: HTMLTextDocument(None, deps_replace_pattern="x"))
show("html HTML()", lambda: HTMLTextDocument(HTML("<html>x</html>"), deps_replace_pattern="x"))
show("html bytes", lambda: HTMLTextDocument(b"<html>x</html>", deps_replace_pattern="x"))
show("deps tuple", lambda: HTMLTextDocument("<html>x</html>", deps=(D_SCRIPT,), deps_replace_pattern="x"))
show("deps not deps", lambda: render(HTMLTextDocument("<html>x</html>", deps=["str"], deps_replace_pattern="x")))
show("positional opts", lambda: HTMLTextDocument("x", deps_replace_pattern="x").render("lib"))
show("lib_prefix int", lambda: render(HTMLTextDocument("x", deps=[D_SCRIPT], deps_replace_pattern="x"), lib_prefix=3))


class StrSub(str):
    pass


def strsub():
    r = HTMLTextDocument(StrSub("<a>X</a>"), deps=[D_META], deps_replace_pattern=StrSub("X")).render()
    r2 = HTMLTextDocument(StrSub("<a>X</a>"), deps=[D_META], deps_replace_pattern=StrSub("Y")).render()
    return (type(r["html"]).__name__, r["html"], type(r2["html"]).__name__, r2["html"])


show("str subclasses", strsub)


def poked():
    doc = HTMLTextDocument("<a>X</a>", deps=[D_META], deps_replace_pattern="X")
    doc._html = HTML("<b>X&X</b>")
    r = doc.render()
    return (type(r["html"]).__name__, str(r["html"]))


show("poked _html HTML", poked)


def poked2():
    doc = HTMLTextDocument("<a>X</a>", deps=[D_META], deps_replace_pattern="X")
    doc._deps = None
    return doc.render()


show("poked _deps None", poked2)


def showmsg(label, fn):
    try:
        fn()
        print(label, "=> no exception")
    except BaseException as e:  # noqa
        print(label, "=> EXC", type(e).__name__, str(e))


# 7. the messages of the errors raised by the splicing step itself
showmsg("msg: no pattern", lambda: HTMLTextDocument("<html></html>").render())
showmsg("msg: int pattern", lambda: HTMLTextDocument("<html></html>", deps=[], deps_replace_pattern=5).render())
showmsg("msg: bytes pattern", lambda: HTMLTextDocument("<html></html>", deps=[D_SCRIPT], deps_replace_pattern=b"x").render())
