# Probe for refactoring 2: Tag/TagList render(), save_html(), __str__ (via
# _render_tag_or_taglist) in both dependency render modes.
import os
import tempfile

import htmltools
from htmltools import HTML, HTMLDependency, Tag, TagList, div, span, tags, a, p, strong


class Rep:
    def __init__(self, s):
        self.s = s

    def _repr_html_(self):
        return self.s


class Tgf:
    def __init__(self, out):
        self.out = out

    def tagify(self):
        return self.out


class Lazy:
    """tagify() returns something that is still only Tagifiable."""

    def tagify(self):
        return Lazy()


class MyTag(Tag):
    def tagify(self):
        cp = super().tagify()
        cp.children.append(span("added-by-subclass"))
        return cp


class MyList(TagList):
    def get_html_string(self, *args, **kwargs):
        return "[" + super().get_html_string(*args, **kwargs) + "]"


def show(label, fn):
    try:
        out = fn()
        print(label, "->", type(out).__name__, repr(out))
    except Exception as e:  # noqa: BLE001
        print(label, "-> EXC", type(e).__name__, str(e))


import contextlib
import shutil


@contextlib.contextmanager
def fixed_dir(name):
    # A fixed path (not a random temp name) so that output is deterministic.
    d = os.path.join(tempfile.gettempdir(), name)
    shutil.rmtree(d, ignore_errors=True)
    os.makedirs(d)
    try:
        yield d
    finally:
        shutil.rmtree(d, ignore_errors=True)


with fixed_dir("c05_probe2_src") as srcdir:
    open(os.path.join(srcdir, "a.js"), "w").write("// a")
    open(os.path.join(srcdir, "b.css"), "w").write("/* b */")
    dep1 = HTMLDependency(
        "dep1", "1.0", source={"subdir": srcdir}, script={"src": "a.js"},
        stylesheet={"href": "b.css"},
    )
    dep1b = HTMLDependency("dep1", "2.0", source={"subdir": srcdir}, script={"src": "a.js"})
    dep2 = HTMLDependency("dep2", "0.1", head=span("in-head", strong("x")))
    dep3 = HTMLDependency("dep3", "0.1", head="<meta name='k'>")

    objs = [
        span("a"),
        span(),
        div(),
        div("a"),
        a("x", strong("y"), "z", href="#"),
        div(span("a"), span("b"), "c"),
        div(div(span("in"), "line"), p("x", Rep("<u>r</u>"))),
        span(dep1, "t", span(dep1b)),
        div(dep2, span("q", dep3), dep1),
        div(Tgf(span("from-tagify")), Tgf(TagList("l1", span("l2"))), Tgf("plain<"), Tgf(HTML("<raw>"))),
        span(Tgf(div("block-in-inline"))),
        MyTag("sub", "c", _add_ws=False),
        MyTag("subb", span("c"), _add_ws=True),
        TagList(),
        TagList("only text"),
        TagList(span("a"), span("b")),
        TagList(div("a"), span("b"), "c", dep1, span(dep2)),
        TagList(Tgf(TagList(span("x"), Tgf(span("nested"))))),
        MyList(span("a"), "b"),
        TagList(dep1, dep1b, dep2),
        tags.html(tags.head(tags.title("t")), tags.body(span("b"), dep1)),
        tags.body(span("b"), "c"),
        div(Lazy()),
        TagList(Lazy()),
    ]

    def norm_render(r):
        return (type(r).__name__, sorted(r.keys()), repr(r["html"]), [repr(d) for d in r["dependencies"]])

    for mode in ("html", "json"):
        htmltools.html_dependency_render_mode = mode
        print("==== mode", mode)
        for i, o in enumerate(objs):
            show(f"[{i}] render", lambda: norm_render(o.render()))
            show(f"[{i}] str", lambda: str(o))
            show(f"[{i}] repr", lambda: repr(o))
            show(f"[{i}] _repr_html_", lambda: o._repr_html_())
            show(f"[{i}] in div", lambda: str(div(o)))
            show(f"[{i}] in span", lambda: str(span("<", o, ">")))
    htmltools.html_dependency_render_mode = "html"

    # render() returns fresh structures each time and does not alter the object
    t = div(span("a", dep1), Tgf(span("b")))
    r1 = t.render()
    r2 = t.render()
    print("fresh dict", r1 is not r2, r1 == r2, r1["dependencies"] is not r2["dependencies"])
    print("unchanged", len(t.children), type(t.children[1]).__name__)

    print("==== save_html")
    with fixed_dir("c05_probe2_out") as outdir:

        def save(o, name, **kw):
            path = os.path.join(outdir, name)
            ret = o.save_html(path, **kw)
            listing = sorted(
                os.path.relpath(os.path.join(dp, f), outdir)
                for dp, _, fs in os.walk(outdir)
                for f in fs
            )
            return (ret == path, open(path).read(), listing)

        for i, o in enumerate(objs):
            show(f"[{i}] save default", lambda: save(o, f"o{i}.html"))
        show("libdir=None", lambda: save(objs[7], "n1.html", libdir=None))
        show("libdir=deps noversion", lambda: save(objs[8], "n2.html", libdir="deps", include_version=False))
        show("taglist libdir", lambda: save(objs[16], "n3.html", libdir="L2"))
        show("taglist noversion", lambda: save(objs[16], "n4.html", include_version=False))
        show("positional libdir tag", lambda: span("x").save_html(os.path.join(outdir, "p.html"), "lib"))
        show("positional libdir tl", lambda: TagList("x").save_html(os.path.join(outdir, "p.html"), "lib"))
        show("bad kw tag", lambda: span("x").save_html(os.path.join(outdir, "p.html"), foo=1))
        show("bad kw tl", lambda: TagList("x").save_html(os.path.join(outdir, "p.html"), foo=1))
        show("missing dir tag", lambda: save(span("x"), "no/such/dir/x.html"))
        show("missing dir tl", lambda: save(TagList("x"), "no/such/dir/x.html"))
        show("no file arg tag", lambda: span("x").save_html())
        show("no file arg tl", lambda: TagList("x").save_html())
