# Probe for refactoring 1: flatten / _flatten_recurse in htmltools/_util.py
from collections import UserList

from htmltools import HTML, TagList, div, span, head_content, HTMLDependency
from htmltools._util import flatten


def show(label, fn):
    try:
        print(label, "->", repr(fn()))
    except BaseException as e:  # noqa: BLE001
        msg = "" if isinstance(e, RecursionError) else str(e)[:100]
        print(label, "-> EXC", type(e).__name__, msg)


class MyList(list):
    pass


class MyUL(UserList):
    pass


log = []


def gen():
    for i in range(4):
        log.append(("yield", i))
        yield i if i != 2 else None
    log.append("done")


def nested_gen():
    yield [1, (2, None, [3, TagList("a", None, 4.5)])]
    yield None
    yield (x for x in "ab")  # generators are NOT expanded


show("empty", lambda: flatten([]))
show("empty tuple", lambda: flatten(()))
show("none only", lambda: flatten([None, None, [None, (None,)]]))
show("flat", lambda: flatten([1, "a", 2.5, None, True, False, 0, ""]))
show("nested", lambda: flatten([1, [2, [3, [4, (5, (6, [None, 7]))]]]]))
show("taglist", lambda: flatten([TagList(1, "x", TagList(None, 2)), "y"]))
show("taglist top", lambda: flatten(TagList("a", [1, 2], None)))
show("list subclass", lambda: flatten([MyList([1, None, MyList([2])])]))
show("userlist not expanded", lambda: [type(i).__name__ for i in flatten([MyUL([1, 2])])])
show("dict iter", lambda: flatten({"k": 1, "j": [2]}))
show("dict item", lambda: flatten([{"k": [1]}]))
show("set item kept", lambda: [type(i).__name__ for i in flatten([frozenset([1])])])
show("string top", lambda: flatten("abc"))
show("string items", lambda: flatten(["abc", ["de", ("f",)]]))
show("gen top", lambda: flatten(gen()))
print("log", log)
show("nested gen", lambda: [type(i).__name__ for i in flatten(nested_gen())])
show("non iterable", lambda: flatten(5))
show("none top", lambda: flatten(None))
show("tag children", lambda: flatten([div("a", span("b")), [div()]]))
show("tag top (iter over Tag?)", lambda: flatten(div("a")))
show("html", lambda: flatten([HTML("<b>"), [HTML("x")]]))
r1 = flatten([[1], [2]])
r2 = flatten([[1], [2]])
print("fresh result", r1 is not r2, r1 == r2)
src = [1, [2, None]]
flatten(src)
print("input untouched", src)


def bad_iter():
    yield 1
    yield [2, 3]
    raise ValueError("boom")


show("raising iterable", lambda: flatten(bad_iter()))
deep = []
cur = deep
for _ in range(50):
    nxt = []
    cur.append("v")
    cur.append(nxt)
    cur = nxt
show("deep 50", lambda: len(flatten(deep)))
cyc = [1]
cyc.append(cyc)
show("cyclic", lambda: flatten(cyc))

# via TagList / Tag / head_content
show("TagList mix", lambda: list(TagList(1, None, [2.5, ("a", [None, span("z")])], TagList("q"))))
show("TagList bad", lambda: TagList(1, [object()]))
show("div children", lambda: str(div([1, [2, [None, "x"]]], None, TagList("y", [3]))))
show("head_content name", lambda: head_content([["a"], None], ("b",)).name)
show("head_content same", lambda: head_content("a", "b").name)
tl = TagList()
tl.extend([None, [1, (2,)], TagList("z")])
tl.append(None, [[["deep"]]])
tl.insert(0, [9, [8]])
print("mutations", list(tl))
