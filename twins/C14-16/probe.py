# Probe for refactoring 1: htmltools._util.flatten / _flatten_recurse
import sys
from htmltools import TagList, Tag, div, span, HTML, HTMLDependency
from htmltools._util import flatten
import htmltools._util as U


def show(label, fn):
    try:
        r = fn()
        print(label, "->", type(r).__name__, repr(r))
    except BaseException as e:  # noqa
        print(label, "!!", type(e).__name__, str(e)[:120])


class Log(list):
    """List subclass that records the order in which it is iterated."""

    log = []

    def __init__(self, name, items):
        super().__init__(items)
        self.name = name

    def __iter__(self):
        Log.log.append("iter:" + self.name)
        for it in list.__iter__(self):
            Log.log.append("next:" + self.name + ":" + type(it).__name__)
            yield it
        Log.log.append("done:" + self.name)


class MyList(list):
    pass


class MyTuple(tuple):
    pass


class MyTL(TagList):
    pass


def gen(n):
    for i in range(n):
        yield [i, (i, None)]


cases = [
    ("empty", lambda: flatten([])),
    ("empty-tuple", lambda: flatten(())),
    ("nested-empty", lambda: flatten([[], (), [[[]]], TagList()])),
    ("nones", lambda: flatten([None, [None, (None,)], None])),
    ("mixed", lambda: flatten([1, [2], ["3", [4, None, 5, div(div()), div()]]])),
    ("tuple-top", lambda: flatten((1, (2, [3.5, "x"]), None, "abc"))),
    ("string-top", lambda: flatten("abc")),
    ("string-nested", lambda: flatten(["abc", ["de", ("f",)]])),
    ("taglist", lambda: flatten([1, [TagList("2", [3, None]), 3], 4])),
    ("taglist-top", lambda: flatten(TagList("a", 1, div()))),
    ("subclasses", lambda: flatten([MyList([1, MyTuple((2, None))]), MyTL("z", 9)])),
    ("generator-top", lambda: flatten(gen(3))),
    ("generator-nested-kept", lambda: [type(v).__name__ for v in flatten([gen(2), range(2)])]),
    ("dict-kept", lambda: flatten([{"a": 1}, [{"b": [1]}]])),
    ("set-kept", lambda: flatten([frozenset([1]), [b"xy", bytearray(b"z")]])),
    ("dict-top", lambda: flatten({"k": 1, "j": [2]})),
    ("bools", lambda: flatten([True, [False, 0, 0.0, ""]])),
    ("not-iterable", lambda: flatten(5)),
    ("none-top", lambda: flatten(None)),
    ("deep-50", lambda: flatten(eval("[" * 50 + "1" + "]" * 50))),
]
for label, fn in cases:
    show(label, fn)

# does not alter its input, and result is a fresh list
x = [1, [2, None], (3, [4])]
before = repr(x)
r = flatten(x)
print("input-unchanged", repr(x) == before, r is x, r)
y = [7]
r2 = flatten(y)
r2.append(8)
print("fresh", y, r2)

# order of iteration side effects
Log.log = []
inner = Log("inner", [1, None, [2, (3,)]])
show("log-iterable", lambda: flatten(Log("outer", [0, [inner, 5], (6, [None, 7])])))
print(Log.log)


# exception half-way through iteration
def boom():
    yield 1
    yield [2, 3]
    raise ValueError("half-way")


show("exception-midway", lambda: flatten(boom()))
show("exception-nested", lambda: [type(v).__name__ for v in flatten([0, [1, (2, MyList([3]))], boom()])])


class BadIter(list):
    def __iter__(self):
        raise KeyError("bad iter")


show("bad-iter", lambda: flatten([1, BadIter([1, 2])]))

# very deep nesting / self reference -> RecursionError in both
deep = []
cur = deep
for _ in range(100000):
    nxt = []
    cur.append(nxt)
    cur = nxt
show("too-deep", lambda: flatten(deep))
a = [1]
a.append(a)
show("self-ref", lambda: flatten(a))

# through the public API
show("TagList", lambda: list(TagList(1, [2, (None, "x", TagList(3.5, div()))])))
show("div", lambda: list(div(1, [2, (None, "x")], {"id": "a"}).children))
