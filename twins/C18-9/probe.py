"""Probe for refactoring 4: HTMLDependency.as_html_tags / as_dict."""
from htmltools import (
    HTML,
    HTMLDependency,
    HTMLDocument,
    TagList,
    div,
    head_content,
    tags,
)


def show(label, fn):
    try:
        res = fn()
    except BaseException as e:  # noqa: BLE001
        print(label, "-> EXC", type(e).__name__, str(e)[:100])
    else:
        print(label, "->", repr(res))


def taglist_desc(tl):
    return (type(tl).__name__, [type(c).__name__ + ":" + getattr(c, "name", "") for c in tl], tl.get_html_string())


deps = {
    "bare": HTMLDependency("bare", "1"),
    "script only": HTMLDependency("s", "1.2.3", source={"subdir": "d"}, script={"src": "s.js"}),
    "all": HTMLDependency(
        "all",
        "2.0",
        source={"href": "https://cdn.org/all/"},
        script=[{"src": "a b.js", "defer": "", "type": "module"}, {"src": "sub/c.js"}],
        stylesheet=[{"href": "x y.css"}, {"href": "p.css", "rel": "preload", "media": "print"}],
        meta=[{"name": "viewport", "content": "width=device-width"}, {"name": "k", "content": "<&\">"}],
        head=TagList(tags.title("H"), "text & more", HTML("<!-- c -->")),
    ),
    "head str": HTMLDependency("hs", "0", head="<link rel='x'>"),
    "head tag": HTMLDependency("ht", "0", head=tags.title("t")),
    "head empty": HTMLDependency("he", "0", head=TagList()),
    "head nested dep": HTMLDependency("hn", "0", head=TagList(tags.title("t"), HTMLDependency("inner", "1"))),
    "head_content": head_content(tags.title("T"), tags.meta(name="a", content="b")),
    "meta only": HTMLDependency("m", "1", meta={"name": "n", "content": "c", "http-equiv": "e"}),
    "subdir+package": HTMLDependency(
        "pk", "1.0", source={"package": "htmltools", "subdir": "lib/x"}, script={"src": "p.js"}, stylesheet={"href": "p.css"}
    ),
    "underscore attrs": HTMLDependency("u", "1", script={"src": "u.js", "data_x": "1", "class_": "c"}),
}
kws = [{}, {"lib_prefix": None}, {"lib_prefix": "libs/", "include_version": False}, {"lib_prefix": ""}]
for label, d in deps.items():
    for kw in kws:
        show("as_html_tags %s %r" % (label, kw), lambda: taglist_desc(d.as_html_tags(**kw)))
    for kw in kws[:2]:
        show("as_dict %s %r" % (label, kw), lambda: d.as_dict(**kw))
        show("as_dict key order %s" % label, lambda: list(d.as_dict(**kw)))
    show("str %s" % label, lambda: str(d))
    show("json %s" % label, lambda: str(d.serialize_to_script_json()))

# as_dict must not alias / mutate the dependency's own items
d = deps["all"]
snap = repr((d.script, d.stylesheet, d.meta))
r = d.as_dict()
r["script"][0]["src"] = "changed"
r["stylesheet"][0]["href"] = "changed"
print("not mutated:", repr((d.script, d.stylesheet, d.meta)) == snap)
print("meta aliased:", r["meta"] is d.meta)
print("head type:", type(r["head"]).__name__, type(deps["bare"].as_dict()["head"]).__name__)
t1 = d.as_html_tags()
t2 = d.as_html_tags()
print("fresh taglists:", t1 is not t2, t1 == t2)

# Error order: broken items after construction
bad = HTMLDependency("bad", "1", script={"src": "ok.js"}, stylesheet={"href": "ok.css"}, meta={"name": "n", "content": "c"})
bad.meta = [{"name": "n", "content": "c"}, 5]
show("bad meta item", lambda: bad.as_html_tags())
bad.meta = [{"_add_ws": "x", "name": "n"}]
show("odd meta item", lambda: bad.as_html_tags().get_html_string())
bad.meta = []
bad.script = [{"nosrc": "x"}]
show("bad script (as_dict)", lambda: bad.as_dict())
show("bad script (tags)", lambda: bad.as_html_tags())
bad.script = []
bad.stylesheet = [{"href": 5}]
show("bad stylesheet", lambda: bad.as_html_tags())


class Sub(HTMLDependency):
    def as_dict(self, *, lib_prefix="lib", include_version=True):
        return {"meta": [{"name": "only"}], "stylesheet": []}


show("subclass missing key", lambda: Sub("sub", "1").as_html_tags())


class Sub2(HTMLDependency):
    def as_dict(self, *, lib_prefix="lib", include_version=True):
        return {"script": ({"src": "z"},), "meta": iter([{"name": "only"}]), "stylesheet": [], "extra": 1}


show("subclass iterables", lambda: Sub2("sub", "1", head="hd").as_html_tags().get_html_string())

# Whole documents
tree = div(deps["all"], deps["script only"], deps["head_content"], deps["head nested dep"], deps["bare"])
for kw in kws[:3]:
    show("doc %r" % kw, lambda: HTMLDocument(tree).render(**kw)["html"])
