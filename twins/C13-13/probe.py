# Probe for refactoring 3: HTMLDependency.serialize_to_script_json / as_dict.
import json
from packaging.version import Version
import htmltools
from htmltools import HTML, HTMLDependency, HTMLTextDocument, Tag, TagList, div, tags, head_content


def show(label, fn):
    try:
        r = fn()
    except Exception as e:  # noqa: BLE001
        print(label, "-> EXC", type(e).__name__, str(e)[:160])
    else:
        print(label, "->", repr(r))


OPEN = '<script type="application/json" data-html-dependency="">'


def mk():
    return {
        "minimal": HTMLDependency("a", "1.0"),
        "version_obj": HTMLDependency("a", Version("1.0.0rc1")),
        "subdir": HTMLDependency("a", "1.0", source={"subdir": "libtest"}, script={"src": "a.js"}),
        "package": HTMLDependency("p", "01.2", source={"package": "htmltools", "subdir": "libtest/testdep"},
                                  script=[{"src": "testdep.js"}], stylesheet={"href": "testdep.css"}, all_files=True),
        "href": HTMLDependency("h", "3", source={"href": "https://cdn/x"}, script={"src": "a b.js", "async": ""},
                               stylesheet=[{"href": "é.css", "media": "print"}, {"href": "q.css", "rel": "preload", "as": "style"}]),
        "nasty": HTMLDependency(
            "</script>", "2.1.3",
            source={"href": "</SCRIPT >"},
            script=[{"src": "</ScRiPt/>.js"}, {"src": "<!--<script>"}],
            stylesheet=[{"href": "</"}, {"href": "<\\/script>"}],
            meta=[{"name": "</script", "content": "</sCRIPT\t>\n\r  </ </x"}],
            head="</script><script>'</script>'</script>",
        ),
        "head_str_empty": HTMLDependency("e", "1", head=""),
        "head_taglist_empty": HTMLDependency("e", "1", head=TagList()),
        "head_tag": HTMLDependency("t", "1", head=tags.title("a < b & c")),
        "head_taglist": HTMLDependency("t", "1", head=TagList(tags.meta(name="x"), "txt <", HTML("<b>raw</b>"), tags.style("a>b{}"))),
        "head_nested_dep": HTMLDependency("t", "1", head=TagList(tags.link(href="x"), HTMLDependency("inner", "1"))),
        "head_list": HTMLDependency("t", "1", head=[tags.meta(name="x"), [tags.meta(name="y"), None, 3]]),
        "head_content": head_content(tags.script("1 </ 2"), "plain"),
        "unicode": HTMLDependency("ü\U0001F600", "1", meta={"name": "ñ", "content": "\u0000\x7f\"\\"}),
    }


deps = mk()
for name, d in deps.items():
    for indent in ("default", None, 0, 2, "\t"):
        def f():
            t = d.serialize_to_script_json() if indent == "default" else d.serialize_to_script_json(indent)
            s = t.get_html_string()
            assert s.startswith(OPEN) and s.endswith("</script>")
            inner = s[len(OPEN):-len("</script>")]
            return (t.name, dict(t.attrs), len(t.children), type(t.children[0]).__name__, s,
                    "</script" in inner.lower(), "</" in inner, json.loads(inner))
        show(f"ser[{name}][indent={indent!r}]", f)
    show(f"ser-kw[{name}]", lambda: str(d.serialize_to_script_json(indent=1)))
    for kw in (dict(), dict(lib_prefix=None), dict(lib_prefix="L/x", include_version=False)):
        show(f"as_dict[{name}]{kw}", lambda: d.as_dict(**kw))
        show(f"as_html_tags[{name}]{kw}", lambda: d.as_html_tags(**kw).get_html_string())
    # round trip
    def rt():
        s = d.serialize_to_script_json().get_html_string()
        doc = HTMLTextDocument("<head>@</head>" + s + s + "tail", deps=[], deps_replace_pattern="@")
        (back,) = doc._deps
        return (back == d, doc._html, back.head == d.head,
                None if back.head is None else back.head.get_html_string(),
                doc.render()["html"])
    show(f"roundtrip[{name}]", rt)

# serialisation does not mutate the dependency, and dict values are shared, not copied
d = deps["href"]
before = (d.script, d.stylesheet, d.meta, d.source)
import copy
snap = copy.deepcopy(before)
d.serialize_to_script_json()
d.as_dict()
print("unmutated:", snap == (d.script, d.stylesheet, d.meta, d.source))

# attributes tampered with after construction
def tamper(**kw):
    x = HTMLDependency("t", "1.0", script={"src": "s.js"}, head=tags.title("T"))
    for k, v in kw.items():
        setattr(x, k, v)
    return x

cases = {
    "head_as_tag": dict(head=tags.title("direct tag")),
    "head_as_str": dict(head="<raw & str>"),
    "head_as_html": dict(head=HTML("<raw & html>")),
    "head_as_int": dict(head=0),
    "head_as_false": dict(head=False),
    "head_as_object": dict(head=object()),
    "version_str": dict(version="9.9"),
    "version_none": dict(version=None),
    "source_set": dict(source={1, 2}),
    "script_tuple": dict(script=({"src": "x"},)),
    "meta_unserialisable": dict(meta=[{"name": b"x", "content": "y"}]),
    "name_nonstr_key": dict(source={("a",): 1, "subdir": "s"}),
    "all_files_int": dict(all_files=2),
    "nan": dict(all_files=float("nan")),
}
for name, kw in cases.items():
    show(f"tamper-ser[{name}]", lambda: tamper(**kw).serialize_to_script_json().get_html_string())
    show(f"tamper-as_dict[{name}]", lambda: tamper(**kw).as_dict())

def deleted(attr):
    x = tamper()
    delattr(x, attr)
    return x
for attr in ["name", "version", "source", "script", "stylesheet", "meta", "all_files", "head"]:
    show(f"deleted-ser[{attr}]", lambda: deleted(attr).serialize_to_script_json().get_html_string())
    show(f"deleted-as_dict[{attr}]", lambda: deleted(attr).as_dict())

# several missing at once: which error comes first
def deleted2(*attrs):
    x = tamper()
    for a in attrs:
        delattr(x, a)
    return x
show("deleted head+name", lambda: deleted2("head", "name").serialize_to_script_json())
show("deleted head+all_files", lambda: deleted2("head", "all_files").serialize_to_script_json())
class BadStr:
    def __str__(self):
        raise RuntimeError("version str")
show("bad version + bad head", lambda: tamper(version=BadStr(), head=object()).serialize_to_script_json())
show("bad version + bad head as_dict", lambda: tamper(version=BadStr(), head=object()).as_dict())

# json render mode: str() of tags embeds serialised deps
htmltools.html_dependency_render_mode = "json"
try:
    for name, d in mk().items():
        show(f"json-mode str[{name}]", lambda: str(div("x", d)))
        show(f"json-mode taglist[{name}]", lambda: str(TagList(d, d, "y")))
finally:
    htmltools.html_dependency_render_mode = "invisible"
print("instance dict keys:", sorted(vars(deps["minimal"]).keys()))
print("eq:", deps["minimal"] == HTMLDependency("a", "1.0"), deps["minimal"] == deps["subdir"])
