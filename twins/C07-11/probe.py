"""Probe for refactoring 1: shared __copy__ implementation (Tag, HTMLDocument, JSXTag)."""
import copy

from htmltools import (
    HTML,
    HTMLDependency,
    HTMLDocument,
    MetadataNode,
    Tag,
    TagList,
    div,
    span,
    tags,
)
from htmltools._jsx import JSXTag, jsx


class Meta(MetadataNode):
    def __init__(self, label):
        self.label = label

    def __repr__(self):
        return f"Meta({self.label!r})"


class CopyCounting(MetadataNode):
    copies = 0

    def __copy__(self):
        CopyCounting.copies += 1
        return CopyCounting()

    def __repr__(self):
        return "CopyCounting()"


def dep(name="a", version="1.0"):
    return HTMLDependency(name, version, source={"href": "/x"}, script={"src": "a.js"})


def show(label, value):
    print(f"{label}: {value!r}")


def describe(t):
    return (
        type(t).__name__,
        sorted(t.__dict__.keys()),
        str(t),
        [type(c).__name__ for c in getattr(t, "children", [])],
    )


class MyTag(Tag):
    def __init__(self, *args, **kwargs):
        super().__init__("my-tag", *args, **kwargs)
        self.extra = ["x", Meta("extra")]
        self.flag = None


trees = {
    "empty": div(),
    "void": tags.br(Meta("m")),
    "void_dep": tags.img(dep(), src="a.png"),
    "text_meta": div(Meta(1), "text", Meta(2)),
    "nested": div(dep(), span("a", dep("b")), Meta("z"), "tail", HTML("<b>x</b>"), id="q"),
    "inline": span(Meta("m"), span("a"), "b", _add_ws=False),
    "subclass": MyTag(Meta("m"), "txt", class_="k"),
    "script": tags.script(Meta("s"), "if (a < b) {}"),
}

for name, t in trees.items():
    cp = copy.copy(t)
    show(f"{name}/type-same", type(cp) is type(t))
    show(f"{name}/not-same-object", cp is not t)
    show(f"{name}/describe-orig", describe(t))
    show(f"{name}/describe-copy", describe(cp))
    show(f"{name}/eq", cp == t)
    show(f"{name}/children-distinct", cp.children is not t.children)
    show(f"{name}/attrs-distinct", cp.attrs is not t.attrs)
    show(
        f"{name}/child-identity",
        [a is b for a, b in zip(cp.children, t.children)],
    )
    # Mutating the copy leaves the original alone
    cp.append(Meta("added"), "more")
    cp.attrs["data-x"] = "1"
    cp.children.insert(0, dep("front"))
    show(f"{name}/orig-after-mutation", str(t))
    show(f"{name}/copy-after-mutation", str(cp))
    show(f"{name}/orig-deps", t.get_dependencies())
    show(f"{name}/copy-deps", cp.get_dependencies())
    show(f"{name}/orig-render", t.render())
    show(f"{name}/copy-render", cp.render())
    tg = t.tagify()
    show(f"{name}/tagify-eq", tg == t)
    show(
        f"{name}/tagify-meta-copied",
        [
            (a is b, isinstance(a, MetadataNode))
            for a, b in zip(tg.children, t.children)
        ],
    )

sub = trees["subclass"]
cp = copy.copy(sub)
show("subclass/extra-distinct", cp.extra is not sub.extra)
show("subclass/extra-equal", cp.extra[0] == sub.extra[0] and cp.extra[1] is sub.extra[1])
show("subclass/flag", cp.flag)
show("subclass/prev_displayhook", cp.prev_displayhook)

# Custom __copy__ of metadata nodes is used once per node per tagify
t = div(CopyCounting(), span(CopyCounting()), CopyCounting())
CopyCounting.copies = 0
copy.copy(t)
show("counting/after-copy", CopyCounting.copies)
t.tagify()
show("counting/after-tagify", CopyCounting.copies)
show("counting/render", t.render())
show("counting/after-render", CopyCounting.copies)

# Context manager field is copied too
t = div("a")
with t:
    inner = copy.copy(t)
    show("ctx/inner-has-hook", inner.prev_displayhook is not None)
show("ctx/after", (t.prev_displayhook, str(t)))

# HTMLDocument
doc = HTMLDocument(div(dep(), "body text", Meta("m")), Meta("top"), dep("b", "2.0"), lang="en")
dcp = copy.copy(doc)
show("doc/type", type(dcp).__name__)
show("doc/fields", sorted(dcp.__dict__.keys()))
show("doc/content-distinct", dcp._content is not doc._content)
show("doc/attrs-distinct", dcp._html_attr_args is not doc._html_attr_args)
show("doc/attrs-equal", dcp._html_attr_args == doc._html_attr_args)
dcp.append(div("extra", dep("c", "3.0")))
dcp._html_attr_args["class"] = "k"
show("doc/orig-render", doc.render())
show("doc/copy-render", dcp.render())


class SubDoc(HTMLDocument):
    def __init__(self, *a, **k):
        super().__init__(*a, **k)
        self.note = {"k": [1, 2]}


sd = SubDoc("x", Meta("m"))
sdc = copy.copy(sd)
show("subdoc/type", type(sdc).__name__)
show("subdoc/note", (sdc.note, sdc.note is not sd.note, sdc.note["k"] is sd.note["k"]))
show("subdoc/render", sdc.render())

empty_doc = copy.copy(HTMLDocument())
show("emptydoc/render", empty_doc.render())

# JSXTag
Foo = lambda *a, **k: JSXTag("Foo", *a, **k)
j = Foo(Meta("jm"), div("x", dep("jd")), "s", a=1, b=jsx("fn()"), c=span("in attr", dep("attrdep")))
jc = copy.copy(j)
show("jsx/type", type(jc).__name__)
show("jsx/fields", sorted(jc.__dict__.keys()))
show("jsx/children-distinct", jc.children is not j.children)
show("jsx/attrs-distinct", jc.attrs is not j.attrs)
show("jsx/attrs-equal", dict(jc.attrs) == dict(j.attrs))
show("jsx/child-identity", [a is b for a, b in zip(jc.children, j.children)])
jc.append("more", Meta("later"))
jc.attrs["d"] = 2
show("jsx/orig", str(j))
show("jsx/copy", str(jc))
show("jsx/orig-deps", j.tagify().get_dependencies())
show("jsx/in-div", div(j, Meta("o")).render())
show("jsx/taglist", TagList(Meta("a"), j, Meta("b")).render())

# objects without instance dict entries beyond the basics / error type
try:
    copy.copy(Tag.__new__(Tag))
    show("bare-tag", "copied")
except Exception as e:
    show("bare-tag-error", type(e).__name__)
bare = copy.copy(Tag.__new__(Tag))
show("bare-tag-dict", bare.__dict__)
