"""Probe for refactoring 5: collecting dependencies (TagList.get_dependencies / Tag.get_dependencies)."""

from htmltools import (
    HTML,
    HTMLDependency,
    HTMLDocument,
    MetadataNode,
    Tag,
    TagList,
    div,
    head_content,
    span,
    tags,
)


def dep(name, version, tag=""):
    d = HTMLDependency(name, version)
    d.tag = tag
    return d


def show(deps):
    return [(d.name, str(d.version), getattr(d, "tag", None)) for d in deps]


def attempt(label, fn):
    try:
        print(label, "->", fn())
    except Exception as e:  # noqa: BLE001
        print(label, "-> EXC", type(e).__name__, str(e))


a1, a2, a10 = dep("a", "1", "a1"), dep("a", "2", "a2"), dep("a", "10", "a10")
b1, b1x = dep("b", "1.0", "b1"), dep("b", "1", "b1-second")
c3 = dep("c", "3", "c3")

trees = {
    "empty-taglist": TagList(),
    "empty-tag": div(),
    "no-deps": div("a", span("b"), HTML("<i>c</i>"), 3, None),
    "one-top": TagList(a1),
    "one-deep": div(span(div(span(a1)))),
    "levels-in-document-order": div(a2, span(b1, div(c3, a10), b1x), a1, TagList(c3, span(a2)), "txt"),
    "same-object-many-times": div(a1, span(a1), a1),
    "taglist-of-tags": TagList(div(a1), b1, span(a2, b1x), "s", HTML("<b>"), c3),
    "nested-taglists": TagList(TagList(a1, TagList(b1)), [a2, [c3, (b1x,)]]),
    "metadata-but-not-dependency": div(MetadataNode(), a1, MetadataNode()),
    "head-content": div(head_content(tags.title("t")), span(head_content(tags.title("t")), head_content("<x>")), a1),
    "in-attrs-not-collected": div({"class": "k"}, a1, id="i"),
}

for label, tree in trees.items():
    print(label)
    for kw in [{}, {"dedup": True}, {"dedup": False}, {"dedup": 0}, {"dedup": 1}, {"dedup": None}, {"dedup": "no"}]:
        res = tree.get_dependencies(**kw)
        print("   ", kw, type(res).__name__, show(res))
    nodedup = tree.get_dependencies(dedup=False)
    again = tree.get_dependencies(dedup=False)
    print("    fresh list each call", nodedup is not again, [x is y for x, y in zip(nodedup, again)])
    nodedup.append("junk")  # the returned list belongs to the caller
    print("    unaffected", show(tree.get_dependencies(dedup=False)))
    r = tree.render()
    print("    render", show(r["dependencies"]), repr(r["html"]))

# positional / keyword forms of the two entry points
t = div(a1, span(a2))
attempt("tag positional", lambda: show(t.get_dependencies(False)))
attempt("taglist positional", lambda: show(t.children.get_dependencies(False)))
attempt("taglist keyword", lambda: show(t.children.get_dependencies(dedup=False)))


# Tag subclasses that answer for themselves: the walk has to go through their method
class Custom(Tag):
    def get_dependencies(self, dedup=True):
        print("      Custom.get_dependencies called for", self.name, "dedup =", dedup)
        return [dep("custom", "1", self.name)] + super().get_dependencies(dedup=dedup)


class Gen(Tag):
    def get_dependencies(self, dedup=True):
        def g():
            print("      Gen start", self.name)
            yield dep("gen", "1", self.name)
            yield from self.children.get_dependencies(dedup=dedup)
            print("      Gen end", self.name)

        return g()


class Tup(Tag):
    def get_dependencies(self, dedup=True):
        return tuple(super().get_dependencies(dedup=dedup))


class Bad(Tag):
    def get_dependencies(self, dedup=True):
        return None


class Boom(Tag):
    def get_dependencies(self, dedup=True):
        raise RuntimeError("boom " + self.name)


tree = div(a1, Custom("c1", a2, Custom("c2", b1)), Gen("g1", c3, Gen("g2", a10)), Tup("t1", b1x, a1))
attempt("overrides dedup", lambda: show(tree.get_dependencies()))
attempt("overrides nodedup", lambda: show(tree.get_dependencies(dedup=False)))
attempt("overrides taglist", lambda: show(TagList(tree, tree).get_dependencies()))
attempt("override returns None", lambda: show(div(a1, Bad("bad")).get_dependencies()))
attempt("override raises", lambda: show(div(Custom("c1"), Boom("b1"), Custom("c3")).get_dependencies()))

# whole documents
doc = HTMLDocument(div(a2, span(b1, div(c3, a10), b1x), a1))
r = doc.render()
print("doc", show(r["dependencies"]))
print(r["html"])
doc = HTMLDocument(tags.html(tags.head(a1), tags.body(a10, div(a2))))
r = doc.render()
print("doc-html", show(r["dependencies"]))
print(r["html"])
