# Probe for refactoring 2: extraction of serialised dependencies from HTML text.
import json
import htmltools
from htmltools import HTML, HTMLDependency, HTMLTextDocument, TagList, div, tags


def show(label, fn):
    try:
        r = fn()
    except Exception as e:  # noqa: BLE001
        print(label, "-> EXC", type(e).__name__, str(e)[:160])
    else:
        print(label, "->", repr(r))


def dep_state(d):
    return (
        d.name, str(d.version), d.source, d.script, d.stylesheet, d.meta, d.all_files,
        None if d.head is None else d.head.get_html_string(),
    )


deps = [
    HTMLDependency("a", "1.0", source={"subdir": "libtest"}, script={"src": "a.js"}),
    HTMLDependency(
        "b </script><!--", "2.1.3",
        source={"href": "https://x.org/b?</ScRiPt >"},
        script=[{"src": "b 1.js", "defer": ""}, {"src": "</SCRIPT>.js", "type": "module"}],
        stylesheet=[{"href": "b.css"}, {"href": "c.css", "rel": "preload", "media": "print"}],
        meta={"name": "viewport", "content": "</script\n>\r\n  é \U0001F600"},
        head="<script>alert('</SCRIPT>')</script>\r\n<style>a{}</style>",
        all_files=True,
    ),
    HTMLDependency("c", "0.0.1", head=TagList(tags.title("T & t"), tags.script("if (a</b/) {}"))),
    HTMLDependency("a", "1.0", source={"subdir": "libtest"}, script={"src": "a.js"}),
    HTMLDependency("e", "3", source={"package": None, "subdir": "x\\y"}, meta=[]),
]


def ser(d, indent=None):
    return d.serialize_to_script_json(indent).get_html_string()


S = [ser(d) for d in deps]
S_ind = [ser(d, 2) for d in deps]
for i, s in enumerate(S + S_ind):
    inner = s[len('<script type="application/json" data-html-dependency="">'):-len("</script>")]
    print("ser", i, repr(s), "| inner has </script:", "</script" in inner.lower())

texts = {
    "empty": "",
    "plain": "<p>no deps here</p>",
    "single": "<p>" + S[0] + "</p>",
    "two_adjacent": S[0] + S[1],
    "all": "A" + S[0] + "B\n" + S[1] + "C" + S[2] + "D" + S[3] + "E" + S[4] + "F",
    "dup_identical": S[0] + "x" + S[3] + "y" + S[0] + S[1] + S[1],
    "indent_vs_flat": S[0] + S_ind[0] + S[0] + S_ind[0],
    "indent_all": "\n".join(S_ind),
    "reverse": "".join(reversed(S)),
    "other_scripts": '<script type="application/json">{"a":1}</script>' + S[2]
                     + '<script type="application/json" data-html-dependency>{"n":1}</script>'
                     + "<SCRIPT type=\"application/json\" data-html-dependency=\"\">{}</SCRIPT>",
    "unterminated": '<script type="application/json" data-html-dependency="">{"name": "q", "version": "1"}',
    "crlf_inside": '<script type="application/json" data-html-dependency="">{"name":\r\n "q",\n\r "version": "1"}</script>tail',
    "empty_script": 'x<script type="application/json" data-html-dependency=""></script>y',
    "not_json": 'x<script type="application/json" data-html-dependency="">not json</script>y',
    "json_list": 'x<script type="application/json" data-html-dependency="">[1, 2]</script>y',
    "json_missing": 'x<script type="application/json" data-html-dependency="">{"name": "n"}</script>y',
    "json_extra": 'x<script type="application/json" data-html-dependency="">{"name": "n", "version": "1", "bogus": 2}</script>y',
    "bad_second": S[0] + '<script type="application/json" data-html-dependency="">{bad</script>' + S[1],
    "bad_version": 'x<script type="application/json" data-html-dependency="">{"name": "n", "version": "not a version"}</script>y',
    "nested_open": '<script type="application/json" data-html-dependency=""><script type="application/json" data-html-dependency="">{"name": "n", "version": "1"}</script></script>',
}

for name, text in texts.items():
    def f():
        html, ds = HTMLTextDocument._static_extract_serialized_html_deps(text)
        return (html, [dep_state(d) for d in ds])
    show(f"static[{name}]", f)

    def g():
        doc = HTMLTextDocument(text)
        return (doc._html, [dep_state(d) for d in doc._deps])
    show(f"ctor[{name}]", g)

    def h():
        pre = [HTMLDependency("pre", "9.9", script={"src": "p.js"})]
        doc = HTMLTextDocument("<head>%%</head>" + text + "%%", deps=pre, deps_replace_pattern="%%")
        r = doc.render(lib_prefix="L")
        return (pre is doc._deps, len(pre), r["html"], [dep_state(d) for d in r["dependencies"]])
    show(f"render[{name}]", h)

# recovered == original
html, ds = HTMLTextDocument._static_extract_serialized_html_deps(texts["all"])
print("equal to originals:", [a == b for a, b in zip(ds, [deps[0], deps[1], deps[2], deps[4]])], len(ds))
print("distinct objects:", len({id(d) for d in ds}))

# odd input types
for label, val in [("None", None), ("bytes", b"<p>"), ("int", 3), ("HTML", HTML("<p>")), ("list", ["a"])]:
    show(f"static type {label}", lambda: HTMLTextDocument._static_extract_serialized_html_deps(val))
    show(f"ctor type {label}", lambda: HTMLTextDocument(val)._html)


class MyStr(str):
    pass


show("static str subclass", lambda: [
    type(x).__name__ for x in HTMLTextDocument._static_extract_serialized_html_deps(MyStr("a" + S[0]))
])
show("static str subclass nodeps", lambda: [
    type(x).__name__ for x in HTMLTextDocument._static_extract_serialized_html_deps(MyStr("abc"))
])

# json mode end to end
htmltools.html_dependency_render_mode = "json"
try:
    ui = TagList(div("x", deps[0], deps[1]), deps[2], deps[3], tags.p(deps[4]))
    text = "<html><head>@@</head><body>" + str(ui) + str(div(deps[1])) + "</body></html>"
finally:
    htmltools.html_dependency_render_mode = "invisible"
doc = HTMLTextDocument(text, deps=[], deps_replace_pattern="@@")
print("json-mode text:", repr(text))
print("json-mode stripped:", repr(doc._html))
print("json-mode deps:", [dep_state(d) for d in doc._deps])
print("json-mode render:", repr(doc.render()["html"]))
# static method callable through instance and class, and is stateless
a = HTMLTextDocument._static_extract_serialized_html_deps(texts["dup_identical"])
b = doc._static_extract_serialized_html_deps(texts["dup_identical"])
print("repeatable:", a[0] == b[0], [dep_state(d) for d in a[1]] == [dep_state(d) for d in b[1]])
