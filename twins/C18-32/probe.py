# Probe for refactoring 2: TagList.__init__ / TagList.extend (how the child storage is built)
from copy import copy, deepcopy

from htmltools import HTML, HTMLDependency, HTMLDocument, TagList, div, head_content, span, tags


def show(label, fn):
    try:
        print(label, "->", repr(fn()))
    except BaseException as e:  # noqa: BLE001
        print(label, "-> EXC", type(e).__name__, str(e)[:120])


def desc(tl):
    return (type(tl).__name__, type(tl.data).__name__, [(type(c).__name__, str(c)) for c in tl.data])


show("empty", lambda: desc(TagList()))
show("none", lambda: desc(TagList(None, None)))
show("scalars", lambda: desc(TagList(1, 2.5, True, "s", HTML("<i>"))))
show("nested", lambda: desc(TagList([1, (2, [None, "x"])], TagList("y", TagList()), div("d"))))
show("string arg", lambda: desc(TagList("abc")))
show("bad", lambda: TagList("ok", object()))
show("bad dict", lambda: TagList({"a": 1}))
show("bad bytes", lambda: TagList(b"x"))

# storage independence: a list / TagList passed in is never adopted
src = ["a", "b"]
t = TagList(src)
src.append("c")
print("indep list", list(t), src)
inner = TagList("p", "q")
outer = TagList(inner)
inner.append("r")
outer.append("s")
print("indep taglist", list(inner), list(outer), outer.data is not inner.data)
a = TagList("x")
b = TagList(a)
print("distinct storage", a.data is not b.data, a == b)

# extend
t = TagList("a")
show("extend list", lambda: (t.extend([1, None, [2, ("z",)]]), desc(t))[1])
show("extend taglist", lambda: (t.extend(TagList("m", span("n"))), desc(t))[1])
show("extend str", lambda: (t.extend("hello"), desc(t))[1])
show("extend gen", lambda: (t.extend(i for i in (7, None, 8.5)), desc(t))[1])
show("extend self", lambda: (t.extend(t), len(t))[1])
show("extend empty", lambda: (t.extend([]), len(t))[1])
show("extend returns", lambda: TagList().extend(["a"]))
before = list(t)
show("extend bad", lambda: t.extend(["fine", object()]))
print("unchanged after failed extend", list(t) == before)
show("extend non-iterable", lambda: t.extend(5))
show("extend None", lambda: t.extend(None))
ext_src = ["k"]
t2 = TagList()
t2.extend(ext_src)
ext_src.append("never")
print("extend indep", list(t2))

# everything built on extend / __init__
t3 = TagList("a")
t3.append("b", None, [3])
t3.insert(1, ["i", 4])
t3 += ["c", (5,)]
t3 += "str"
print("append/insert/iadd", desc(t3))
print("add", desc(t3 + ["z"]), desc(t3 + "zz"), desc(["y"] + t3), desc("yy" + t3))
print("copy", desc(copy(t3)), copy(t3).data is not t3.data, desc(deepcopy(t3)))
print("slice", desc(t3[1:3]), type(t3[0]).__name__)
print("mul", desc(TagList("a", 1) * 2))
print("tagify", desc(TagList(div("a"), head_content("h")).tagify())[2][0])


class Sub(TagList):
    def __init__(self, *args):
        self.log = []
        try:
            super().__init__(*args)
        except TypeError as e:
            self.log.append(("init failed", hasattr(self, "data")))
            raise


show("subclass ok", lambda: desc(Sub("a", [1])))
show("subclass bad", lambda: Sub(object()))
holder = []


class Sub2(TagList):
    def __init__(self, *args):
        try:
            super().__init__(*args)
        except TypeError:
            holder.append(hasattr(self, "data"))
            super().__init__("fallback")


show("subclass recovering", lambda: desc(Sub2(object())))
print("data attr after failed init", holder)

# Tag children, dependencies, documents
d = div("a", [1, None, span("b")], TagList("c", head_content(tags.title("T"))), id="x")
print("tag children", desc(d.children))
d.extend(["e", [2.0]])
d.append("f", None)
d.insert(0, "first")
print(str(d))
dep = HTMLDependency("nm", "1.0", head=["<x>", None, tags.meta(name="q")])
print("dep head", desc(dep.head))
print("dep head str", desc(HTMLDependency("nm", "1.0", head="<script>1</script>").head))
doc = HTMLDocument(TagList(d, dep, head_content("once"), head_content("once")))
r = doc.render()
print(r["html"])
print([x.name for x in r["dependencies"]])
print(head_content("a", ["b"]).name, head_content(["a", "b"]).name, head_content("ab").name, head_content().name)
