# Probe for refactoring 5: Tag.get_html_string guard clauses + frozenset tag tables.
import inspect
from htmltools import HTML, TagList, Tag, div, span, tags, svg, HTMLDependency
from htmltools import _core


def show(label, fn):
    try:
        r = fn()
        print(label, "->", type(r).__name__, repr(r))
    except Exception as e:  # noqa: BLE001
        print(label, "-> EXC", type(e).__name__, str(e))


dep = HTMLDependency("d", "1.0")

# the tables, observed by membership only
ALLNAMES = sorted(
    {n.rstrip("_") for n, f in inspect.getmembers(tags, inspect.isfunction)}
    | {n.rstrip("_") for n, f in inspect.getmembers(svg, inspect.isfunction)}
    | {"command", "keygen", "param", "BR", "br ", " br", "", "Script", "STYLE", "x-y", "area base"}
)
show("void-members", lambda: sorted(n for n in ALLNAMES if n in _core._VOID_TAG_NAMES))
show("noesc-members", lambda: sorted(n for n in ALLNAMES if n in _core._NO_ESCAPE_TAG_NAMES))
show("sizes", lambda: (len(_core._VOID_TAG_NAMES), len(_core._NO_ESCAPE_TAG_NAMES)))

KIDSETS = {
    "none": (),
    "none-explicit": (None, [], [None]),
    "dep-only": (dep,),
    "empty-str": ("",),
    "text": ("a<b>&\"'",),
    "html": (HTML("<i>&</i>"),),
    "num": (1.5,),
    "text+dep": (dep, "t<", dep),
    "two-text": ("a<", "b>"),
    "text+html": ("a<", HTML("<b>")),
    "tag": (span("s"),),
    "block": (div("d"),),
    "mixed": ("x<", span("s"), div("d", span()), HTML("<r>"), 2, dep, tags.br()),
    "taglist": (TagList("l<", span()),),
}
for name in ALLNAMES:
    for ks, kids in KIDSETS.items():
        for ws in (True, False):
            show(f"{name!r}[{ks}] ws={ws}", lambda: Tag(name, *kids, _add_ws=ws, id="a'b", hidden=True).get_html_string())

# indent / eol variants on the interesting branches
for name in ("div", "br", "script", "style", "span", "input"):
    for ks in ("none", "dep-only", "text", "two-text", "mixed"):
        for indent, eol in ((0, "\n"), (2, "\n"), (1, ""), (3, "\r\n"), (0, "|")):
            for ws in (True, False):
                show(
                    f"{name}[{ks}] indent={indent} eol={eol!r} ws={ws}",
                    lambda: Tag(name, *KIDSETS[ks], _add_ws=ws).get_html_string(indent, eol),
                )
show("kw-args", lambda: div("a", span()).get_html_string(eol="~", indent=1))
show("bad-indent", lambda: div("a").get_html_string("x"))
show("bad-indent2", lambda: div().get_html_string(None))
show("neg-indent", lambda: div(div()).get_html_string(-1))

# unusual names: same errors / same output
for nm in (HTML("br"), HTML("div"), HTML("script"), 5, None, b"br", ["br"], ("br",)):
    for kids in ((), ("t<",), ("t<", span())):
        def f():
            t = Tag("x", *kids)
            t.name = nm
            return t.get_html_string()
        show(f"name={type(nm).__name__}:{nm!r} kids={len(kids)}", f)


class S(str):
    def __hash__(self):
        print("   hash called")
        return str.__hash__(self)


for kids in ((), (dep,), ("t<",), ("t<", span())):
    for base in ("br", "script", "div"):
        def g():
            t = Tag("x", *kids)
            t.name = S(base)
            return t.get_html_string()
        show(f"S({base!r}) kids={len(kids)}", g)

# whole documents through the other entry points
doc = tags.html(
    tags.head(tags.title("T&"), tags.meta(charset="utf-8"), tags.link(rel="x", href="y?a=1&b=2"),
              tags.script("if (a<b && c>d) {}"), tags.style("a>b{c:'d'}"), tags.script(src="s.js")),
    tags.body(tags.p("x", tags.br(), "y", tags.img(src="i"), tags.input(value="<")), tags.hr(), tags.textarea(), tags.script("1<2", "3>4"), dep),
)
show("doc-str", lambda: str(doc))
show("doc-render", lambda: doc.render()["html"])
show("taglist", lambda: str(TagList(tags.br(), tags.br("kid"), tags.script(HTML("</x>")), tags.style(span("in<")))))
show("repr_html", lambda: tags.wbr()._repr_html_() + tags.col(dep)._repr_html_() + tags.base("")._repr_html_())
