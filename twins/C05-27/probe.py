# Probe for HTMLDocument._gen_html_tag_tree (and render()): prints rendered html, deps, exception types.
from htmltools import HTML, HTMLDependency, HTMLDocument, Tag, TagList, div, span, tags, p


def show(label, fn):
    try:
        r = fn()
        print(label, "->", type(r).__name__, repr(r))
    except Exception as e:  # noqa: BLE001
        print(label, "-> EXC", type(e).__name__)


class Tagif:
    def __init__(self, out):
        self.out = out
        self.calls = 0

    def tagify(self):
        self.calls += 1
        return self.out


class Boom:
    def tagify(self):
        raise KeyError("boom")


class Repr:
    def _repr_html_(self):
        return "<i>repr</i>"


class MyTag(Tag):
    pass


dep1 = HTMLDependency("d1", "1.0", script={"src": "a.js"}, stylesheet={"href": "a.css"},
                      meta={"name": "m", "content": "c"}, head="<script>h()</script>")
dep2 = HTMLDependency("d2", "2.1", source={"href": "https://x.org/lib"}, script=[{"src": "b.js", "defer": ""}],
                      head=tags.title("t"))

docs = {
    "empty": lambda: HTMLDocument(),
    "fragment_inline": lambda: HTMLDocument(span("a"), span("b"), "c"),
    "fragment_block": lambda: HTMLDocument(div("a"), span("b"), p(span("c"), "d")),
    "single_div": lambda: HTMLDocument(div(span("a"), "b")),
    "single_span": lambda: HTMLDocument(span("a")),
    "single_str": lambda: HTMLDocument("just <text>"),
    "single_html_str": lambda: HTMLDocument(HTML("<b>x</b>")),
    "single_repr": lambda: HTMLDocument(Repr()),
    "single_dep": lambda: HTMLDocument(dep1),
    "body": lambda: HTMLDocument(tags.body(span("a"), span("b"), class_="k")),
    "body_no_ws": lambda: HTMLDocument(Tag("body", span("a"), "b", _add_ws=False)),
    "body_with_deps": lambda: HTMLDocument(tags.body(span("a", dep1), dep2, div("z"))),
    "body_plus_other": lambda: HTMLDocument(tags.body("a"), span("b")),
    "two_bodies": lambda: HTMLDocument(tags.body("a"), tags.body("b")),
    "html": lambda: HTMLDocument(tags.html(tags.head(tags.title("T")), tags.body(span("a"), "b"))),
    "html_no_head": lambda: HTMLDocument(tags.html(tags.body(span("a"), dep1, "b"))),
    "html_head_second": lambda: HTMLDocument(tags.html(dep2, tags.head(tags.title("T")), tags.body("x"))),
    "html_empty": lambda: HTMLDocument(tags.html()),
    "html_no_ws": lambda: HTMLDocument(Tag("html", span("a"), "b", _add_ws=False)),
    "html_attrs": lambda: HTMLDocument(tags.html(tags.body("x"), lang="fr", class_="a"), lang="en", class_="b"),
    "html_plus_other": lambda: HTMLDocument(tags.html(tags.body("x")), span("y")),
    "two_htmls": lambda: HTMLDocument(tags.html("a"), tags.html("b")),
    "html_in_taglist": lambda: HTMLDocument(TagList(tags.html(tags.body("x")))),
    "html_in_nested_list": lambda: HTMLDocument([[tags.html(tags.body("x"))], None]),
    "html_and_none": lambda: HTMLDocument(None, tags.html(tags.body(span("x"))), None),
    "html_and_dep": lambda: HTMLDocument(tags.html(tags.body("x")), dep1),
    "upper_HTML": lambda: HTMLDocument(Tag("HTML", Tag("body", "x"))),
    "upper_BODY": lambda: HTMLDocument(Tag("BODY", "x")),
    "subclass_html": lambda: HTMLDocument(MyTag("html", MyTag("body", span("x")))),
    "subclass_body": lambda: HTMLDocument(MyTag("body", span("x"), "y")),
    "tagif_to_html": lambda: HTMLDocument(Tagif(tags.html(tags.body(span("q"))))),
    "tagif_to_body": lambda: HTMLDocument(Tagif(tags.body(span("q"), "r"))),
    "tagif_to_taglist_html": lambda: HTMLDocument(Tagif(TagList(tags.html(tags.body("q"))))),
    "tagif_to_taglist_two": lambda: HTMLDocument(Tagif(TagList(tags.html("q"), span("r")))),
    "tagif_to_str": lambda: HTMLDocument(Tagif("plain & text")),
    "tagif_to_div": lambda: HTMLDocument(Tagif(div(span("q")))),
    "tagif_to_empty": lambda: HTMLDocument(Tagif(TagList())),
    "tagif_inside_html": lambda: HTMLDocument(tags.html(tags.body(Tagif(span("in")), Tagif(TagList("a", div("b")))))),
    "tagif_inside_body": lambda: HTMLDocument(tags.body(Tagif(span("in", dep2)))),
    "tagif_inside_div": lambda: HTMLDocument(div(Tagif(span("in"))), span("s")),
    "boom": lambda: HTMLDocument(span("a"), Boom()),
    "boom_in_html": lambda: HTMLDocument(tags.html(Boom())),
    "doc_attrs": lambda: HTMLDocument(div("x"), lang="en", data_x="<&>"),
    "doc_attrs_body": lambda: HTMLDocument(tags.body("x"), lang="en"),
    "doc_attr_add_ws": lambda: HTMLDocument(div("x"), _add_ws=False),
    "doc_attr_add_ws_html": lambda: HTMLDocument(tags.html("x"), _add_ws=False),
    "doc_attr_name": lambda: HTMLDocument(div("x"), _name="zz"),
    "doc_attr_name_html": lambda: HTMLDocument(tags.html("x"), _name="zz"),
    "deps_in_fragment": lambda: HTMLDocument(span("a", dep1), dep2, dep1, div(dep2, "z")),
}

for label, mk in docs.items():
    for kw in ({}, {"lib_prefix": None, "include_version": False}, {"lib_prefix": "my/lib"}):
        def run():
            doc = mk()
            r = doc.render(**kw)
            return (r["html"], [d.name for d in r["dependencies"]])
        show(f"{label} {kw}", run)

    def tree():
        doc = mk()
        t = doc._gen_html_tag_tree("lib", include_version=True)
        return (type(t).__name__, t.name, t.add_ws, dict(t.attrs), [type(c).__name__ for c in t.children])
    show(f"{label} tree", tree)


# The document and the user's tags are not modified; tagify() is called the same number of times.
inner = Tagif(span("in"))
outer = Tagif(tags.html(tags.body(inner), lang="xx"))
doc = HTMLDocument(outer, lang="en")
show("counts_before", lambda: (outer.calls, inner.calls))
show("render1", lambda: doc.render()["html"])
show("counts_after1", lambda: (outer.calls, inner.calls))
show("render2", lambda: doc.render()["html"])
show("counts_after2", lambda: (outer.calls, inner.calls))
show("outer_out_unchanged", lambda: str(outer.out))

user_html = tags.html(tags.head(tags.title("T")), tags.body(span("a"), dep1))
doc = HTMLDocument(user_html, lang="en")
before = str(user_html)
show("render_user_html", lambda: doc.render()["html"])
show("user_html_unchanged", lambda: (str(user_html) == before, dict(user_html.attrs)))

user_body = tags.body(span("a"), dep1)
doc = HTMLDocument(user_body)
before = str(user_body)
show("render_user_body", lambda: doc.render()["html"])
show("user_body_unchanged", lambda: (str(user_body) == before, len(user_body.children)))

# append after construction changes the case that is chosen
doc = HTMLDocument(tags.html(tags.body("x")))
show("append_before", lambda: doc.render()["html"])
doc.append(span("more"))
show("append_after", lambda: doc.render()["html"])
