"""Probe for refactoring 1: partition of unnamed args into attr dicts / children
(Tag.__init__ and consolidate_attrs)."""
import htmltools
from htmltools import HTML, Tag, TagList, consolidate_attrs, div, span, svg, tags
from htmltools._core import TagAttrDict


def show(label, fn):
    try:
        res = fn()
    except Exception as e:  # noqa: BLE001
        print(label, "->", "EXC", type(e).__name__, str(e))
    else:
        print(label, "->", repr(res))


def desc(t):
    return (
        type(t).__name__,
        t.name,
        t.add_ws,
        dict(t.attrs),
        [type(c).__name__ + ":" + str(c) for c in t.children],
        str(t),
    )


class MyDict(dict):
    pass


ARGSETS = [
    (),
    ("a",),
    ({"id": "x"},),
    ("a", {"class": "c1"}, "b", {"class": "c2"}, span("z")),
    ({"class": "c1"}, {"class_": "c2", "data_x": 1}, {"hidden": True, "skip": None}),
    (TagAttrDict(id="tad"), "kid"),
    (MyDict(title="sub"), ["x", ["y", None, 3]], None, 1.5, True),
    (TagList("p", "q"), ("t1", "t2"), HTML("<b>raw</b>")),
    ({}, "only-empty-dict"),
    ({"style": HTML("a:b;")}, {"style": "c:d;"}),
]
KWSETS = [
    {},
    {"id": "kw"},
    {"class_": "kwc", "data_foo_bar": "v", "none": None, "f": False, "t": True},
]

# every exported function of tags / svg plus the top-level shortcuts
fns = []
for mod in (tags, svg):
    for nm in sorted(vars(mod)):
        f = getattr(mod, nm)
        if callable(f) and getattr(f, "__module__", None) == mod.__name__:
            fns.append((mod.__name__.split(".")[-1] + "." + nm, f))
for nm in htmltools.tags.__all__:
    fns.append(("top." + nm, getattr(htmltools, nm)))

print("n functions", len(fns))
for label, f in fns:
    show(label + " default", lambda: desc(f("c", {"id": "i"}, "d", title="t")))

for i, a in enumerate(ARGSETS):
    for j, kw in enumerate(KWSETS):
        show(f"div {i},{j}", lambda: desc(div(*a, **kw)))
        show(f"span {i},{j} ws", lambda: desc(span(*a, _add_ws=True, **kw)))
        show(f"svg.g {i},{j}", lambda: desc(svg.g(*a, _add_ws=False, **kw)))
        show(f"Tag {i},{j}", lambda: desc(Tag("x-y", *a, **kw)))
        show(f"consolidate {i},{j}", lambda: consolidate_attrs(*a, **kw))

# identity / ordering of the children returned by consolidate_attrs
kid = span("k")
lst = ["l", None]
at, ch = consolidate_attrs(kid, {"a": 1}, lst, None, {"a": 2}, b=3)
print(at, [c is o for c, o in zip(ch, [kid, lst, None])], type(ch).__name__, type(at).__name__)

# error order: bad attr value is seen before bad child, and vice versa absent
show("bad attr + bad child", lambda: div(object(), {"a": object()}))
show("bad child only", lambda: div({"a": 1}, object()))
show("bad attr only", lambda: div({"a": [1]}, "ok"))
show("bad kw", lambda: div("ok", foo={"x": 1}))
show("non-str key", lambda: div({1: "x"}))
show("non-str key None val", lambda: desc(div({1: None})))
show("consolidate bad child", lambda: consolidate_attrs(object(), {"a": 1}))
show("consolidate bad attr", lambda: consolidate_attrs("x", {"a": object()}))
for bad in (None, 1, 0, "True", "", [], 1.0):
    show(f"_add_ws={bad!r}", lambda: div("x", _add_ws=bad))
    show(f"svg _add_ws={bad!r}", lambda: svg.circle(_add_ws=bad))
    show(f"Tag _add_ws={bad!r}", lambda: Tag("t", {"a": object()}, _add_ws=bad))
show("_name dup", lambda: div(_name="x"))

# generator-free: args tuple is not consumed / altered
d = {"id": "keep"}
t = div(d, "x")
t.attrs["id"] = "changed"
print(d, dict(t.attrs))
