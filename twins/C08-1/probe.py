# Probe for refactoring 1: Tag.__copy__ / HTMLDocument.__copy__ (shared helper).
import copy

from htmltools import HTML, HTMLDependency, HTMLDocument, Tag, TagList, div, span, tags
from htmltools import head_content


def show(label, value):
    print(f"{label}: {value!r}")


def attempt(label, fn):
    try:
        show(label, fn())
    except Exception as e:  # noqa: BLE001
        print(f"{label}: raised {type(e).__name__}: {e}")


dep = HTMLDependency("dep", "1.2.3", source={"href": "https://x.test/lib"},
                     script={"src": "a b.js"}, stylesheet={"href": "s.css"})


class MyTag(Tag):
    """Subclass with an extra instance field and an extra class attribute."""

    kind = "custom"

    def __init__(self, *args, **kwargs):
        super().__init__("my-tag", *args, **kwargs)
        self.extra = ["x", "y"]
        self.marker = None


class Widget:
    def __init__(self, n):
        self.n = n
        self.calls = 0

    def tagify(self):
        self.calls += 1
        return span("w", self.n)


def describe_tag_copy(label, t):
    c = copy.copy(t)
    show(label + " type", type(c).__name__)
    show(label + " keys", list(c.__dict__.keys()))
    show(label + " same keys order", list(c.__dict__) == list(t.__dict__))
    show(label + " eq", c == t)
    show(label + " is", c is t)
    show(label + " attrs shared", c.attrs is t.attrs)
    show(label + " children shared", c.children is t.children)
    show(label + " children.data shared", c.children.data is t.children.data)
    show(label + " child objs shared",
         [a is b for a, b in zip(c.children, t.children)])
    show(label + " str", str(c))
    show(label + " attrs type", type(c.attrs).__name__)
    show(label + " children type", type(c.children).__name__)
    # Mutate the copy, original must be unaffected
    c.attrs["data-new"] = "1"
    c.append("tail")
    c.add_class("added")
    show(label + " orig after mutating copy", str(t))
    show(label + " copy after mutating copy", str(c))
    show(label + " eq after", c == t)
    return c


inputs = {
    "empty": Tag("div"),
    "attrs": div({"class": "a"}, id="i", class_="b", data_x=HTML("<&>")),
    "nested": div(span("a", span("b")), "text", HTML("<b>raw</b>"), dep, 3, 2.5,
                  None, [["x"], ("y",)]),
    "no_ws": span("x", span("y"), _add_ws=False),
    "void": tags.br(),
    "script": tags.script("if (a < b) {}"),
    "with_head_content": div(head_content(tags.title("t")), "body"),
    "subclass": MyTag("k", id="m"),
    "widget": div(Widget(1), Widget(2)),
}

for name, t in inputs.items():
    before = str(t) if name != "widget" else None
    c = describe_tag_copy(name, t)
    if name == "subclass":
        show("subclass extra shared", c.extra is t.extra)
        show("subclass extra", (c.extra, c.marker, c.kind, "kind" in c.__dict__))
    if name == "widget":
        show("widget calls", [w.calls for w in t.children[:2]])

# prev_displayhook field is copied too (None stays None)
t = div("a")
show("prev_displayhook", copy.copy(t).prev_displayhook)

# Fields added later / deleted fields
t = div("a")
t.custom_field = {"k": [1, 2]}
c = copy.copy(t)
show("custom field eq", c.custom_field == t.custom_field)
show("custom field shared outer", c.custom_field is t.custom_field)
show("custom field shared inner", c.custom_field["k"] is t.custom_field["k"])
del t.add_ws
attempt("copy w/o add_ws keys", lambda: list(copy.copy(t).__dict__.keys()))
attempt("copy w/o add_ws str", lambda: str(copy.copy(t)))


# A field whose copy raises
class NoCopy:
    def __copy__(self):
        raise ValueError("cannot copy me")


t = div("a")
t.bad = NoCopy()
attempt("copy with failing field", lambda: copy.copy(t))
attempt("tagify with failing field", lambda: t.tagify())
show("orig intact", (list(t.__dict__.keys()), str(t.children)))

# copy.deepcopy is unaffected but uses a different path; print for reference
t = div(span("x"), id="a")
d = copy.deepcopy(t)
show("deepcopy eq", (d == t, d.children[0] is t.children[0]))

# tagify() goes through __copy__
t = div(span("a", dep), dep, Widget(7), id="z")
tg = t.tagify()
show("tagify str", str(tg))
show("tagify shares", (tg is t, tg.attrs is t.attrs, tg.children is t.children,
                       tg.children[0] is t.children[0],
                       tg.children[0].children[1] is dep,
                       tg.children[0].children[1] == dep))
show("tagify fixed point", tg.tagify() == tg)

# ---------------- HTMLDocument ----------------
doc = HTMLDocument(div("a", dep), span("b"), lang="en", data_x=1)
dc = copy.copy(doc)
show("doc copy type", type(dc).__name__)
show("doc keys", list(dc.__dict__.keys()))
show("doc content shared", dc._content is doc._content)
show("doc content eq", dc._content == doc._content)
show("doc attr args shared", dc._html_attr_args is doc._html_attr_args)
show("doc attr args eq", dc._html_attr_args == doc._html_attr_args)
show("doc render eq", dc.render() == doc.render())
dc.append(tags.p("only in copy"))
dc._html_attr_args["lang"] = "fr"
show("doc render orig", doc.render()["html"])
show("doc render copy", dc.render()["html"])
show("doc deps", [repr(d) for d in doc.render()["dependencies"]])


class MyDoc(HTMLDocument):
    def __init__(self, *a, **k):
        super().__init__(*a, **k)
        self.tagline = ["t"]


md = MyDoc(div("q"))
mc = copy.copy(md)
show("subdoc", (type(mc).__name__, list(mc.__dict__), mc.tagline is md.tagline,
                mc.tagline == md.tagline))
empty_doc = copy.copy(HTMLDocument())
show("empty doc", empty_doc.render())
