# Probe for refactoring 2: conversion of tag children to tag nodes
# (TagList(), Tag(), append / extend / insert, += , +, tagify expansion).
import enum
from fractions import Fraction
from decimal import Decimal

from htmltools import HTML, HTMLDependency, Tag, TagList, div, span, tags
from htmltools import _core

LOG = []


def show(label, fn):
    del LOG[:]
    try:
        r = fn()
        if isinstance(r, list):
            print(label, "->", type(r).__name__, [(type(i).__name__, repr(i)) for i in r], LOG)
        else:
            print(label, "->", type(r).__name__, repr(r), LOG)
    except BaseException as e:  # noqa: BLE001
        print(label, "-> EXC", type(e).__name__, str(e), LOG)


class LoudInt(int):
    def __str__(self):
        LOG.append("str(LoudInt %d)" % int(self))
        return "<loud&%d>" % int(self)


class LoudFloat(float):
    def __str__(self):
        LOG.append("str(LoudFloat)")
        return "<f>"


class Color(enum.IntEnum):
    RED = 1


class Obj:
    def __repr__(self):
        return "<Obj>"


class Tagifies:
    def __repr__(self):
        return "<Tagifies>"

    def __init__(self, *out):
        self.out = out

    def tagify(self):
        LOG.append("tagify")
        return TagList(*self.out)


class TagifiesToStr:
    def tagify(self):
        return "<plain&text>"


class Repr:
    def __repr__(self):
        return "<Repr>"

    def _repr_html_(self):
        return "<b>repr</b>"


class Sneaky:
    def __getattr__(self, name):
        LOG.append("getattr " + name)
        raise AttributeError(name)


def gen(*items):
    for i in items:
        LOG.append("yield %r" % (i,))
        yield i


dep = HTMLDependency("d", "1.0")
conv = _core._tagchilds_to_tagnodes

inputs = {
    "str": "a<b",
    "empty-str": "",
    "empty-list": [],
    "empty-tuple": (),
    "list-of-str": ["<a>", "&", ">"],
    "numbers": [1, 2.5, True, False, -0.0, 10**30, float("nan"), 1e300],
    "loud": [LoudInt(1), "x", LoudInt(2), LoudFloat(3.0)],
    "enum": [Color.RED],
    "nested": ["a", ["b", ("c", [None, "d", [[], ()]]), None], TagList("e", [1, None])],
    "html": [HTML("<i>raw</i>"), "<i>not raw</i>"],
    "tags": [div("x"), span(), dep, Repr(), Tagifies("q")],
    "none": [None, None],
    "gen": gen("a", 1, None, ["b"]),
    "gen-bad-mid": gen("a", LoudInt(5), Obj(), LoudInt(6), "z"),
    "bad-first": [Obj(), LoudInt(7)],
    "bad-after-loud": [LoudInt(8), {"a": 1}, LoudInt(9)],
    "bad-dict": [{"a": 1}],
    "bad-set": [{1, 2}],
    "bad-bytes": [b"x"],
    "bad-complex": [1j],
    "bad-fraction": [Fraction(1, 2)],
    "bad-decimal": [Decimal("1.5")],
    "bad-sneaky": ["ok", Sneaky()],
    "dict-as-iterable": {"k<": 1},
    "bytes-as-iterable": b"ab",
    "not-iterable-int": 5,
    "not-iterable-none": None,
    "range": range(3),
    "taglist": TagList("a<", 1, [2.5]),
    "tag-as-iterable": div("a"),
}

for label, value in inputs.items():
    show("conv " + label, lambda: conv(value))

# the result is a fresh list that does not alias the input
src = ["a", "b"]
out = conv(src)
print(out == src, out is src)
out.append("c")
print(src)
one = conv("solo")
print(one, type(one).__name__)

# through the public entry points
for label, value in inputs.items():
    if label.startswith("gen"):
        continue
    show("TagList " + label, lambda: TagList(value))
    show("div " + label, lambda: str(div(value)))

    def ext():
        t = TagList("<0>")
        t.extend(value)
        return t

    def app():
        t = div("<0>")
        t.append(value, 7)
        return t

    def ins():
        t = TagList("<0>", "<1>")
        t.insert(1, value)
        return t

    def iadd():
        t = TagList("<0>")
        t += value
        return t

    show("extend " + label, ext)
    show("append " + label, app)
    show("insert " + label, ins)
    show("iadd " + label, iadd)
    show("add " + label, lambda: TagList("<0>") + value)
    show("radd " + label, lambda: value + TagList("<0>"))

show("TagList gen", lambda: TagList(gen("a<", 1, None, ["b"])))
show("extend gen bad", lambda: TagList("k").extend(gen("a", Obj(), "b")))

# a failed mutation leaves the receiver untouched
t = TagList("keep<")
for bad in ([LoudInt(1), Obj()], gen("x", 1j)):
    try:
        t.extend(bad)
    except TypeError as e:
        print("EXC", e)
    try:
        t.insert(0, bad)
    except TypeError as e:
        print("EXC", e)
    print(list(t))

# tagify expansion
show("tagify", lambda: str(div(Tagifies("<x>", 1, [2.5, None, HTML("<hr>")]), "&").tagify()))
show("tagify nested", lambda: str(TagList(Tagifies(Tagifies("<deep>"), "a"), "<b>")))
show("tagify str", lambda: str(div(TagifiesToStr(), TagifiesToStr())))
show("tagify single", lambda: str(div(TagifiesToStr())))
show("render", lambda: div(LoudInt(3), "<", Tagifies(LoudInt(4))).render()["html"])
show("script", lambda: str(tags.script("a<b", 1)))
