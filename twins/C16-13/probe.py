# Probe for refactoring 3: TagAttrDict.__setitem__/update merging, as used by Tag(), add_class, add_style.
from collections import OrderedDict
from types import MappingProxyType

from htmltools import HTML, Tag, TagAttrs, css, div, span, consolidate_attrs
from htmltools._core import TagAttrDict


def show(label, fn):
    try:
        r = fn()
        print(label, "->", repr(r))
    except Exception as e:  # noqa: BLE001
        print(label, "-> EXC", type(e).__name__, str(e))


def d(x):
    return (type(x).__name__, list(x.items()), [type(v).__name__ for v in x.values()])


vals = ["a", "", " ", "<&\"'>\n\r", None, True, False, 0, 3, 2.5, HTML("h<&>"), HTML(""), ["l"], b"b", object]

# __setitem__
for v in vals:
    for k in ["class", "class_", "data_x_", "_", "__", "", "a_b_c", "xY"]:
        def run(k=k, v=v):
            t = TagAttrDict({"class": "orig", "id": "i"})
            t[k] = v
            return d(t)
        show(f"setitem {k!r}={v!r}", run)
show("setitem bad key", lambda: TagAttrDict().__setitem__(5, "x"))
show("setitem bad key None val", lambda: TagAttrDict().__setitem__(5, None))
show("setitem bad key bad val", lambda: TagAttrDict().__setitem__(5, [1]))

# constructor / update with pairs of values on the same key
for a in vals:
    for b in vals:
        show(f"ctor {a!r}+{b!r}", lambda: d(TagAttrDict({"class": a}, {"class_": b})))
        show(f"ctor kw {a!r}+{b!r}", lambda: d(TagAttrDict({"class": a}, class_=b)))

        def run(a=a, b=b):
            t = TagAttrDict(id="first", class_="old")
            r = t.update({"class": a, "x": "1"}, {"class": b}, x="2")
            return (r, d(t))
        show(f"update {a!r}+{b!r}", run)

# three-way merges, order of keys, kwargs last
show("three", lambda: d(TagAttrDict({"class": "a"}, {"class": HTML("<b>")}, {"class": "c&"})))
show("three2", lambda: d(TagAttrDict({"class": HTML("a&")}, {"class": "<b>"}, {"class": HTML("c")})))
show("kw last", lambda: d(TagAttrDict({"a": "1", "b": "2"}, {"b": "3", "c": "4"}, a="5", c_="6", d=None)))
show("same name two spellings in one mapping", lambda: d(TagAttrDict({"data_x": "1", "data-x": "2", "data_x_": "3"})))
show("empty", lambda: d(TagAttrDict()))
show("empty maps", lambda: d(TagAttrDict({}, {}, **{})))
show("update none", lambda: d(TagAttrDict(a="1")) if TagAttrDict(a="1").update() is None else "?")
show("update empty kwargs only", lambda: (lambda t: (t.update(**{}), d(t)))(TagAttrDict(a="1")))
show("update replaces, not merges with stored", lambda: (lambda t: (t.update({"a": "2"}), d(t)))(TagAttrDict(a="1", b="x")))
show("ordered dict", lambda: d(TagAttrDict(OrderedDict([("z", "1"), ("a", "2")]), MappingProxyType({"z": "3"}))))
show("tagattrdict as arg", lambda: d(TagAttrDict(TagAttrDict(class_="a"), TagAttrDict(class_=HTML("b")))))
show("non mapping", lambda: TagAttrDict("abc"))
show("non mapping list", lambda: TagAttrDict([("a", "b")]))
show("non mapping None", lambda: TagAttrDict(None))
show("bad then good", lambda: TagAttrDict({"a": [1]}, {"b": "ok"}))
show("good then bad keeps self", lambda: (lambda t: (show("   inner", lambda: t.update({"b": "ok"}, {"c": {}})), d(t)))(TagAttrDict(a="1")))
show("int key", lambda: TagAttrDict({1: "a"}))
show("int key None", lambda: d(TagAttrDict({1: None})))
show("kwargs named self-like", lambda: d(TagAttrDict(args="1", kwargs="2", attrz="3", nm="4")))

# through Tag
show("tag", lambda: str(div({"class": "a"}, {"class": HTML("<b>")}, "kid", class_="c'", style=css(a=1))))
show("tag add_class", lambda: str(div(class_=HTML("<x>")).add_class("y&").add_class("z\"", prepend=True)))
show("tag add_style", lambda: str(span(style="a:'1';").add_style(HTML("b:\"2\";")).add_style("c:<3>;", prepend=True)))
show("tag add_class none existing", lambda: d(div(id="q").add_class("n").attrs))
show("tag remove/has", lambda: (lambda t: (t.has_class("b"), d(t.remove_class("b").attrs), t.has_class("b")))(div(class_="a b c b")))
show("attrs setitem via tag", lambda: (lambda t: (t.attrs.__setitem__("class_", "new"), t.attrs.__setitem__("data_k", 5), t.attrs.__setitem__("gone", None), str(t)))(div(class_="old")))
show("consolidate", lambda: consolidate_attrs({"class": "a"}, "child", {"class": HTML("b")}, class_="c", id=None))
show("str+HTML result types", lambda: [type(v).__name__ for v in TagAttrDict({"a": "x"}, {"a": HTML("y")}, {"b": HTML("x")}, {"b": "y"}, {"c": "p"}, {"c": "q"}).values()])
