# Probe for refactoring 3: Tag.get_html_string() one-line / void / no-escape forms with
# metadata nodes inserted at every position, and the void / no-escape name tables.
import itertools

from htmltools import HTML, HTMLDependency, MetadataNode, Tag, TagList, div, span, tags
from htmltools import _core


class Meta(MetadataNode):
    def __repr__(self):
        return "<Meta>"


class Rep:
    def _repr_html_(self):
        return "<rep/>"


def dep(name="a", version="1.0"):
    return HTMLDependency(name, version, source={"subdir": "."}, script={"src": name + ".js"})


def show(label, fn):
    try:
        print(label, "=>", repr(fn()))
    except Exception as e:  # noqa: BLE001
        print(label, "!!", type(e).__name__, str(e))


# --- tables ---
print(sorted(_core._VOID_TAG_NAMES), len(_core._VOID_TAG_NAMES))
print(sorted(_core._NO_ESCAPE_TAG_NAMES), len(_core._NO_ESCAPE_TAG_NAMES))
for nm in ["br", "BR", "div", "script", "style", "Style", "", "meta", "wbr", "command", "keygen", "a", "area "]:
    print(nm, nm in _core._VOID_TAG_NAMES, nm in _core._NO_ESCAPE_TAG_NAMES)

# --- every tag name of interest x children layouts x metadata insertion positions ---
names = ["div", "span", "br", "img", "meta", "wbr", "script", "style", "p", "custom-el", "BR", ""]
layouts = {
    "none": [],
    "text": ["a<b>&\"'"],
    "empty-text": [""],
    "html": [HTML("<i>&</i>")],
    "two-text": ["a", "<b>"],
    "text-html": ["x", HTML("<y>")],
    "tag": [span("s")],
    "inline-tag": [span("s", _add_ws=False)],
    "text-tag-text": ["a", span("s"), "b"],
    "rep": [Rep()],
    "void-child": [tags.br()],
    "nested": [div(div("deep"), "t")],
}


def with_meta(children, positions):
    out = []
    for i, c in enumerate(children):
        if i in positions:
            out.append(Meta() if i % 2 == 0 else dep("d%d" % i))
        out.append(c)
    if len(children) in positions:
        out.append(dep("end"))
    return out


for name in names:
    for lname, children in layouts.items():
        base = {}
        for add_ws in (True, False):
            base[add_ws] = Tag(name, *children, _add_ws=add_ws).get_html_string()
            print(f"{name!r} {lname} add_ws={add_ws}", "=>", repr(base[add_ws]))
        n = len(children)
        all_same = True
        for r in range(1, n + 2):
            for positions in itertools.combinations(range(n + 1), r):
                for add_ws in (True, False):
                    t = Tag(name, *with_meta(children, set(positions)), _add_ws=add_ws, id="i")
                    t0 = Tag(name, *children, _add_ws=add_ws, id="i")
                    for indent, eol in [(0, "\n"), (2, "\n"), (1, ""), (0, "\r\n")]:
                        a = t.get_html_string(indent, eol)
                        b = t0.get_html_string(indent, eol)
                        if a != b:
                            all_same = False
                            print("   DIFF", positions, add_ws, indent, repr(eol), repr(a), repr(b))
        print(f"   {name!r} {lname}: metadata-neutral = {all_same}")

# --- attributes, indentation and eol ---
t = div(Meta(), {"class": "a b", "data-x": 'q"<>&'}, tags.input(dep(), type="text", value=HTML("&amp;")), Meta(), title=HTML("<raw>"))
for indent, eol in [(0, "\n"), (3, "\n"), (0, ""), (1, "\t")]:
    show(f"attrs indent={indent} eol={eol!r}", lambda: t.get_html_string(indent, eol))
show("render", lambda: (lambda r: (r["html"], [repr(d) for d in r["dependencies"]]))(t.render()))
show("str", lambda: str(t))

# --- error paths ---
show("bad indent", lambda: div("a").get_html_string("x"))
show("bad eol multi", lambda: div("a", span()).get_html_string(0, 5))
show("bad eol single", lambda: div("a").get_html_string(0, 5))
show("bad eol inline", lambda: div("a", span(), _add_ws=False).get_html_string(0, 5))
show("non-tagified child", lambda: div(TagList("a"), type("W", (), {"tagify": lambda self: "x"})()).get_html_string())
bad = div("a")
bad.name = 3
show("int name", lambda: bad.get_html_string())
bad2 = tags.br()
bad2.name = None
show("None name", lambda: bad2.get_html_string())
bad3 = div(Meta())
del bad3.name
show("no name", lambda: bad3.get_html_string())
show("no name bad indent", lambda: bad3.get_html_string("x"))
sub = type("S", (str,), {})("br")
show("str-subclass name", lambda: Tag(sub, Meta()).get_html_string())
show("script with tag child", lambda: tags.script("a<b", Meta(), span("c<d")).get_html_string())
show("style two texts", lambda: tags.style("a<b", Meta(), "c>d").get_html_string())
show("script one text + meta", lambda: tags.script(Meta(), "a<b", dep()).get_html_string())
show("script HTML", lambda: tags.script(HTML("a<b"), dep()).get_html_string())
