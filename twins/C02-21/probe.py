# Probe for refactoring 1: html_escape (chained replace -> single translate pass)
import itertools
import hashlib

from htmltools import HTML, TagList, div, span, tags, html_escape
from htmltools import _util


def show(label, fn):
    try:
        r = fn()
        print(label, "->", type(r).__name__, repr(r))
    except BaseException as e:  # noqa: BLE001
        print(label, "-> EXC", type(e).__name__)


class MyStr(str):
    pass


samples = [
    "",
    "plain",
    "&",
    "<",
    ">",
    "&amp;",
    "&amp;amp;",
    "&lt;script&gt;",
    "<script>alert('x')</script>",
    "<!-- c -->",
    "<!DOCTYPE html>",
    "]]>",
    "a & b < c > d",
    "&#60;",
    "&#x3c;",
    "\"quoted\" 'single'",
    "line1\nline2\r\nline3\r",
    "tab\there",
    "\x00\x01\x7f",
    "é中\U0001F600",
    "\ud800",
    "&" * 5 + "<" * 5 + ">" * 5,
    "&;&;#;&#;",
    " & ",
    MyStr("sub<class>&"),
    MyStr("subclass clean"),
]

for s in samples:
    for attr in (False, True):
        show(f"html_escape({s!r}, attr={attr})", lambda: html_escape(s, attr=attr))
    show(f"html_escape({s!r})", lambda: html_escape(s))
    show(f"_html_escape({s!r})", lambda: _util._html_escape(s))

# identity is preserved for text that needs no escaping
for s in ["", "abc", MyStr("abc"), "quote\"'"]:
    print("same object (text):", html_escape(s) is s)
for s in ["", "abc", MyStr("abc"), "quote\"'"]:
    print("same object (attr):", html_escape(s, attr=True) is s)

# non-string inputs: exception types
for bad in [None, 5, 1.5, True, b"a<b", b"abc", ["<"], ("&",), HTML("<b>"), HTML("x"), object()]:
    for attr in (False, True):
        show(f"html_escape({type(bad).__name__}, attr={attr})", lambda: html_escape(bad, attr=attr))

# truthy / odd attr flags
for attr in (0, 1, "", "x", None, [], [0]):
    show(f"html_escape('<\"&\\n>', attr={attr!r})", lambda: html_escape("<\"&\n>", attr))

# exhaustive over a small alphabet, hashed so the output stays small
alphabet = "&<>\"'\r\n;#a1 "
h_text = hashlib.sha256()
h_attr = hashlib.sha256()
count = 0
for n in range(0, 5):
    for tup in itertools.product(alphabet, repeat=n):
        s = "".join(tup)
        h_text.update(html_escape(s).encode("utf-8") + b"\0")
        h_attr.update(html_escape(s, attr=True).encode("utf-8") + b"\0")
        count += 1
print("exhaustive", count, h_text.hexdigest(), h_attr.hexdigest())

# every single code point in the BMP-ish low range
h = hashlib.sha256()
for cp in range(0, 0x3000):
    c = chr(cp)
    h.update(html_escape(c).encode("utf-8", "surrogatepass") + b"\0")
    h.update(html_escape(c, attr=True).encode("utf-8", "surrogatepass") + b"\0")
print("codepoints", h.hexdigest())

# through the renderer
for s in samples:
    show(f"div({s!r})", lambda: str(div(s)))
    show(f"div(cls={s!r})", lambda: str(div(class_=s)))
    show(f"TagList({s!r}, 'x')", lambda: str(TagList(s, "x")))
    show(f"span(div, {s!r})", lambda: str(span(div("a"), s, [s, (s,)], 3, 2.5)))
    show(f"script({s!r})", lambda: str(tags.script(s)))
    show(f"HTML + {s!r}", lambda: HTML("<b>") + s)
    show(f"{s!r} + HTML", lambda: s + HTML("<b>"))

# tables are still exported and untouched
print(_util.HTML_ESCAPE_TABLE)
print(_util.HTML_ATTRS_ESCAPE_TABLE)
