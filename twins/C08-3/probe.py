# Probe for refactoring 3: Tag.get_html_string / TagList.get_html_string.
import itertools

from htmltools import HTML, HTMLDependency, MetadataNode, Tag, TagList, div, span, tags
from htmltools import head_content


def show(label, value):
    print(f"{label}: {value!r}")


def attempt(label, fn):
    try:
        show(label, fn())
    except Exception as e:  # noqa: BLE001
        print(f"{label}: raised {type(e).__name__}: {e}")


dep = HTMLDependency("dep", "1.0", source={"href": "https://x.test/d"}, script={"src": "d.js"})

CALLS = []


class ReprOnly:
    def __init__(self, text="<i>r</i>"):
        self.text = text

    def _repr_html_(self):
        CALLS.append("repr_html")
        return self.text


class ReprAndTagify:
    """Has both _repr_html_ and tagify: _repr_html_ wins in get_html_string."""

    def _repr_html_(self):
        return "<u>both</u>"

    def tagify(self):
        return span("tagified-both")


class OnlyTagify:
    def tagify(self):
        return span("t")


class ReprReturnsHTML:
    def _repr_html_(self):
        return HTML("<em>html-obj</em>")


class ReprReturnsInt:
    def _repr_html_(self):
        return 7


children_sets = {
    "none": [],
    "dep only": [dep],
    "one str": ["a < b & c > d \"q\" 'r'"],
    "one empty str": [""],
    "one HTML": [HTML("<b>&amp;</b>")],
    "one str + dep": [dep, "x<y", dep],
    "two str": ["a", "b<"],
    "str HTML str": ["a&", HTML("<br>"), "&b"],
    "one tag": [span("in")],
    "one inline tag": [span("in", _add_ws=False)],
    "mixed": ["t1", span("s1"), "t2", span("s2", _add_ws=False), "t3", HTML("<h/>"),
              div("d1"), div("d2"), "t4"],
    "inline run": [span("a", _add_ws=False), span("b", _add_ws=False), "c",
                   span("d", _add_ws=False)],
    "ws then inline": [div("a"), span("b", _add_ws=False), div("c")],
    "nested": [div(div(div("deep"), "x"), span(span("y", _add_ws=False)))],
    "repr only": [ReprOnly()],
    "repr mixed": ["a", ReprOnly(), div("b"), ReprOnly("<q>"), ReprOnly()],
    "repr+tagify": [ReprAndTagify(), "x"],
    "void kids": [tags.br(), tags.img(src="a b"), tags.input(type="text", value="<>")],
    "deps between": ["a", dep, span("b"), dep, dep, "c"],
    "leading dep": [dep, span("b"), "c"],
    "multiline": ["line1\nline2", div("x\ny")],
    "unicode": ["héllo ☃", span("\U0001F600")],
    "head content": [head_content(tags.title("T")), "b"],
}

names = ["div", "span", "br", "img", "script", "style", "p", "SCRIPT", "my-el", "pre"]

for (cname, kids), name, ws in itertools.product(children_sets.items(), names, (True, False)):
    t = Tag(name, *kids, _add_ws=ws, id="i<&>\"'", data_h=HTML("<&>"))
    label = f"[{cname}|{name}|ws={ws}]"
    attempt(label, lambda: t.get_html_string())
    if name in ("div", "script"):
        attempt(label + " indent2 eol=CRLF", lambda: t.get_html_string(2, "\r\n"))
        attempt(label + " eol=''", lambda: t.get_html_string(1, ""))

# TagList.get_html_string with all keyword combinations
for (cname, kids), add_ws, esc, ind in itertools.product(
    children_sets.items(), (True, False), (True, False), (0, 3)
):
    tl = TagList(*kids)
    label = f"<{cname}|add_ws={add_ws}|esc={esc}|indent={ind}>"
    attempt(label, lambda: tl.get_html_string(ind, "\n", add_ws=add_ws, _escape_strings=esc))
attempt("taglist eol", lambda: TagList("a", div("b"), "c").get_html_string(1, "|"))

# Attributes
attr_cases = {
    "no attrs": Tag("div"),
    "bool/num": Tag("div", hidden=True, absent=False, none=None, n=1, f=1.5),
    "escape": Tag("div", title="a<b>&\"'\n\r\t"),
    "html attr": Tag("div", title=HTML("a<b>&\"'")),
    "class merge": Tag("div", {"class": "a"}, {"class": HTML("b&")}, class_="c<"),
    "underscore": Tag("div", for_="x", data_a_b="y", _private="z"),
    "void w/ attrs": Tag("input", type="checkbox", checked=""),
}
for k, t in attr_cases.items():
    attempt("attr " + k, lambda: t.get_html_string())
    attempt("attr " + k + " attrs", lambda: dict(t.attrs))

# Errors / odd values: behaviour must match exactly, including exception messages
attempt("non-tagified in tag", lambda: div("a", OnlyTagify(), "b").get_html_string())
attempt("non-tagified single", lambda: div(OnlyTagify()).get_html_string())
attempt("non-tagified in list", lambda: TagList(OnlyTagify()).get_html_string())
attempt("non-tagified after text (partial)", lambda: TagList("x", OnlyTagify()).get_html_string())
attempt("repr returns HTML", lambda: repr(TagList("a", ReprReturnsHTML(), "b").get_html_string()))
attempt("repr returns HTML type", lambda: type(TagList("a", ReprReturnsHTML(), "b").get_html_string()).__name__)
attempt("repr returns HTML in div", lambda: div("a", ReprReturnsHTML(), "b").get_html_string())
attempt("repr returns int", lambda: TagList("a", ReprReturnsInt()).get_html_string())
attempt("bad indent str", lambda: TagList("a").get_html_string("x"))
attempt("bad indent str w/ repr", lambda: (CALLS.clear(), TagList(ReprOnly()).get_html_string("x"))[1])
show("calls after bad indent", list(CALLS))
attempt("bad indent no ws", lambda: TagList("a").get_html_string("x", add_ws=False))
attempt("bad indent tag", lambda: div("a", span("b")).get_html_string("x"))
attempt("bad eol", lambda: div("a", span("b")).get_html_string(0, None))
attempt("float indent", lambda: div(span("b")).get_html_string(1.5))
attempt("add_ws truthy non-bool", lambda: TagList("a", "b").get_html_string(1, add_ws="yes"))
attempt("add_ws falsy non-bool", lambda: TagList("a", span("b")).get_html_string(1, add_ws=0))

t = div("a")
t.name = 5
attempt("int name", lambda: t.get_html_string())
t = div()
t.name = None
attempt("None name empty", lambda: t.get_html_string())
t = div("a", span("b"))
t.add_ws = "truthy"
attempt("truthy add_ws", lambda: t.get_html_string())
t.add_ws = 0
attempt("falsy add_ws", lambda: t.get_html_string())
t = div("a", span("b"))
t.children.data.append(5)  # bypass normalisation
attempt("int child", lambda: t.get_html_string())
attempt("int child no escape", lambda: t.children.get_html_string(_escape_strings=False))
t = div()
t.children.data.append(None)
attempt("None only child", lambda: t.get_html_string())
t = div()
t.attrs["x"] = 5  # normalised to str by TagAttrDict
dict.__setitem__(t.attrs, "y", 6)  # bypass
attempt("int attr value", lambda: t.get_html_string())

# purity: repeated calls are identical, receiver unchanged
t = div("a", span("b", dep), HTML("<c>"), id="p")
s1 = t.get_html_string()
s2 = t.get_html_string()
show("repeat identical", s1 == s2)
show("str/repr/_repr_html_/render agree", str(t) == repr(t) == t._repr_html_() == t.render()["html"] == s1)
tl = TagList("a", span("b", dep), HTML("<c>"))
show("list agree", str(tl) == repr(tl) == tl._repr_html_() == tl.render()["html"] == tl.get_html_string())
