"""Probe for refactoring 4: wrap_displayhook_handler and _render_tag_or_taglist (str())."""
import sys

import htmltools
from htmltools import (
    HTML,
    HTMLDependency,
    Tag,
    TagList,
    div,
    span,
    wrap_displayhook_handler,
)
from htmltools._jsx import jsx_tag_create


def dep(name, version="1.0", **kw):
    return HTMLDependency(name, version, source={"subdir": "."}, script={"src": name + ".js"}, **kw)


class Multi:
    def __init__(self, *items):
        self.items = items

    def tagify(self):
        return TagList(*self.items)

    def __repr__(self):
        return "Multi%r" % (self.items,)


class Empty:
    def tagify(self):
        return TagList()

    def __repr__(self):
        return "Empty()"


class Both:
    calls = []

    def tagify(self):
        Both.calls.append("tagify")
        return span("tagified")

    def _repr_html_(self):
        Both.calls.append("repr_html")
        return "<b>repr</b>"

    def __repr__(self):
        return "Both()"


class ReprOnly:
    def _repr_html_(self):
        return "<u>ro & co</u>"

    def __repr__(self):
        return "ReprOnly()"


class ReprRaises:
    def _repr_html_(self):
        raise KeyError("no repr")

    def __repr__(self):
        return "ReprRaises()"


class ReprNonStr:
    def _repr_html_(self):
        return 42

    def __repr__(self):
        return "ReprNonStr()"


class EqLog:
    """Logs the comparisons used to decide whether the value is ignorable."""

    log = []

    def __init__(self, answer):
        self.answer = answer

    def __eq__(self, other):
        EqLog.log.append(repr(other))
        return self.answer(other)

    __hash__ = object.__hash__

    def __repr__(self):
        return "EqLog()"


class EqRaises:
    def __eq__(self, other):
        raise ArithmeticError("eq not allowed")

    __hash__ = object.__hash__

    def __repr__(self):
        return "EqRaises()"


class Ambiguous:
    """Like a numpy array: == gives something whose truth value is an error."""

    class _R:
        def __bool__(self):
            raise ValueError("truth value is ambiguous")

    def __eq__(self, other):
        return Ambiguous._R()

    __hash__ = object.__hash__

    def __repr__(self):
        return "Ambiguous()"


class TagifyNone:
    tagify = None

    def __repr__(self):
        return "TagifyNone()"


class ReprHtmlNone:
    _repr_html_ = None

    def __repr__(self):
        return "ReprHtmlNone()"


received = []


def handler(v):
    received.append(v)
    return "handler-return"


wrapped = wrap_displayhook_handler(handler)

values = [
    ("tag", div("a")),
    ("taglist", TagList("a", span("b"))),
    ("empty taglist", TagList()),
    ("multi", Multi("a", "b")),
    ("empty tagifiable", Empty()),
    ("both", Both()),
    ("repr only", ReprOnly()),
    ("html", HTML("<i>h</i>")),
    ("jsx", jsx_tag_create("Foo")(x=1)),
    ("dep", dep("dd")),
    ("None", None),
    ("Ellipsis", ...),
    ("zero", 0),
    ("false", False),
    ("true", True),
    ("empty str", ""),
    ("str", "text <b>"),
    ("float", 1.5),
    ("nan", float("nan")),
    ("list", [1, 2]),
    ("empty list", []),
    ("tuple with None", (None, ...)),
    ("dict", {"a": 1}),
    ("eq always true", EqLog(lambda o: True)),
    ("eq always false", EqLog(lambda o: False)),
    ("eq only ellipsis", EqLog(lambda o: o is ...)),
    ("eq notimplemented", EqLog(lambda o: NotImplemented)),
    ("eq truthy str", EqLog(lambda o: "yes")),
    ("eq raises", EqRaises()),
    ("ambiguous", Ambiguous()),
    ("tagify=None", TagifyNone()),
    ("_repr_html_=None", ReprHtmlNone()),
    ("repr raises", ReprRaises()),
    ("repr non-str", ReprNonStr()),
    ("type object Tag", Tag),
    ("function", len),
]

for label, v in values:
    received.clear()
    EqLog.log.clear()
    Both.calls.clear()
    try:
        ret = wrapped(v)
        out = "ret=%r" % (ret,)
    except Exception as e:  # noqa
        out = "EXC %s %s" % (type(e).__name__, e)
    desc = []
    for r in received:
        same = r is v
        desc.append((type(r).__name__, "same-object" if same else repr(str(r))))
    print(label, "->", out, "received=", desc, "eqlog=", EqLog.log, "both=", Both.calls)


# a handler that raises propagates unchanged, and nothing else is called
def bad_handler(v):
    raise LookupError("handler failed on %s" % type(v).__name__)


bw = wrap_displayhook_handler(bad_handler)
for label, v in values[:13]:
    try:
        print("bad", label, "->", bw(v))
    except Exception as e:  # noqa
        print("bad", label, "-> EXC", type(e).__name__, e)

# the wrappers are independent closures
w2 = wrap_displayhook_handler(handler)
print("distinct closures", w2 is not wrapped, w2.__name__, wrapped.__name__)

# through the Tag context manager
outer_seen = []
old = sys.displayhook
sys.displayhook = lambda v: outer_seen.append(v)
try:
    t = div(id="ctx")
    with t:
        sys.displayhook("text")
        sys.displayhook(None)
        sys.displayhook(...)
        sys.displayhook(span("inner"))
        sys.displayhook(Multi("m1", span("m2"), dep("cd")))
        sys.displayhook(ReprOnly())
        sys.displayhook(Both())
        sys.displayhook(3)
        sys.displayhook([None, "in list", [span("n")]])
        try:
            with t:
                pass
        except RuntimeError as e:
            print("re-enter", type(e).__name__, e)
finally:
    sys.displayhook = old
print("ctx children", [type(c).__name__ for c in t.children])
print("ctx outer_seen is t", [x is t for x in outer_seen])
r = t.render()
print("ctx render", repr(r["html"]), [(d.name, str(d.version)) for d in r["dependencies"]])
print("ctx prev hook reset", t.prev_displayhook)

# ---- str() / repr() / _repr_html_() via _render_tag_or_taglist, both render modes --------
objs = {
    "empty list": lambda: TagList(),
    "empty div": lambda: div(),
    "no deps": lambda: div("a", Multi("b", span("c"))),
    "one dep": lambda: div("a", Multi("b", dep("d1"))),
    "two deps": lambda: TagList(dep("d1"), span(Multi(dep("d2", "2.0"), "x")), "tail"),
    "dup deps": lambda: TagList(dep("d1", "1.0"), div(dep("d1", "3.0")), Multi(dep("d1", "2.0"))),
    "dep only": lambda: TagList(dep("d3", head="<meta name='h'>")),
    "empty tagifiable": lambda: TagList(Empty()),
    "both": lambda: div(Both()),
    "unexpanded": lambda: div(Multi(Multi("late"))),
}
print("default mode", htmltools.html_dependency_render_mode)
for mode in ("invisible", "json", "JSON", "", "invisible"):
    htmltools.html_dependency_render_mode = mode
    for name, mk in objs.items():
        for fname, f in (("str", str), ("repr", repr), ("_repr_html_", lambda o: o._repr_html_())):
            try:
                res = f(mk())
                print(repr(mode), name, fname, type(res).__name__, repr(res))
            except Exception as e:  # noqa
                print(repr(mode), name, fname, "EXC", type(e).__name__, e)
htmltools.html_dependency_render_mode = "invisible"
