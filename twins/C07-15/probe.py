"""Probe for refactoring 5: argument splitting in Tag()/consolidate_attrs and child normalisation."""
import collections

from htmltools import (
    HTML,
    HTMLDependency,
    MetadataNode,
    Tag,
    TagList,
    consolidate_attrs,
    div,
    span,
    tags,
)
from htmltools._core import TagAttrDict, _tagchilds_to_tagnodes
from htmltools._jsx import JSXTag


class Meta(MetadataNode):
    def __init__(self, label="m"):
        self.label = label

    def __repr__(self):
        return f"Meta({self.label!r})"


class ODict(collections.OrderedDict):
    pass


class IntTag(int):
    def tagify(self):
        return "never used"


class Repr:
    def _repr_html_(self):
        return "<i>repr</i>"

    def __repr__(self):
        return "Repr()"


class Widget:
    def tagify(self):
        return span("w", Meta("w"))

    def __repr__(self):
        return "Widget()"


def dep(name="a", version="1.0"):
    return HTMLDependency(name, version, source={"href": "/lib"}, script={"src": name + ".js"})


def show(label, fn):
    try:
        print(f"{label}: {fn()!r}")
    except Exception as e:  # noqa
        print(f"{label}: raised {type(e).__name__}: {e}")


def nodes(tl):
    return [(type(c).__name__, c if isinstance(c, str) else repr(c)) for c in tl]


d1 = dep("a")
m1 = Meta(1)
arg_sets = {
    "none": (),
    "text": ("t",),
    "meta": (m1,),
    "dep": (d1,),
    "attrs-only": ({"id": "i"}, {"class": "c"}),
    "mixed": (m1, {"id": "i"}, "t", d1, {"class": "c"}, Meta(2), {"class": "c2", "id": None}),
    "attr-last": ("t", Meta(), {"data-x": 1}),
    "tagattrdict": (TagAttrDict(id="x", class_="k"), "t", d1),
    "ordered-dict": (ODict(title="o"), Meta(), "t"),
    "empty-dict": ({}, Meta()),
    "nested-lists": ([m1, ["a", [d1, None, ("b", Meta(3))]], None], "c"),
    "dict-in-list": ([{"id": "not-an-attr"}], "t"),
    "taglist": (TagList(m1, "a", d1), TagList(), Meta()),
    "numbers": (1, 2.5, True, False, 0, -0.0, IntTag(7), m1),
    "none-children": (None, m1, None),
    "html": (HTML("<b>"), m1, "<b>"),
    "repr-html": (Repr(), Meta()),
    "widget": (Widget(), Meta(), d1),
    "jsx": (JSXTag("Foo", Meta()), Meta()),
    "tags": (span("s", m1), tags.br(d1), div(Meta())),
    "bad-object": (m1, object()),
    "bad-set": ({"a"},),
    "bad-bytes": (b"x", m1),
    "bad-after-attrs": ({"id": "i"}, 3j),
    "bad-nested": (["ok", [m1, [object]]],),
    "generator": ((x for x in "ab"),),
    "range": (range(2),),
    "str-list": (["ab", "cd"],),
}

for name, args in arg_sets.items():
    for tagname, add_ws in (("div", True), ("span", False), ("br", True), ("script", True)):
        show(f"{name}/{tagname}/html", lambda: Tag(tagname, *args, _add_ws=add_ws).tagify().get_html_string())
    show(f"{name}/attrs", lambda: dict(Tag("x", *args).attrs))
    show(f"{name}/children", lambda: nodes(Tag("x", *args).children))
    show(f"{name}/children-identity", lambda: [c is m1 or c is d1 for c in Tag("x", *args).children])
    show(f"{name}/kwargs", lambda: str(Tag("x", *args, id="kw", class_="kwc", data_n=None).tagify()))
    show(f"{name}/render", lambda: Tag("x", *args).render())
    show(f"{name}/dict-keys", lambda: list(Tag("x", *args).__dict__.keys()))
    show(f"{name}/consolidate", lambda: consolidate_attrs(*args, title="kw"))
    show(f"{name}/consolidate-identity", lambda: [any(c is a for a in args) for c in consolidate_attrs(*args)[1]])
    show(f"{name}/consolidate-types", lambda: [type(v).__name__ for v in consolidate_attrs(*args)])
    show(f"{name}/taglist", lambda: nodes(TagList(*args)) if not any(isinstance(a, dict) for a in args) else "skipped")
    show(f"{name}/to-nodes", lambda: nodes(_tagchilds_to_tagnodes(args)))

# _add_ws validation happens before args are looked at
show("add_ws/bad", lambda: Tag("div", object(), _add_ws="yes"))
show("add_ws/none", lambda: Tag("div", _add_ws=None))

# _tagchilds_to_tagnodes special cases
show("to-nodes/str", lambda: _tagchilds_to_tagnodes("abc"))
show("to-nodes/empty", lambda: _tagchilds_to_tagnodes([]))
src = [1, m1, [2.0, None]]
out = _tagchilds_to_tagnodes(src)
show("to-nodes/input-untouched", lambda: (src, out, out is not src))
show("to-nodes/fresh-list-type", lambda: type(out).__name__)
tl = TagList(m1, "a")
out2 = _tagchilds_to_tagnodes(tl)
show("to-nodes/taglist", lambda: (nodes(out2), type(out2).__name__, out2 is not tl.data))
show("to-nodes/none", lambda: _tagchilds_to_tagnodes(None))
show("to-nodes/int", lambda: _tagchilds_to_tagnodes(5))

# wrappers: insert/append/extend/+/+= at all positions
for pos in (0, 1, 2, 5, -1):
    t = div("a", span("b"))
    t.insert(pos, Meta(pos))
    t.children.insert(pos, [d1, None, 3])
    show(f"insert@{pos}", lambda: (nodes(t.children), t.render()))
t = div("a")
t.append(Meta(), 1, [None, d1])
t.extend([Meta(2), "z", (4.5,)])
show("append-extend", lambda: (nodes(t.children), t.render()))
show("append-bad", lambda: t.append(Meta(), object()))
show("after-bad-append", lambda: nodes(t.children))
show("extend-bad", lambda: t.extend(5))
tl = TagList("a")
tl += [Meta(), 1]
show("iadd", lambda: nodes(tl))
show("add", lambda: nodes(tl + [d1, None]))
show("radd", lambda: nodes([d1, 2] + tl))
show("add-str", lambda: nodes(tl + "str"))
show("add-bad", lambda: tl + [object()])
tl[1:1] = _tagchilds_to_tagnodes([Meta("slice")])
show("slice", lambda: (nodes(tl), tl.get_html_string()))
