"""Probe for Tag.add_class / Tag.add_style (and the attrs merge they rely on)."""
from htmltools import HTML, Tag, css, div, span, tags


def show(label, fn):
    try:
        r = fn()
        print(label, "->", repr(r))
    except Exception as e:  # noqa: BLE001
        print(label, "!!", type(e).__name__, str(e))


def state(t):
    return (
        [(k, type(v).__name__, str(v)) for k, v in t.attrs.items()],
        str(t),
    )


class MyStr(str):
    pass


class Truthy:
    def __init__(self, v):
        self.v = v

    def __bool__(self):
        return self.v


def starts():
    return [
        ("none", lambda: div()),
        ("cls", lambda: div(class_="a")),
        ("cls2", lambda: div(class_="a b  a")),
        ("cls-empty", lambda: div(class_="")),
        ("cls-true", lambda: div(class_=True)),
        ("cls-html", lambda: div(class_=HTML("x&y"))),
        ("style", lambda: div(style="color:red;")),
        ("style-html", lambda: div(style=HTML("content:'<';"))),
        ("both", lambda: span("kid", {"class": "k", "style": "top:0;"}, id="i", class_="z")),
        ("order", lambda: div(id="i", class_="c", title="t", style="s:1;", data_x="q")),
        ("other-tag", lambda: tags.input(type="text", class_="form")),
    ]


class_values = [
    "b", "a", "", " ", "x y", " pad ", "a&b", "<q>", 'q"uote', "é", "\n",
    HTML("h"), HTML("h&<"), HTML(""), MyStr("sub"),
    None, True, False, 5, 2.5, b"b", ["l"], ("t",), {"d": 1}, object,
]
style_values = [
    "top:1px;", ";", "a:b; ", "a:b", "", " ", "a:b;\n", ";;", "x:'\"<&>';",
    HTML("left:2px;"), HTML("left:2px"), HTML(""), HTML(";"), HTML("c:'<';"),
    MyStr("m:1;"), MyStr("m:1"),
    None, True, False, 5, 2.5, b"b;", ["l;"], ("t;",), {"d": 1},
]
prepends = [False, True, 0, 1, None, "", "yes", [], Truthy(True), Truthy(False)]

for sl, mk in starts():
    for v in class_values:
        for pre in prepends[:2]:
            def run():
                t = mk()
                r = t.add_class(v, prepend=pre)
                return (r is t, state(t))
            show("add_class start=%s v=%r prepend=%r" % (sl, v, pre), run)
    for v in style_values:
        for pre in prepends[:2]:
            def run():
                t = mk()
                before = state(t)
                try:
                    r = t.add_style(v, prepend=pre)
                except Exception:
                    print("   unchanged-after-error:", before == state(t))
                    raise
                return (r is t, state(t))
            show("add_style start=%s v=%r prepend=%r" % (sl, v, pre), run)

# truthiness of prepend
for pre in prepends:
    label = pre.v if isinstance(pre, Truthy) else pre
    show("add_class prepend-kind %r" % (label,),
         lambda: state(div(class_="a").add_class("b", prepend=pre)))
    show("add_style prepend-kind %r" % (label,),
         lambda: state(div(style="a:1;").add_style("b:2;", prepend=pre)))

# positional prepend is not allowed
show("add_class positional prepend", lambda: div().add_class("a", True))
show("add_style positional prepend", lambda: div().add_style("a;", True))

# chaining and repeated calls
show("chain", lambda: state(
    div().add_class("a").add_class("b", prepend=True).add_style("x:1;")
    .add_style("y:2;", prepend=True).add_class("a").add_class(HTML("<h>"))
    .add_style(HTML("z:'<';")).add_class("tail&")))
show("html then str", lambda: state(div(class_=HTML("<a>")).add_class("<b>").add_class("<c>", prepend=True)))
show("str then html", lambda: state(div(class_="<a>").add_class(HTML("<b>")).add_class("<c>")))
show("style html then str", lambda: state(div(style=HTML("a:'<';")).add_style("b:'<';", prepend=True)))
show("has_class after add", lambda: [div().add_class(c).has_class(c) for c in ["a", "a-b", "é", "A"]])
show("has_class after prepend", lambda: [div(class_="z").add_class(c, prepend=True).has_class(c) for c in ["a", "z"]])
show("css into add_style", lambda: state(div().add_style(css(font_size="1px", backgroundColor="red"))))
show("css none into add_style", lambda: state(div(style="a:1;").add_style(css())))

# attribute insertion order is preserved / new key goes last
show("key order class", lambda: list(div(id="i", title="t").add_class("c").attrs.keys()))
show("key order style", lambda: list(div(style="s;", id="i").add_class("c").add_style("t;").attrs.keys()))

# attrs manipulated behind the library's back
def raw(value, name="class"):
    t = div()
    dict.__setitem__(t.attrs, name, value)
    return t
for rv in [None, 5, "", "ok", HTML("h")]:
    show("raw class %r add_class" % (rv,), lambda: state(raw(rv).add_class("n")))
    show("raw class %r add_class prepend" % (rv,), lambda: state(raw(rv).add_class("n", prepend=True)))
    show("raw style %r add_style" % (rv,), lambda: state(raw(rv, "style").add_style("n;")))

# subclass and copies
class MyTag(Tag):
    pass
show("subclass", lambda: (type(MyTag("p").add_class("a")).__name__, state(MyTag("p", class_="q").add_class("a").add_style("s;"))))
from copy import copy
def cp():
    t = div(class_="a")
    c = copy(t)
    c.add_class("b")
    return (state(t), state(c))
show("copy isolation", cp)
