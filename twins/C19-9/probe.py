"""Probe for property C19: tag functions / Tag constructor pass-through and _add_ws defaults.

Prints a deterministic transcript; must be byte-identical before/after the refactoring.
"""
import copy
import inspect

import htmltools
from htmltools import HTML, Tag, TagList, consolidate_attrs, svg, tags
from htmltools._core import TagAttrDict


def show(label, thunk):
    try:
        r = thunk()
    except BaseException as e:  # noqa: BLE001
        print(label, "->", "EXC", type(e).__name__, str(e))
        return None
    print(label, "->", repr(r))
    return r


def describe(t):
    return (
        type(t).__name__,
        t.name,
        t.add_ws,
        type(t.attrs).__name__,
        list(t.attrs.items()),
        type(t.children).__name__,
        [(type(c).__name__, str(c)) for c in t.children],
        sorted(t.__dict__.keys()),
        str(t),
    )


def public_funcs(mod):
    out = []
    for nm, obj in vars(mod).items():
        if nm.startswith("_"):
            continue
        if inspect.isfunction(obj) and obj.__module__ == mod.__name__:
            out.append((nm, obj))
    return out


# ---- 1. every tag function in tags / svg: name, default, signature, pass-through ----
for mod in (tags, svg):
    funcs = public_funcs(mod)
    print(mod.__name__, "count", len(funcs))
    for nm, fn in funcs:
        sig = inspect.signature(fn)
        params = [(p.name, p.kind.name, repr(p.default)) for p in sig.parameters.values()]
        t0 = fn()
        t1 = fn("x", {"id": "i", "class_": "c1"}, 3, None, ["y", [4.5]], class_="c2", data_z=True, n=None, m=False)
        tT = fn("k", _add_ws=True)
        tF = fn("k", _add_ws=False)
        print(nm, fn.__name__, fn.__qualname__, params, sig.return_annotation)
        print("   ", describe(t0))
        print("   ", describe(t1))
        print("   ", describe(tT)[1:3], describe(tF)[1:3], str(tT), str(tF))
        for bad in (None, 0, 1, "True", "", [], 1.0):
            try:
                fn(_add_ws=bad)
                print("    bad", repr(bad), "ACCEPTED")
            except BaseException as e:  # noqa: BLE001
                print("    bad", repr(bad), type(e).__name__, str(e))
        # docstring first lines are part of the public surface
        print("    doc", (fn.__doc__ or "").strip().splitlines()[0:1], len(fn.__doc__ or ""))

# ---- 2. top-level shortcuts are the very same objects ----
print("htmltools.__all__", htmltools.__all__)
for nm in ("a", "br", "code", "div", "em", "h1", "h2", "h3", "h4", "h5", "h6", "hr", "img", "p", "pre", "span", "strong"):
    obj = getattr(htmltools, nm)
    print(nm, obj is getattr(tags, nm), obj.__module__, obj.__name__, describe(obj("q", id="z")))
print("tags.__all__", tags.__all__)
print("svg has __all__", hasattr(svg, "__all__"))
ns = {}
exec("from htmltools import *", ns)
print(sorted(k for k in ns if not k.startswith("__")))
ns = {}
exec("from htmltools.tags import *", ns)
print(sorted(k for k in ns if not k.startswith("__")))

# ---- 3. Tag constructor directly, many argument shapes ----
class MyDict(dict):
    pass


class Tagif:
    def __str__(self):
        return "<Tagif>"

    def tagify(self):
        return tags.span("tagified")


cases = {
    "empty": lambda: Tag("x"),
    "only_kw": lambda: Tag("x", id="a", class_="b", _add_ws=False),
    "only_dicts": lambda: Tag("x", {"a": 1}, {"a": 2, "b": None}, {}),
    "dict_subclass": lambda: Tag("x", MyDict(k="v"), "child"),
    "tagattrdict_arg": lambda: Tag("x", TagAttrDict({"class": "q"}), class_="r"),
    "mixed_order": lambda: Tag("x", "a", {"id": "1"}, "b", {"id": "2"}, "c", id="3"),
    "nested": lambda: Tag("x", ["a", ("b", ["c", None])], TagList("d", 1), None),
    "html_child": lambda: Tag("x", HTML("<b>"), "<b>"),
    "tag_children": lambda: Tag("x", tags.span("s"), tags.div("d"), svg.circle(r=1)),
    "tagifiable": lambda: Tag("x", Tagif()),
    "numbers": lambda: Tag("x", 1, 2.5, True, False),
    "bad_child": lambda: Tag("x", object()),
    "bad_child_after_dict": lambda: Tag("x", {"a": "b"}, object()),
    "bad_child_and_bad_ws": lambda: Tag("x", object(), _add_ws=1),
    "bad_attr_value": lambda: Tag("x", {"a": object()}),
    "bad_attr_and_bad_child": lambda: Tag("x", object(), {"a": [1]}),
    "bytes_child": lambda: Tag("x", b"abc"),
    "set_child": lambda: Tag("x", {"a", }),
    "name_kw_clash": lambda: Tag("x", _name="y"),
    "no_name": lambda: Tag(),
    "name_nonstr": lambda: Tag(5, "c"),
    "add_ws_none": lambda: Tag("x", _add_ws=None),
    "add_ws_int": lambda: Tag("x", _add_ws=1),
    "add_ws_in_dict": lambda: Tag("x", {"_add_ws": False}),
    "generator_child": lambda: Tag("x", (i for i in range(3))),
    "dict_values_child": lambda: Tag("x", {"a": "b"}.values()),
    "underscore_attrs": lambda: Tag("x", class_="a", for_="b", data_a_b="c", _x_="d", __="e"),
    "str_name_clash_fn": lambda: tags.div(_name="y"),
    "svg_name_clash_fn": lambda: svg.circle(_name="y"),
}
for k, th in cases.items():
    try:
        t = th()
        print(k, "->", describe(t))
    except BaseException as e:  # noqa: BLE001
        print(k, "-> EXC", type(e).__name__, str(e))

# state left behind on a partially-constructed Tag when construction fails
class Sub(Tag):
    def __init__(self, *a, **k):
        try:
            super().__init__(*a, **k)
        except BaseException as e:  # noqa: BLE001
            self.err = (type(e).__name__, str(e))


for args, kw in (
    (("s",), {"_add_ws": 1}),
    (("s", object()), {}),
    (("s", {"a": object()}, "kid"), {}),
    (("s", {"a": 1}, object()), {}),
    (("s",), {}),
    (("s", "kid", {"a": 1}), {"b": 2}),
):
    s = Sub(*args, **kw)
    d = dict(s.__dict__)
    print("partial", sorted(d.keys()), d.get("err"), d.get("name"), d.get("add_ws"), repr(d.get("attrs")), repr(d.get("children")))

# ---- 4. copies and secondary constructors ----
t = tags.span("a", tags.b("c"), id="i")
c1 = copy.copy(t)
c2 = copy.deepcopy(t)
print(describe(c1), describe(c2), c1.children is t.children, c1.children[1] is t.children[1], c2.children[1] is t.children[1])
print(consolidate_attrs("a", {"id": 1}, ["k"], class_="z"))
show("consolidate_bad_ws", lambda: consolidate_attrs("a", _add_ws=2))
show("consolidate_ws", lambda: consolidate_attrs("a", _add_ws=False))
print(str(htmltools.HTMLDocument(tags.div("hi", tags.span("x")), lang="en").render()["html"]))
print(str(tags.div(tags.span("a"), tags.p("b", tags.em("c")), svg.svg(svg.g(svg.circle(), svg.text("t"), svg.tspan("u"), svg.a("v"))))))
print(isinstance(tags.div, htmltools.TagFunction), isinstance(svg.a, htmltools.TagFunction))

# kwargs object identity / mutation: caller's dicts must not be modified
kw = {"id": "a", "class_": "b"}
d = {"x": 1}
t = tags.div(d, "c", **kw)
print(kw, d, describe(t))
t = svg.rect(d, "c", **kw)
print(kw, d, describe(t))

# ---- 5. the defaults are the genuine bool singletons, stored in __kwdefaults__ ----
for mod in (svg, tags):
    inline, block = [], []
    for nm, fn in public_funcs(mod):
        kd = fn.__kwdefaults__
        assert list(kd.keys()) == ["_add_ws"], (nm, kd)
        v = kd["_add_ws"]
        print(nm, type(v).__name__, v is True, v is False, fn.__defaults__, fn().add_ws is v)
        (block if v else inline).append(nm)
    print(mod.__name__, "inline:", inline)
    print(mod.__name__, "block:", block)

# rendering differences that follow from the default: inline vs block siblings
print(str(svg.svg(svg.a("x"), svg.a("y"))))
print(str(svg.g(svg.a("x"), svg.text("y"), svg.svg("z"), svg.circle())))
print(str(tags.div(svg.svg(svg.circle(r=1)), "tail")))
print(str(svg.svg(svg.circle(r=1), _add_ws=True)))
print(str(svg.circle(svg.title("t"), _add_ws=False)))
# builtin-shadowing names in the svg module still behave as tag functions
for nm in ("set", "filter", "use", "view", "switch", "symbol", "style", "script", "title", "text"):
    fn = getattr(svg, nm, None)
    print(nm, None if fn is None else describe(fn("c", id="i")))
