# Probe for TagList.get_html_string (metadata nodes skipped, separator logic).
import itertools
from htmltools import (
    HTML, HTMLDependency, Tag, TagList, div, span, tags, head_content,
)
from htmltools._core import MetadataNode


def dep(n="a", v="1.0"):
    return HTMLDependency(n, v)


class Meta(MetadataNode):
    pass


class Repr:
    def __init__(self, s):
        self.s = s

    def _repr_html_(self):
        return self.s


class Tagif:
    def tagify(self):
        return span("tagified")


class Grower:
    """ReprHtml object that grows the list it lives in while being rendered."""

    def __init__(self):
        self.owner = None
        self.done = False

    def _repr_html_(self):
        if self.owner is not None and not self.done:
            self.done = True
            self.owner.data.append(Meta())
            self.owner.data.append("late")
        return "<g/>"


def show(label, fn):
    try:
        r = fn()
        print(label, "->", type(r).__name__, repr(r))
    except Exception as e:  # noqa: BLE001
        print(label, "!!", type(e).__name__, str(e))


def atoms():
    return {
        "txt": lambda: "a<b",
        "empty": lambda: "",
        "html": lambda: HTML("<i>x</i>"),
        "div": lambda: div("x", span("y")),
        "ediv": lambda: div(),
        "br": lambda: tags.br(),
        "inl": lambda: span("s", _add_ws=False),
        "inl2": lambda: Tag("b", "q", span("z"), _add_ws=False),
        "repr": lambda: Repr("<r>&</r>"),
        "script": lambda: tags.script("if (a < b) {}", "x && y"),
    }


A = atoms()
names = list(A)

# 1. every single / pair / triple of visible nodes, with metadata at every gap
for n in (0, 1, 2, 3):
    for combo in itertools.product(names, repeat=n) if n < 3 else [
        c for i, c in enumerate(itertools.product(names, repeat=3)) if i % 7 == 0
    ]:
        base = [A[c]() for c in combo]
        plain = TagList(*base)
        ref = plain.get_html_string()
        for mask in range(2 ** (n + 1)):
            items = []
            for gap in range(n + 1):
                if mask >> gap & 1:
                    items.append(dep("d%d" % gap) if gap % 2 else Meta())
                if gap < n:
                    items.append(A[combo[gap]]())
            tl = TagList(*items)
            out = tl.get_html_string()
            if out != ref:
                print("MISMATCH", combo, mask, repr(out), repr(ref))
        print(combo, repr(ref))

# 2. parameters
tl = TagList(dep(), "t1", Meta(), div("a", dep("z"), span("b")), Meta(),
             span("i", _add_ws=False), "t2", Repr("<r/>"), dep("q"), tags.br())
for indent in (0, 1, 3):
    for eol in ("\n", "", "\r\n", "|"):
        for add_ws in (True, False):
            for esc in (True, False):
                show(
                    f"p indent={indent} eol={eol!r} add_ws={add_ws} esc={esc}",
                    lambda: tl.get_html_string(indent, eol, add_ws=add_ws, _escape_strings=esc),
                )

# 3. only metadata / empty
show("empty", lambda: TagList().get_html_string())
show("onlymeta", lambda: TagList(dep(), Meta(), dep("b")).get_html_string(2, "\n"))
show("onlymeta-noaddws", lambda: TagList(Meta()).get_html_string(add_ws=False))

# 4. errors
show("untagified", lambda: TagList(Meta(), "a", Tagif()).get_html_string())
show("untagified-first", lambda: TagList(Tagif(), dep()).get_html_string())
show("bad indent", lambda: TagList(Meta(), "a").get_html_string("x"))
show("bad indent only meta", lambda: TagList(Meta()).get_html_string("x"))
show("bad eol", lambda: TagList("a", Meta(), div()).get_html_string(0, 5))
show("bad eol single", lambda: TagList(Meta(), div()).get_html_string(0, 5))
show("none eol inline", lambda: TagList("a", Meta(), "b").get_html_string(0, None))

# 5. list mutated while rendering
g = Grower()
tl2 = TagList(Meta(), "first", g, dep(), div("d"))
g.owner = tl2
show("grower", lambda: tl2.get_html_string())
show("grower again", lambda: tl2.get_html_string())
print("len after", len(tl2), [type(x).__name__ for x in tl2])

# 6. through Tag / str / render
t = div(dep(), "a", Meta(), span("b"), dep("x", "2"), HTML("<u>"), Meta())
show("tag", lambda: t.get_html_string())
show("tag str", lambda: str(t))
show("tag render", lambda: t.render())
show("taglist render", lambda: TagList(dep(), t, head_content(tags.title("T")), "z").render())
show("script w/ meta", lambda: tags.script(dep(), "a<b", Meta(), "c&d").get_html_string())
show("style w/ html", lambda: tags.style(Meta(), HTML("a>b"), "c>d").get_html_string())
