"""Probe for property C09 (tagifiable objects render as their expansion).

Prints repr of outputs / exception types deterministically.
"""
import copy as _copy
import traceback

import htmltools
from htmltools import (
    HTML,
    HTMLDependency,
    HTMLDocument,
    Tag,
    TagList,
    div,
    head_content,
    span,
    tags,
)
from htmltools._core import MetadataNode, _tagchilds_to_tagnodes

LOG = []


def show(label, fn):
    del LOG[:]
    try:
        res = fn()
        out = repr(res)
    except BaseException as e:  # noqa: BLE001
        out = "EXC " + type(e).__name__ + ": " + str(e)
    print("== " + label)
    print(out)
    if LOG:
        print("   log:", LOG)


def dep(name, version="1.0", **kw):
    return HTMLDependency(name, version, **kw)


class Tfy:
    """Tagifiable that returns a fixed value (or calls a thunk) and logs."""

    def __init__(self, name, value):
        self.name = name
        self.value = value

    def tagify(self):
        LOG.append("tagify:" + self.name)
        v = self.value
        if callable(v) and not isinstance(v, (Tag, TagList)):
            return v()
        return v


class TfyRepr(Tfy):
    """Both tagifiable and self-rendering."""

    def _repr_html_(self):
        LOG.append("repr_html:" + self.name)
        return "<self-rendered %s>" % self.name


class Repr:
    def __init__(self, name, value=None):
        self.name = name
        self.value = value

    def _repr_html_(self):
        LOG.append("repr_html:" + self.name)
        if self.value is not None:
            return self.value
        return "<i>%s</i>" % self.name


class Boom:
    def __init__(self, name, exc):
        self.name = name
        self.exc = exc

    def tagify(self):
        LOG.append("tagify:" + self.name)
        raise self.exc


class Meta(MetadataNode):
    def __init__(self, name):
        self.name = name

    def __copy__(self):
        LOG.append("copy:" + self.name)
        return Meta(self.name + "'")

    def __repr__(self):
        return "Meta(%s)" % self.name


class MyList(TagList):
    pass


def raw_taglist(items):
    """A TagList whose .data was set directly (bypassing normalisation)."""
    x = TagList()
    x.data = list(items)
    return x


def nodes(x):
    """Structure dump: types and reprs of nodes (recursively for tags)."""
    out = []
    for c in x:
        if isinstance(c, Tag):
            out.append((c.name, nodes(c.children)))
        else:
            out.append((type(c).__name__, repr(c)))
    return out


# ---------------------------------------------------------------------------
# 1. TagList.tagify: splicing, order, copying
# ---------------------------------------------------------------------------
def sec_tagify():
    show("tagify empty", lambda: nodes(TagList().tagify()))
    show("tagify plain", lambda: nodes(TagList("a", 1, 2.5, None, HTML("<b>"), div("x")).tagify()))
    show(
        "tagify splice multi",
        lambda: nodes(
            TagList(
                "a",
                Tfy("t1", TagList("x", "y", span("z"))),
                "b",
                Tfy("t2", TagList()),
                Tfy("t3", "str"),
                Tfy("t4", HTML("<raw>")),
                Tfy("t5", div("d")),
                "c",
            ).tagify()
        ),
    )
    show("tagify only empty", lambda: nodes(TagList(Tfy("e1", TagList()), Tfy("e2", TagList())).tagify()))
    show("tagify first/last", lambda: nodes(TagList(Tfy("f", TagList("1", "2")), "m", Tfy("l", TagList("3", "4"))).tagify()))
    show(
        "tagify nested tagifiable in returned TagList (stays unexpanded)",
        lambda: [type(c).__name__ for c in TagList(Tfy("o", TagList(Tfy("i", "inner"), "s"))).tagify()],
    )
    show(
        "tagify returns tagifiable (stays)",
        lambda: [type(c).__name__ for c in TagList(Tfy("o", Tfy("i", "inner"))).tagify()],
    )
    show("tagify returns None", lambda: list(TagList(Tfy("n", None), "x").tagify().data))
    show("tagify returns list", lambda: list(TagList(Tfy("n", lambda: ["p", "q"]), "x").tagify().data))
    show("tagify returns int", lambda: list(TagList("w", Tfy("n", 7)).tagify().data))
    show("tagify returns dep", lambda: list(TagList(Tfy("n", dep("a")), "x").tagify().data))
    show(
        "tagify returns raw taglist w/ numbers+None+nested",
        lambda: list(TagList(Tfy("n", raw_taglist([1, None, 2.5, True, ["k", ("l",)], TagList("m")])), "x").tagify().data),
    )
    show(
        "tagify returns raw taglist w/ invalid item",
        lambda: TagList(Tfy("a", "A"), Tfy("bad", raw_taglist(["ok", object()])), Tfy("z", "Z")).tagify(),
    )
    show(
        "tagify exception order",
        lambda: TagList(Tfy("a", "A"), Boom("b", ValueError("vb")), Tfy("c", "C"), Boom("d", KeyError("kd")), Tfy("e", "E")).tagify(),
    )
    show(
        "tagify call order",
        lambda: nodes(TagList(Tfy("a", "A"), Meta("m1"), Tfy("b", TagList("B1", "B2")), Meta("m2"), Tfy("c", "C")).tagify()),
    )
    show("tagify metadata copied", lambda: list(TagList(Meta("m"), dep("x"), "s").tagify().data))

    def identity():
        d = dep("x")
        m = Meta("m")
        tl = TagList(d, m, "s")
        cp = tl.tagify()
        return (cp[0] is d, cp[0] == d, cp[1] is m, cp is tl, cp.data is tl.data, list(tl.data) == [d, m, "s"])

    show("tagify identity", identity)

    def subclass():
        x = MyList("a", Tfy("t", TagList("b", "c")))
        x.extra = [1]
        cp = x.tagify()
        return (type(cp).__name__, list(cp.data), cp.extra is x.extra, len(x))

    show("tagify subclass", subclass)

    def original_untouched():
        t = Tfy("t", TagList("b", "c"))
        x = TagList("a", t, div(t))
        cp = x.tagify()
        return (len(x), x[1] is t, x[2].children[0] is t, len(cp), nodes(cp))

    show("tagify original untouched", original_untouched)

    def tag_tagify():
        t = Tfy("t", TagList("b", span("c")))
        x = div("a", t, span(t, t), id="i")
        cp = x.tagify()
        return (cp is x, cp.children is x.children, cp.attrs is x.attrs, cp.attrs == x.attrs, nodes([cp]), len(x.children))

    show("Tag.tagify", tag_tagify)

    def mutate_parent():
        holder = {}

        def thunk():
            holder["p"].append("late")
            holder["p"].insert(0, "early")
            return TagList("T1", "T2")

        p = TagList("a", Tfy("t", thunk), "b")
        holder["p"] = p
        cp = p.tagify()
        return (list(cp.data[:1]) + [type(c).__name__ for c in cp.data[1:]], [type(c).__name__ for c in p.data])

    show("tagify mutating parent", mutate_parent)

    def self_returning():
        class Me:
            def tagify(self):
                LOG.append("me")
                return self

        return [type(c).__name__ for c in TagList(Me(), "x").tagify()]

    show("tagify returns self", self_returning)


# ---------------------------------------------------------------------------
# 2. render(): Tag / TagList
# ---------------------------------------------------------------------------
def sec_render():
    t1 = lambda: Tfy("t1", TagList("x", span("y"), dep("d1", "1.0"), "z"))  # noqa: E731
    show("TagList.render basic", lambda: TagList("a", t1(), "b").render())
    show("Tag.render basic", lambda: div("a", t1(), "b").render())
    show("Tag.render nested deep", lambda: div(span(div(t1())), Tfy("e", TagList())).render())
    show("render empty expansion only", lambda: div(Tfy("e", TagList())).render())
    show("render empty taglist", lambda: TagList().render())
    show("render single str expansion", lambda: div(Tfy("s", "<esc>&")).render())
    show("render single HTML expansion", lambda: div(Tfy("s", HTML("<esc>&"))).render())
    show("render script child expansion", lambda: tags.script(Tfy("s", "a<b"), Tfy("s2", TagList("c<d", HTML("e<f")))).render())
    show("render style single", lambda: tags.style(Tfy("s", "a>b")).render())
    show("render inline", lambda: span(Tfy("s", TagList(span("a"), "b", span("c", _add_ws=False))), _add_ws=False).render())
    show(
        "render deps dedup",
        lambda: TagList(
            dep("a", "1.0"),
            Tfy("t", TagList(dep("a", "2.0"), dep("b", "1.0"))),
            div(Tfy("u", dep("b", "0.5")), Tfy("v", div(dep("c", "3")))),
        ).render(),
    )
    show("render dep returned directly", lambda: div(Tfy("t", dep("q", "1.1"))).render())
    show("render head_content", lambda: div(Tfy("t", TagList(head_content(tags.title("T")), "x"))).render())
    show("render unexpanded nested -> error", lambda: div(Tfy("o", TagList(Tfy("i", "inner")))).render())
    show("render unexpanded returned -> error", lambda: TagList("a", Tfy("o", Tfy("i", "inner"))).render())
    show("render unexpanded in tag returned", lambda: div(Tfy("o", lambda: _raw_tag_with(Tfy("i", "inner")))).render())
    show("render unexpanded but ReprHtml", lambda: div("a", Tfy("o", TagList(TfyRepr("i", "inner"), "s"))).render())
    show("render TfyRepr top-level gets tagified", lambda: div("a", TfyRepr("i", "inner")).render())
    show("render ReprHtml", lambda: div("a", Repr("r"), "b", span("c")).render())
    show("render ReprHtml returns HTML obj", lambda: TagList("<a>", Repr("r", HTML("<h>")), "<b>", div("<c>")).render())
    show("render ReprHtml returns int", lambda: TagList("a", Repr("r", 5), Repr("r2")).render())
    show("render tagify raising", lambda: div("a", Boom("b", ZeroDivisionError("z")), Tfy("c", "C")).render())
    show("render None result", lambda: div("a", Tfy("n", None)).render())
    show("render int result", lambda: div("a", Tfy("n", 3)).render())
    show("render list result", lambda: div("a", Tfy("n", lambda: ["p"])).render())
    show("str()", lambda: str(div("a", t1(), Tfy("e", TagList()))))
    show("str() error", lambda: str(TagList(Tfy("o", Tfy("i", "x")))))

    def json_mode():
        old = htmltools.html_dependency_render_mode
        htmltools.html_dependency_render_mode = "json"
        try:
            return str(div("a", t1()))
        finally:
            htmltools.html_dependency_render_mode = old

    show("str() json mode", json_mode)

    class RTag(Tag):
        def tagify(self):
            LOG.append("RTag.tagify")
            return super().tagify()

        def get_dependencies(self, dedup=True):
            LOG.append("RTag.get_dependencies(%r)" % (dedup,))
            return super().get_dependencies(dedup=dedup)

        def get_html_string(self, indent=0, eol="\n"):
            LOG.append("RTag.get_html_string(%r,%r)" % (indent, eol))
            return super().get_html_string(indent, eol)

    show("render subclass dispatch", lambda: RTag("r", "a", t1()).render())
    show("render subclass nested", lambda: div(RTag("r", "a", t1()), "q").render())
    show("render subclass in TagList", lambda: TagList(RTag("r", t1()), "q").render())

    class RList(TagList):
        def tagify(self):
            LOG.append("RList.tagify")
            return super().tagify()

        def get_dependencies(self, *, dedup=True):
            LOG.append("RList.get_dependencies(%r)" % (dedup,))
            return super().get_dependencies(dedup=dedup)

        def get_html_string(self, *a, **k):
            LOG.append("RList.get_html_string(%r,%r)" % (a, sorted(k.items())))
            return super().get_html_string(*a, **k)

    show("render list subclass dispatch", lambda: RList("a", t1()).render())


def _raw_tag_with(child):
    t = div("pre")
    t.children.data.append(child)
    return t


# ---------------------------------------------------------------------------
# 3. get_html_string directly (no tagify)
# ---------------------------------------------------------------------------
def sec_html_string():
    un = Tfy("u", "U")
    show("ghs unexpanded taglist", lambda: TagList("a", un).get_html_string())
    show("ghs unexpanded first", lambda: TagList(un, "a").get_html_string())
    show("ghs unexpanded in tag", lambda: div("a", un).get_html_string())
    show("ghs unexpanded single child of tag", lambda: div(un).get_html_string())
    show("ghs unexpanded deep", lambda: div(span(div("x", un))).get_html_string())
    show("ghs unexpanded after repr", lambda: TagList(Repr("r"), un, Repr("r2")).get_html_string())
    show("ghs both -> self-rendered", lambda: TagList("a", TfyRepr("b", "x"), "c").get_html_string())
    show("ghs both in tag", lambda: div("a", TfyRepr("b", "x"), span("c")).get_html_string())
    show("ghs meta skipped", lambda: TagList(Meta("m"), "a", dep("d"), "b", Meta("n")).get_html_string())
    show("ghs only meta", lambda: TagList(Meta("m"), dep("d")).get_html_string())

    mix = lambda: TagList("a<", HTML("<h>"), span("s"), Repr("r"), div("d", span("e")), span("i", _add_ws=False), "t", span("j", _add_ws=False), span("k", _add_ws=False), Repr("r2"), "end")  # noqa: E731
    for kw in [
        {},
        {"indent": 2},
        {"indent": 1, "eol": "\r\n"},
        {"add_ws": False},
        {"add_ws": False, "indent": 3},
        {"_escape_strings": False},
        {"eol": ""},
        {"indent": 0, "eol": "|", "add_ws": True, "_escape_strings": False},
    ]:
        show("ghs mix %r" % (sorted(kw.items()),), lambda kw=kw: mix().get_html_string(**kw))
    show("ghs positional", lambda: mix().get_html_string(1, "~"))

    # Exception precedence with a bad indent
    show("ghs bad indent str first", lambda: TagList("a").get_html_string(indent="x"))
    show("ghs bad indent repr first", lambda: TagList(Repr("r")).get_html_string(indent="x"))
    show("ghs bad indent unexpanded first", lambda: TagList(un).get_html_string(indent="x"))
    show("ghs bad indent unexpanded, no ws", lambda: TagList(un).get_html_string(indent="x", add_ws=False))
    show("ghs bad indent repr, no ws", lambda: TagList(Repr("r"), "s").get_html_string(indent="x", add_ws=False))
    show("ghs float indent", lambda: TagList("a", "b").get_html_string(indent=1.0))
    show("ghs bool indent", lambda: TagList("a", Repr("r"), span("x")).get_html_string(indent=True))
    show("ghs eol None", lambda: TagList("a", "b").get_html_string(eol=None))
    show("ghs eol None single", lambda: TagList("a").get_html_string(eol=None))

    # Odd nodes that bypass normalisation
    show("ghs raw None node", lambda: raw_taglist(["a", None]).get_html_string())
    show("ghs raw int node", lambda: raw_taglist(["a", 5]).get_html_string())
    show("ghs raw int node noescape", lambda: raw_taglist(["a", 5]).get_html_string(_escape_strings=False))
    show("ghs raw HTML noescape", lambda: repr(raw_taglist(["<a>", HTML("<h>"), "<b>"]).get_html_string(_escape_strings=False)))
    show("ghs repr returns HTML", lambda: (lambda r: (type(r).__name__, str(r)))(TagList("<a>", Repr("r", HTML("<h>")), "<b>", span("<c>")).get_html_string()))
    show("ghs repr returns HTML first", lambda: (lambda r: (type(r).__name__, str(r)))(TagList(Repr("r", HTML("<h>")), "<b>", Repr("q")).get_html_string(indent=1)))
    show("ghs repr returns None", lambda: TagList("a", Repr("r", 0), "b").get_html_string())
    show("ghs repr returns bytes", lambda: TagList(Repr("r", b"x")).get_html_string())

    class OddTag(Tag):
        pass

    def odd_add_ws():
        t = OddTag("odd", "x")
        t.add_ws = 0
        u = span("u")
        u.add_ws = "yes"
        return TagList("a", t, "b", u, "c", t, u).get_html_string(add_ws=False)

    show("ghs odd add_ws values", odd_add_ws)

    class ReprRaises:
        def _repr_html_(self):
            LOG.append("raising")
            raise LookupError("lk")

    show("ghs repr raises", lambda: TagList(Repr("a"), ReprRaises(), Repr("b")).get_html_string())

    class GetAttrLogger:
        """Logs which protocol attributes are probed (isinstance order)."""

        def __getattr__(self, name):
            LOG.append("getattr:" + name)
            raise AttributeError(name)

    show("ghs isinstance probe order", lambda: raw_taglist(["a", GetAttrLogger()]).get_html_string())
    show("ghs isinstance probe order noescape", lambda: raw_taglist([GetAttrLogger()]).get_html_string(_escape_strings=False, add_ws=False))


# ---------------------------------------------------------------------------
# 4. HTMLDocument
# ---------------------------------------------------------------------------
def sec_document():
    t1 = lambda: Tfy("t1", TagList("x", span("y"), dep("d1", "1.0", script={"src": "s.js"}, source={"subdir": "/tmp/nonexistent"}), "z"))  # noqa: E731
    show("doc fragment", lambda: HTMLDocument("a", t1(), "b").render())
    show("doc fragment kwargs", lambda: HTMLDocument(t1(), lang="en", class_="k").render())
    show("doc empty", lambda: HTMLDocument().render())
    show("doc empty expansion", lambda: HTMLDocument(Tfy("e", TagList())).render())
    show("doc body", lambda: HTMLDocument(tags.body("a", t1(), class_="bd")).render())
    show("doc body + sibling", lambda: HTMLDocument(tags.body("a"), "sib").render())
    show("doc html", lambda: HTMLDocument(tags.html(tags.head(tags.title("T")), tags.body(t1())), lang="fr").render())
    show("doc html no head", lambda: HTMLDocument(tags.html(tags.body(t1()))).render())
    show("doc html head not first", lambda: HTMLDocument(tags.html(dep("h0", "1"), tags.body("b"), tags.head("hh"))).render())
    show("doc html + sibling", lambda: HTMLDocument(tags.html("a"), "sib").render())
    show("doc expands to html", lambda: HTMLDocument(Tfy("h", tags.html(tags.body("in", t1()))), lang="x").render())
    show("doc expands to taglist(html)", lambda: HTMLDocument(Tfy("h", TagList(tags.html(tags.body("in"))))).render())
    show("doc expands to body", lambda: HTMLDocument(Tfy("b", tags.body("in", t1(), id="bb"))).render())
    show("doc expands to taglist(body, x)", lambda: HTMLDocument(Tfy("b", TagList(tags.body("in"), "x"))).render())
    show("doc expands to html + empty", lambda: HTMLDocument(Tfy("h", tags.html("q")), Tfy("e", TagList())).render())
    show("doc single str", lambda: HTMLDocument("only").render())
    show("doc single repr", lambda: HTMLDocument(Repr("r")).render())
    show("doc single meta", lambda: HTMLDocument(dep("m", "2")).render())
    show("doc lib_prefix/include_version", lambda: HTMLDocument(t1()).render(lib_prefix=None, include_version=False))
    show("doc lib_prefix custom", lambda: HTMLDocument(t1()).render(lib_prefix="assets"))
    show("doc nested tagifiable (expanded by second pass)", lambda: HTMLDocument(Tfy("o", TagList(Tfy("i", "x")))).render())
    show("doc html nested tagifiable", lambda: HTMLDocument(tags.html(Tfy("o", Tfy("i", "x")))).render())
    show("doc nested tagifiable+repr", lambda: HTMLDocument(Tfy("o", TagList(TfyRepr("i", "x")))).render())
    show("doc tagify raises", lambda: HTMLDocument("a", Boom("b", OSError("os")), Tfy("c", "C")).render())
    show("doc call order", lambda: HTMLDocument(Tfy("a", "A"), div(Tfy("b", TagList("B"))), Tfy("c", div(Tfy("d", "D")))).render())
    show("doc html call order", lambda: HTMLDocument(Tfy("h", lambda: tags.html(Tfy("b", "B"), tags.body(Tfy("c", "C"))))).render())
    show("doc dep dedup + head_content", lambda: HTMLDocument(dep("a", "1"), Tfy("t", TagList(dep("a", "1.5"), head_content(tags.meta(name="m")))), div(dep("a", "0.1"))).render())
    show("doc bad kwargs html", lambda: HTMLDocument(tags.html("a"), **{"data-x": 1, "hidden": True, "none": None}).render())
    show("doc bad kwargs frag", lambda: HTMLDocument("a", **{"data-x": 1, "hidden": True, "none": None}).render())

    class NameTag(Tag):
        pass

    def odd_name():
        t = NameTag("x", "c")
        t.name = "html"
        return HTMLDocument(t, id="i").render()

    show("doc tag renamed html", odd_name)

    def reuse():
        t = tags.html(tags.head("h"), tags.body("b", Tfy("t", "T")), id="orig")
        d = HTMLDocument(t, lang="en")
        r1 = d.render()["html"]
        r2 = d.render()["html"]
        return (r1 == r2, t.attrs, len(t.children[0].children), r1)

    show("doc does not mutate content", reuse)

    def appended():
        d = HTMLDocument("a")
        d.append(Tfy("t", TagList("b", dep("z", "9"))), ["c", None])
        return d.render()

    show("doc append", appended)

    show("hoist non-html", lambda: HTMLDocument._hoist_head_content(div("x"), "lib", True))
    show("hoist direct", lambda: str(HTMLDocument._hoist_head_content(tags.html("a", tags.head("h1"), tags.head("h2"), dep("w", "1")), None, False)))
    show("hoist nested head ignored", lambda: str(HTMLDocument._hoist_head_content(tags.html(div(tags.head("inner"))), "lib", True)))

    def hoist_identity():
        h = tags.head("hh")
        x = tags.html(h, tags.body("b"))
        res = HTMLDocument._hoist_head_content(x, "lib", True)
        return (res is x, res.children[0] is h, len(h.children), len(x.children), len(res.children[0].children))

    show("hoist identity", hoist_identity)

    show("gen tree fragment", lambda: str(HTMLDocument("a", t1())._gen_html_tag_tree("lib", include_version=True)))
    show("gen tree html", lambda: str(HTMLDocument(tags.html("a", t1()), k="v")._gen_html_tag_tree(None, include_version=False)))
    show("gen tree body", lambda: str(HTMLDocument(tags.body("a", t1()), k="v")._gen_html_tag_tree("p", include_version=True)))

    import os
    import tempfile

    def save():
        with tempfile.TemporaryDirectory() as d:
            f = os.path.join(d, "o.html")
            div("a", Tfy("t", TagList("b", head_content(tags.title("S"))))).save_html(f)
            with open(f) as fh:
                return fh.read()

    show("save_html", save)


# ---------------------------------------------------------------------------
# 5. dependencies & node normalisation used by the splice
# ---------------------------------------------------------------------------
def sec_deps_nodes():
    show("deps nodedup", lambda: TagList(dep("a", "1"), div(dep("a", "2"), span(dep("a", "1"))), dep("b", "1")).get_dependencies(dedup=False))
    show("deps dedup", lambda: TagList(dep("a", "1"), div(dep("a", "2"), span(dep("a", "1"))), dep("b", "1")).get_dependencies())
    show("deps equal versions keep first", lambda: [d.all_files for d in TagList(dep("a", "1", all_files=True), dep("a", "1.0", all_files=False)).get_dependencies()])
    show("deps tag", lambda: div(dep("a", "1"), Tfy("t", dep("hidden", "1"))).get_dependencies())
    show("deps ignores unexpanded", lambda: TagList(Tfy("t", dep("hidden", "1")), Meta("m")).get_dependencies())
    show("deps empty", lambda: (TagList().get_dependencies(), TagList().get_dependencies(dedup=False)))

    class BothTagDep(Tag, HTMLDependency):
        def __init__(self):
            Tag.__init__(self, "both", dep("inner", "1"))
            self.version = "0"  # not parsed; only used if reported
            self.name = "both"

    show("deps tag+dep object", lambda: [getattr(d, "name", None) for d in raw_taglist([BothTagDep()]).get_dependencies(dedup=False)])

    show("nodes str", lambda: _tagchilds_to_tagnodes("abc"))
    show("nodes mixed", lambda: _tagchilds_to_tagnodes([1, 2.0, True, None, "s", ["n", (3, None)], TagList("t", 4), HTML("h")]))
    show("nodes generator", lambda: _tagchilds_to_tagnodes(x for x in [1, "a", None]))
    show("nodes invalid", lambda: _tagchilds_to_tagnodes(["a", 1, object()]))
    show("nodes invalid dict", lambda: _tagchilds_to_tagnodes([{"a": 1}]))
    show("nodes invalid bytes", lambda: _tagchilds_to_tagnodes([b"x"]))
    show("nodes non-iterable", lambda: _tagchilds_to_tagnodes(5))
    show("nodes empty", lambda: _tagchilds_to_tagnodes([]))

    def input_untouched():
        src = [1, "a", [2]]
        out = _tagchilds_to_tagnodes(src)
        return (src, out, out is src)

    show("nodes input untouched", input_untouched)

    def taglist_ops():
        x = TagList("a")
        x.append(Tfy("t", "T"), 1, None)
        x.insert(0, [2, "b"])
        x.extend((3.5, TagList("c")))
        x += ["d"]
        return [c if isinstance(c, str) else type(c).__name__ for c in x]

    show("taglist ops", taglist_ops)


def main():
    sec_tagify()
    sec_render()
    sec_html_string()
    sec_document()
    sec_deps_nodes()


if __name__ == "__main__":
    try:
        main()
    except BaseException:  # noqa: BLE001
        traceback.print_exc()
        raise
