"""Deterministic probe for property C03 (attribute value escaping / merging)."""
from __future__ import annotations

import htmltools
from htmltools import HTML, Tag, TagList, div, span, tags, html_escape, a
from htmltools._core import TagAttrDict
from htmltools import _util


def show(label, fn):
    try:
        r = fn()
        print(f"{label}: {type(r).__name__} {r!r}")
    except BaseException as e:  # noqa
        print(f"{label}: EXC {type(e).__name__}: {e}")


class MyStr(str):
    pass


SPECIALS = ["&", "<", ">", '"', "'", "\r", "\n", "\t", " ", "", "\x00", "\u00e9", "\u2028"]
STRINGS = [
    "",
    "plain",
    "a&b",
    "&amp;",
    "<script>alert('x')</script>",
    '" onload="x',
    "' onload='x",
    "line1\nline2",
    "cr\rlf\r\n",
    "a>b<c",
    "&<>\"'\r\n",
    "&&&&",
    "tab\there",
    "\u00e9\u4e2d\U0001f600",
    "a|b",
    "x" * 50 + "&",
    "&#10;",
    "&quot;",
]

# ---------------------------------------------------------------- html_escape
print("== html_escape")
for s in SPECIALS + STRINGS:
    for attr in (False, True, 0, 1, None, "yes", ""):
        show(f"esc({s!r},attr={attr!r})", lambda: html_escape(s, attr))
    show(f"esc({s!r})", lambda: html_escape(s))
    show(f"esc_kw({s!r})", lambda: html_escape(text=s, attr=True))
    show(f"_esc({s!r})", lambda: _util._html_escape(s, attr=True))

for s in ["plain", "", "no specials here"]:
    print("identity", repr(s), html_escape(s) is s, html_escape(s, attr=True) is s)
for s in [MyStr("plain"), MyStr("a&b"), MyStr("q\"q")]:
    r0 = html_escape(s)
    r1 = html_escape(s, attr=True)
    print("mystr", repr(s), type(r0).__name__, repr(r0), r0 is s, type(r1).__name__, repr(r1), r1 is s)

for bad in [None, 0, 1.5, b"a&b", b"", HTML("a&b"), ["a"], ("a",), True, object]:
    for attr in (False, True):
        show(f"esc_bad({bad!r},{attr})", lambda: html_escape(bad, attr=attr))

print("tables", list(_util.HTML_ESCAPE_TABLE.items()), list(_util.HTML_ATTRS_ESCAPE_TABLE.items()))

# ---------------------------------------------------------------- _normalize_attr_value / name
print("== normalize")
VALUES = [
    None, False, True, 0, 1, -1, 2**70, 0.0, -0.0, 1.5, float("nan"), float("inf"), 1e100,
    "", "x", "a&b", HTML(""), HTML("a&b"), HTML("<b>"), MyStr("m&m"),
    b"bytes", [], ["a"], (), {}, {"a": 1}, set(), object, 1j, Tag("i"), TagList("a"),
]
for v in VALUES:
    show(f"normval({v!r})", lambda: TagAttrDict._normalize_attr_value(v))
    show(f"normval_inst({v!r})", lambda: TagAttrDict()._normalize_attr_value(v))
for v in ["s", HTML("h"), MyStr("m")]:
    print("normval identity", repr(v), TagAttrDict._normalize_attr_value(v) is v)


class IntSub(int):
    pass


class FloatSub(float):
    pass


class HTMLSub(HTML):
    pass


for v in [IntSub(3), FloatSub(2.5), HTMLSub("<i>")]:
    show(f"normval_sub({type(v).__name__})", lambda: TagAttrDict._normalize_attr_value(v))

NAMES = ["", "_", "__", "a", "a_", "a__", "_a", "a_b", "a_b_", "class_", "data_foo_bar", "A_B", "for_", "-", "a-b_", 1, None, b"a_"]
for n in NAMES:
    show(f"normname({n!r})", lambda: TagAttrDict._normalize_attr_name(n))

# ---------------------------------------------------------------- TagAttrDict
print("== TagAttrDict")


def dump(d):
    return [(k, type(v).__name__, str(v)) for k, v in d.items()]


def mk(*args, **kwargs):
    return dump(TagAttrDict(*args, **kwargs))


show("empty", lambda: mk())
show("empty map", lambda: mk({}))
show("empty maps", lambda: mk({}, {}))
for v in VALUES:
    show(f"ctor kw({v!r})", lambda: mk(x=v))
    show(f"ctor map({v!r})", lambda: mk({"x": v}))
    show(f"ctor merge str+({v!r})", lambda: mk({"x": "a<b"}, {"x": v}))
    show(f"ctor merge ({v!r})+str", lambda: mk({"x": v}, {"x": "a<b"}))
    show(f"ctor merge html+({v!r})", lambda: mk({"x": HTML("h&h")}, {"x": v}))
    show(f"ctor merge ({v!r})+html", lambda: mk({"x": v}, {"x": HTML("h&h")}))

    def si():
        d = TagAttrDict(x="old")
        d["x"] = v
        return dump(d)

    show(f"setitem({v!r})", si)

    def si2():
        d = TagAttrDict()
        d["new_name_"] = v
        return dump(d)

    show(f"setitem new({v!r})", si2)

for s in STRINGS:
    for t in STRINGS[::3]:
        show(f"merge s+s ({s!r},{t!r})", lambda: mk({"k": s}, {"k": t}))
        show(f"merge s+h ({s!r},{t!r})", lambda: mk({"k": s}, {"k": HTML(t)}))
        show(f"merge h+s ({s!r},{t!r})", lambda: mk({"k": HTML(s)}, {"k": t}))
        show(f"merge h+h ({s!r},{t!r})", lambda: mk({"k": HTML(s)}, {"k": HTML(t)}))

show("three way s h s", lambda: mk({"k": "a&"}, {"k": HTML("<b>")}, {"k": "'c\n"}))
show("three way h s s", lambda: mk({"k": HTML("<b>")}, {"k": "a&"}, {"k": "'c\n"}))
show("three way s s h", lambda: mk({"k": "a&"}, {"k": "'c\n"}, {"k": HTML("<b>")}))
show("three way s s s", lambda: mk({"k": "a&"}, {"k": "'c\n"}, {"k": "<"}))
show("num merge", lambda: mk({"k": 1}, {"k": 2.5}, {"k": True}, {"k": None}, {"k": False}, {"k": HTML("&")}))
show("name collide one map", lambda: mk({"class_": "a&", "class": HTML("<b>"), "cla_ss": "no"}))
show("name collide kw", lambda: mk({"data-x": "1"}, data_x="2", data_x_="3"))
show("kw after args", lambda: mk({"a": "1"}, {"b": "2"}, a="3", b=HTML("<4>")))
show("mystr merge", lambda: mk({"k": MyStr("m&")}, {"k": HTML("<h>")}))
show("mystr merge2", lambda: mk({"k": MyStr("m&")}, {"k": MyStr("n&")}))
show("mystr single", lambda: mk({"k": MyStr("m&")}))
show("htmlsub merge", lambda: mk({"k": HTMLSub("<i>")}, {"k": "a\"b"}))
show("tagattrdict arg", lambda: mk(TagAttrDict(a="1&", b=HTML("<2>")), {"a": HTML("&3"), "b": "'4"}))
show("bad name none val", lambda: mk({1: None}))
show("bad name false val", lambda: mk({1: False}))
show("bad name str val", lambda: mk({1: "v"}))
show("bad name bad val", lambda: mk({1: []}))
show("bad arg", lambda: mk([("a", "b")]))
show("bad arg none", lambda: mk(None))
show("bad later", lambda: mk({"a": "1"}, {"b": []}))


def upd_existing():
    d = TagAttrDict(a="old&", b=HTML("<old>"), c="keep")
    d.update({"a": "new1"}, {"a": HTML("<new2>")}, b="q'", d_=7)
    return dump(d)


show("update existing (replaces, no merge with stored)", upd_existing)


def upd_partial_failure():
    d = TagAttrDict(a="old")
    try:
        d.update({"a": "x", "b": "y"}, {"c": object()})
    except TypeError as e:
        return ("TypeError", dump(d))
    return dump(d)


show("update partial failure leaves dict", upd_partial_failure)


def setitem_bad_name():
    d = TagAttrDict()
    d[1] = None
    d[2] = False
    try:
        d[3] = "x"
    except AttributeError:
        return ("AttributeError", dump(d))
    return dump(d)


show("setitem bad name", setitem_bad_name)


def upd_order():
    d = TagAttrDict(z="1", a="2")
    d.update({"m": "3", "a": "4"}, {"b_": "5", "z": HTML("6")})
    return dump(d)


show("update order", upd_order)

# ---------------------------------------------------------------- rendering
print("== render")


def r(t, **kw):
    return t.get_html_string(**kw)


for s in STRINGS:
    show(f"div title({s!r})", lambda: r(div(title=s)))
    show(f"div title HTML({s!r})", lambda: r(div(title=HTML(s))))
    show(f"div merged({s!r})", lambda: r(div({"title": s}, title=HTML("<x>"))))
    show(f"div merged2({s!r})", lambda: r(div({"title": HTML("<x>")}, title=s)))
    show(f"div merged3({s!r})", lambda: r(div({"title": "p&q"}, title=s)))
    show(f"str(div)({s!r})", lambda: str(div("kid", class_=s, id=s)))
    show(f"render({s!r})", lambda: div(span(data_v=s), x=s).render()["html"])

for v in [None, False, True, 0, 1, 1.5, -2, "", HTML("")]:
    show(f"attr val({v!r})", lambda: r(div(hidden=v, other="o")))
    show(f"void attr val({v!r})", lambda: r(tags.input(disabled=v, value="a\"b")))

show("many attrs", lambda: r(div("c", span("d", e="f\n"), id="a&", class_="b c", data_x=HTML("&raw;"), style="x:y;", n=3, t=True, f=False, z=None)))
show("no attrs", lambda: r(div()))
show("no attrs void", lambda: r(tags.br()))
show("indent", lambda: r(div(span("x", k="v<"), div(k2="'"), a="\n"), indent=2, eol="\r\n"))
show("indent pos", lambda: div(a="<").get_html_string(1, "|"))
show("script tag attr", lambda: r(tags.script("a<b", src="x&y=1", type="t\"")))
show("style tag attr", lambda: r(tags.style("a<b", media="x<y")))
show("inline", lambda: r(a("link", href="?a=1&b=2", title="it's")))
show("nested ws", lambda: r(div(span("a", x="1"), span("b", y="\"2\""), _add_ws=False)))
show("Tag direct", lambda: r(Tag("my-el", {"a_b": "c>d"}, "kid", q_="'")))
show("TagList", lambda: TagList(div(a="&"), "txt<", span(b=HTML("&"))).get_html_string())


def add_class():
    t = div(class_="a&b")
    t.add_class("c<d")
    t.add_class(HTML("e&amp;f"), prepend=True)
    return r(t), dump(t.attrs)


show("add_class", add_class)


def add_class_none():
    t = div()
    t.add_class("only'")
    return r(t), dump(t.attrs)


show("add_class none", add_class_none)


def add_style():
    t = div(style="a:'x';")
    t.add_style(HTML("b:\"y\";"))
    t.add_style("c:<z>;", prepend=True)
    return r(t), dump(t.attrs)


show("add_style", add_style)
show("add_style bad", lambda: div().add_style("nosemi"))


def remove_class():
    t = div(class_="a b&c d")
    t.remove_class("b&c")
    return r(t)


show("remove_class", remove_class)


def set_attrs_direct():
    t = div()
    t.attrs["data_x_"] = "v\r"
    t.attrs["n"] = 5
    t.attrs["t"] = True
    t.attrs["skip"] = None
    t.attrs["h"] = HTML("<&>")
    return r(t), dump(t.attrs)


show("set attrs direct", set_attrs_direct)


def raw_dict_insert():
    # bypass normalisation: non-str value stored directly
    t = div()
    dict.__setitem__(t.attrs, "k", 5)
    return r(t)


show("raw dict int value", raw_dict_insert)


def raw_dict_insert2():
    t = div(a="ok&")
    dict.__setitem__(t.attrs, "k", None)
    dict.__setitem__(t.attrs, "z", "after")
    return r(t)


show("raw dict None value", raw_dict_insert2)


def raw_mystr():
    t = div()
    dict.__setitem__(t.attrs, "k", MyStr("m<"))
    dict.__setitem__(t.attrs, "h", HTMLSub("<raw>"))
    return r(t)


show("raw mystr value", raw_mystr)

# ---------------------------------------------------------------- HTML arithmetic
print("== HTML add")
for s in STRINGS[:10]:
    show(f"H+s({s!r})", lambda: HTML("<h>") + s)
    show(f"s+H({s!r})", lambda: s + HTML("<h>"))
    show(f"H+H({s!r})", lambda: HTML("<h>") + HTML(s))
    show(f"H+' '+s({s!r})", lambda: HTML("<h>") + " " + s)
show("H+int", lambda: HTML("a") + 5)
show("int+H", lambda: 5 + HTML("a"))
show("H+None", lambda: HTML("a") + None)

# ---------------------------------------------------------------- JSX / deps share helpers
print("== misc")
show("dep meta", lambda: str(htmltools.HTMLDependency("n&m", "1.0", source={"subdir": "."}, meta=[{"name": "a\"b", "content": "<c>"}], all_files=False).as_html_tags()))
show("head_content", lambda: str(htmltools.head_content(tags.link(href="a&b", rel="x'y"))))
show("HTMLDocument", lambda: htmltools.HTMLDocument(div(a="<&>"), lang="e\"n").render()["html"])
show("tag_repr", lambda: repr(div(a="<", b=HTML(">"))))
