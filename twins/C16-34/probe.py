# Probe for Tag.has_class and Tag.remove_class (shared notion of "class values")
from htmltools import HTML, Tag, div, span, tags


def state(t):
    return "attrs=%r types=%r html=%r" % (
        list(t.attrs.items()),
        [type(v).__name__ for v in t.attrs.values()],
        str(t),
    )


def call(fn):
    try:
        r = fn()
        return "%s:%r" % (type(r).__name__, r)
    except Exception as e:  # noqa: BLE001
        return "EXC %s: %s" % (type(e).__name__, e)


class EqAll:
    def __eq__(self, other):
        return True

    def __hash__(self):
        return 1

    def __repr__(self):
        return "EqAll()"


class EqRaises:
    def __eq__(self, other):
        raise RuntimeError("eq boom")

    def __repr__(self):
        return "EqRaises()"


class StrA:
    def __str__(self):
        return " a "

    def __repr__(self):
        return "StrA()"


class S(str):
    pass


makers = [
    ("noattr", lambda: div(id="i")),
    ("empty", lambda: div(class_="")),
    ("true", lambda: div(class_=True)),
    ("ws-only", lambda: div(class_=" \t\r\n\x0b\x0c ")),
    ("one", lambda: div(class_="a")),
    ("many", lambda: div(id="i", class_="a b  a\tc\na d", title="t")),
    ("padded", lambda: span(class_="  a   b  ")),
    ("html", lambda: div(class_=HTML("a <b> &amp; a"))),
    ("html-empty", lambda: div(class_=HTML(""))),
    ("html-ws", lambda: div(class_=HTML(" \n"))),
    ("merged", lambda: div({"class": "m1"}, {"class": HTML("m2")}, class_="m3")),
    ("num", lambda: div(class_=12)),
    ("unicode-ws", lambda: div(class_="p q r​s")),
    ("subclass", lambda: div(class_=S("s1 s2"))),
]
args = ["a", "b", "c", "d", "", " ", " a", "a ", "a b", "A", "<b>", "&amp;", "m1", "m2", "m3", "12", 12,
        HTML("a"), HTML("<b>"), HTML(""), S("a"), S("s2"), None, 0, True, False, 1.5, [], ("a",), b"a",
        EqAll(), EqRaises(), StrA(), "p", "q", "r", "r​s", "p q"]

for mlabel, make in makers:
    for a in args:
        t = make()
        h = call(lambda: t.has_class(a))
        r = call(lambda: "same" if t.remove_class(a) is t else "OTHER")
        h2 = call(lambda: t.has_class(a))
        print("[%s] %r has=%s remove=%s has_after=%s %s" % (mlabel, a, h, r, h2, state(t)))

# has_class does not modify
t = div(class_="  x  y ")
print(t.has_class("x"), t.has_class("y"), t.has_class("x  y"), state(t))

# add/remove/has round trips
t = tags.p("txt")
for step in [("add", "k1"), ("add", "k2"), ("has", "k1"), ("rm", "k1"), ("has", "k1"), ("has", "k2"),
             ("addp", "k0"), ("rm", "k2"), ("rm", "k0"), ("has", "k0"), ("rm", "k0")]:
    op, c = step
    if op == "add":
        out = t.add_class(c) is t
    elif op == "addp":
        out = t.add_class(c, prepend=True) is t
    elif op == "rm":
        out = t.remove_class(c) is t
    else:
        out = t.has_class(c)
    print(step, out, state(t))

# the helper-free public surface on subclasses / other tags
class MyTag(Tag):
    pass


m = MyTag("my-tag", class_="u v u")
print(m.has_class("u"), type(m.remove_class("u")).__name__, m.has_class("u"), m.has_class("v"), state(m))

# positional / keyword calling conventions
t = div(class_="kw1 kw2")
print(call(lambda: t.has_class(class_="kw1")), call(lambda: t.remove_class(class_="kw1") is t), state(t))
print(call(lambda: t.has_class()), call(lambda: t.remove_class()), call(lambda: t.has_class("a", "b")))
