"""Probe for refactoring 2: htmltools._util.hash_deterministic and htmltools._core.head_content."""
import hashlib

import htmltools
from htmltools import HTML, HTMLDependency, HTMLDocument, TagList, div, head_content, span, tags
from htmltools._util import hash_deterministic


def show(label, fn):
    try:
        res = fn()
    except BaseException as e:  # noqa: BLE001
        print(label, "-> EXC", type(e).__name__)
    else:
        print(label, "->", repr(res))


strings = [
    "",
    "a",
    "abc",
    "<title>My Title</title>",
    "line1\nline2\r\n\ttab",
    "\x00",
    "café",
    "日本語",
    "\U0001f600 emoji",
    "x" * 100000,
    " ",
    "A",
    "a ",
]
for s in strings:
    label = repr(s if len(s) < 40 else s[:10] + "...(%d)" % len(s))
    show("hash " + label, lambda: hash_deterministic(s))
    assert hash_deterministic(s) == hashlib.sha1(s.encode("utf-8")).hexdigest()
    assert hash_deterministic(s) == hash_deterministic(str(s))

show("hash type", lambda: type(hash_deterministic("q")).__name__)
show("hash len", lambda: len(hash_deterministic("q")))
show("hash lone surrogate", lambda: hash_deterministic("\ud800"))
show("hash bytes", lambda: hash_deterministic(b"abc"))
show("hash None", lambda: hash_deterministic(None))
show("hash int", lambda: hash_deterministic(3))
show("hash HTML obj", lambda: hash_deterministic(HTML("<b>")))
show("hash no arg", lambda: hash_deterministic())


class MyStr(str):
    def encode(self, *a, **k):
        print("   encode called with", a, k)
        return b"custom"


show("hash str subclass", lambda: hash_deterministic(MyStr("zzz")))
show("repeat stable", lambda: len({hash_deterministic("same") for _ in range(5)}))


def info(d):
    return (
        d.name,
        repr(d.version),
        type(d.name).__name__,
        d.head.get_html_string() if d.head is not None else None,
        d.source,
        d.script,
        d.stylesheet,
        d.meta,
        d.all_files,
    )


contents = {
    "no args": (),
    "None": (None,),
    "empty str": ("",),
    "empty TagList": (TagList(),),
    "title": (tags.title("My Title"),),
    "title again": (tags.title("My Title"),),
    "title other": (tags.title("My title"),),
    "text": ("plain & <text>",),
    "HTML text": (HTML("plain & <text>"),),
    "escaped equiv": (HTML("plain &amp; &lt;text&gt;"),),
    "two args": (tags.meta(name="a", content="b"), tags.link(rel="x", href="y")),
    "two args swapped": (tags.link(rel="x", href="y"), tags.meta(name="a", content="b")),
    "nested list": ([tags.meta(name="a", content="b"), [tags.link(rel="x", href="y")]],),
    "taglist": (TagList(tags.meta(name="a", content="b"), tags.link(rel="x", href="y")),),
    "script": (tags.script("if (a < b && c) { x = '</'; }"),),
    "style": (tags.style("a > b { color: red }"),),
    "numbers": (1, 2.5, True),
    "unicode": (tags.title("café 日本 \U0001f600"),),
    "inline ws": (span("a", _add_ws=False), span("b", _add_ws=False)),
    "block ws": (span("a"), span("b")),
    "with dep inside": (div("x", HTMLDependency("inner", "1.0")),),
    "with dep inside other": (div("x", HTMLDependency("other", "9.0")),),
    "attr order 1": (div(id="a", class_="b"),),
    "attr order 2": (div(class_="b", id="a"),),
    "meta pad": (TagList(tags.title("My Title"), tags.meta()),),
}
names = {}
for label, args in contents.items():
    show("head_content " + label, lambda: info(head_content(*args)))
    names[label] = head_content(*args).name
    assert names[label] == "headcontent_" + hashlib.sha1(
        TagList(*args).get_html_string().encode("utf-8")
    ).hexdigest()

show("equal content equal name", lambda: names["title"] == names["title again"])
show("different content different name", lambda: names["title"] != names["title other"])
show("nested list == flat", lambda: names["two args"] == names["nested list"] == names["taglist"])
show("order matters", lambda: names["two args"] != names["two args swapped"])
show("dep inside invisible", lambda: names["with dep inside"] == names["with dep inside other"])
show("distinct names", lambda: len(set(names.values())))


class NotTagified:
    def tagify(self):
        return span("late")


show("head_content non-tagified", lambda: info(head_content(NotTagified())))
show("head_content bad child", lambda: info(head_content(object())))
show("head_content surrogate", lambda: info(head_content("\udc80")))
show("head_content dict arg", lambda: info(head_content({"a": 1})))
show("head_content kwargs", lambda: head_content(x=1))

# history independence + identity
t = tags.title("T")
d1 = head_content(t)
tags.title("noise")
head_content("noise")
d2 = head_content(t)
show("same name after history", lambda: d1.name == d2.name)
show("distinct objects", lambda: d1 is not d2 and d1.head is not d2.head)
show("head shares child object", lambda: d1.head[0] is t)
show("version objects", lambda: (repr(d1.version), d1.version == d2.version))
show("repr", lambda: repr(d1))
show("str", lambda: str(d1))

# document-level: included once per doc, different content not merged
x = div(
    head_content(tags.title("My Title")),
    span(head_content(tags.title("My Title"))),
    head_content(tags.title("Other")),
    head_content(TagList(tags.title("My Title"), tags.meta())),
    "body",
)
show("doc", lambda: HTMLDocument(x).render()["html"])
show("doc deps", lambda: [repr(d) for d in HTMLDocument(x).render()["dependencies"]])
show("tag render", lambda: [repr(d) for d in x.render()["dependencies"]])
show("serialize", lambda: str(head_content(tags.title("S")).serialize_to_script_json()))
show("as_dict", lambda: head_content(tags.title("S")).as_dict())
show("public export", lambda: htmltools.head_content is head_content)
