"""Probe for refactoring 4: Tag.remove_class / Tag.has_class."""
from htmltools import HTML, Tag, a, div, span


def render(t):
    try:
        return str(t).replace("\n", "\\n")
    except BaseException as e:  # noqa: BLE001
        return "RENDER-EXC " + type(e).__name__


def state(t):
    return "%s | %r" % (
        render(t),
        [(k, type(v).__name__, str(v)) for k, v in t.attrs.items()],
    )


def show(label, make, fn):
    t = make()
    try:
        r = fn(t)
        if isinstance(r, Tag):
            print(label, "-> same:", r is t, "|", state(t))
        else:
            print(label, "->", type(r).__name__, repr(r), "|", state(t))
    except BaseException as e:  # noqa: BLE001
        print(label, "-> EXC", type(e).__name__, str(e), "|", state(t))


class Weird:
    """Truthy object whose str() is a class token."""

    def __init__(self, s, log):
        self.s = s
        self.log = log

    def __str__(self):
        self.log.append("str")
        return self.s


class Falsy:
    def __init__(self, log):
        self.log = log

    def __bool__(self):
        self.log.append("bool")
        return False

    def __str__(self):
        self.log.append("str")
        return "a"


def direct(val):
    # bypass TagAttrDict normalisation to plant unusual stored values
    t = div()
    dict.__setitem__(t.attrs, "class", val)
    return t


MAKERS = [
    ("bare", lambda: div()),
    ("one", lambda: div(class_="a")),
    ("dup", lambda: div(class_="a b a c a")),
    ("only-dups", lambda: div(class_="a a  a")),
    ("ws", lambda: div(class_="  a\tb\n c  ")),
    ("empty", lambda: div(class_="")),
    ("blank", lambda: div(class_="   ")),
    ("true", lambda: div(class_=True)),
    ("html", lambda: div(class_=HTML("a <b> a"))),
    ("html-one", lambda: div(class_=HTML("a"))),
    ("html-empty", lambda: div(class_=HTML(""))),
    ("prefix", lambda: div(class_="ab a abc aa")),
    ("case", lambda: div(class_="A a Ä ä")),
    ("special", lambda: div(class_='x&y "q" <i>')),
    ("others", lambda: a("t", id="i", class_="x a y", style="s:1;", href="#")),
    ("after", lambda: span({"class": "a b"}, title="t")),
    ("nbsp", lambda: div(class_="a b a")),
    ("num", lambda: div(class_="1 2 1.5")),
    ("direct-none", lambda: direct(None)),
    ("direct-int0", lambda: direct(0)),
]

TOKENS = ["a", "b", "c", "", " ", " a ", "a b", "\ta\n", "A", "ab", "<b>", "x&y", '"q"', "1", "a b", "zzz"]
OTHER = [HTML("a"), HTML(""), HTML(" a "), None, 0, 1, 1.5, True, False, [], ["a"], ("a",), b"a"]

for mname, mk in MAKERS:
    for tok in TOKENS + OTHER:
        show("remove_class %s %r" % (mname, tok), mk, lambda t, tok=tok: t.remove_class(tok))
        show("has_class %s %r" % (mname, tok), mk, lambda t, tok=tok: t.has_class(tok))

# stored value that is truthy but has no split()
show("remove direct-int", lambda: direct(7), lambda t: t.remove_class("a"))
show("has direct-int", lambda: direct(7), lambda t: t.has_class("a"))
show("remove direct-list", lambda: direct(["a", "b"]), lambda t: t.remove_class("a"))
show("has direct-list", lambda: direct(["a", "b"]), lambda t: t.has_class("a"))

# call order / side effects of coercion
log = []
show("weird hit", lambda: div(class_="a b"), lambda t: t.remove_class(Weird("a", log)))
show("weird miss", lambda: div(class_="a b"), lambda t: t.remove_class(Weird("q", log)))
show("weird noattr", lambda: div(), lambda t: t.remove_class(Weird("a", log)))
show("weird has", lambda: div(class_="a b"), lambda t: t.has_class(Weird("a", log)))
show("falsy", lambda: div(class_="a b"), lambda t: t.remove_class(Falsy(log)))
print("log", log)

# attribute order is preserved when the class attribute is rewritten, dropped when emptied
t = a(id="i", class_="p q r", href="#", style="s:1;")
print(state(t.remove_class("q")))
print(state(t.remove_class("p")))
print(state(t.remove_class("r")))
print("class" in t.attrs, t.has_class("r"), t.has_class(""))
print(state(t.remove_class("r")))
t.add_class("n1").add_class("n2", prepend=True)
print(state(t), t.has_class("n1"), t.has_class("n2"), t.has_class("n"))
print(state(t.remove_class("n2").remove_class("n1")))

# chaining returns the same object
t = div(class_="a b c d")
r = t.remove_class("a").remove_class("zz").remove_class("d")
print(r is t, state(t))

# missing / extra arguments
show("no arg remove", div, lambda t: t.remove_class())
show("no arg has", div, lambda t: t.has_class())
show("kw remove", lambda: div(class_="a"), lambda t: t.remove_class(class_="a"))
show("kw has", lambda: div(class_="a"), lambda t: t.has_class(class_="a"))
