# Probe for refactoring 1: HTML.__add__ / HTML.__radd__ and their shared helper.
import itertools
from htmltools import HTML, TagList, div, span, tags, Tag


def show(label, fn):
    try:
        r = fn()
        print(label, "->", type(r).__name__, repr(str(r)) if not isinstance(r, (bool, int)) else r)
    except Exception as e:  # noqa: BLE001
        print(label, "-> EXC", type(e).__name__, str(e)[:80])


class Weird:
    def __repr__(self):
        return "Weird()"

    def __str__(self):
        return "<weird & 'q' \">"


class BadStr:
    def __str__(self):
        raise ValueError("no str")


class SubHTML(HTML):
    pass


class LoudHTML(HTML):
    log = []

    def as_string(self):
        LoudHTML.log.append("as_string:" + self.data)
        return super().as_string()


plain = ["", "a", "<b>&amp;</b>", "x & y", "\"q\" 'r'", "\n<\r>", "&lt;", "é<ü>"]
trusted = [HTML(""), HTML("<i>t</i>"), HTML("&amp;"), HTML("a<b"), SubHTML("<s>")]
others = [0, 1.5, True, None, ["<l>"], ("<t>",), {"<k>": 1}, Weird(), b"<by>"]

for p in plain:
    for t in trusted:
        show(f"{p!r}+{t!r}", lambda: p + t)
        show(f"{t!r}+{p!r}", lambda: t + p)
        show(f"div({p!r}+{t!r})", lambda: div(p + t))
        show(f"div({p!r},{t!r})", lambda: div(p, t))
        show(f"script({t!r}+{p!r})", lambda: tags.script(t + p))
        show(f"attr({t!r}+{p!r})", lambda: div(title=t + p))

for a, b in itertools.product(trusted, repeat=2):
    show(f"{a!r}+{b!r}", lambda: a + b)
    show(f"radd({a!r},{b!r})", lambda: a.__radd__(b))
    show(f"type", lambda: type(a + b) is HTML)

for o in others:
    for t in trusted[:3]:
        show(f"{t!r}+{o!r}", lambda: t + o)
        show(f"{o!r}+{t!r}", lambda: o + t)
        show(f"__add__", lambda: t.__add__(o))
        show(f"__radd__", lambda: t.__radd__(o))

show("bad+", lambda: HTML("x") + BadStr())
show("+bad", lambda: BadStr() + HTML("x"))

# grouping / associativity
for a, b, c in itertools.product(["<a>", HTML("<A>")], ["&b", HTML("&B")], ["'c'", HTML("'C'")]):
    show(f"({a!r}+{b!r})+{c!r}", lambda: div((a + b) + c))
    show(f"{a!r}+({b!r}+{c!r})", lambda: div(a + (b + c)))
    show(f"sep", lambda: div(a, b, c))
    show(f"taglist", lambda: TagList(a + b + c))

# += and sum, join-like usage
h = HTML("<p>")
h += "<x>"
show("iadd", lambda: h)
s = "<x>"
s += HTML("<p>")
show("iadd2", lambda: s)
show("sum", lambda: sum(["<a>", "<b>"], HTML("")))
show("mul", lambda: HTML("<a>") * 2)
show("eq", lambda: (HTML("a") + "b") == HTML("ab"))
show("eq2", lambda: (HTML("a") + "<") == "a&lt;")

# order of side effects with an as_string-overriding subclass
l1, l2 = LoudHTML("<one>"), LoudHTML("<two>")
show("loud+loud", lambda: l1 + l2)
show("loud+str", lambda: l1 + "<s>")
show("str+loud", lambda: "<s>" + l1)
show("loud+bad", lambda: l1 + BadStr())
show("bad+loud", lambda: BadStr() + l1)
show("html+loud", lambda: HTML("<h>") + l2)
print(LoudHTML.log)
show("hasattr", lambda: [n for n in dir(HTML("")) if "escape" in n])
