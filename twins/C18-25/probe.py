import json

from htmltools import HTML, HTMLDependency, HTMLDocument, HTMLTextDocument, TagList, div, head_content, tags

extract = HTMLTextDocument._static_extract_serialized_html_deps


def show(label, fn):
    try:
        out = fn()
        print(label, "->", repr(out))
    except Exception as e:  # noqa: BLE001
        print(label, "-> EXC", type(e).__name__, str(e)[:200])


def desc(d):
    return (
        d.name,
        str(d.version),
        d.source,
        d.script,
        d.stylesheet,
        d.meta,
        d.all_files,
        None if d.head is None else str(d.head),
    )


def ex(html):
    out, deps = extract(html)
    return (out, [desc(d) for d in deps])


def wrap(payload):
    return '<script type="application/json" data-html-dependency="">' + payload + "</script>"


a = HTMLDependency(
    "a",
    "1.0",
    source={"subdir": "www"},
    script=[{"src": "a.js"}, {"src": "b c.js", "defer": ""}],
    stylesheet={"href": "a.css"},
    meta={"name": "n", "content": "c"},
    all_files=True,
)
a2 = HTMLDependency("a", "2.0", source={"href": "https://x.example/"}, script={"src": "a.js"})
hc = head_content(tags.title("T </script> <b>"), tags.script(HTML("var s = '</SCRIPT>';")))
hc_same = head_content(tags.title("T </script> <b>"), tags.script(HTML("var s = '</SCRIPT>';")))
uni = HTMLDependency("ü-näme", "0.1", head="<!-- é  -->")

sa, sa2, shc, shc_same, suni = (str(x.serialize_to_script_json()) for x in (a, a2, hc, hc_same, uni))
sa_indent = str(a.serialize_to_script_json(indent=2))

show("none", lambda: ex("<html><body>nothing here</body></html>"))
show("empty", lambda: ex(""))
show("one", lambda: ex("<p>before</p>" + sa + "<p>after</p>"))
show("indent-multiline", lambda: ex("x" + sa_indent + "y"))
show("same-text-twice", lambda: ex(sa + "<hr>" + sa + "<hr>" + sa))
show("same-dep-different-text", lambda: ex(sa + "|" + sa_indent + "|" + sa))
show("order-first-appearance", lambda: ex(sa2 + shc + sa + shc_same + sa2 + suni + sa))
show("versions-not-resolved", lambda: ex(sa + sa2))
show("adjacent", lambda: ex(sa + sa2 + shc))
show("unicode", lambda: ex("ü" + suni + "é"))
show("crlf-payload", lambda: ex(wrap('{"name":\r\n"x",\r"version":\n"1"}')))
show("non-greedy", lambda: ex(wrap('{"name":"p","version":"1"}') + "</script>" + wrap('{"name":"q","version":"2"}') + "</script>"))
show("other-script-types-kept", lambda: ex('<script type="application/json">{"a":1}</script>' + sa + "<script>1</script>"))
show("attr-order-matters", lambda: ex('<script data-html-dependency="" type="application/json">{"name":"x","version":"1"}</script>'))
show("unterminated", lambda: ex('<script type="application/json" data-html-dependency="">{"name":"x","version":"1"}'))
show("uppercase-close-not-matched", lambda: ex(wrap('{"name":"x","version":"1"}').replace("</script>", "</SCRIPT>") + "tail</script>"))

# Broken payloads: which error, and that it is raised for the first bad *distinct* payload
show("empty-payload", lambda: ex("a" + wrap("") + "b"))
show("bad-json", lambda: ex(sa + wrap("{not json}") + wrap("[1]")))
show("json-list", lambda: ex(wrap("[1, 2]")))
show("json-number", lambda: ex(wrap("5")))
show("json-null", lambda: ex(wrap("null")))
show("json-string", lambda: ex(wrap('"abc"')))
show("missing-version", lambda: ex(wrap('{"name":"x"}')))
show("unknown-key", lambda: ex(wrap('{"name":"x","version":"1","bogus":true}')))
show("bad-version", lambda: ex(wrap('{"name":"x","version":"one"}')))
show("bad-script", lambda: ex(wrap('{"name":"x","version":"1","script":[{"href":"a"}]}')))
show("good-then-bad-then-good", lambda: ex(sa + wrap('{"name":"x"}') + sa2))
show("dup-good-then-bad", lambda: ex(sa + sa + wrap("oops") + sa))
show("bad-twice", lambda: ex(wrap("oops1") + wrap("oops1") + wrap("oops2")))

# Non-string input
show("bytes", lambda: extract(b"<p>bytes</p>"))
show("none-input", lambda: extract(None))
show("int-input", lambda: extract(5))
show("html-obj", lambda: ex(HTML("<p>x</p>" + sa)))


class MyStr(str):
    pass


show("str-subclass", lambda: (lambda r: (type(r[0]).__name__, r[0], len(r[1])))(extract(MyStr("q" + sa + "r"))))
show("str-subclass-nomatch", lambda: (lambda r: (type(r[0]).__name__, r[0], len(r[1])))(extract(MyStr("qr"))))

# Through HTMLTextDocument
body = str(div("content", a, hc, div(a, hc_same, a2)).render()["html"])
show("rendered-has-no-serialized", lambda: "data-html-dependency" in body)
ser_body = str(TagList(div("content"), a.serialize_to_script_json(), hc.serialize_to_script_json(), div(a.serialize_to_script_json(), hc_same.serialize_to_script_json(), a2.serialize_to_script_json())))
tmpl = "<html><head>HEAD</head><body>" + ser_body + "</body></html>"


def rend(doc, **kw):
    r = doc.render(**kw)
    return (r["html"], [desc(d) for d in r["dependencies"]])


show("textdoc", lambda: rend(HTMLTextDocument(tmpl, deps_replace_pattern="HEAD")))
show("textdoc-opts", lambda: rend(HTMLTextDocument(tmpl, deps_replace_pattern="HEAD"), lib_prefix=None, include_version=False))
show("textdoc-with-deps", lambda: rend(HTMLTextDocument(tmpl, deps=[uni, a], deps_replace_pattern="HEAD")))
given = [uni]
doc = HTMLTextDocument(tmpl, deps=given, deps_replace_pattern="HEAD")
show("textdoc-extends-given-list", lambda: [d.name for d in given])
show("textdoc-repeat", lambda: rend(doc) == rend(doc))
show("textdoc-twice-same", lambda: rend(HTMLTextDocument(tmpl, deps_replace_pattern="HEAD")) == rend(HTMLTextDocument(tmpl, deps_replace_pattern="HEAD")))
show("textdoc-bad", lambda: HTMLTextDocument("<head>HEAD</head>" + wrap("{"), deps_replace_pattern="HEAD"))
show("textdoc-no-pattern", lambda: rend(HTMLTextDocument(tmpl)))

# Round trip: names of head_content survive and equal content is extracted once
rt = extract(shc + shc_same)[1]
show("roundtrip-names", lambda: [d.name for d in rt] == [hc.name])
show("roundtrip-json", lambda: json.loads(extract(sa)[1][0].serialize_to_script_json().children[0]) == json.loads(a.serialize_to_script_json().children[0]))
show("doc-unaffected", lambda: HTMLDocument(div(a, hc)).render()["html"])
