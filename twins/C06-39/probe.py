"""Probe for the block-layout code (Tag.get_html_string / TagList.get_html_string).

Prints repr() of rendered output (or the exception type) for a spread of trees,
indents and eol values.  Deterministic; no I/O besides stdout.
"""
from htmltools import HTML, HTMLDependency, Tag, TagList, div, span, tags, p, a, h1


class Rich:
    """Object with _repr_html_ only (ReprHtml)."""

    def __init__(self, s):
        self.s = s

    def _repr_html_(self):
        return self.s


class NeedsTagify:
    """Tagifiable but never tagified -> RuntimeError while rendering."""

    def tagify(self):
        return div("x")


class Both:
    """Has both _repr_html_ and tagify; _repr_html_ wins at render time."""

    def _repr_html_(self):
        return "<both/>"

    def tagify(self):
        return self


class Boom:
    def _repr_html_(self):
        raise KeyError("boom")


class Logging:
    """Records the order of _repr_html_ calls."""

    log = []

    def __init__(self, name):
        self.name = name

    def _repr_html_(self):
        Logging.log.append(self.name)
        return "<%s>" % self.name


dep = HTMLDependency(name="foo", version="1.0")


def raw_list(*items):
    """A TagList whose .data is set directly (no flattening / conversion)."""
    tl = TagList()
    tl.data = list(items)
    return tl


def raw_tag(name, *items, add_ws=True, **attrs):
    t = Tag(name, _add_ws=add_ws, **attrs)
    t.children.data = list(items)
    return t


def show(label, fn):
    try:
        res = fn()
        shown = repr(str(res)) if isinstance(res, HTML) else repr(res)
        print(label, "->", type(res).__name__, shown)
    except Exception as e:  # noqa: BLE001
        print(label, "-> EXC", type(e).__name__)


CASES = {
    "empty_div": lambda: div(),
    "empty_span": lambda: span(),
    "void_br": lambda: tags.br(),
    "void_img_attrs": lambda: tags.img(src="a&b.png", alt='q"uote'),
    "void_with_child": lambda: tags.br("x", span()),
    "void_only_dep": lambda: tags.br(dep),
    "single_text": lambda: div("hello <world> & co"),
    "single_empty_text": lambda: div(""),
    "single_html": lambda: div(HTML("<b>raw</b>")),
    "single_text_plus_dep": lambda: div(dep, "text", dep),
    "only_dep": lambda: div(dep),
    "two_texts": lambda: div("a", "b"),
    "text_html": lambda: div("a<", HTML("<i>b</i>"), "c"),
    "block_children": lambda: div(div("a"), p("b"), div()),
    "mixed_runs": lambda: div("t1", span("s1"), a("l", href="#"), div("blk"), "t2", span("s2"), p("x"), p("y"), "end"),
    "inline_first": lambda: div(span("a"), "b", div("c")),
    "block_first_then_inline": lambda: div(div("c"), span("a"), "b"),
    "nested3": lambda: div(div(div("deep", span("x")), "after"), h1("title")),
    "inline_parent_inline_children": lambda: span("a", span("b"), "c", a("d")),
    "inline_parent_single_tag": lambda: span(span("b")),
    "inline_parent_block_child": lambda: span(div("x"), "y"),
    "block_in_inline_in_block": lambda: div(span(div("x", span("q")), "y"), "z"),
    "div_no_ws": lambda: div("a", span("b"), div("c"), _add_ws=False),
    "div_no_ws_first_block": lambda: div(div("c"), "a", span("b"), _add_ws=False),
    "span_with_ws": lambda: span("a", span("b"), _add_ws=True),
    "script_text": lambda: tags.script("if (a < b && c > d) {}"),
    "script_two": lambda: tags.script("a < b;", "c > d;"),
    "script_html": lambda: tags.script(HTML("a < b;"), "c && d;"),
    "style_mixed": lambda: tags.style("a > b {}", span("<x>"), HTML("<&>")),
    "script_dep_text": lambda: tags.script(dep, "a<b"),
    "rich_child": lambda: div(Rich("<r/>"), "t"),
    "rich_only": lambda: div(Rich("<r&/>")),
    "rich_between_blocks": lambda: div(div("a"), Rich("<r/>"), div("b")),
    "rich_in_script": lambda: tags.script(Rich("<r&/>"), "a<b"),
    "both_protocols": lambda: raw_tag("div", Both(), "t"),
    "untagified": lambda: raw_tag("div", "t", NeedsTagify()),
    "untagified_first": lambda: raw_tag("div", NeedsTagify(), "t"),
    "untagified_single": lambda: raw_tag("div", NeedsTagify()),
    "boom": lambda: div("a", Boom()),
    "int_child_raw": lambda: raw_tag("div", 5, "t"),
    "int_child_raw_script": lambda: raw_tag("script", "t", 5),
    "none_child_raw": lambda: raw_tag("div", "t", None),
    "rich_returns_html": lambda: div("a<", Rich(HTML("<i>")), "b<", div("c")),
    "rich_returns_int": lambda: div("a", Rich(7)),
    "attrs_order": lambda: div("x", span("y"), id="i", class_="c1 c2", data_x=HTML("<&>"), title="<&'\">"),
    "html_name": lambda: raw_tag(HTML("x-y"), "a", span("b")),
    "int_name": lambda: raw_tag(3, "a"),
    "head_body": lambda: tags.html(tags.head(tags.title("t"), tags.meta(charset="utf-8")), tags.body(h1("h"), p("para ", a("link"), " tail"))),
    "ul": lambda: tags.ul(tags.li("one"), tags.li("two ", tags.b("bold")), tags.li()),
    "taglist_in_div": lambda: div(TagList("a", span("b")), TagList(), TagList(div("c"))),
    "add_ws_int": lambda: _with_add_ws(div("a", span("b"), div("c")), 1),
    "add_ws_zero": lambda: _with_add_ws(div("a", span("b"), div("c")), 0),
    "child_add_ws_str": lambda: div("a", _with_add_ws(span("b"), "yes"), "c", _add_ws=False),
}


def _with_add_ws(tag, value):
    tag.add_ws = value
    return tag


LISTS = {
    "tl_empty": lambda: TagList(),
    "tl_text": lambda: TagList("a<b"),
    "tl_texts": lambda: TagList("a", "b", HTML("<c>")),
    "tl_blocks": lambda: TagList(div("a"), div("b", span("c")), p()),
    "tl_mixed": lambda: TagList("t", span("s"), div("d"), "u", span("v"), span("w"), div(div("x"))),
    "tl_inline_first": lambda: TagList(span("s"), "t", div("d")),
    "tl_dep_first": lambda: TagList(dep, "t", dep, div("d"), dep),
    "tl_only_deps": lambda: TagList(dep, dep),
    "tl_rich": lambda: TagList(Rich("<r>"), div("d"), Rich("<s>"), Rich("<t>")),
    "tl_untagified": lambda: raw_list("a", NeedsTagify(), "b"),
    "tl_int_raw": lambda: raw_list("a", 5),
    "tl_rich_html": lambda: raw_list("a<", Rich(HTML("<i>")), "b<", span("<")),
    "tl_nested": lambda: TagList(TagList("a", div("b")), [span("c"), "d"]),
}

print("== Tag.get_html_string, default args")
for name, mk in CASES.items():
    show(name, lambda: mk().get_html_string())

print("== Tag.get_html_string, indent / eol variations")
for name in ["empty_div", "void_br", "single_text", "two_texts", "mixed_runs", "nested3",
             "inline_parent_inline_children", "block_in_inline_in_block", "div_no_ws",
             "script_two", "rich_between_blocks", "untagified", "rich_returns_html", "ul"]:
    mk = CASES[name]
    for indent, eol in [(0, "\n"), (1, "\n"), (3, "\r\n"), (2, ""), (1, "<EOL>"), (-1, "\n")]:
        show("%s indent=%r eol=%r" % (name, indent, eol), lambda: mk().get_html_string(indent, eol))

print("== Tag.get_html_string, bad indent / eol types")
for name in ["empty_div", "single_text", "two_texts", "block_children", "div_no_ws", "rich_child",
             "inline_parent_inline_children"]:
    mk = CASES[name]
    for indent, eol in [(1.5, "\n"), (None, "\n"), ("2", "\n"), (True, "\n"), (1, None), (1, 5), (1, HTML("<e>"))]:
        show("%s indent=%r eol=%r" % (name, indent, eol), lambda: mk().get_html_string(indent, eol))

print("== TagList.get_html_string")
for name, mk in LISTS.items():
    show(name, lambda: mk().get_html_string())
    for indent, eol in [(2, "\n"), (1, "|"), (0, "")]:
        show("%s indent=%r eol=%r" % (name, indent, eol), lambda: mk().get_html_string(indent, eol))
    for add_ws in (True, False):
        for esc in (True, False):
            show("%s add_ws=%r esc=%r" % (name, add_ws, esc),
                 lambda: mk().get_html_string(1, "\n", add_ws=add_ws, _escape_strings=esc))
    for indent, eol in [(1.5, "\n"), (None, "\n"), (1, None)]:
        show("%s indent=%r eol=%r" % (name, indent, eol), lambda: mk().get_html_string(indent, eol))
        show("%s indent=%r eol=%r add_ws=False" % (name, indent, eol),
             lambda: mk().get_html_string(indent, eol, add_ws=False))

print("== str / render / _repr_html_ entry points")
for name in ["mixed_runs", "nested3", "head_body", "script_html", "div_no_ws"]:
    mk = CASES[name]
    show(name + " str", lambda: str(mk()))
    show(name + " render", lambda: mk().render()["html"])
    show(name + " repr_html", lambda: mk()._repr_html_())
for name in ["tl_mixed", "tl_dep_first", "tl_nested"]:
    mk = LISTS[name]
    show(name + " str", lambda: str(mk()))
    show(name + " render", lambda: mk().render()["html"])

print("== order of side effects")


def logged(indent, eol):
    Logging.log.clear()
    t = div(Logging("a"), div(Logging("b"), "x"), Logging("c"), span(Logging("d")))
    try:
        out = t.get_html_string(indent, eol)
    except Exception as e:  # noqa: BLE001
        out = "EXC " + type(e).__name__
    return (out, list(Logging.log))


for indent, eol in [(0, "\n"), (1.5, "\n"), (None, "\n"), (0, None), (2, "\r\n")]:
    show("logged indent=%r eol=%r" % (indent, eol), lambda: logged(indent, eol))


def logged_list(indent, eol, add_ws):
    Logging.log.clear()
    t = raw_list(Logging("a"), "s", NeedsTagify(), Logging("b"))
    try:
        out = t.get_html_string(indent, eol, add_ws=add_ws)
    except Exception as e:  # noqa: BLE001
        out = "EXC " + type(e).__name__
    return (out, list(Logging.log))


for indent, eol, add_ws in [(0, "\n", True), (1.5, "\n", True), (1.5, "\n", False), (None, "\n", True)]:
    show("logged_list indent=%r eol=%r add_ws=%r" % (indent, eol, add_ws),
         lambda: logged_list(indent, eol, add_ws))

print("== sibling separation: every pair/triple of child kinds, under block and inline parents")
KINDS = {
    "T": lambda: "t<",
    "H": lambda: HTML("<h>"),
    "R": lambda: Rich("<r>"),
    "I": lambda: span("i"),
    "B": lambda: div("b"),
    "Bm": lambda: div("b1", span("b2")),
    "Im": lambda: span("i1", span("i2")),
    "D": lambda: dep,
}
import itertools

for combo in itertools.product(KINDS, repeat=2):
    for add_ws in (True, False):
        items = [KINDS[k]() for k in combo]
        show("pair %s parent_add_ws=%r" % ("+".join(combo), add_ws),
             lambda: raw_tag("div", *items, add_ws=add_ws).get_html_string(1, "\n"))
        show("list %s add_ws=%r" % ("+".join(combo), add_ws),
             lambda: raw_list(*items).get_html_string(1, "|", add_ws=add_ws))
for combo in itertools.product(["T", "I", "B", "D", "Bm"], repeat=3):
    items = [KINDS[k]() for k in combo]
    show("triple %s" % "+".join(combo), lambda: raw_list(*items).get_html_string(2, "\n"))
    show("triple %s add_ws=False" % "+".join(combo), lambda: raw_list(*items).get_html_string(2, "\n", add_ws=False))


class Flag:
    """add_ws stand-in that records every truth test."""

    log = []

    def __init__(self, name, value):
        self.name, self.value = name, value

    def __bool__(self):
        Flag.log.append(self.name)
        return self.value


def flagged(parent_flag, flags):
    Flag.log.clear()
    kids = []
    for i, f in enumerate(flags):
        if f is None:
            kids.append("s%d" % i)
        else:
            kids.append(_with_add_ws(span("k%d" % i), Flag("k%d" % i, f)))
    tl = raw_list(*kids)
    out = tl.get_html_string(1, "\n", add_ws=Flag("p", parent_flag))
    return out, list(Flag.log)


for parent_flag in (True, False):
    for flags in itertools.product([True, False, None], repeat=3):
        show("flags p=%r kids=%r" % (parent_flag, flags), lambda: flagged(parent_flag, flags))
