"""Probe for C17 / refactoring 3: child normalisation (_tagchilds_to_tagnodes) as used by the
display hook -> Tag.append -> TagList.append/extend path, and by the other TagList entry points."""
import sys

from htmltools import HTML, Tag, TagList, div, span, tags
from htmltools._core import MetadataNode, _tagchilds_to_tagnodes


def show(label, value):
    print(f"{label}: {value}")


class Repr:
    def _repr_html_(self):
        return "<u>r</u>"

    def __repr__(self):
        return "Repr()"


class Tfy:
    def tagify(self):
        return span("t")

    def __repr__(self):
        return "Tfy()"


class Meta(MetadataNode):
    def __repr__(self):
        return "Meta()"


class MyInt(int):
    def __str__(self):
        return "myint"


class BadFloat(float):
    def __str__(self):
        raise ArithmeticError("no str")


class StrSub(str):
    pass


def desc(nodes):
    return [(type(n).__name__, str(n) if isinstance(n, (str, HTML, Tag, TagList)) else repr(n)) for n in nodes]


def gen():
    yield "g1"
    yield None
    yield ["g2", (3,)]


inputs = [
    ("empty list", []),
    ("empty tuple", ()),
    ("str", "abc"),
    ("empty str", ""),
    ("StrSub", StrSub("ss")),
    ("HTML (iterated!)", HTML("<b>")),
    ("single", ["a"]),
    ("nones", [None, None, [None, (None,)]]),
    ("numbers", [0, 1, -2, 3.5, float("inf"), True, False, 10**30, 1e100, -0.0]),
    ("MyInt", [MyInt(4)]),
    ("nested", ["a", ["b", ("c", [1, None, [2.0]])], TagList("d", TagList("e", 5))]),
    ("nodes", [div("x"), HTML("<i>"), Repr(), Tfy(), Meta(), StrSub("s")]),
    ("generator", gen()),
    ("range", range(3)),
    ("dict iterates keys", {"k1": 1, "k2": 2}),
    ("set single", {"only"}),
    ("ellipsis inside", ["a", ...]),
    ("bytes inside", ["a", b"b"]),
    ("dict inside", ["a", {"x": 1}]),
    ("object inside", [object]),
    ("set inside", [1, {2}]),
    ("complex", [1j]),
    ("first bad of two", [b"1", {"2"}]),
    ("bad after BadFloat", [BadFloat(1.0), b"x"]),
    ("bad before BadFloat", [b"x", BadFloat(1.0)]),
    ("None itself", None),
    ("int itself", 5),
]
for label, x in inputs:
    try:
        r = _tagchilds_to_tagnodes(x)
        show(label, (type(r).__name__, desc(r)))
    except Exception as e:
        show(label, f"EXC {type(e).__name__}: {e}")

# does not alter / alias its input
src = [1, ["two", None], 3.0]
r = _tagchilds_to_tagnodes(src)
show("input untouched", (src, r, r is not src))
d = div()
r1 = _tagchilds_to_tagnodes([d])
show("node identity kept", r1[0] is d)
r2 = _tagchilds_to_tagnodes([d])
show("fresh list each call", r1 is not r2)

# TagList entry points; failed calls leave the list untouched
tl = TagList("a", 1, None, [2.5, ("b",)])
show("ctor", desc(tl))
tl.append("c", 3, None)
tl.extend(["d", [None, 4]])
tl.insert(1, ["i1", 9])
tl += ("e", 5)
show("after ops", desc(tl))
for label, fn in [
    ("append bad", lambda: tl.append("ok", object())),
    ("extend bad", lambda: tl.extend(["ok", b"x"])),
    ("insert bad", lambda: tl.insert(0, {"a": 1})),
    ("iadd bad", lambda: tl.__iadd__(["ok", ...])),
    ("ctor bad", lambda: TagList("ok", 1j)),
    ("add bad", lambda: tl + [object()]),
    ("radd bad", lambda: [object()] + tl),
    ("tag ctor bad", lambda: div("ok", b"x")),
    ("tag append bad", lambda: div().append("ok", b"x")),
    ("tag append nothing", lambda: div().append()),
]:
    n = len(tl)
    try:
        fn()
        show(label, "no exc")
    except Exception as e:
        show(label, f"EXC {type(e).__name__}: {e} | unchanged={len(tl) == n}")
show("add", desc(tl + [1, None] + "s"))
show("radd", desc(["x", 0] + tl))

# through the display hook
top = []
orig = sys.displayhook
sys.displayhook = top.append
try:
    t = div(id="t")
    with t:
        for v in [
            "a", None, ..., 1, 2.5, True, MyInt(7), Repr(), Tfy(), Meta(), HTML("<hr>"),
            ["l", None, (1, [2])], TagList("tl", 3), (), [], span("s"), StrSub("ss"),
        ]:
            sys.displayhook(v)
        for v in [object(), b"b", {"a": 1}, {1}, 1j, [1, b"x"], ["ok", object]]:
            n = len(t.children)
            try:
                sys.displayhook(v)
                show(f"hook {type(v).__name__}", "accepted")
            except TypeError as e:
                show(f"hook {type(v).__name__}", f"TypeError: {e} | unchanged={len(t.children) == n}")
            except Exception as e:
                show(f"hook {type(v).__name__}", f"{type(e).__name__}: {e}")
        try:
            sys.displayhook(BadFloat(2.0))
        except Exception as e:
            show("hook BadFloat", f"{type(e).__name__}: {e}")
        with tags.p():
            sys.displayhook(0)
    show("hook restored", sys.displayhook == top.append)
    show("children", desc(t.children))
    show("top", [str(x) for x in top])
finally:
    sys.displayhook = orig
