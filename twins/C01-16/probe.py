"""Probe for refactoring 1: html_escape (text and attribute context)."""
import hashlib
import itertools

from htmltools import HTML, TagList, div, html_escape, span, tags
from htmltools import _util


def show(label, fn):
    try:
        out = fn()
        print(label, "->", type(out).__name__, repr(out))
    except BaseException as e:  # noqa: BLE001
        print(label, "-> EXC", type(e).__name__)


class S(str):
    pass


samples = [
    "",
    "plain",
    "&",
    "&amp;",
    "&&",
    "<>",
    "a<b>c&d\"e'f\rg\nh",
    "&lt;&gt;&quot;&apos;&#13;&#10;",
    "\r\n",
    "'\"",
    "café & 中文 < \U0001f600",
    "\x00&\x00",
    "a" * 50 + "<" + "b" * 50,
    S("sub"),
    S("sub<&>\""),
]
for s in samples:
    for attr in (False, True, 0, 1, None, "yes", ""):
        show(f"escape({s!r}, attr={attr!r})", lambda: html_escape(s, attr=attr))
    show(f"escape({s!r})", lambda: html_escape(s))
    show(f"_html_escape({s!r}, True)", lambda: _util._html_escape(s, True))

# Identity of the result when nothing has to be escaped
for s in ["", "plain", S("sub"), "quote's", 'dq"']:
    print("same object", repr(s), html_escape(s) is s, html_escape(s, attr=True) is s)
    print("result type", type(html_escape(s)).__name__, type(html_escape(s, True)).__name__)

# Non-string inputs
for bad in [None, 5, 1.5, b"a<b", bytearray(b"x"), ["<"], HTML("<b>"), HTML("plain"), object()]:
    show(f"escape({type(bad).__name__}, False)", lambda: html_escape(bad))
    show(f"escape({type(bad).__name__}, True)", lambda: html_escape(bad, attr=True))

# Exhaustive: every string of length <= 4 over a small alphabet, both modes
alphabet = ["&", "<", ">", '"', "'", "\r", "\n", "a", ";", "#"]
h = hashlib.sha256()
n = 0
for ln in range(0, 5):
    for tup in itertools.product(alphabet, repeat=ln):
        s = "".join(tup)
        h.update(html_escape(s).encode() + b"\0" + html_escape(s, attr=True).encode() + b"\1")
        n += 1
print("exhaustive", n, h.hexdigest())

# Tables are still the public ones
print(sorted(_util.HTML_ESCAPE_TABLE.items()))
print(list(_util.HTML_ATTRS_ESCAPE_TABLE.items()))

# Through the renderer
trees = [
    div("a<b>&c", id="x\"y'z", title="l1\nl2\rl3", data_v="<&>"),
    div(span("1 < 2"), "&amp;", HTML("<i>raw&</i>"), class_="a&b"),
    tags.script("if (a < b && c > d) {}", type="x<y"),
    tags.style("p > a { content: '&'; }"),
    tags.input(value="'single' \"double\"", disabled=True),
    TagList("x & y", div("<", ">"), 3, 4.5),
    div({"class": "a<"}, {"class": HTML("<b>")}, class_="c'"),
    div({"class": HTML("&raw;")}, class_="p\"q"),
]
for t in trees:
    print(repr(str(t)))
    print(repr(t.get_html_string(2, "\r\n")))

print(repr(HTML("<a>") + "b<c>&"))
print(repr("b<c>&'\"" + HTML("<a>")))
print(repr(HTML("<a>") + HTML("<b>&")))
