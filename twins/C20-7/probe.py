"""Probe for refactoring 2: JSXTag.__init__ validation and JSXTag.__copy__."""
import copy

from htmltools import HTMLDependency, TagList, div, span
from htmltools._jsx import JSXTag, JSXTagAttrDict, jsx, jsx_tag_create


def show(label, fn):
    try:
        out = fn()
        print(label, "->", repr(out))
    except BaseException as e:  # noqa: BLE001
        print(label, "-> EXC", type(e).__name__, str(e))


def summary(t):
    return (type(t).__name__, t.name, list(t.attrs.items()), list(t.children))


# 1. component-name check
NAMES = [
    "Foo", "foo", "F", "f", "", ".", "Foo.Bar", "Foo.bar", "foo.Bar", "foo.bar.Baz",
    "Foo.", ".Foo", ".foo", "Foo..", "1abc", "_x", "_X", "-", "Ünit", "ünit", "ßharp",
    "ǆ", "ǅ", "Foo.ǆx", "Foo Bar", " foo", "Foo.\n", "a.B.c", "A.b.C", "İ", "ı", "ŉ", "Foo.ŉ",
]
for n in NAMES:
    show(f"name {n!r}", lambda n=n: summary(JSXTag(n)))
for bad in [None, 3, b"Foo", ["Foo"]]:
    show(f"name-bad {bad!r}", lambda bad=bad: JSXTag(bad))
show("name-missing", lambda: JSXTag())

# 2. allowedProps
def mk(allowed, *args, **kwargs):
    return summary(JSXTag("Foo.Bar", *args, allowedProps=allowed, **kwargs))

show("allow-None", lambda: mk(None, a=1, b=2))
show("allow-empty-list", lambda: mk([], a=1, b=2))
show("allow-empty-tuple", lambda: mk((), a=1))
show("allow-ok", lambda: mk(["a", "b"], "child", a=1, b=2))
show("allow-subset", lambda: mk(["a", "b", "c"], b=2))
show("allow-no-kwargs", lambda: mk(["a"]))
show("allow-bad-first", lambda: mk(["a"], z=1, a=2, y=3))
show("allow-bad-middle", lambda: mk(["a", "b"], a=1, q=2, b=3, r=4))
show("allow-bad-last", lambda: mk(["a", "b"], a=1, b=2, last_=0))
show("allow-unnormalised", lambda: mk(["class"], class_="x"))
show("allow-unnormalised2", lambda: mk(["class_"], class_="x"))
show("allow-dashed", lambda: mk(["data-x"], **{"data-x": 1}))
show("allow-dashed-us", lambda: mk(["data-x"], data_x=1))
show("allow-tuple", lambda: mk(("a",), a=1, b=1))
show("allow-set", lambda: mk({"a"}, a=1, b=1))
show("allow-dict", lambda: mk({"a": 0}, a=1))
show("allow-str-substring", lambda: mk("abc", a=1, bc=2, ac=3))
show("allow-int-nokw", lambda: mk(5))
show("allow-int-kw", lambda: mk(5, a=1))
show("allow-zero-kw", lambda: mk(0, a=1))
show("allow-generator", lambda: mk((x for x in ["a", "b"]), b=1, a=2))
show("allow-lowercase-name-first", lambda: JSXTag("foo", allowedProps=["a"], z=1))
show("allow-name-in-msg", lambda: JSXTag("A.B.C", allowedProps=["a"], zzz=1))

class Loud(list):
    def __contains__(self, item):
        print("   contains?", item)
        return super().__contains__(item)
show("allow-order-of-tests", lambda: mk(Loud(["a", "c"]), a=1, b=2, c=3))
show("allow-order-all-ok", lambda: mk(Loud(["a", "c"]), c=1, a=2))
show("allow-order-empty", lambda: mk(Loud(["a"])))

class Boom(list):
    def __contains__(self, item):
        raise KeyError(item)
show("allow-raises", lambda: mk(Boom(["a"]), a=1))
class Stop(list):
    def __contains__(self, item):
        raise StopIteration("stop")
show("allow-raises-stop", lambda: mk(Stop(["a"]), a=1))

# 3. via jsx_tag_create
Foo = jsx_tag_create("Foo", allowedProps=["id", "class_"])
show("create-name", lambda: Foo.__name__)
show("create-ok", lambda: summary(Foo("x", id="i", class_="c")))
show("create-bad", lambda: Foo(id="i", klass="c"))
show("create-lower", lambda: jsx_tag_create("foo")())
show("create-render", lambda: str(Foo(span("s"), id="i")))

# 4. __copy__
def copy_checks():
    dep = HTMLDependency("d", "1.0")
    inner = JSXTag("Inner", "t", p=[1, 2])
    t = JSXTag("Outer", "a", div("b"), inner, dep, lst=[1], d={"k": 1}, tag=span("s"), j=jsx("x"))
    t.extra = ["e"]
    c = copy.copy(t)
    res = [
        type(c) is type(t), c is t, c.name is t.name,
        c.attrs is t.attrs, c.attrs == t.attrs, type(c.attrs).__name__,
        c.children is t.children, type(c.children).__name__, len(c.children),
        [x is y for x, y in zip(c.children, t.children)],
        [c.attrs[k] is t.attrs[k] for k in t.attrs],
        c.extra is t.extra, c.extra == t.extra,
        list(c.__dict__.keys()),
    ]
    c.attrs["new_"] = 1
    c.children.append("more")
    c.extra.append("z")
    res += [list(t.attrs.keys()), len(t.children), t.extra, list(c.attrs.keys()), len(c.children)]
    return res
show("copy", copy_checks)

class Sub(JSXTag):
    def __init__(self):
        raise RuntimeError("ctor must not run during copy")
def copy_sub():
    s = Sub.__new__(Sub)
    s.name = "S"; s.attrs = JSXTagAttrDict(a_=1); s.children = TagList("x"); s.z = (1, 2)
    c = copy.copy(s)
    return type(c).__name__, list(c.__dict__.items()), c.z is s.z
show("copy-subclass", copy_sub)
def copy_empty_dict():
    s = JSXTag.__new__(JSXTag)
    c = copy.copy(s)
    return c.__dict__
show("copy-empty", copy_empty_dict)

class NoCopy:
    def __copy__(self):
        raise ValueError("cannot copy")
def copy_fail():
    t = JSXTag("T", a=1)
    t.bad = NoCopy()
    t.after = 1
    return copy.copy(t)
show("copy-fail", copy_fail)
class Order:
    def __init__(self, n): self.n = n
    def __copy__(self):
        print("   copying", self.n); return Order(self.n)
    def __repr__(self): return f"Order({self.n})"
def copy_order():
    t = JSXTag("T")
    t.o1 = Order(1); t.o2 = Order(2)
    return list(copy.copy(t).__dict__.items())[3:]
show("copy-order", copy_order)

# 5. purity of tagify (uses copies) + deep copy sanity
def purity():
    t = JSXTag("Outer", "a", div("b", JSXTag("In", x=1)), q=span("s"), z_=[1])
    before = (list(t.attrs.items()), list(t.children), str(t))
    s1 = str(t); t.tagify(); s2 = str(t)
    after = (list(t.attrs.items()), list(t.children), str(t))
    return s1 == s2, before == after, s1
show("purity", purity)
