"""Probe for refactoring 1: Tag.render / TagList.render / save_html shared helpers."""
import os
import tempfile

from htmltools import (
    HTML,
    HTMLDependency,
    HTMLDocument,
    Tag,
    TagList,
    div,
    span,
    tags,
)


def dep(name, version="1.0"):
    return HTMLDependency(name, version, source={"subdir": "."}, script={"src": name + ".js"})


class Multi:
    """tagify() returns a TagList that is spliced in."""

    def __init__(self, *items):
        self.items = items

    def tagify(self):
        return TagList(*self.items)


class Empty:
    def tagify(self):
        return TagList()


class One:
    def __init__(self, x):
        self.x = x

    def tagify(self):
        return self.x


class Nested:
    """Expansion itself contains tagifiable objects (must be fully expanded)."""

    def tagify(self):
        return div(Multi("a", span("b"), dep("inner")), One(HTML("<i>x</i>")), dep("outer")).tagify()


class Lazy:
    """Returns a TagList whose members are still un-expanded."""

    def tagify(self):
        return TagList(One("late"), "x")


class Both:
    """Tagifiable and self-rendering."""

    def tagify(self):
        return span("tagified")

    def _repr_html_(self):
        return "<b>repr</b>"


class Raises:
    def tagify(self):
        raise ValueError("boom")


class ReprOnly:
    def _repr_html_(self):
        return "<u>ro</u>"


class LoggingTag(Tag):
    """Subclass that records the order in which the pieces of render() are called."""

    log = []

    def tagify(self):
        LoggingTag.log.append("tagify")
        return super().tagify()

    def get_dependencies(self, dedup=True):
        LoggingTag.log.append("deps")
        return super().get_dependencies(dedup=dedup)

    def get_html_string(self, indent=0, eol="\n"):
        LoggingTag.log.append("html")
        return super().get_html_string(indent, eol)


class LoggingList(TagList):
    log = []

    def tagify(self):
        LoggingList.log.append("tagify")
        return super().tagify()

    def get_dependencies(self, *, dedup=True):
        LoggingList.log.append("deps")
        return super().get_dependencies(dedup=dedup)

    def get_html_string(self, *a, **kw):
        LoggingList.log.append("html")
        return super().get_html_string(*a, **kw)


def show(label, fn):
    try:
        r = fn()
        if isinstance(r, dict):
            print(label, "html=", repr(r["html"]), "deps=", [(d.name, str(d.version)) for d in r["dependencies"]])
        else:
            print(label, repr(r))
    except Exception as e:  # noqa
        print(label, "EXC", type(e).__name__, str(e))


cases = {
    "empty_list": lambda: TagList(),
    "empty_div": lambda: div(),
    "plain": lambda: div("a", span("b"), "c"),
    "multi_mid": lambda: div("x", Multi("a", span("b"), "c"), "y"),
    "multi_first_last": lambda: TagList(Multi(1, 2), "m", Multi(span("z"))),
    "empty_mid": lambda: div("x", Empty(), "y"),
    "empty_only": lambda: div(Empty()),
    "empty_list_only": lambda: TagList(Empty(), Empty()),
    "one_str": lambda: div(One("<esc>")),
    "one_html": lambda: div(One(HTML("<raw>"))),
    "one_tag": lambda: TagList(One(span("s", dep("d1")))),
    "one_dep": lambda: TagList("a", One(dep("d2")), "b"),
    "nested": lambda: div(Nested(), Nested()),
    "lazy": lambda: div(Lazy()),
    "both": lambda: div(Both(), "t"),
    "repr_only": lambda: TagList(ReprOnly(), div(ReprOnly())),
    "raises": lambda: div("a", Raises()),
    "deps_dup": lambda: TagList(dep("a", "1.0"), div(dep("a", "2.0"), Multi(dep("b"), dep("a", "1.5")))),
    "inline": lambda: span("a", One(span("b", _add_ws=False)), _add_ws=False),
    "script": lambda: tags.script(One("a<b"), "c&d"),
    "void": lambda: tags.br(Empty()),
    "deep": lambda: div(div(div(Multi(div(Multi("deep")))))),
}

for name, mk in cases.items():
    show("render " + name, lambda: mk().render())
    show("str    " + name, lambda: str(mk()))
    show("doc    " + name, lambda: HTMLDocument(mk()).render())

# unexpanded -> error from get_html_string
show("raw_get_html tag", lambda: div("a", One("x")).get_html_string())
show("raw_get_html list", lambda: TagList("a", One("x")).get_html_string())
show("raw_get_html both", lambda: TagList("a", Both()).get_html_string())
show("raw_get_html lazy", lambda: div(Lazy()).children.tagify().get_html_string())

# render does not mutate the original
orig = div("x", Multi("a", "b"), dep("q"))
before = [type(c).__name__ for c in orig.children]
orig.render()
print("unmutated", before == [type(c).__name__ for c in orig.children], len(orig.children))

# order of calls within render()
LoggingTag.log.clear()
show("logging tag", lambda: LoggingTag("div", "a", Multi("b", dep("z"))).render())
print("log tag", LoggingTag.log)
LoggingList.log.clear()
show("logging list", lambda: LoggingList("a", Multi("b", dep("z"))).render())
print("log list", LoggingList.log)

# save_html for Tag and TagList, various libdir / include_version
with tempfile.TemporaryDirectory() as d:
    js = os.path.join(d, "src")
    os.makedirs(js)
    with open(os.path.join(js, "s.js"), "w") as f:
        f.write("// js")
    fdep = HTMLDependency("s", "1.2", source={"subdir": js}, script={"src": "s.js"})
    n = 0
    for obj in (div("a", Multi("b", fdep)), TagList("a", Multi(span("b"), fdep)), div(), TagList()):
        for kw in ({}, {"libdir": None}, {"libdir": "L", "include_version": False}, {"include_version": False}):
            n += 1
            out = os.path.join(d, "o%d" % n)
            os.makedirs(out)
            f = os.path.join(out, "index.html")
            res = obj.save_html(f, **kw)
            print("save", n, sorted(kw.items()), res == f, repr(open(f).read()))
            listing = []
            for root, dirs, files in os.walk(out):
                dirs.sort()
                for fn in sorted(files):
                    listing.append(os.path.relpath(os.path.join(root, fn), out))
            print("  files", listing)
    show("save positional libdir", lambda: div().save_html(os.path.join(d, "x.html"), "lib"))
    show("save list positional libdir", lambda: TagList().save_html(os.path.join(d, "x.html"), "lib"))
    show("save raises", lambda: div(Raises()).save_html(os.path.join(d, "r.html")))
    print("r.html exists", os.path.exists(os.path.join(d, "r.html")))
