"""Deterministic probe for property C03 (attribute values are inert, single-line,
and decode to the original).  Prints repr() of outputs / exception type names."""
from __future__ import annotations

import html as _stdhtml
from collections import UserString

import htmltools
from htmltools import HTML, Tag, TagList, div, html_escape, span, tags
from htmltools._core import TagAttrDict
from htmltools import _core, _util


def show(label, fn):
    try:
        out = fn()
        print(f"{label}: {type(out).__name__} {out!r}")
    except BaseException as e:  # noqa: BLE001
        print(f"{label}: raised {type(e).__name__}: {e}")


class MyStr(str):
    pass


class Weird:
    def __str__(self):
        return "<w&>"


SPECIALS = ["&", "<", ">", '"', "'", "\r", "\n", "\r\n", "\t", "\x00", "\u2028", "é", ""]
SAMPLES = SPECIALS + [
    "plain",
    "a&b<c>d\"e'f\rg\nh",
    "&amp;",
    "&&&<<<>>>",
    '" onclick="alert(1)',
    "'><script>x</script>",
    "line1\nline2\r\nline3",
    " lead and trail ",
    "&#10;",
    "x" * 50 + "&",
]


def section(name):
    print(f"==== {name}")


# --------------------------------------------------------------------------
section("html_escape")
for i, s in enumerate(SAMPLES):
    show(f"esc[{i}] attr=False", lambda s=s: html_escape(s))
    show(f"esc[{i}] attr=True", lambda s=s: html_escape(s, attr=True))
    show(f"esc[{i}] attr=1", lambda s=s: html_escape(s, 1))
    show(f"esc[{i}] attr=0", lambda s=s: html_escape(s, 0))
    show(f"esc[{i}] attr=None", lambda s=s: html_escape(s, None))
    show(f"esc[{i}] attr='x'", lambda s=s: html_escape(s, "x"))
    show(f"esc[{i}] _util._html_escape", lambda s=s: _util._html_escape(s, attr=True))
    # decoding round trip
    show(f"esc[{i}] roundtrip", lambda s=s: _stdhtml.unescape(html_escape(s, attr=True)) == s)
for bad in [None, 1, 1.5, b"a<b", HTML("a<b"), UserString("a<b"), ["<"], MyStr("a<'b")]:
    show(f"esc bad {type(bad).__name__} attr=False", lambda b=bad: html_escape(b))
    show(f"esc bad {type(bad).__name__} attr=True", lambda b=bad: html_escape(b, attr=True))
show("esc identity no-special", lambda: (lambda s: html_escape(s) is s)("abc def"))
show("esc identity no-special attr", lambda: (lambda s: html_escape(s, True) is s)("abc def"))
show("esc identity quote non-attr", lambda: (lambda s: html_escape(s) is s)("ab'c\"d\n"))
show("esc MyStr type", lambda: type(html_escape(MyStr("abc"))).__name__)
show("esc MyStr type2", lambda: type(html_escape(MyStr("a<bc"))).__name__)
show("tables", lambda: (list(_util.HTML_ESCAPE_TABLE.items()), list(_util.HTML_ATTRS_ESCAPE_TABLE.items())))

# --------------------------------------------------------------------------
section("_normalize_attr_value / _normalize_attr_name")
VALUES = [
    None, False, True, 0, 1, -1, 1.5, float("nan"), float("inf"), 0.0, 10**30,
    "", "x", "a<b", HTML(""), HTML("a<b"), MyStr("m&"), UserString("u"),
    b"bytes", [1], (1,), {"a": 1}, Weird(), object, 1j, TagAttrDict(),
]
for i, v in enumerate(VALUES):
    show(f"nval[{i}] {type(v).__name__}", lambda v=v: TagAttrDict._normalize_attr_value(v))
    show(f"nval[{i}] identity", lambda v=v: TagAttrDict._normalize_attr_value(v) is v)
try:
    import numpy as np  # type: ignore

    show("nval numpy bool", lambda: TagAttrDict._normalize_attr_value(np.True_))
    show("nval numpy int", lambda: TagAttrDict._normalize_attr_value(np.int64(3)))
    show("nval numpy float", lambda: TagAttrDict._normalize_attr_value(np.float64(3.5)))
except ImportError:
    print("numpy: not installed")
try:
    TagAttrDict._normalize_attr_value([1, 2])
except TypeError as e:
    print("nval error message:", repr(str(e)))

NAMES = ["", "_", "__", "a", "a_", "a__", "_a", "_a_", "class_", "data_foo_bar", "data-foo",
         "foo_Bar_", "for_", "aria_label", "x_y_z_", MyStr("m_n_"), "é_", "a b_"]
for n in NAMES:
    show(f"nname {n!r}", lambda n=n: TagAttrDict._normalize_attr_name(n))
for bad in [None, 1, b"a_", HTML("h_i_"), UserString("u_v_"), ["a_"]]:
    show(f"nname bad {type(bad).__name__}", lambda b=bad: TagAttrDict._normalize_attr_name(b))
show("nname HTML type", lambda: type(TagAttrDict._normalize_attr_name(HTML("h_i_"))).__name__)
show("nname MyStr type", lambda: type(TagAttrDict._normalize_attr_name(MyStr("m_n_"))).__name__)

# --------------------------------------------------------------------------
section("TagAttrDict construction / __setitem__ / update")


def dump(d):
    return [(k, type(v).__name__, str(v)) for k, v in d.items()]


show("empty", lambda: dump(TagAttrDict()))
show("kwargs only", lambda: dump(TagAttrDict(a="1", b=2, c=None, d=False, e=True, f=1.5)))
show("dict only", lambda: dump(TagAttrDict({"a": "1", "b_": 2, "c_d": None})))
show("dict+kwargs", lambda: dump(TagAttrDict({"class": "a"}, {"class": "b"}, class_="c")))
show("kwargs falsy empty", lambda: dump(TagAttrDict({"a": "x"})))
show("merge str+str", lambda: dump(TagAttrDict({"k": "a<"}, {"k": "b'"})))
show("merge str+HTML", lambda: dump(TagAttrDict({"k": "a<\"'\n"}, {"k": HTML("b<\"'\n")})))
show("merge HTML+str", lambda: dump(TagAttrDict({"k": HTML("b<\"'\n")}, {"k": "a<\"'\n"})))
show("merge HTML+HTML", lambda: dump(TagAttrDict({"k": HTML("b<\"")}, {"k": HTML("c>'")})))
show("merge 3 mixed", lambda: dump(TagAttrDict({"k": "a&"}, {"k": HTML("b&")}, {"k": "c&"})))
show("merge 3 mixed b", lambda: dump(TagAttrDict({"k": HTML("a&")}, {"k": "b&\r"}, {"k": HTML("c&")})))
show("merge 4", lambda: dump(TagAttrDict({"k": "1'"}, {"k": "2'"}, {"k": HTML("3'")}, {"k": 4})))
show("merge num+HTML", lambda: dump(TagAttrDict({"k": 5}, {"k": HTML("<")})))
show("merge True+str", lambda: dump(TagAttrDict({"k": True}, {"k": "x"})))
show("merge str+True", lambda: dump(TagAttrDict({"k": "x"}, {"k": True})))
show("merge True+HTML", lambda: dump(TagAttrDict({"k": True}, {"k": HTML("x\"")})))
show("merge None skip", lambda: dump(TagAttrDict({"k": "x"}, {"k": None}, {"k": False}, {"k": "y"})))
show("merge norm names", lambda: dump(TagAttrDict({"data_x": "1"}, {"data-x": "2"}, data_x_="3")))
show("merge MyStr", lambda: dump(TagAttrDict({"k": MyStr("m<")}, {"k": HTML("h<")})))
show("order", lambda: dump(TagAttrDict({"b": "1", "a": "2"}, {"c": "3", "b": "4"}, a="5", z="6")))
show("bad value", lambda: dump(TagAttrDict({"a": "ok"}, {"k": [1]})))
show("bad value after none name", lambda: dump(TagAttrDict({1: None})))
show("bad name", lambda: dump(TagAttrDict({1: "x"})))
show("bad arg", lambda: dump(TagAttrDict(5)))
show("bad arg list", lambda: dump(TagAttrDict([("a", "b")])))


def upd_existing():
    d = TagAttrDict(k="old'", j="keep")
    d.update({"k": "new<"}, {"k": HTML("h&")}, m=None)
    return dump(d)


show("update existing replaces", upd_existing)


def upd_partial_failure():
    d = TagAttrDict(k="old")
    try:
        d.update({"k": "new", "z": "zz"}, {"q": object()})
    except TypeError:
        pass
    return dump(d)


show("update partial failure leaves dict", upd_partial_failure)


def upd_noargs():
    d = TagAttrDict(k="v")
    d.update()
    d.update({})
    return dump(d)


show("update noargs", upd_noargs)


def setitem_cases():
    d = TagAttrDict()
    d["a_"] = "x<"
    d["b_c"] = 3
    d["n"] = None
    d["f"] = False
    d["t"] = True
    d["h"] = HTML("<raw>")
    d["a"] = "replaced'"
    d["fl"] = 2.50
    return dump(d)


show("setitem", setitem_cases)


def setitem_bad():
    d = TagAttrDict()
    d["a"] = [1]


show("setitem bad value", setitem_bad)


def setitem_bad_name_none():
    d = TagAttrDict()
    d[1] = None
    return dump(d)


def setitem_bad_name():
    d = TagAttrDict()
    d[1] = "x"
    return dump(d)


show("setitem bad name w/ None value", setitem_bad_name_none)
show("setitem bad name", setitem_bad_name)

# --------------------------------------------------------------------------
section("HTML add / radd")
H = HTML("<b>&</b>")


def _iadd():
    h = HTML("<x>")
    h += "<y>"
    return h


for other in ["<p>'\"\n", "", HTML("<i>"), HTML(""), 5, None, Weird(), MyStr("<m>"), UserString("<u>")]:
    show(f"HTML + {type(other).__name__}", lambda o=other: (type(H + o).__name__, str(H + o)))
    show(f"{type(other).__name__} + HTML", lambda o=other: (type(o + H).__name__, str(o + H)))
show("str + ' ' + HTML", lambda: (lambda r: (type(r).__name__, str(r)))("a<'" + " " + HTML("<x>")))
show("HTML + ' ' + str", lambda: (lambda r: (type(r).__name__, str(r)))(HTML("<x>") + " " + "a<'"))
show("HTML + ' ' + HTML", lambda: (lambda r: (type(r).__name__, str(r)))(HTML("<x>") + " " + HTML("<y>")))
show("HTML iadd", lambda: (lambda r: (type(r).__name__, str(r)))(_iadd()))


class BadStr:
    def __str__(self):
        raise ValueError("nope")


show("HTML + BadStr", lambda: H + BadStr())
show("BadStr + HTML", lambda: BadStr() + H)
show("sum HTML", lambda: (lambda r: (type(r).__name__, str(r)))(sum([HTML("<a>"), HTML("<b>")], HTML(""))))
show("HTML not mutated", lambda: (str(H), H.data))

# --------------------------------------------------------------------------
section("Tag rendering of attributes")
for i, s in enumerate(SAMPLES):
    show(f"div title[{i}]", lambda s=s: str(div(title=s)))
    show(f"div title HTML[{i}]", lambda s=s: str(div(title=HTML(s))))
    show(f"div merged plain+HTML[{i}]", lambda s=s: str(div({"class": s}, class_=HTML("h"))))
    show(f"div merged HTML+plain[{i}]", lambda s=s: str(div({"class": HTML("h")}, class_=s)))
    show(f"div merged plain+plain[{i}]", lambda s=s: str(div({"class": s}, class_=s)))
    show(f"input void[{i}]", lambda s=s: str(tags.input(value=s, type="text")))
    show(f"single-line[{i}]", lambda s=s: str(tags.input(value=s, data_x=s)).count("\n") + str(tags.input(value=s)).count("\r"))

for v in [None, False, True, 0, 1, -2.5, 1e100, float("nan"), "", HTML("")]:
    show(f"attr value {v!r}", lambda v=v: str(span(id="i", data_v=v, hidden=True)))
show("many attrs", lambda: str(div("child", id="a", class_="b c", style="x:'1'", data_json='{"a": "<b>"}', title="t\n2")))
show("attrs + children indent", lambda: str(div(span("x", title="a\nb"), div(tags.p("y", class_='q"r')), title="<>")))
show("get_html_string indent", lambda: div(span("a"), title="x'y").get_html_string(indent=2, eol="\r\n"))
show("get_html_string indent0", lambda: div(title="x'y").get_html_string(0, "|"))
show("void with attrs", lambda: tags.br(class_="a&b").get_html_string(indent=1))
show("script attr", lambda: str(tags.script("a<b", src="x?a=1&b=2")))
show("style attr", lambda: str(tags.style("a>b", media="(min-width: 1px) & 'q'")))
show("no attrs", lambda: str(div()))
show("no attrs children", lambda: str(div("a", "b")))
show("taglist", lambda: str(TagList(div(title="'"), span(title='"'))))
show("render", lambda: div(title="<&>").render()["html"])
show("repr", lambda: repr(div(title="a\nb")))
show("_repr_html_", lambda: div(title="a\rb")._repr_html_())
show("tagify", lambda: str(div(title="a'b").tagify()))
show("add_class plain", lambda: str(div(class_="a<").add_class("b'")))
show("add_class HTML existing", lambda: str(div(class_=HTML("a<")).add_class("b'")))
show("add_class prepend", lambda: str(div(class_=HTML("a<")).add_class("b'", prepend=True)))
show("add_style", lambda: str(div(style="a:'1'").add_style("b:\"2\";")))
show("add_style HTML", lambda: str(div(style=HTML("a:'1';")).add_style("b:\"2\";")))
show("Tag ctor _attrs", lambda: str(Tag("custom-el", {"k": "1<"}, {"k": HTML("2<")}, "c", k="3<")))
show("attrs.update post", lambda: (lambda t: (t.attrs.update({"title": "n'"}, title=HTML("<h>")), str(t))[1])(div(title="old")))


def raw_dict_insert():
    t = div(id="x")
    dict.__setitem__(t.attrs, 7, "v<")
    dict.__setitem__(t.attrs, "n", 5)
    return t.get_html_string()


def raw_dict_insert_key_only():
    t = div(id="x")
    dict.__setitem__(t.attrs, 7, "v<")
    dict.__setitem__(t.attrs, None, HTML("h<"))
    return t.get_html_string()


def raw_dict_insert_order():
    # non-str name AND non-str value: which error surfaces first
    t = div(id="x")
    t.name = 5
    dict.__setitem__(t.attrs, "n", 5)
    return t.get_html_string()


show("raw dict insert non-str key/value", raw_dict_insert)
show("raw dict insert non-str key only", raw_dict_insert_key_only)
show("raw dict insert order of errors", raw_dict_insert_order)


def raw_dict_insert_none():
    t = div(id="x")
    dict.__setitem__(t.attrs, "n", None)
    return t.get_html_string()


show("raw dict insert None", raw_dict_insert_none)


def bad_name_tag():
    t = div(id="x'")
    t.name = 5
    return t.get_html_string()


show("non-str tag name", bad_name_tag)
show("has_class", lambda: div(class_="a b").has_class("b"))
show("jsx-ish dict attr via tags", lambda: str(tags.a("l", href="?a=1&b='2'", target="_blank")))
print("done")
