"""Probe for refactoring 4: extraction of serialised dependencies from HTML text."""

import json

from htmltools import HTML, HTMLDependency, HTMLTextDocument, TagList, div

extract = HTMLTextDocument._static_extract_serialized_html_deps

OPEN = '<script type="application/json" data-html-dependency="">'
CLOSE = "</script>"


def state(d):
    return [(k, repr(v)) for k, v in d.__dict__.items()]


def run(label, text):
    try:
        html, deps = extract(text)
    except Exception as e:  # noqa: BLE001
        print(label, "-> EXC", type(e).__name__, str(e))
        return
    print(label, "->", type(html).__name__, repr(html))
    for d in deps:
        print("    ", state(d))


def ser(name, version, **kw):
    return str(HTMLDependency(name, version, **kw).serialize_to_script_json())


src = {"href": "https://x.org/lib"}
a1 = ser("a", "1.0", source=src, script={"src": "a.js"})
a2 = ser("a", "2.0", source=src, script=[{"src": "a.js"}, {"src": "a2.js", "defer": True}])
b1 = ser("b", "1.10", stylesheet={"href": "b.css"}, meta={"name": "n", "content": "c"}, head="<b>x</b>")
pretty = str(HTMLDependency("p", "3", source=src, script={"src": "p.js"}).serialize_to_script_json(indent=2))
tricky = ser("t", "1", head="<script>if (a</b) {}</script><!-- </SCRIPT> -->")
print(a1)
print(pretty)
print(tricky)

run("empty", "")
run("no-deps", "<html><head></head><body>plain</body></html>")
run("only-dep", a1)
run("leading", "x" + a1)
run("trailing", a1 + "y")
run("middle", "<p>before</p>" + a1 + "<p>after</p>")
run("two-adjacent", a1 + b1)
run("two-separated", "A" + a1 + "B" + b1 + "C")
run("same-name-two-versions", a1 + "-" + a2 + "-" + a1)
run("duplicates-removed-but-text-cut-each-time", "1" + a1 + "2" + a1 + "3" + b1 + "4" + a1 + "5")
run("pretty-multiline", "<body>\n" + pretty + "\n</body>")
run("crlf-inside", OPEN + '{"name": "n",\r\n "version": "1"}' + CLOSE)
run("same-payload-different-whitespace", OPEN + '{"name":"n","version":"1"}' + CLOSE + OPEN + '{"name": "n", "version": "1"}' + CLOSE)
run("tricky-head", "[" + tricky + "]")
run("non-greedy", OPEN + '{"name": "n", "version": "1"}' + CLOSE + "<script>other()</script>")
run("unterminated", "x" + OPEN + '{"name": "n", "version": "1"}')
run("unterminated-after-good", a1 + OPEN + "{")
run("different-attr-order", '<script data-html-dependency="" type="application/json">{"name": "n", "version": "1"}' + CLOSE)
run("uppercase-close-not-matched", OPEN + '{"name": "n", "version": "1"}</SCRIPT>')
run("nested-open", OPEN + OPEN + '{"name": "n", "version": "1"}' + CLOSE + CLOSE)
run("unicode", "é中" + ser("ué", "1", head="中\U0001f600") + "é")
run("line-separators", "a " + OPEN + '{"name": "n",  "version": "1"}' + CLOSE + "\x0b\x0cb")

# payloads that are rejected while being reconstituted
run("empty-payload", "x" + OPEN + CLOSE + "y")
run("invalid-json", OPEN + "{nope}" + CLOSE)
run("json-list", OPEN + "[1, 2]" + CLOSE)
run("json-null", OPEN + "null" + CLOSE)
run("json-string", OPEN + '"abc"' + CLOSE)
run("missing-version", OPEN + '{"name": "n"}' + CLOSE)
run("unknown-key", OPEN + '{"name": "n", "version": "1", "bogus": 1}' + CLOSE)
run("bad-version", OPEN + '{"name": "n", "version": "x.y"}' + CLOSE)
run("bad-source", OPEN + '{"name": "n", "version": "1", "source": "lib"}' + CLOSE)
run("source-without-href-or-subdir", OPEN + '{"name": "n", "version": "1", "source": {"package": "p"}}' + CLOSE)
run("script-missing-src", OPEN + '{"name": "n", "version": "1", "script": [{"href": "x"}]}' + CLOSE)
run("script-not-dict", OPEN + '{"name": "n", "version": "1", "script": ["x.js"]}' + CLOSE)
run("stylesheet-missing-href", OPEN + '{"name": "n", "version": "1", "stylesheet": {"src": "x"}}' + CLOSE)
run("meta-missing-content", OPEN + '{"name": "n", "version": "1", "meta": {"name": "x"}}' + CLOSE)
run("good-then-bad", a1 + OPEN + "{nope}" + CLOSE)
run("bad-then-good", OPEN + "{nope}" + CLOSE + a1)
run("bad-duplicate-of-good-skipped", a1 + a1 + OPEN + '{"name": "n"}' + CLOSE)

# input types
run("bytes", a1.encode())
run("none", None)
run("int", 3)
run("html-object", HTML(a1))
run("list", [a1])


class S(str):
    pass


run("str-subclass-no-match", S("plain"))
run("str-subclass-match", S("x" + a1 + "y"))

# through the class: explicit deps come first, body deps are appended, nothing is resolved
d0 = HTMLDependency("a", "9", source=src, script={"src": "a9.js"})
body = "<html><head>HEAD HEAD</head><body>" + a1 + div("text", HTMLDependency("z", "1")).get_html_string() + b1 + a2 + a1 + "</body></html>"
for label, kwargs in [
    ("doc-no-explicit", dict(deps_replace_pattern="HEAD")),
    ("doc-explicit", dict(deps=[d0], deps_replace_pattern="HEAD")),
    ("doc-pattern-absent", dict(deps_replace_pattern="NOWHERE")),
]:
    doc = HTMLTextDocument(body, **kwargs)
    r = doc.render()
    print(label, [(d.name, str(d.version)) for d in r["dependencies"]])
    print(r["html"])
    r2 = doc.render(lib_prefix=None, include_version=False)
    print(r2["html"])
    print("   stored", repr(doc._html), [(d.name, str(d.version)) for d in doc._deps])

for label, args in [
    ("doc-deps-without-pattern", dict(deps=[d0])),
    ("doc-bad-payload", dict(deps_replace_pattern="HEAD")),
]:
    try:
        text = body if label != "doc-bad-payload" else body.replace('"src": "a.js"', '"crs": "a.js"')
        HTMLTextDocument(text, **args)
        print(label, "ok")
    except Exception as e:  # noqa: BLE001
        print(label, "-> EXC", type(e).__name__, str(e))

# a caller-supplied deps list is extended in place
mine = [d0]
HTMLTextDocument("H" + a1 + b1, deps=mine, deps_replace_pattern="H")
print("caller list", [(d.name, str(d.version)) for d in mine])

# round trip of a rendered tree with serialised deps
tree = TagList(div("a", HTMLDependency("r", "1", source=src, script={"src": "r.js"}).serialize_to_script_json()), "H")
doc = HTMLTextDocument(tree.get_html_string(), deps_replace_pattern="H")
print(json.dumps(doc.render()["html"]))
