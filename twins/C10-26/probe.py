# Probe for _resolve_dependencies
from htmltools import HTMLDependency, TagList, div, span, HTMLDocument
from htmltools._core import _resolve_dependencies
from packaging.version import Version


def show(label, f):
    try:
        r = f()
        print(label, "->", repr(r))
    except BaseException as e:  # noqa
        print(label, "!!", type(e).__name__, str(e)[:120])


def ids(deps, pool):
    return [(d.name, str(d.version), [i for i, p in enumerate(pool) if p is d][0]) for d in deps]


pool = [
    HTMLDependency("a", "1.0"),
    HTMLDependency("b", "1.9"),
    HTMLDependency("a", "1.10"),
    HTMLDependency("a", "1.9"),
    HTMLDependency("b", "1.10.0"),
    HTMLDependency("c", "2"),
    HTMLDependency("a", "1.10.0"),   # equal to 1.10 -> tie: earliest wins
    HTMLDependency("b", "1.10"),     # tie with #4
    HTMLDependency("c", "2.0.0"),
    HTMLDependency("", "0"),
    HTMLDependency("", "0.0.1"),
    HTMLDependency("A", "3"),
    HTMLDependency("a", Version("0.1")),
    HTMLDependency("d", "1.0a1"),
    HTMLDependency("d", "1.0"),
    HTMLDependency("d", "1.0.post1"),
    HTMLDependency("d", "1.0.dev3"),
]

import itertools, random
show("empty", lambda: _resolve_dependencies([]))
show("single", lambda: ids(_resolve_dependencies([pool[0]]), pool))
show("all", lambda: ids(_resolve_dependencies(pool), pool))
show("all-rev", lambda: ids(_resolve_dependencies(pool[::-1]), pool))
show("dup-same-object", lambda: ids(_resolve_dependencies([pool[0], pool[0], pool[0]]), pool))
rng = random.Random(12345)
for t in range(60):
    k = rng.randint(0, 12)
    sel = [rng.choice(pool) for _ in range(k)]
    r = _resolve_dependencies(sel)
    r2 = _resolve_dependencies(r)
    print("rand", t, ids(sel, pool), "=>", ids(r, pool), "idem", [x is y for x, y in zip(r, r2)], len(r) == len(r2))

# result is a fresh list, input not mutated
inp = [pool[0], pool[2], pool[1]]
out = _resolve_dependencies(inp)
print("fresh", out is inp, ids(inp, pool), type(out).__name__)

# tuple / generator input
show("tuple-in", lambda: ids(_resolve_dependencies((pool[0], pool[2])), pool))
show("gen-in", lambda: ids(_resolve_dependencies(p for p in pool[:4]), pool))

# error paths
class Fake:
    def __init__(self, name, version):
        self.name = name
        self.version = version
    def __repr__(self):
        return f"Fake({self.name!r},{self.version!r})"

show("none-elem", lambda: _resolve_dependencies([None]))
show("none-elem-2nd", lambda: _resolve_dependencies([pool[0], None]))
show("unhashable-name", lambda: _resolve_dependencies([Fake(["x"], 1)]))
show("incomparable", lambda: _resolve_dependencies([Fake("x", 1), Fake("x", "s")]))
show("fake-int", lambda: _resolve_dependencies([Fake("x", 1), Fake("x", 3), Fake("x", 2), Fake("y", None)]))
show("fake-none-version-once", lambda: _resolve_dependencies([Fake("y", None)]))
show("fake-none-version-twice", lambda: _resolve_dependencies([Fake("y", None), Fake("y", None)]))
show("mixed-version-types", lambda: _resolve_dependencies([HTMLDependency("a", "1"), Fake("a", 2)]))
show("no-name-attr", lambda: _resolve_dependencies([object()]))
show("not-iterable", lambda: _resolve_dependencies(None))

# version compare call trace: which comparisons are made and in what order
class TV:
    log = []
    def __init__(self, v):
        self.v = v
    def __gt__(self, o):
        TV.log.append(("gt", self.v, o.v))
        return self.v > o.v
    def __lt__(self, o):
        TV.log.append(("lt", self.v, o.v))
        return self.v < o.v
    def __repr__(self):
        return f"TV({self.v})"

seq = [Fake("n", TV(1)), Fake("n", TV(3)), Fake("m", TV(0)), Fake("n", TV(2)), Fake("n", TV(3)), Fake("m", TV(5))]
show("trace-res", lambda: _resolve_dependencies(seq))
print("trace-log", TV.log)

# through the tree API
tree = TagList(pool[0], div(pool[1], span(pool[2], "x"), pool[3]), pool[4], div(div(div(pool[6]))), pool[7])
show("tree-dedup", lambda: ids(tree.get_dependencies(), pool))
show("tree-nodedup", lambda: ids(tree.get_dependencies(dedup=False), pool))
nv = lambda deps: [(d.name, str(d.version)) for d in deps]
show("doc-deps", lambda: nv(HTMLDocument(tree).render()["dependencies"]))
show("tl-render-deps", lambda: nv(tree.render()["dependencies"]))
show("doc-html", lambda: HTMLDocument(tree).render()["html"])
