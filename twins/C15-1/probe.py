"""Deterministic probe for property C15 (attribute normalisation / merging).

Prints repr()s of results or exception type + message; output must be identical
on the unmodified tree and on the refactored tree.
"""
from __future__ import annotations

import copy
from collections import OrderedDict, UserString

import htmltools
from htmltools import HTML, Tag, TagList, consolidate_attrs, div, span, tags
from htmltools._core import TagAttrDict


def show(label, fn):
    try:
        res = fn()
    except BaseException as e:  # noqa: BLE001
        print(f"{label}: EXC {type(e).__name__}: {e}")
    else:
        print(f"{label}: {describe(res)}")


def describe(x):
    if isinstance(x, TagAttrDict):
        return "TagAttrDict[" + ", ".join(
            f"{type(k).__name__}:{k!r}={type(v).__name__}:{str(v)!r}"
            for k, v in x.items()
        ) + "]"
    if isinstance(x, dict):
        return type(x).__name__ + "{" + ", ".join(
            f"{type(k).__name__}:{k!r}={type(v).__name__}:{str(v)!r}"
            for k, v in x.items()
        ) + "}"
    if isinstance(x, tuple):
        return "(" + ", ".join(describe(i) for i in x) + ")"
    if isinstance(x, list):
        return "[" + ", ".join(describe(i) for i in x) + "]"
    if isinstance(x, Tag):
        return f"Tag<{x.name}|{describe(x.attrs)}|add_ws={x.add_ws}|{str(x)!r}>"
    return f"{type(x).__name__}:{x!r}"


class MyStr(str):
    pass


class Weird:
    def __repr__(self):
        return "Weird()"


# --------------------------------------------------------------------------
print("== _normalize_attr_name")
names = [
    "", "_", "__", "___", "a", "a_", "a__", "_a", "_a_", "__a__", "foo_Bar_",
    "data_foo_bar", "class_", "for_", "http_equiv", "aria_label_", "a-b", "a-b_",
    "a_-_b", "-", "-_", "x" * 5 + "_" * 5, "é_è_", " _ ", "a b_", "A_B",
    "_" * 7, "1_2", "a\n_", "\t_",
]
for n in names:
    show(f"name {n!r}", lambda n=n: TagAttrDict._normalize_attr_name(n))
for n in [MyStr("my_str_"), MyStr("plain"), HTML("h_t_"), HTML("ht"), UserString("u_s_")]:
    show(f"name {type(n).__name__}({str(n)!r})", lambda n=n: TagAttrDict._normalize_attr_name(n))
for n in [None, 1, 1.5, b"a_", ("a_",), ["a_"], Weird(), True]:
    show(f"name bad {n!r}", lambda n=n: TagAttrDict._normalize_attr_name(n))

# --------------------------------------------------------------------------
print("== _normalize_attr_value")
values = [
    None, False, True, 0, 1, -1, 10**30, 0.0, -0.0, 1.5, 1e100, float("inf"),
    float("-inf"), float("nan"), "", " ", "a", "a b", "<&\"'>", "\n", HTML(""),
    HTML("<b>"), HTML("a&amp;b"), MyStr("sub"), MyStr(""),
]
for v in values:
    show(f"value {type(v).__name__}:{v!r}", lambda v=v: TagAttrDict._normalize_attr_value(v))
bad_values = [
    b"bytes", [1], (1,), {"a": 1}, {1}, 1j, object, Weird(), UserString("us"),
    div("x"), TagList("x"), range(2), lambda: 1, NotImplemented, Ellipsis,
]
for v in bad_values:
    label = type(v).__name__
    show(f"value bad {label}", lambda v=v: TagAttrDict._normalize_attr_value(v))
# identity of returned objects
s = "same"
h = HTML("same")
print("identity str:", TagAttrDict._normalize_attr_value(s) is s)
print("identity HTML:", TagAttrDict._normalize_attr_value(h) is h)
m = MyStr("same")
print("identity MyStr:", TagAttrDict._normalize_attr_value(m) is m)

# --------------------------------------------------------------------------
print("== TagAttrDict construction / update")
show("empty", lambda: TagAttrDict())
show("empty dicts", lambda: TagAttrDict({}, {}, {}))
show("kw only", lambda: TagAttrDict(a=1, b_="x", c_d=True, e=None, f=False))
show("dict only", lambda: TagAttrDict({"a": 1, "b_": "x", "c_d": True, "e": None, "f": False}))
show("merge dicts", lambda: TagAttrDict({"class": "a"}, {"class_": "b"}, {"class": "c"}))
show("merge dict+kw", lambda: TagAttrDict({"class": "a", "id": "i"}, class_="b", id=None))
show("merge order", lambda: TagAttrDict({"z": 1}, {"y": 2, "z": 3}, {"x": 4, "y": 5}, z=6, w=7))
show("collide names", lambda: TagAttrDict({"a_b": 1, "a-b": 2, "a_b_": 3, "a-b_": 4}))
show("collide kw", lambda: TagAttrDict({"data-x": "p"}, data_x="q", data_x_="r"))
show("true merge", lambda: TagAttrDict({"a": True}, {"a": True}, a=True))
show("true+str", lambda: TagAttrDict({"a": True}, {"a": "x"}, a=True))
show("empty strs", lambda: TagAttrDict({"a": ""}, {"a": ""}, a=""))
show("none between", lambda: TagAttrDict({"a": "x"}, {"a": None}, {"a": False}, a="y"))
show("all dropped", lambda: TagAttrDict({"a": None}, {"a": False}, a=None))
show("numbers", lambda: TagAttrDict({"a": 1}, {"a": 2.5}, a=-3))
show("zero", lambda: TagAttrDict({"a": 0}, {"b": 0.0}, c=0))
show("html+html", lambda: TagAttrDict({"a": HTML("<x>")}, a=HTML("&y")))
show("str+html", lambda: TagAttrDict({"a": "<x>\"'&"}, a=HTML("<y>")))
show("html+str", lambda: TagAttrDict({"a": HTML("<y>")}, a="<x>\"'&"))
show("str+str+html", lambda: TagAttrDict({"a": "<1>"}, {"a": "\"2\""}, a=HTML("<3>")))
show("html+str+str", lambda: TagAttrDict({"a": HTML("<1>")}, {"a": "<2>"}, a="'3'"))
show("str+html+str", lambda: TagAttrDict({"a": "<1>"}, {"a": HTML("<2>")}, a="<3>"))
show("html+True", lambda: TagAttrDict({"a": HTML("<1>")}, a=True))
show("True+html", lambda: TagAttrDict({"a": True}, a=HTML("<1>")))
show("html+num", lambda: TagAttrDict({"a": HTML("<1>")}, a=5))
show("mystr merge", lambda: TagAttrDict({"a": MyStr("m")}, a=MyStr("n")))
show("mystr single", lambda: TagAttrDict(a=MyStr("n")))
show("ordered dict", lambda: TagAttrDict(OrderedDict([("b", 1), ("a", 2), ("b_", 3)])))
show("tagattrdict arg", lambda: TagAttrDict(TagAttrDict(a_b="1"), {"a-b": "2"}))
show("html key", lambda: TagAttrDict({HTML("k_e_y_"): "v"}, {"k-e-y": "w"}))
show("bad value", lambda: TagAttrDict({"ok": "1"}, {"bad": [1]}))
show("bad value kw", lambda: TagAttrDict(ok="1", bad=b"x"))
show("bad key dropped", lambda: TagAttrDict({1: None, 2: False}))
show("bad key kept", lambda: TagAttrDict({1: "x"}))
show("bad key None", lambda: TagAttrDict({None: "x"}))
show("bad value+bad key", lambda: TagAttrDict({1: [1]}))
show("non mapping arg", lambda: TagAttrDict("abc"))
show("non mapping arg2", lambda: TagAttrDict([("a", 1)]))
show("non mapping none", lambda: TagAttrDict(None))
show("non mapping + kw", lambda: TagAttrDict(5, a=1))


def update_partial():
    d = TagAttrDict(a="1", b="2")
    try:
        d.update({"a": "new", "c": "3"}, {"d": object()})
    except TypeError as e:
        return ("raised", str(e), dict(d))
    return ("no raise", dict(d))


show("update atomic on error", update_partial)


def update_replace():
    d = TagAttrDict({"class": "a"}, class_="b", id="i")
    out = [dict(d)]
    d.update({"class": "c"}, class_="d")
    out.append(dict(d))
    d.update(class_=None)
    out.append(dict(d))
    d.update({"id": False}, new_attr_=True)
    out.append(dict(d))
    d.update()
    out.append(dict(d))
    d.update({})
    out.append(dict(d))
    d.update({"id": HTML("<h>")})
    out.append(dict(d))
    d.update({"id": "<p>"}, id=HTML("<h2>"))
    out.append(dict(d))
    r = d.update(zz=1)
    out.append(r)
    return out


show("update replaces", update_replace)


def setitem_cases():
    d = TagAttrDict(a="1")
    out = []
    d["a"] = "2"
    out.append(dict(d))
    d["b_c_"] = 3
    out.append(dict(d))
    d["b-c"] = 4.5
    out.append(dict(d))
    d["a"] = None
    out.append(dict(d))
    d["a"] = False
    out.append(dict(d))
    d["t"] = True
    out.append(dict(d))
    d["h_"] = HTML("<h>")
    out.append(dict(d))
    d["_"] = "underscore"
    out.append(dict(d))
    d[""] = "emptyname"
    out.append(dict(d))
    d[5] = None  # dropped before the name is looked at
    out.append(dict(d))
    for bad_name, bad_val in [(5, "x"), ("k", [1]), (5, [1]), (None, None), (None, "v")]:
        try:
            d[bad_name] = bad_val
            out.append(("ok", dict(d)))
        except Exception as e:  # noqa: BLE001
            out.append((type(e).__name__, str(e), dict(d)))
    return out


show("setitem", setitem_cases)


class SubAttrs(TagAttrDict):
    """Subclass overriding the normalisers: update()/__setitem__ must dispatch to them."""

    calls: list = []

    @staticmethod
    def _normalize_attr_name(x):
        SubAttrs.calls.append(("name", x))
        return TagAttrDict._normalize_attr_name(x).upper()

    @staticmethod
    def _normalize_attr_value(x):
        SubAttrs.calls.append(("value", x))
        return TagAttrDict._normalize_attr_value(x)


def subclass_dispatch():
    SubAttrs.calls = []
    d = SubAttrs({"a_b": 1, "c": None}, {"A-B": "x"}, d_=True)
    d["e_f_"] = 2
    d["g"] = None
    d.update(h=False, a_b="y")
    return (dict(d), list(SubAttrs.calls))


show("subclass dispatch + call order", subclass_dispatch)

# --------------------------------------------------------------------------
print("== Tag construction")
show("tag mix", lambda: div({"class": "a", "id": "x"}, "kid", {"class_": "b"}, span("s"), class_="c", data_foo_bar=1))
show("tag kw", lambda: div(class_="a", for_="b", http_equiv="c", aria_label_="d"))
show("tag drop", lambda: div(a=None, b=False, c=True, d=0, e=1.5, f=""))
show("tag html", lambda: div({"title": "a<b"}, title=HTML("<i>")))
show("tag html2", lambda: div({"title": HTML("<i>")}, title="a<b\"'"))
show("tag no attrs", lambda: div())
show("tag only kids", lambda: div("a", "b", None, [1, 2]))
show("tag empty dict", lambda: div({}, "x", {}))
show("tag add_ws", lambda: div({"a": 1}, _add_ws=False))
show("tag add_ws bad", lambda: div({"a": 1}, _add_ws="no"))
show("tag add_ws none", lambda: div(_add_ws=None))
show("tag bad attr", lambda: div({"a": [1]}, "kid"))
show("tag bad attr + bad kid", lambda: div({"a": [1]}, object()))
show("tag bad kid", lambda: div({"a": 1}, object()))
show("tag bad kid + bad kw", lambda: div(object(), a=b"x"))
show("tag tagattrdict arg", lambda: div(TagAttrDict(a_b=1), {"a-b": 2}))
show("tag ordereddict arg", lambda: div(OrderedDict([("b", 1), ("a", 2)]), b=3))
show("tag Tag()", lambda: Tag("custom-el", {"x_y": 1}, "c", x_y_=2, _add_ws=False))
show("tag name kw", lambda: Tag("t", name="n", _name_="m"))
show("tags.input", lambda: tags.input(type="checkbox", checked=True, disabled=False, value=3))


def tag_item_assignment():
    t = div({"class": "a"}, class_="b", id="i")
    out = [str(t)]
    t.attrs["class_"] = "z"
    out.append(str(t))
    t.attrs.update({"class": "p"}, class_="q")
    out.append(str(t))
    t.attrs["id"] = None
    out.append(str(t))
    t.attrs.update(id=None, data_k=True)
    out.append(str(t))
    t.add_class("extra")
    out.append(str(t))
    t.add_style("color: red;")
    out.append(str(t))
    t2 = copy.copy(t)
    t2.attrs["new_one_"] = 1
    out.append((str(t), str(t2)))
    return out


show("tag item assignment", tag_item_assignment)

# --------------------------------------------------------------------------
print("== consolidate_attrs")


def ca(*args, **kwargs):
    attrs, children = consolidate_attrs(*args, **kwargs)
    same = [any(c is a for a in args) for c in children]
    return (type(attrs).__name__, attrs, type(children).__name__, children, same)


child_tag = span("s", id="sp")
child_list = ["x", ["y", None]]
child_tl = TagList("a", "b")
show("ca empty", lambda: ca())
show("ca kw", lambda: ca(class_="a", data_x=1, e=None, f=False, g=True))
show("ca dicts", lambda: ca({"class": "a"}, {"class_": "b"}, class_="c"))
show("ca mix", lambda: ca({"class": "a"}, "kid", {"id": "i"}, child_tag, None, child_list, child_tl, 5, 1.5, class_="z", id="j"))
show("ca only children", lambda: ca("a", None, child_list))
show("ca html", lambda: ca({"t": "<a>"}, HTML("<kid>"), t=HTML("<b>")))
show("ca tagattrdict", lambda: ca(TagAttrDict(a_b=1), "k", a_b_=2))
show("ca ordereddict", lambda: ca(OrderedDict([("b", 1)]), "k", b=2))
show("ca add_ws", lambda: ca({"a": 1}, _add_ws=False))
show("ca add_ws bad", lambda: ca({"a": 1}, _add_ws=1))
show("ca bad attr", lambda: ca({"a": [1]}, "k"))
show("ca bad child", lambda: ca({"a": 1}, object()))
show("ca bad both", lambda: ca({"a": {1}}, object(), b=b"x"))
show("ca empty dicts", lambda: ca({}, {}, "k"))


def roundtrip(*args, **kwargs):
    attrs, children = consolidate_attrs(*args, **kwargs)
    rebuilt = div(attrs, *children)
    direct = div(*args, **kwargs)
    return (str(rebuilt) == str(direct), rebuilt == direct, dict(rebuilt.attrs) == dict(direct.attrs), str(rebuilt))


show("rt 1", lambda: roundtrip({"class": "a"}, "kid", {"class_": "b", "id": "x"}, span("s"), class_="c", id=None, data_a_b=True))
show("rt 2", lambda: roundtrip({"t": "<a>"}, t=HTML("<b>")))
show("rt 3", lambda: roundtrip())
show("rt 4", lambda: roundtrip("only", ["kids", None], 3))
show("rt 5", lambda: roundtrip({"a_": 1, "a": 2, "a__": 3}, a___=4))

# input dicts must not be mutated
src1 = {"class_": "a", "x_y": None}
src2 = {"class": "b"}
kw = {"class_": "c"}
consolidate_attrs(src1, "k", src2, **kw)
div(src1, src2, **kw)
TagAttrDict(src1, src2, **kw)
print("inputs unchanged:", src1, src2, kw)

print("version:", htmltools.__version__)
