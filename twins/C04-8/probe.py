"""Probe for refactoring 3: TagAttrDict.update() merge of repeated attribute names."""
import itertools

from htmltools import HTML, TagList, a, consolidate_attrs, div, span, tags
from htmltools._core import TagAttrDict


def desc(v):
    return f"{type(v).__name__}:{str(v)!r}"


def show(label, fn):
    try:
        res = fn()
        if isinstance(res, dict):
            res = {k: desc(v) for k, v in res.items()}
        print(label, "->", type(res).__name__, repr(res))
    except Exception as e:  # noqa: BLE001
        print(label, "-> EXC", type(e).__name__)


VALUES = [
    "",
    "plain",
    "a&b",
    "<x>",
    "q\"uo'te",
    "nl\nx",
    "&amp;",
    HTML(""),
    HTML("<raw>"),
    HTML("&amp; \"k\""),
    HTML("it's"),
    True,
    False,
    None,
    0,
    3,
    2.5,
]

# All ordered pairs and triples of values for the same attribute name
for v1, v2 in itertools.product(VALUES, repeat=2):
    lab = f"[{v1!r} | {v2!r}]"
    show("dict " + lab, lambda: TagAttrDict({"class": v1}, {"class": v2}))
    show("kw   " + lab, lambda: TagAttrDict({"class": v1}, class_=v2))
    show("tag  " + lab, lambda: str(div({"class": v1}, class_=v2)))

TRIPLE = ["a<", HTML("<b>"), "c'", HTML("&d"), None, True, 7]
for v1, v2, v3 in itertools.product(TRIPLE, repeat=3):
    lab = f"[{v1!r} | {v2!r} | {v3!r}]"
    show("3dict " + lab, lambda: TagAttrDict({"k": v1}, {"k": v2}, {"k": v3}))
    show("3tag  " + lab, lambda: str(span({"k": v1}, {"k": v2}, k=v3)))

# Name normalisation makes different spellings collide
show("alias names", lambda: TagAttrDict({"data_x": "1<", "data-x": HTML("<2>")}, data_x_="3&"))
show("alias names2", lambda: TagAttrDict({"class_": "a", "class": "b"}, {"class": HTML("<c>")}))
show("for_", lambda: str(tags.label({"for": "a&"}, for_=HTML("b&"))))

# Existing content of the dict is replaced (not merged) by update()
d = TagAttrDict({"class": "old<"})
d.update({"class": HTML("<new>")})
show("update replaces", lambda: d)
d.update({"class": "x<"}, {"class": HTML("<y>")}, class_="z&")
show("update merge within call", lambda: d)
d["class"] = "set&"
show("setitem", lambda: d)
d.update()
show("empty update", lambda: d)
d.update({})
show("empty dict update", lambda: d)
show("key order", lambda: list(TagAttrDict({"b": "1", "a": "2"}, {"b": HTML("<3>")}, c="4").items()))

# Invalid values
for bad in [[1], ("x",), {"a": 1}, object(), b"x", div()]:
    show(f"bad first {type(bad).__name__}", lambda: TagAttrDict({"k": bad}, {"k": "x"}))
    show(f"bad second {type(bad).__name__}", lambda: TagAttrDict({"k": "x"}, {"k": bad}))
show("non-mapping arg", lambda: TagAttrDict([("a", "b")]))

# Higher-level entry points that funnel into update()
t = div(class_="a<b")
show("add_class", lambda: str(t.add_class(HTML("<c>"))))
show("add_class prepend", lambda: str(t.add_class("d&e", prepend=True)))
show("add_class html prepend", lambda: str(div(class_=HTML("<h>")).add_class("p<", prepend=True)))
show("add_style", lambda: str(div(style="a:'1';").add_style(HTML("b:\"2\";"))))
show("add_style prepend", lambda: str(div(style=HTML("a:'1';")).add_style("b:\"2\";", prepend=True)))
show("add_style none", lambda: str(div().add_style("b:<2>;")))
show("consolidate", lambda: consolidate_attrs({"class": "a<"}, "child", {"class": HTML("<b>")}, class_="c'"))
show("tag ctor multi", lambda: str(a({"href": "x?a=1&b=2"}, {"href": HTML("y?c=3&d=4")}, "txt")))
show("has_class", lambda: div({"class": "a<"}, class_=HTML("<b>")).has_class("<b>"))
show("taglist", lambda: str(TagList(div({"title": "t<"}, title=HTML("<u>")), span(title="'"))))
show("render attr types", lambda: {k: v for k, v in div({"x": "1"}, {"x": HTML("2")}, y="3", z=HTML("4")).attrs.items()})
