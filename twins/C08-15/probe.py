import copy
from htmltools import HTML, HTMLDependency, HTMLDocument, Tag, TagList, div, span, tags
from htmltools._core import MetadataNode
from htmltools._jsx import (JSXTag, jsx, jsx_tag_create, _render_react_js, _serialize_attr,
                            _serialize_style_attr, _walk_attrs_and_children)


def show(label, fn):
    try:
        r = fn()
        print(label, "=>", r if isinstance(r, str) else repr(r))
    except Exception as e:  # noqa
        print(label, "=> EXC", type(e).__name__, e)


Foo = jsx_tag_create("Foo")
Bar = jsx_tag_create("Lib.Bar", allowedProps=["a", "style", "children_"])
dep = HTMLDependency("d", "1.0", source={"href": "http://x"}, script={"src": "d.js"})


class Widget:
    def __init__(self, n):
        self.n = n
        self.calls = 0

    def tagify(self):
        self.calls += 1
        return div("widget", self.n, dep)


class ListWidget:
    def tagify(self):
        return TagList(span("l1"), "l2")


class Meta(MetadataNode):
    pass


# _serialize_attr / _serialize_style_attr
vals = [None, True, False, 0, 1.5, "s", 'q"q', jsx("x => x"), jsx("a", "b"), [], [1, "a", None, [True]], (1, 2),
        {}, {"k": 1, "style": "a:b", "n": {"m": [jsx("j")]}}, {1: 2}, HTML("<b>"), div(), span("a", id="i"),
        Foo(), Foo("c", p=1), object, 3 + 2j, b"bytes", {"a", }.__class__, range(2)]
for v in vals:
    show("attr " + type(v).__name__, lambda: _serialize_attr(v))
styles = [None, "", ";", "color:red", "color:red;", "color: red; margin : 0 ;", "a:b;;c:d", "nocolon", "nocolon;a:b",
          "a:b:c", "url:http://x", ":", "::", {}, {"color": "red", "n": 1}, {"a": None, "b": [1]}, jsx("a:b;c:d"),
          5, ["a:b"], HTML("a:b"), b"a:b"]
for s in styles:
    show("style " + repr(s), lambda: _serialize_style_attr(s))

# _render_react_js
nodes = ["txt", 'q"uo"te', "", dep, Meta(), div(), div(id="a"), div("c"), div(span(), "t", dep, Meta(), span("z", class_="k")),
         Foo(), Foo(a=1), Foo("c"), Foo(dep), Foo(dep, Meta()), Foo(div(dep), "x", dep, "y"),
         Foo(style="color:red;width:1px", a=None, b_c=True, d=[div("in"), Foo(x=1)], e={"style": "x:y"}, f=jsx("()=>1")),
         div(style="color:red;", id="i"), Tag("input", type="text"), HTML("<raw>"), 5, None, Widget(1), TagList("a")]
for n in nodes:
    for ind, eol in ((0, "\n"), (2, "\n"), (1, ""), (0, "~")):
        show(f"react {type(n).__name__} {ind} {eol!r}", lambda: _render_react_js(n, ind, eol))

# JSXTag construction + tagify / str / purity
show("lowercase", lambda: jsx_tag_create("foo")())
show("bad prop", lambda: Bar(b=1))
show("good prop", lambda: str(Bar(a=1, style={"x": 1})))
w1, w2 = Widget("child"), Widget("attr")
inner = Foo(Widget("deep"), inner_attr=span("ia", dep))
show("taglist-returning child of tag", lambda: str(Foo(div(ListWidget()))))
show("taglist-returning child of jsx", lambda: str(Foo(ListWidget())))
show("HTML child", lambda: str(Foo(HTML("<h>"))))
show("HTML grandchild", lambda: str(Foo(div(HTML("<h>")))))
show("bad style", lambda: str(Foo(style=5)))
show("bad style nested", lambda: str(Foo(div(Foo(style="a:b:c")))))
j = Foo(div("plain", w1, Meta(), id="d"), "text", w2, inner, dep, Meta(),
        attr_w=w2, attr_tag=div(Widget("in-attr-tag")), attr_list=[div("in-list", dep), 1], attr_jsx=inner, class_="cls", style="a:b;c:d")
before_children = list(j.children)
before_attrs = dict(j.attrs)
s1 = str(j)
t1 = j.tagify()
t2 = j.tagify()
print(s1)
print(s1 == str(j) == repr(j) == j._repr_html_() == str(t1), t1 == t2, t1 is t2)
print([a is b for a, b in zip(before_children, j.children)], len(before_children) == len(j.children))
print(all(before_attrs[k] is j.attrs[k] for k in before_attrs), list(before_attrs) == list(j.attrs))
print(w1.calls, w2.calls)
print(t1.get_dependencies(), [type(c).__name__ for c in t1.children])
print(t1.tagify() == t1, t1.tagify() is t1, str(t1.tagify()) == s1)
r = j.tagify().render()
print(r["dependencies"], r["html"] == s1)
print(str(j.children[0]), str(inner))
# mutate the tagified result; original unaffected
t1.append("extra")
t1.attrs["id"] = "changed"
print(str(j) == s1)

# inside documents and plain tags
outer = div(Foo(span("in"), dep, a=div("x")), Foo())
print(outer.tagify())
print(outer.tagify() == outer.tagify(), str(outer) == str(outer.tagify()))
print(HTMLDocument(outer).render()["html"])
print(TagList(Foo("a"), "b", Bar(a=[1, 2])).render())

# _walk_attrs_and_children directly
seen = []


def fn(x):
    seen.append(type(x).__name__ + ":" + (x if isinstance(x, str) else getattr(x, "name", "?")))
    return copy.copy(x)


src = Foo(div("a", span("b"), Foo("c", k="v")), "d", p=div("e"), q=[div("notwalked")], r="s")
res = _walk_attrs_and_children(src, fn)
print(seen)
print(res is src, res.children is src.children, res.children[0] is src.children[0], res.attrs["p"] is src.attrs["p"], res.attrs["q"] is src.attrs["q"])
print(str(res) == str(src))
seen.clear()
w = Widget("top")
print(_walk_attrs_and_children(w, lambda x: x) is w, _walk_attrs_and_children("s", fn), _walk_attrs_and_children(None, lambda x: x), _walk_attrs_and_children(5, lambda x: x), seen)
tl = TagList(div("in-taglist"))
print(_walk_attrs_and_children(tl, lambda x: x) is tl)
