"""Probe for refactoring 4: Tag.__init__ and consolidate_attrs share one
attrs/children partition helper."""
import collections
import types

import htmltools
from htmltools import (
    HTML,
    Tag,
    TagList,
    HTMLDependency,
    consolidate_attrs,
    div,
    span,
    tags,
)
from htmltools._core import TagAttrDict


def show(label, fn):
    try:
        out = fn()
        print(label, "->", repr(out))
    except BaseException as e:  # noqa
        print(label, "!!", type(e).__name__, str(e)[:110])


class Tagi:
    def __init__(self, v):
        self.v = v

    def tagify(self):
        return self.v

    def __repr__(self):
        return "Tagi(%r)" % (self.v,)


class MyDict(dict):
    pass


class Unstr:
    def __str__(self):
        raise ValueError("unstr")

    def __repr__(self):
        return "Unstr()"


od = collections.OrderedDict([("data-o", "o<"), ("class", "od")])
dd = collections.defaultdict(str, {"id": "dd&"})
tad = TagAttrDict({"class": "t1"}, class_="t2", title="<t>")
proxy = types.MappingProxyType({"id": "proxy"})

ARGSETS = [
    (),
    ("a<b",),
    ({"id": "x"},),
    ({},),
    ("a<", {"class": "c1"}, "b&", {"class": "c2", "title": "<\"t\">"}, 3, None),
    ({"class": "c1"}, {"class": HTML("<c2>")}, ["l<", [{"k": "v"}]]),
    (["nested", {"id": "in-list"}],),
    (MyDict(id="m&"), "kid>"),
    (od, dd, tad, "kid"),
    (proxy, "kid"),
    ({"a": None, "b": False, "c": True, "d": 1.5, "e": 0}, 1.5, True, False),
    ({"style": "a:b;"}, {"style": "c:d;"}, "&amp;"),
    (TagList("t<", 1), span("s&"), HTML("<raw>"), Tagi("tg<")),
    ("only", "strings", "<here>"),
    ({"x": Unstr()}, "kid"),
    ({"x": "1"}, b"bad-kid"),
    ({"x": Unstr()}, b"bad-kid"),
    (b"bad-kid", {"x": Unstr()}),
    ({1: "intkey"}, "kid"),
    ({"class_": "kwlike", "for_": "f", "dataFoo": "d"}, "kid"),
    (HTMLDependency("dep", "1.0"), {"id": "withdep"}, "text<"),
]

KWSETS = [
    {},
    {"class_": "kw<", "id": "kid"},
    {"title": HTML("<h>"), "hidden": True, "n": 3, "none": None, "f": False},
]

for i, args in enumerate(ARGSETS):
    for j, kw in enumerate(KWSETS):
        lab = f"args#{i} kw#{j}"
        show(f"Tag {lab}", lambda: str(Tag("div", *args, **kw)))
        show(f"Tag attrs {lab}", lambda: dict(Tag("div", *args, **kw).attrs))
        show(f"Tag kids {lab}", lambda: [(type(c).__name__, str(c)) for c in Tag("div", *args, **kw).children])
        show(f"script {lab}", lambda: str(Tag("script", *args, **kw)))
        show(f"tags.p {lab}", lambda: str(tags.p(*args, **kw)))
        show(f"consolidate {lab}", lambda: consolidate_attrs(*args, **kw))

        def types_():
            a, c = consolidate_attrs(*args, **kw)
            return (type(a).__name__, type(c).__name__, [type(x).__name__ for x in c])

        show(f"consolidate types {lab}", types_)

# identity / freshness of consolidate_attrs children
kid_list = ["x<", 1]
kid_tag = span("s")
d1 = {"id": "a"}
args = (kid_list, d1, kid_tag, None, "s")
attrs, children = consolidate_attrs(*args)
print("children identity:", children[0] is kid_list, children[1] is kid_tag, children[2] is None, children[3] == "s", len(children))
print("attrs is new dict:", attrs is not d1, type(attrs) is dict, attrs)
children.append("mutate")
attrs2, children2 = consolidate_attrs(*args)
print("fresh each call:", len(children2), children2 is not children)
print("inputs untouched:", kid_list, d1, len(args))

# constructor state after failure and instance attributes
t = Tag("div", {"id": "i"}, "k<")
print("instance dict keys:", sorted(t.__dict__.keys()))
print("types:", type(t.attrs).__name__, type(t.children).__name__, t.name, t.add_ws, t.prev_displayhook)
show("_add_ws non-bool", lambda: Tag("div", "k", _add_ws="yes"))
show("_add_ws non-bool + bad kid", lambda: Tag("div", b"k", _add_ws=None))
show("_add_ws False", lambda: str(Tag("div", "a<", span("b"), {"id": "q"}, _add_ws=False)))
show("no name", lambda: Tag())
show("dict name", lambda: str(Tag({"id": "x"}, "kid")))

# attrs given as a dict are not children, children text stays inert
show("dict-looking text", lambda: str(div("{'id': '<x>'}", {"id": "<x>"})))
show("copy + append", lambda: (lambda a: (a.append({"not": "attrs"}), str(a))[1])(div("a<")))
show("append dict", lambda: div("a").append({"id": "x"}))
show("TagList dict", lambda: TagList({"id": "x"}))
show("extend dict", lambda: div("a").extend([{"id": "x"}]))

# with-block display hook feeds append
import sys

saved = sys.displayhook
try:
    with div({"id": "ctx"}, "start<") as _:
        sys.displayhook("typed & shown")
        sys.displayhook(5)
        sys.displayhook(None)
        sys.displayhook(span("in>"))
        sys.displayhook(HTML("<raw>"))
except BaseException as e:  # noqa
    print("ctx !!", type(e).__name__)
finally:
    sys.displayhook = saved
