# Probe for refactoring 1: HTMLDependency constructor normalisation/validation of
# script / stylesheet / meta.
from collections import OrderedDict

from htmltools import HTMLDependency, TagList, div


def show(label, fn):
    try:
        r = fn()
        print(label, "->", r)
    except BaseException as e:  # noqa
        print(label, "-> EXC", type(e).__name__, str(e))


def fields(d):
    return (
        d.name,
        str(d.version),
        d.source,
        type(d.script).__name__,
        d.script if not hasattr(d.script, "gi_frame") else list(d.script),
        type(d.stylesheet).__name__,
        d.stylesheet,
        type(d.meta).__name__,
        d.meta,
        d.all_files,
        None if d.head is None else d.head.get_html_string(),
    )


def mk(**kw):
    return fields(HTMLDependency("n", "1.2", **kw))


cases = {
    "none": dict(),
    "script-dict": dict(script={"src": "a.js"}),
    "script-list": dict(script=[{"src": "a.js"}]),
    "script-list2": dict(script=[{"src": "a.js"}, {"src": "b.js", "defer": ""}]),
    "script-empty-list": dict(script=[]),
    "script-tuple": dict(script=({"src": "a.js"},)),
    "script-ordered": dict(script=OrderedDict(src="a.js")),
    "script-missing": dict(script={"href": "a.js"}),
    "script-list-missing-2nd": dict(script=[{"src": "a"}, {"x": 1}]),
    "script-str": dict(script="a.js"),
    "script-empty-str": dict(script=""),
    "script-int": dict(script=5),
    "script-list-of-str": dict(script=["a.js"]),
    "script-list-none": dict(script=[None]),
    "script-empty-dict": dict(script={}),
    "script-false": dict(script=False),
    "script-zero": dict(script=0),
    "style-dict": dict(stylesheet={"href": "a.css"}),
    "style-list": dict(stylesheet=[{"href": "a.css"}]),
    "style-rel": dict(stylesheet=[{"href": "a.css", "rel": "preload"}, {"href": "b.css"}]),
    "style-missing": dict(stylesheet={"src": "a.css"}),
    "style-str": dict(stylesheet="a.css"),
    "style-tuple": dict(stylesheet=({"href": "a.css"},)),
    "style-set": dict(stylesheet={1}),
    "meta-dict": dict(meta={"name": "a", "content": "b"}),
    "meta-list": dict(meta=[{"name": "a", "content": "b"}]),
    "meta-noname": dict(meta={"content": "b"}),
    "meta-nocontent": dict(meta={"name": "b"}),
    "meta-neither": dict(meta={}),
    "meta-list-bad": dict(meta=[{"name": "a", "content": "b"}, 3]),
    "meta-str": dict(meta="x"),
    "all": dict(
        script={"src": "a.js"},
        stylesheet={"href": "a.css"},
        meta={"name": "a", "content": "b"},
        source={"subdir": "x"},
        all_files=True,
        head="<title>t</title>",
    ),
    "order-script-then-style": dict(script={"x": 1}, stylesheet={"y": 1}),
    "order-style-then-meta": dict(stylesheet={"y": 1}, meta={"z": 1}),
    "order-source-first": dict(source=3, script={"x": 1}),
    "order-script-meta": dict(script=3, meta=4),
}
for k, kw in cases.items():
    show(k, lambda: mk(**kw))

# single item vs list: identical results
a = HTMLDependency("n", "1", script={"src": "a"}, stylesheet={"href": "b"}, meta={"name": "c", "content": "d"})
b = HTMLDependency("n", "1", script=[{"src": "a"}], stylesheet=[{"href": "b"}], meta=[{"name": "c", "content": "d"}])
print("single==list", a == b, fields(a) == fields(b), str(a) == str(b))
print(a.as_dict())
print(str(a))

# identity of the stored containers
lst = [{"src": "a"}]
d = HTMLDependency("n", "1", script=lst)
print("same list object", d.script is lst)
one = {"href": "a"}
d = HTMLDependency("n", "1", stylesheet=one)
print("same item object", d.stylesheet[0] is one, one)
tup = ({"name": "a", "content": "b"},)
d = HTMLDependency("n", "1", meta=tup)
print("same tuple", d.meta is tup)

# generator argument: consumed by validation
gen = ({"src": s} for s in "ab")
d = HTMLDependency("n", "1", script=gen)
print("gen", d.script is gen, list(d.script))


# partially-initialised object when validation fails
class Sub(HTMLDependency):
    pass


for kw in (dict(script={"x": 1}), dict(script={"src": "a"}, stylesheet=4), dict(stylesheet={"href": "h"}, meta=[1])):
    obj = Sub.__new__(Sub)
    try:
        obj.__init__("n", "1", **kw)
    except Exception as e:
        print("partial", type(e).__name__, e, sorted(obj.__dict__.items(), key=lambda kv: kv[0]))


# Subclass overriding the validation hooks
class Loud(HTMLDependency):
    def _validate_dicts(self, ld, req_attr):
        print("  _validate_dicts", ld, req_attr)
        super()._validate_dicts(ld, req_attr)

    def _validate_dict(self, d, req_attr):
        print("  _validate_dict", d, req_attr)
        super()._validate_dict(d, req_attr)


show("loud", lambda: fields(Loud("n", "1", script={"src": "a"}, stylesheet=[{"href": "b"}, {"href": "c"}], meta={"name": "x", "content": "y"})))
show("loud-bad", lambda: fields(Loud("n", "1", script={"src": "a"}, stylesheet=[{"href": "b"}, {"hr": "c"}], meta={"name": "x", "content": "y"})))

# direct use of the validators
d = HTMLDependency("n", "1")
show("vd1", lambda: d._validate_dict({"a": 1}, ["a"]))
show("vd2", lambda: d._validate_dict({"a": 1}, ["a", "b"]))
show("vd3", lambda: d._validate_dict([], ["a"]))
show("vds", lambda: d._validate_dicts([{"a": 1}, {"b": 1}], ["a"]))
show("vds-empty", lambda: d._validate_dicts([], ["a"]))

# in a tree
x = div(a, TagList(b, div(HTMLDependency("n", "2", script={"src": "z"}))))
print(x.get_dependencies(), x.get_dependencies(dedup=False))
