"""Probe for refactoring 3: Tag.add_class() / Tag.add_style() (shared combine helper)."""
from htmltools import HTML, css, div, span, tags


def state(t):
    return (str(t), [(k, type(v).__name__, str(v)) for k, v in t.attrs.items()])


def show(label, fn):
    try:
        out = fn()
        print(label, "->", repr(out))
    except Exception as e:  # noqa: BLE001
        print(label, "-> EXC", type(e).__name__, str(e))


def add_class_case(initial, cls, prepend):
    t = div(**initial)
    r = t.add_class(cls, prepend=prepend)
    return (r is t, state(t), [t.has_class(c) for c in ("a", "b", "x", str(cls))])


def add_style_case(initial, style, prepend):
    t = div(**initial)
    before = state(t)
    try:
        r = t.add_style(style, prepend=prepend)
    except Exception as e:  # noqa: BLE001
        return ("EXC", type(e).__name__, str(e), state(t) == before, state(t))
    return (r is t, state(t))


initials = [
    {},
    {"class_": "a"},
    {"class_": "a b"},
    {"class_": ""},
    {"class_": "  a   b "},
    {"class_": HTML("<a> b")},
    {"id": "i", "class_": "a", "title": "t"},
    {"style": "s:1;"},
    {"style": ""},
    {"style": HTML("s:'1';")},
    {"id": "i", "style": "s:1;", "class_": "a"},
]
classes = ["x", "a", "", "x y", "<x>", HTML("<x>"), "é", None, True, False, 3, 2.5]
styles = ["x:1;", "x:1", "", ";", "x:'1';", HTML("x:'1';"), HTML("x:1"), HTML(""), "a:1; b:2;",
          None, True, False, 3, 2.5, css(color="red", fontSize="1px"), css(), ["x:1;"], b"x:1;"]

for init in initials:
    for c in classes:
        for p in (False, True):
            show("add_class %r %r prepend=%r" % (init, c, p), lambda: add_class_case(init, c, p))
    for s in styles:
        for p in (False, True):
            show("add_style %r %r prepend=%r" % (init, s, p), lambda: add_style_case(init, s, p))


# positional prepend is not allowed (keyword-only)
show("add_class positional prepend", lambda: div().add_class("a", True))
show("add_style positional prepend", lambda: div().add_style("a:1;", True))

# chaining and other tag kinds
show("chain", lambda: state(
    span("txt", class_="m").add_class("z").add_class("a", prepend=True).add_style("b:2;").add_style("a:1;", prepend=True)
))
show("key order kept", lambda: state(tags.a(href="h", class_="c", style="s:1;", id="i").add_class("d").add_style("t:2;", prepend=True)))
show("new key appended", lambda: state(tags.a(href="h").add_style("t:2;").add_class("d")))


# attrs replaced by a plain dict by the user
def plain_dict_attrs(which):
    t = div()
    t.attrs = {"class": "a", "style": "s:1;"}
    if which == "class":
        return t.add_class("b")
    return t.add_style("b:1;")


show("plain dict attrs add_class", lambda: plain_dict_attrs("class"))
show("plain dict attrs add_style", lambda: plain_dict_attrs("style"))
