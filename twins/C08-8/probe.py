"""Probe for refactoring 3: HTMLDependency.as_html_tags / as_dict (and users of them)."""
import copy
import json

import htmltools
from htmltools import HTML, HTMLDependency, HTMLDocument, Tag, TagList, div, span, tags, head_content


def show(label, fn):
    try:
        res = fn()
        print(label, "=>", repr(res))
    except Exception as e:  # noqa: BLE001
        print(label, "=> EXC", type(e).__name__, str(e))


def state(d):
    """Everything reachable from a dependency, without going through as_dict."""
    return repr(
        (
            d.name,
            str(d.version),
            d.source,
            d.script,
            d.stylesheet,
            d.meta,
            d.all_files,
            None if d.head is None else [(type(c).__name__, str(c)) for c in d.head],
        )
    )


deps = {
    "bare": HTMLDependency("bare", "1.0"),
    "href": HTMLDependency("h", "2.1.3", source={"href": "https://cdn.x/y"}, script={"src": "a.js"}),
    "subdir": HTMLDependency("s", "0.1", source={"subdir": "libdir"}, script={"src": "a b.js"}),
    "multi": HTMLDependency(
        "m",
        "3",
        source={"subdir": "m"},
        script=[{"src": "one.js"}, {"src": "two.js", "defer": True, "type": "module"}],
        stylesheet=[{"href": "one.css"}, {"href": "t wo.css", "media": "print", "rel": "preload"}],
        meta=[{"name": "viewport", "content": "w=1"}, {"name": "x", "content": "<&\">"}],
        head=tags.title("T<itle"),
    ),
    "onlymeta": HTMLDependency("om", "1", meta={"name": "n", "content": "c"}),
    "onlycss": HTMLDependency("oc", "1", source={"subdir": "c"}, stylesheet={"href": "c.css"}),
    "headstr": HTMLDependency("hs", "1", head="<script>1<2</script>"),
    "headhtml": HTMLDependency("hh", "1", head=HTML("<b>x</b>")),
    "headlist": HTMLDependency("hl", "1", head=TagList(tags.meta(name="a"), "txt", span("s"))),
    "headempty": HTMLDependency("he", "1", head=TagList()),
    "headnested": HTMLDependency("hn", "1", head=[tags.link(href="x"), [tags.style("a>b")]]),
    "headdep": HTMLDependency("hd", "1", head=div(HTMLDependency("inner", "9", source={"subdir": "i"}))),
    "extra_attr_keys": HTMLDependency(
        "ek", "1", source={"subdir": "e"},
        script={"src": "s.js", "class_": "k", "data_x": "1", "async": False, "crossorigin": None},
        meta={"name": "n", "content": "c", "id": 5},
    ),
    "headcontent": head_content(tags.title("hc"), "raw & text"),
}

for name, d in deps.items():
    print("=== dep", name)
    s0 = state(d)
    for kw in ({}, {"lib_prefix": None}, {"lib_prefix": "my/lib", "include_version": False}, {"lib_prefix": ""}):
        show(f"as_dict{kw}", lambda: {k: v for k, v in d.as_dict(**kw).items()})
        show(f"as_html_tags{kw}", lambda: d.as_html_tags(**kw))
        show(f"as_html_tags types{kw}", lambda: [(type(c).__name__, getattr(c, "name", None), getattr(c, "add_ws", None)) for c in d.as_html_tags(**kw)])
    show("str", lambda: str(d))
    show("repr", lambda: repr(d))
    show("serialize", lambda: d.serialize_to_script_json().get_html_string())
    show("as_html_tags twice eq", lambda: d.as_html_tags() == d.as_html_tags())
    show("as_dict twice eq", lambda: d.as_dict() == d.as_dict())
    show("as_dict key order", lambda: list(d.as_dict()))
    print("state unchanged:", state(d) == s0)
    # result independence: mutate results, then re-run
    r = d.as_dict()
    for s in r["script"]:
        s["src"] = "MUT"
    for s in r["stylesheet"]:
        s["href"] = "MUT"
    tl = d.as_html_tags()
    for c in tl:
        if isinstance(c, Tag):
            c.attrs["mut"] = "1"
            c.append("mut")
    tl.append("more")
    print("state unchanged after mutating results:", state(d) == s0)
    show("as_html_tags again", lambda: d.as_html_tags())
    show("head shared with result?", lambda: None if d.head is None else [a is b for a, b in zip(d.head, d.as_html_tags()[-len(d.head):])] if len(d.head) else [])
    show("meta shared", lambda: d.as_dict()["meta"] is d.meta)

print("=== in documents")
page = div("body", deps["multi"], span(deps["href"]), deps["headstr"], deps["headcontent"], deps["headdep"])
show("doc", lambda: HTMLDocument(page).render()["html"])
show("doc noversion", lambda: HTMLDocument(page).render(lib_prefix=None, include_version=False)["html"])
show("doc deps", lambda: HTMLDocument(page).render()["dependencies"])
show("page render", lambda: page.render())
show("doc twice", lambda: HTMLDocument(page).render() == HTMLDocument(page).render())

htmltools.html_dependency_render_mode = "json"
show("json mode str", lambda: str(page))
htmltools.html_dependency_render_mode = "files"

print("=== error paths / odd inputs")
bad_head = HTMLDependency("bh", "1")
bad_head.head = TagList()
bad_head.head.data.append(object())  # non-renderable
show("as_dict bad head", lambda: bad_head.as_dict())


class T:
    def tagify(self):
        return div("t")


untag = HTMLDependency("ut", "1", head=T())
show("as_dict untagified head", lambda: untag.as_dict())
show("as_html_tags untagified head", lambda: untag.as_html_tags())

badq = HTMLDependency("bq", "1", source={"subdir": "q"}, script={"src": 5}, head=T())
show("as_dict non-str src + untagified head", lambda: badq.as_dict())
badm = HTMLDependency("bm", "1", meta={"name": "n", "content": "c", "_name": "clash"})
show("meta key clashing with _name", lambda: badm.as_html_tags())
badm2 = HTMLDependency("bm2", "1", meta={"name": "n", "content": "c", "_add_ws": "notbool"},
                       source={"subdir": "q"}, script={"src": "ok.js"})
show("meta bad _add_ws", lambda: badm2.as_html_tags())
badm3 = HTMLDependency("bm3", "1", meta={"name": "n", "content": object()})
show("meta bad attr value", lambda: badm3.as_html_tags())
okws = HTMLDependency("ws", "1", meta={"name": "n", "content": "c", "_add_ws": False})
show("meta _add_ws False", lambda: [(c.name, c.add_ws) for c in okws.as_html_tags()])
kwnames = HTMLDependency("kw", "1", meta={"name": "n", "content": "c", "tag_name": "a", "field": "b", "item": "c", "m": "d", "s": "e"})
show("meta attr names like locals", lambda: kwnames.as_html_tags())


class OddDep(HTMLDependency):
    def as_dict(self, **kw):
        d = super().as_dict(**kw)
        del d["stylesheet"]
        return d


show("subclass as_dict missing key", lambda: OddDep("o", "1", meta={"name": "n", "content": "c"}).as_html_tags())


class LogDict(dict):
    def __getitem__(self, k):
        print("  getitem", k)
        return super().__getitem__(k)


class LogDep(HTMLDependency):
    def as_dict(self, **kw):
        return LogDict(super().as_dict(**kw))


show("access order", lambda: LogDep("l", "1", source={"subdir": "x"}, meta={"name": "n", "content": "c"}, script={"src": "s.js"}, stylesheet={"href": "h.css"}).as_html_tags())

c = copy.copy(deps["multi"])
show("copy eq", lambda: (c == deps["multi"], c.as_html_tags() == deps["multi"].as_html_tags()))
show("json roundtrip of as_dict", lambda: json.dumps(deps["multi"].as_dict(), sort_keys=True))
