"""Probe for property C10: dependency validation + resolution.

Prints deterministic reprs / exception types; must be byte-identical on the
unmodified tree and on the patched tree.
"""
import inspect

from htmltools import HTMLDependency, HTMLDocument, Tag, TagList, div, span, head_content
from htmltools import _core
from htmltools._core import _resolve_dependencies


def show(label, fn):
    try:
        res = fn()
    except BaseException as e:  # noqa: BLE001
        print(f"{label}: EXC {type(e).__name__}: {e}")
    else:
        print(f"{label}: {res!r}")


def dep(name, version, **kw):
    return HTMLDependency(name, version, **kw)


def ids(deps, pool):
    """Identity of each returned dep as index into pool (or -1)."""
    out = []
    for d in deps:
        idx = -1
        for i, p in enumerate(pool):
            if p is d:
                idx = i
                break
        out.append((idx, d.name, str(d.version)))
    return out


# ---------------------------------------------------------------- resolution
print("== resolve ==")
pool = [
    dep("a", "1.0"),      # 0
    dep("b", "2.0"),      # 1
    dep("a", "1.10"),     # 2  (numeric > 1.9)
    dep("a", "1.9"),      # 3
    dep("c", "0.1"),      # 4
    dep("b", "2.0"),      # 5  tie with 1 -> earliest wins
    dep("a", "1.10.0"),   # 6  equal to 1.10 -> earliest (2) wins
    dep("c", "0.0.9"),    # 7
    dep("d", "10"),       # 8
    dep("d", "9"),        # 9
]
show("empty", lambda: _resolve_dependencies([]))
show("empty-is-list", lambda: type(_resolve_dependencies([])).__name__)
for n in range(1, len(pool) + 1):
    show(f"prefix{n}", lambda n=n: ids(_resolve_dependencies(pool[:n]), pool))
show("reversed", lambda: ids(_resolve_dependencies(pool[::-1]), pool))
show("same-obj-twice", lambda: ids(_resolve_dependencies([pool[0], pool[0]]), pool))
r1 = _resolve_dependencies(list(pool))
show("idempotent", lambda: ids(_resolve_dependencies(r1), pool) == ids(r1, pool))
inp = list(pool)
out = _resolve_dependencies(inp)
show("input-untouched", lambda: (ids(inp, pool) == ids(pool, pool), out is inp))
one = [pool[0]]
show("single-new-list", lambda: (_resolve_dependencies(one) is one, _resolve_dependencies(one) == one))
emp = []
show("empty-new-list", lambda: _resolve_dependencies(emp) is emp)
show("tuple-input", lambda: ids(_resolve_dependencies(tuple(pool[:4])), pool))
show("gen-input", lambda: ids(_resolve_dependencies(iter(pool[:4])), pool))
show("none-input", lambda: _resolve_dependencies(None))
show("bad-elem", lambda: _resolve_dependencies([pool[0], None]))
show("bad-elem-str", lambda: _resolve_dependencies(["x"]))

# incomparable / odd versions
class V:
    def __init__(self, n, log):
        self.n = n
        self.log = log

    def __gt__(self, other):
        self.log.append((self.n, getattr(other, "n", other)))
        return self.n > other.n

    def __repr__(self):
        return f"V({self.n})"


log = []
odd = [dep("x", V(1, log)), dep("x", V(3, log)), dep("x", V(2, log)), dep("y", V(0, log))]
show("custom-version", lambda: [(d.name, d.version) for d in _resolve_dependencies(odd)])
show("custom-version-log", lambda: log)
mixed = [dep("m", "1.0"), dep("m", V(5, []))]
show("mixed-version", lambda: [(d.name, d.version) for d in _resolve_dependencies(mixed)])
mixed2 = [dep("m", V(5, [])), dep("m", "1.0")]
show("mixed-version2", lambda: [(d.name, d.version) for d in _resolve_dependencies(mixed2)])
unh = [dep(["l"], "1.0")]
show("unhashable-name", lambda: _resolve_dependencies(unh))
show("name-none", lambda: [(d.name, str(d.version)) for d in _resolve_dependencies([dep(None, "1"), dep(None, "2")])])
show("name-int-vs-float", lambda: [(d.name, str(d.version)) for d in _resolve_dependencies([dep(1, "1"), dep(1.0, "2"), dep(True, "3")])])

# ---------------------------------------------------------------- collection
print("== collect ==")
A1, A2, B1, C1, B2 = dep("a", "1"), dep("a", "2"), dep("b", "1"), dep("c", "1"), dep("b", "1")
cpool = [A1, A2, B1, C1, B2]
tree = div(
    A1,
    span("t", B1, span(A2, "u", TagList(C1, [B2, A1]))),
    [C1],
    "text",
    None,
    TagList(),
)
show("tag-dedup", lambda: ids(tree.get_dependencies(), cpool))
show("tag-nodedup", lambda: ids(tree.get_dependencies(dedup=False), cpool))
show("tag-positional", lambda: ids(tree.get_dependencies(False), cpool))
show("tag-positional-true", lambda: ids(tree.get_dependencies(True), cpool))
show("children-dedup", lambda: ids(tree.children.get_dependencies(), cpool))
show("children-nodedup", lambda: ids(tree.children.get_dependencies(dedup=False), cpool))
show("taglist-positional", lambda: tree.children.get_dependencies(False))
tl = TagList(B1, tree, A2, "x", div(), div(div(div(C1))))
show("tl-dedup", lambda: ids(tl.get_dependencies(), cpool))
show("tl-nodedup", lambda: ids(tl.get_dependencies(dedup=False), cpool))
show("tl-dedup-falsy", lambda: ids(tl.get_dependencies(dedup=0), cpool))
show("tl-dedup-truthy", lambda: ids(tl.get_dependencies(dedup="yes"), cpool))
show("tl-dedup-none", lambda: ids(tl.get_dependencies(dedup=None), cpool))
show("empty-tl", lambda: TagList().get_dependencies())
show("empty-tl-nodedup", lambda: TagList().get_dependencies(dedup=False))
show("empty-tag", lambda: div().get_dependencies())
show("text-only", lambda: div("a", "b").get_dependencies())
show("ret-type", lambda: (type(tl.get_dependencies()).__name__, type(tl.get_dependencies(dedup=False)).__name__))
show("fresh-list", lambda: tl.get_dependencies(dedup=False) is not tl.get_dependencies(dedup=False))
show("idempotent-tree", lambda: ids(_resolve_dependencies(tl.get_dependencies()), cpool) == ids(tl.get_dependencies(), cpool))
# position independence
t1 = div(A1, div(A2), B1)
t2 = div(div(div(A1)), A2, span(B1))
show("position-indep", lambda: ids(t1.get_dependencies(), cpool) == ids(t2.get_dependencies(), cpool))


# Tag subclass overriding get_dependencies must be honoured when nested
class MyTag(Tag):
    calls = []

    def get_dependencies(self, dedup=True):
        MyTag.calls.append(dedup)
        return [C1, C1] + super().get_dependencies(dedup=dedup)


mt = MyTag("div", A1)
outer = TagList(div(mt, B1), mt)
show("override-dedup", lambda: ids(outer.get_dependencies(), cpool))
show("override-nodedup", lambda: ids(outer.get_dependencies(dedup=False), cpool))
show("override-calls", lambda: MyTag.calls)

# raw data list manipulation (bypassing normalisation)
raw = TagList()
raw.data = [A1, "s", 5, None, [A2], div(B1)]
show("raw-data", lambda: ids(raw.get_dependencies(dedup=False), cpool))

# render paths
show("render-tag", lambda: ids(tree.render()["dependencies"], cpool))
show("render-tl", lambda: ids(tl.render()["dependencies"], cpool))
show("doc-render", lambda: HTMLDocument(div(A1, A2, B1, head_content("<x/>"))).render()["html"])
show("doc-deps", lambda: [(d.name, str(d.version)) for d in HTMLDocument(tl).render()["dependencies"]])

# ---------------------------------------------------------------- constructor
print("== construct ==")


def fields(d):
    return (d.name, str(d.version), d.source, d.script, d.stylesheet, d.meta, d.all_files, d.head)


show("minimal", lambda: fields(dep("n", "1.2.3")))
show("single-items", lambda: fields(dep("n", "1", source={"subdir": "s"}, script={"src": "a.js"},
                                        stylesheet={"href": "a.css"}, meta={"name": "k", "content": "v"})))
show("list-items", lambda: fields(dep("n", "1", source={"subdir": "s"}, script=[{"src": "a.js"}],
                                      stylesheet=[{"href": "a.css"}], meta=[{"name": "k", "content": "v"}])))
show("single==list", lambda: fields(dep("n", "1", script={"src": "a.js"}, stylesheet={"href": "a.css"},
                                        meta={"name": "k", "content": "v"}))
     == fields(dep("n", "1", script=[{"src": "a.js"}], stylesheet=[{"href": "a.css"}],
                   meta=[{"name": "k", "content": "v"}])))
show("multi", lambda: fields(dep("n", "1", script=[{"src": "a.js"}, {"src": "b.js", "defer": ""}],
                                 stylesheet=[{"href": "a.css", "rel": "preload"}, {"href": "b.css"}],
                                 meta=[{"name": "k", "content": "v"}, {"name": "k2", "content": "v2", "x": "y"}])))
show("empty-lists", lambda: fields(dep("n", "1", script=[], stylesheet=[], meta=[])))
show("tuple-items", lambda: fields(dep("n", "1", script=({"src": "a.js"},), stylesheet=({"href": "h"},))))
show("empty-dict-script", lambda: fields(dep("n", "1", script={})))
show("empty-dict-stylesheet", lambda: fields(dep("n", "1", stylesheet={})))
show("empty-dict-meta", lambda: fields(dep("n", "1", meta={})))

# identity / mutation of caller-supplied objects
sc = [{"src": "a.js"}]
st = [{"href": "a.css"}]
me = [{"name": "k", "content": "v"}]
d_id = dep("n", "1", script=sc, stylesheet=st, meta=me)
show("list-identity", lambda: (d_id.script is sc, d_id.stylesheet is st, d_id.meta is me))
show("rel-mutated", lambda: st)
sd = {"href": "z.css"}
d_sd = dep("n", "1", stylesheet=sd)
show("single-identity", lambda: (d_sd.stylesheet[0] is sd, sd))
src = {"href": "http://x"}
show("source-identity", lambda: dep("n", "1", source=src).source is src)

# generators as items
g = ({"src": s} for s in ["a", "b"])
dg = dep("n", "1", script=g)
show("gen-script", lambda: (dg.script is g, list(dg.script)))
gs = ({"href": s} for s in ["a", "b"])
dgs = dep("n", "1", stylesheet=gs)
show("gen-stylesheet", lambda: (dgs.stylesheet is gs, list(dgs.stylesheet)))


# dict subclasses
class D(dict):
    pass


show("dict-subclass-item", lambda: fields(dep("n", "1", script=D(src="q.js"))))
show("dict-subclass-source", lambda: fields(dep("n", "1", source=D(href="u"))))

# source validation
show("src-none", lambda: dep("n", "1", source=None).source)
show("src-href", lambda: dep("n", "1", source={"href": "u"}).source)
show("src-subdir", lambda: dep("n", "1", source={"subdir": "d"}).source)
show("src-both", lambda: dep("n", "1", source={"href": "u", "subdir": "d", "package": "p"}).source)
show("src-pkg-only", lambda: dep("n", "1", source={"package": "p"}))
show("src-empty", lambda: dep("n", "1", source={}))
show("src-str", lambda: dep("n", "1", source="lib/"))
show("src-list", lambda: dep("n", "1", source=["href"]))
show("src-tuple", lambda: dep("n", "1", source=("href", "subdir")))
show("src-int", lambda: dep("n", "1", source=0))
show("src-false", lambda: dep("n", "1", source=False))
show("src-emptystr", lambda: dep("n", "1", source=""))


class Contains(dict):
    log = []

    def __contains__(self, k):
        Contains.log.append(k)
        return dict.__contains__(self, k)


show("src-contains-a", lambda: dep("n", "1", source=Contains(href="u")).source)
show("src-contains-b", lambda: dep("n", "1", source=Contains(subdir="u")).source)
show("src-contains-c", lambda: dep("n", "1", source=Contains(pkg="u")))
show("src-contains-log", lambda: Contains.log)

# item validation
show("script-str", lambda: dep("n", "1", script="a.js"))
show("script-list-str", lambda: dep("n", "1", script=["a.js"]))
show("script-missing", lambda: dep("n", "1", script={"href": "a.js"}))
show("script-2nd-bad", lambda: dep("n", "1", script=[{"src": "a"}, {"x": 1}]))
show("script-2nd-nondict", lambda: dep("n", "1", script=[{"src": "a"}, 7]))
show("script-int", lambda: dep("n", "1", script=7))
show("script-none-item", lambda: dep("n", "1", script=[None]))
show("style-str", lambda: dep("n", "1", stylesheet="a.css"))
show("style-missing", lambda: dep("n", "1", stylesheet={"src": "a.css"}))
show("style-list-missing", lambda: dep("n", "1", stylesheet=[{"href": "a"}, {"rel": "x"}]))
show("style-nondict", lambda: dep("n", "1", stylesheet=[("href", "a")]))
show("meta-missing-name", lambda: dep("n", "1", meta={"content": "v"}))
show("meta-missing-content", lambda: dep("n", "1", meta={"name": "k"}))
show("meta-missing-both", lambda: dep("n", "1", meta={"x": "k"}))
show("meta-str", lambda: dep("n", "1", meta="k"))
show("meta-list-bad", lambda: dep("n", "1", meta=[{"name": "k", "content": "v"}, {"name": "k"}]))
show("meta-nondict", lambda: dep("n", "1", meta=[3.5]))
# order of checks: source first, then script, stylesheet, meta
show("order-src-script", lambda: dep("n", "1", source={}, script="x"))
show("order-script-style", lambda: dep("n", "1", script={"x": 1}, stylesheet="x"))
show("order-style-meta", lambda: dep("n", "1", stylesheet={"x": 1}, meta="x"))
show("order-version-first", lambda: dep("n", "not a version", source={}))

# partially constructed object state when a later check fails
obj = HTMLDependency.__new__(HTMLDependency)
try:
    obj.__init__("p", "1", script={"src": "ok"}, stylesheet={"nohref": 1}, meta="bad")
except Exception as e:  # noqa: BLE001
    print("partial:", type(e).__name__, sorted(vars(obj)))
obj = HTMLDependency.__new__(HTMLDependency)
try:
    obj.__init__("p", "1", source={"href": "h"}, script=5)
except Exception as e:  # noqa: BLE001
    print("partial2:", type(e).__name__, sorted(vars(obj)))
obj = HTMLDependency.__new__(HTMLDependency)
try:
    obj.__init__("p", "1", source={"x": "h"})
except Exception as e:  # noqa: BLE001
    print("partial3:", type(e).__name__, sorted(vars(obj)))
obj = HTMLDependency.__new__(HTMLDependency)
try:
    obj.__init__("p", "1", meta={"name": 1})
except Exception as e:  # noqa: BLE001
    print("partial4:", type(e).__name__, sorted(vars(obj)))

# Version handling
from packaging.version import Version
show("version-obj", lambda: fields(dep("n", Version("3.4"))))
show("version-bad", lambda: dep("n", "abc"))
show("version-int", lambda: fields(dep("n", 3)))

# head
show("head-str", lambda: fields(dep("n", "1", head="<b/>")))
show("head-tag", lambda: fields(dep("n", "1", head=div("x"))))
show("head-content", lambda: fields(head_content(div("x"), "y")))

# rendering of validated deps end-to-end
full = dep("lib", "1.2", source={"href": "https://cdn/x"}, script={"src": "a b.js"},
           stylesheet={"href": "s.css"}, meta={"name": "k", "content": "v"}, head="<i/>")
show("as-html-tags", lambda: str(full.as_html_tags()))
show("as-dict", lambda: full.as_dict())
show("serialize", lambda: str(full.serialize_to_script_json()))
show("repr", lambda: repr(full))
show("eq", lambda: (full == dep("lib", "1.2", source={"href": "https://cdn/x"}, script={"src": "a b.js"},
                                stylesheet={"href": "s.css"}, meta={"name": "k", "content": "v"}, head="<i/>"),
                    full == dep("lib", "1.3")))

# subclass overriding the private validators keeps being consulted
class SubDep(HTMLDependency):
    seen = []

    def _validate_dict(self, d, *args, **kwargs):
        SubDep.seen.append(d)
        return super()._validate_dict(d, *args, **kwargs)


SubDep("s", "1", script=[{"src": "1"}, {"src": "2"}], stylesheet={"href": "3"}, meta={"name": "4", "content": "5"})
show("subclass-validate-order", lambda: SubDep.seen)

# public signatures
for name in ("get_dependencies",):
    show(f"sig-TagList.{name}", lambda: str(inspect.signature(getattr(TagList, name))))
    show(f"sig-Tag.{name}", lambda: str(inspect.signature(getattr(Tag, name))))
show("sig-HTMLDependency", lambda: str(inspect.signature(HTMLDependency.__init__)))
show("sig-resolve", lambda: str(inspect.signature(_resolve_dependencies)))
