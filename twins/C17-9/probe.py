"""Probe for C17 / refactoring 4: flatten()/_flatten_recurse (drops None, expands list/tuple/TagList)
as used when values displayed inside a `with tag:` block are appended to the tag."""
import sys
from collections import UserList, deque, namedtuple

from htmltools import HTML, Tag, TagList, div, span, tags
from htmltools._util import flatten


def show(label, value):
    print(f"{label}: {value}")


class MyList(list):
    pass


class MyTagList(TagList):
    pass


class PlainUserList(UserList):
    pass


Point = namedtuple("Point", "x y")


class Falsy:
    def __bool__(self):
        return False

    def __eq__(self, other):
        return other is None

    __hash__ = None

    def __repr__(self):
        return "Falsy()"


def gen():
    yield 1
    yield None
    yield [2, (None, 3)]
    yield (x for x in "no")


def deep(n, leaf):
    x = [leaf]
    for i in range(n):
        x = [x] if i % 2 else (x, None)
    return x


def r(x):
    out = []
    for i in x:
        if isinstance(i, (Tag, TagList, HTML)):
            out.append(f"{type(i).__name__}({str(i)!r})")
        elif hasattr(i, "__next__"):
            out.append("<generator>")
        else:
            out.append(repr(i))
    return "[" + ", ".join(out) + "]"


cases = [
    ("empty", []),
    ("empty nested", [[], (), [[]], TagList()]),
    ("flat", [1, "a", 2.5]),
    ("only None", [None]),
    ("Nones", [None, [None, (None, [None])], None]),
    ("falsy kept", [0, "", 0.0, False, Falsy(), b"", {}, set()]),
    ("test_util", [1, [2], ["3", [4, None, 5, div(div()), div()]]]),
    ("tuple top", (1, (2, [3, None]))),
    ("TagList top", TagList("a", TagList("b", None, 1))),
    ("TagList inside", ["x", TagList("a", ["b"]), "y"]),
    ("MyList", [MyList([1, None, MyList([2])])]),
    ("MyTagList", [MyTagList("m", 1)]),
    ("namedtuple", [Point(1, [2, None])]),
    ("UserList not expanded", [PlainUserList([1, 2])]),
    ("deque not expanded", [deque([1])]),
    ("set/dict/range not expanded", [{1}, {"a": 1}, range(2)]),
    ("str not expanded", ["abc", ("de", ["f"])]),
    ("HTML not expanded", [HTML("<b>"), [HTML("<i>")]]),
    ("Tag not expanded", [div("a", "b"), [span("c")]]),
    ("generator top", gen()),
    ("range top", range(3)),
    ("str top", "abc"),
    ("dict top", {"k": [1]}),
    ("ellipsis", [..., [...]]),
    ("deep 200", deep(200, "leaf")),
    ("deep none", deep(50, None)),
    ("wide", [[i, None, (i,)] for i in range(5)]),
    ("None top", None),
    ("int top", 3),
    ("tag top", div("a")),
]
for label, x in cases:
    try:
        res = flatten(x)
        show(label, (type(res).__name__, r(res)))
    except Exception as e:
        show(label, f"EXC {type(e).__name__}: {e}")

# input is not altered, result is fresh, items keep identity
inner = ["3", [4, None, 5]]
src = [1, [2], inner]
res = flatten(src)
show("src untouched", (src, inner))
d = div()
res = flatten([[d], (d,)])
show("identity", (res[0] is d, res[1] is d, len(res)))
show("fresh", flatten(src) is not flatten(src))

# iterable raising half way
def broken():
    yield "ok"
    raise OverflowError("half way")

try:
    flatten([1, [2], broken()])
    show("broken nested gen", "generator kept as item")
except Exception as e:
    show("broken nested gen", f"EXC {type(e).__name__}")
try:
    flatten(broken())
    show("broken top", "no exc")
except Exception as e:
    show("broken top", f"EXC {type(e).__name__}: {e}")

# through the display hook and the other entry points
top = []
orig = sys.displayhook
sys.displayhook = top.append
try:
    t = div(id="t")
    with t:
        sys.displayhook(["a", None, ("b", [None, 1, [2.5]])])
        sys.displayhook([None])
        sys.displayhook([])
        sys.displayhook(())
        sys.displayhook(TagList(None, "c", TagList("d")))
        sys.displayhook(MyList(["e", MyList([None])]))
        sys.displayhook(Point("px", ["py"]))
        sys.displayhook(MyTagList("f"))
        sys.displayhook(Falsy())
        for bad in (PlainUserList(["u"]), deque(["q"]), [1, {2}], [[None, [b"x"]]], ["ok", [Falsy()]]):
            n = len(t.children)
            try:
                sys.displayhook(bad)
                show(f"hook {type(bad).__name__}", "accepted")
            except TypeError as e:
                show(f"hook {type(bad).__name__}", f"TypeError: {e} | unchanged={len(t.children) == n}")
        with tags.ul():
            sys.displayhook([tags.li("1"), None, (tags.li("2"),)])
    show("restored", sys.displayhook == top.append)
    show("children", r(t.children))
    show("top", [str(x) for x in top])
    show("ctor", r(div("a", None, [1, (None, 2)], TagList("z")).children))
    tl = TagList()
    tl.extend([None, [None], ("x", None)])
    tl.insert(0, [None, "first", [None]])
    show("taglist", r(tl))
finally:
    sys.displayhook = orig
