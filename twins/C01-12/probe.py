from htmltools import HTML, HTMLDependency, Tag, TagList, div, span, tags
from htmltools import _core


def show(label, fn):
    try:
        print(label, "->", repr(fn()))
    except BaseException as e:  # noqa
        print(label, "-> EXC", type(e).__name__, str(e))


show("void names", lambda: sorted(_core._VOID_TAG_NAMES))
show("noescape names", lambda: sorted(_core._NO_ESCAPE_TAG_NAMES))
show("void len", lambda: len(_core._VOID_TAG_NAMES))


class SubStr(str):
    pass


class SubHTML(HTML):
    pass


class Repr:
    def _repr_html_(self):
        return "<i>repr & html</i>"


dep = HTMLDependency("d", "1.0")

names = sorted(
    set(
        "area base br col command embed hr img input keygen link meta param source "
        "track wbr div span p a script style SCRIPT Style BR Img my-el x-void title "
        "textarea pre svg html head body".split()
    )
)

TEXT = "a < b && c > \"d\" 'e'\n</script>"


def child_sets():
    return [
        ("none", []),
        ("meta-only", [dep]),
        ("empty-str", [""]),
        ("one-str", [TEXT]),
        ("one-substr", [SubStr(TEXT)]),
        ("one-html", [HTML(TEXT)]),
        ("one-subhtml", [SubHTML("<b>&amp;</b>")]),
        ("one-str+meta", [dep, TEXT, dep]),
        ("one-num", [3.5]),
        ("two-str", [TEXT, "tail"]),
        ("str-tag", ["lead ", span("in"), " trail"]),
        ("tag-only", [span("x<y")]),
        ("block-tags", [div("a"), div()]),
        ("repr", [Repr()]),
        ("repr-str", [Repr(), "x&y"]),
        ("void-child", [tags.br(), tags.img(src="a&b")]),
    ]


for nm in names:
    for label, kids in child_sets():
        for ws in (True, False):
            show(
                f"{nm}|{label}|ws={ws}",
                lambda: Tag(nm, *kids, _add_ws=ws, id="i<>", title="q\"'&\n").get_html_string(),
            )
    show(f"{nm}|indent", lambda: Tag(nm, "t", span("u"), a="1").get_html_string(2, "\r\n"))
    show(f"{nm}|indent-none", lambda: Tag(nm).get_html_string(3, ""))
    show(f"{nm}|str", lambda: str(Tag(nm, "x & y")))
    show(f"{nm}|nested", lambda: str(div(Tag(nm, "x<"), Tag(nm), Tag(nm, Tag(nm, "deep")))))

# script/style with several children (text is written as is); HTML children inside
for nm in ("script", "style", "div"):
    show(f"{nm}|multi", lambda: Tag(nm, "a<b", "c>d").get_html_string())
    show(f"{nm}|multi-html", lambda: Tag(nm, "a<b", HTML("c<d")).get_html_string())
    show(f"{nm}|multi-html-type", lambda: type(Tag(nm, "a<b", HTML("c<d")).get_html_string()).__name__)
    show(f"{nm}|html-first", lambda: Tag(nm, HTML("c<d"), "a<b").get_html_string())
    show(f"{nm}|in-div", lambda: str(div(Tag(nm, "a<b", HTML("c<d")), "after")))

# unusual names / arguments
show("name HTML", lambda: Tag(HTML("br")).get_html_string())
show("name HTML type", lambda: type(Tag(HTML("br")).get_html_string()).__name__)
show("name HTML kids", lambda: Tag(HTML("script"), "a<b").get_html_string())
show("name substr", lambda: Tag(SubStr("hr")).get_html_string())
show("name int", lambda: Tag(3).get_html_string())
show("name none", lambda: Tag(None, "x").get_html_string())
show("name list", lambda: Tag(["br"]).get_html_string())
show("eol none", lambda: div("a", "b").get_html_string(0, None))
show("eol none single", lambda: div("a").get_html_string(0, None))
show("indent str", lambda: div("a").get_html_string("x"))
show("indent neg", lambda: div(div("a"), "b").get_html_string(-2))

# _normalize_text directly
for v in ["", "plain", TEXT, HTML(TEXT), SubHTML("<x>"), SubStr("<y>"), 5, None, b"<b>"]:
    show(f"_normalize_text {v!r}", lambda: _core._normalize_text(v))
    show(f"_normalize_text type {v!r}", lambda: type(_core._normalize_text(v)).__name__)

# TagList path
show("taglist", lambda: TagList("a<b", HTML("<c>"), span("d"), div("e"), 7).get_html_string())
show("taglist noesc", lambda: TagList("a<b", "c&d").get_html_string(_escape_strings=False))
show("taglist render", lambda: TagList(tags.br(), tags.script("1<2"), tags.style("a>b{}")).render()["html"])
