# Probe for refactoring 4: __copy__ of Tag / HTMLDocument / JSXTag via a shared helper
import copy

from htmltools import (
    HTML,
    HTMLDependency,
    HTMLDocument,
    Tag,
    TagList,
    div,
    head_content,
    span,
    tags,
)
from htmltools._jsx import JSXTag, jsx, jsx_tag_create


def show(label, fn):
    try:
        out = fn()
    except Exception as e:  # noqa: BLE001
        print(label, "-> EXC", type(e).__name__, str(e)[:200])
    else:
        print(label, "->", repr(out))


def fields(o):
    return [(k, type(v).__name__) for k, v in o.__dict__.items()]


def sharing(a, b):
    """For each field: is it the same object in both, and are they equal?"""
    return [(k, a.__dict__[k] is b.__dict__[k], a.__dict__[k] == b.__dict__[k]) for k in a.__dict__]


dep = HTMLDependency("d", "1.2", script={"src": "d.js"})
hc = head_content(tags.title("t"))

# ---- Tag
t = div({"class": "a"}, "txt", span("in", dep), hc, HTML("<i>r</i>"), id="x", _add_ws=False)
c = copy.copy(t)
print("tag.type", type(c).__name__, c is not t, c == t)
print("tag.fields", fields(t), fields(c))
print("tag.sharing", sharing(t, c))
print("tag.children_items_shared", [a is b for a, b in zip(t.children, c.children)])
c.append("more")
c.attrs["id"] = "y"
c.name = "section"
c.children[1].append("deep")  # shared child: visible in both
print("tag.after_orig", str(t))
print("tag.after_copy", str(c))
print("tag.add_ws", t.add_ws, c.add_ws)


class MyTag(Tag):
    def __init__(self, *args, **kwargs):
        super().__init__("mytag", *args, **kwargs)
        self.extra = {"k": [1, 2]}
        self.log = ["created"]
        self._private = ("tuple", 1)


m = MyTag("a", span("b"), data_q=True)
mc = copy.copy(m)
print("sub.type", type(mc).__name__, type(mc) is MyTag)
print("sub.fields", fields(m), fields(mc))
print("sub.sharing", sharing(m, mc))
print("sub.inner_shared", m.extra["k"] is mc.extra["k"])
mc.log.append("copied")
print("sub.log", m.log, mc.log)
print("sub.eq", m == mc)


class Slotty(Tag):
    """__new__ with required args: cls.__new__(cls) must fail the same way."""

    def __new__(cls, name, *a, **k):
        return super().__new__(cls)


s = Slotty("p", "x")
show("new_requires_args", lambda: copy.copy(s))
show("new_requires_args_tagify", lambda: s.tagify())


class Uncopyable:
    def __copy__(self):
        raise ValueError("no copies")


u = div("x")
u.payload = Uncopyable()
show("field_copy_raises", lambda: copy.copy(u))
show("field_copy_raises_render", lambda: u.render())

# fields added after construction keep their order
o = div("z")
o.zeta = 1
o.alpha = [2]
oc = copy.copy(o)
print("order", list(o.__dict__), list(oc.__dict__))
del o.prev_displayhook
oc2 = copy.copy(o)
print("deleted_field", list(oc2.__dict__))
show("deleted_field_render", lambda: str(oc2))

# inside a `with` block (prev_displayhook is a function: copy returns it unchanged)
import sys

saved = sys.displayhook
w = div()
with w:
    wc = copy.copy(w)
    print("with.hook_shared", wc.prev_displayhook is w.prev_displayhook, wc.prev_displayhook is saved)
sys.displayhook = saved
print("with.after", w.prev_displayhook, wc.prev_displayhook is saved)

# tagify / render use copy: originals untouched, results repeatable
class Tgf:
    def __init__(self):
        self.n = 0

    def tagify(self):
        self.n += 1
        return TagList(span("tg"), dep)


tg = Tgf()
tree = div("a", tg, span(tg, hc), dep)
before = [type(x).__name__ for x in tree.children]
r1 = tree.render()
r2 = tree.render()
print("render.same", r1["html"] == r2["html"], r1["html"])
print("render.deps", [(d.name, str(d.version)) for d in r1["dependencies"]], r1["dependencies"][0] is dep)
print("render.orig_untouched", before == [type(x).__name__ for x in tree.children], tg.n)
tf = tree.tagify()
print("tagify.types", type(tf).__name__, tf is not tree, tf.attrs is not tree.attrs, tf.children is not tree.children)
print("tagify.metadata_copied", [x is dep for x in tf.children if isinstance(x, HTMLDependency)])

# ---- HTMLDocument
doc = HTMLDocument(div("body text", dep), hc, lang="en", data_z=None)
dc = copy.copy(doc)
print("doc.type", type(dc).__name__, dc is not doc)
print("doc.fields", fields(doc), fields(dc))
print("doc.sharing", sharing(doc, dc))
dc.append(span("only in copy"))
dc._html_attr_args["lang"] = "fr"
print("doc.orig", doc.render()["html"])
print("doc.copy", dc.render(lib_prefix=None)["html"])


class MyDoc(HTMLDocument):
    def __init__(self, *a, **k):
        super().__init__(*a, **k)
        self.notes = ["n"]


md = MyDoc(div("q"))
mdc = copy.copy(md)
print("subdoc", type(mdc).__name__, fields(mdc), sharing(md, mdc))
print("doc.deepcopy", copy.deepcopy(doc).render()["html"] == doc.render()["html"])

# ---- JSXTag
Foo = jsx_tag_create("Foo")
j = Foo(div("child", dep), "s", style="color:red;", onClick=jsx("() => 1"), nested=span("n", hc), lst=[1, "a", None])
jc = copy.copy(j)
print("jsx.type", type(jc).__name__, jc is not j)
print("jsx.fields", fields(j), fields(jc))
print("jsx.sharing", [(k, a, None) for k, a, _ in sharing(j, jc)])
print("jsx.attr_values_shared", [j.attrs[k] is jc.attrs[k] for k in j.attrs])
jc.append("extra")
jc.attrs["added"] = True
jc.name = "Bar"
print("jsx.orig", str(j))
print("jsx.copy", str(jc))
r = div(j, jc).render()
print("jsx.render", r["html"])
print("jsx.deps", [(d.name, str(d.version)) for d in r["dependencies"]])
print("jsx.repeat", str(j) == str(j), div(j).render()["html"] == div(j).render()["html"])


class MyJSX(JSXTag):
    def __init__(self, *a, **k):
        super().__init__("Mine", *a, **k)
        self.meta = {"m": 1}


mj = MyJSX("c", p=1)
mjc = copy.copy(mj)
print("subjsx", type(mjc).__name__, fields(mjc), [(k, a) for k, a, _ in sharing(mj, mjc)])
