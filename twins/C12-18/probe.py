# Probe for refactoring 3: dependency resolution (_resolve_dependencies / get_dependencies)
# and its effect on rendered URLs and copied directories.
import itertools
import os
import shutil
import tempfile

from htmltools import HTMLDependency, HTMLDocument, TagList, div, span, tags
from htmltools._core import _resolve_dependencies

ROOT = os.path.realpath(tempfile.mkdtemp(prefix="c12probe"))


def scrub(s):
    return str(s).replace(ROOT, "<ROOT>")


def show(label, fn):
    try:
        print(label, "->", scrub(repr(fn())))
    except BaseException as e:  # noqa
        print(label, "raised", type(e).__name__)


SRC = os.path.join(ROOT, "src")
os.makedirs(SRC)
for f in ("a.js", "b.js", "c.css"):
    with open(os.path.join(SRC, f), "w") as fh:
        fh.write(f)

_id = itertools.count()


def D(name, version, tag=None):
    d = HTMLDependency(name, version, source={"subdir": SRC}, script={"src": "a.js"})
    d.tag = tag if tag is not None else next(_id)  # identify the object that was kept
    return d


def ids(deps):
    return [(d.name, str(d.version), d.tag) for d in deps]


versions = ["1.0", "1.0.0", "1.9", "1.10", "2.0rc1", "2.0", "2.0.post1", "0.1", "1!0.1"]
# every ordered pair / triple of versions under one name, interleaved with another name
for vs in itertools.permutations(versions, 2):
    deps = [D("x", vs[0], "x0"), D("y", "1", "y0"), D("x", vs[1], "x1")]
    print("pair", vs, ids(_resolve_dependencies(deps)))
for vs in itertools.permutations(versions[:5], 3):
    deps = [D("x", vs[0], "x0"), D("y", "1", "y0"), D("x", vs[1], "x1"), D("y", "1", "y1"), D("x", vs[2], "x2")]
    print("triple", vs, ids(_resolve_dependencies(deps)))

same = D("s", "1.0", "same")
print("same object twice", ids(_resolve_dependencies([same, same, D("t", "1", "t"), same])))
print("empty", _resolve_dependencies([]))
show("tuple input", lambda: ids(_resolve_dependencies((D("a", "1", 1), D("a", "2", 2)))))
show("generator input", lambda: ids(_resolve_dependencies(d for d in [D("a", "2", 1), D("a", "1", 2), D("b", "1", 3)])))
show("None input", lambda: _resolve_dependencies(None))
show("non-dependency item", lambda: _resolve_dependencies([D("a", "1", 1), "str"]))
r = _resolve_dependencies([same])
print("fresh list", type(r).__name__, r[0] is same)

# odd names and versions (set after construction)
def odd(name, version, tag):
    d = D("q", "1", tag)
    d.name = name
    d.version = version
    return d

from packaging.version import Version as V

show("int names", lambda: ids(_resolve_dependencies([odd(1, V("1"), "a"), odd(1.0, V("2"), "b"), odd(True, V("1.5"), "c")])))
show("tuple names", lambda: ids(_resolve_dependencies([odd(("a",), V("1"), "a"), odd(("a",), V("1"), "b")])))
show("None names", lambda: ids(_resolve_dependencies([odd(None, V("1"), "a"), odd(None, V("3"), "b")])))
show("unhashable name first", lambda: ids(_resolve_dependencies([odd([], V("1"), "a")])))
show("unhashable name later", lambda: ids(_resolve_dependencies([odd("n", V("1"), "a"), odd({}, V("1"), "b")])))
show("None version single", lambda: ids(_resolve_dependencies([odd("n", None, "a")])))
show("None version dup", lambda: ids(_resolve_dependencies([odd("n", None, "a"), odd("n", None, "b")])))
nv = odd("n", None, "same-none")
show("None version same object twice", lambda: ids(_resolve_dependencies([nv, nv])))
show("str versions", lambda: ids(_resolve_dependencies([odd("n", "1.9", "a"), odd("n", "1.10", "b")])))
show("mixed version types", lambda: ids(_resolve_dependencies([odd("n", "1.9", "a"), odd("n", V("1.10"), "b")])))
show("float versions", lambda: ids(_resolve_dependencies([odd("n", 1.5, "a"), odd("n", float("nan"), "b"), odd("n", 2, "c")])))
no_ver = D("n", "1", "nover")
del no_ver.version
show("missing version attr single", lambda: ids(_resolve_dependencies([no_ver])))
no_ver2 = D("n", "1", "nover2")
del no_ver2.version
show("missing version attr dup", lambda: _resolve_dependencies([D("n", "1", "z"), no_ver2]))
show("missing version attr dup first", lambda: _resolve_dependencies([no_ver2, D("n", "1", "z")]))
no_name = D("n", "1", "noname")
del no_name.name
show("missing name attr", lambda: _resolve_dependencies([no_name]))

# through the public API
a1, a2, a3 = D("a", "1.0", "a1"), D("a", "2.0", "a2"), D("a", "2.0", "a3")
b1, b2 = D("b", "3.0", "b1"), D("b", "0.3", "b2")
c1 = D("c", "1", "c1")
trees = {
    "flat": TagList(a1, b1, a2, b2, a3, c1),
    "nested": div(a1, span(b1, div(a2, "txt", c1)), b2, a3),
    "taglist_in_tag": div(TagList(a2, TagList(a1)), tags.p(a3, b2), b1),
    "none": div("no deps", span()),
    "empty_list": TagList(),
    "only_dups": TagList(c1, c1, c1),
    "descending": TagList(a3, a2, a1, b1, b2),
}
for label, t in trees.items():
    show("deps " + label, lambda: ids(t.get_dependencies()))
    show("deps nodedup " + label, lambda: ids(t.get_dependencies(dedup=False)))
    if not isinstance(t, TagList):
        show("deps positional " + label, lambda: ids(t.get_dependencies(False)))
        show("children deps " + label, lambda: ids(t.children.get_dependencies()))
    else:
        show("deps positional " + label, lambda: ids(t.get_dependencies(False)))
    for dd in (0, 1, None, "", "x", []):
        show("deps dedup=%r %s" % (dd, label), lambda: ids(t.get_dependencies(dedup=dd)))
    r1 = t.get_dependencies(dedup=False)
    r2 = t.get_dependencies(dedup=False)
    print("   fresh lists", r1 is not r2, r1 == r2)
    show("render " + label, lambda: (ids(t.render()["dependencies"]), t.render()["html"]))
    show("doc render " + label, lambda: HTMLDocument(t).render()["html"])
    out = os.path.join(ROOT, "out_" + label)
    os.makedirs(out)
    show("save " + label, lambda: t.save_html(os.path.join(out, "i.html")))
    for base, dirs, files in os.walk(out):
        dirs.sort()
        print("   ", os.path.relpath(base, out), sorted(files))

# the dependencies that get rendered are copies, one per name, first-appearance order
t = trees["nested"]
got = t.render()["dependencies"]
print([g is x for g in got for x in (a1, a2, a3, b1, b2, c1)])
shutil.rmtree(ROOT)
