"""Deterministic probe for property C03 (attribute value escaping / merging)."""
from __future__ import annotations

import html as _stdhtml

from htmltools import HTML, Tag, TagList, div, html_escape, span, tags
from htmltools._core import TagAttrDict
from htmltools import _core, _util


def show(label, fn):
    try:
        out = fn()
        print(f"{label}: {type(out).__name__} {out!r}")
    except BaseException as e:  # noqa: BLE001
        print(f"{label}: EXC {type(e).__name__}: {e}")


class MyStr(str):
    pass


class LoudStr(str):
    """str subclass that records the calls made on it."""

    log: list = []

    def replace(self, old, new, count=-1):
        LoudStr.log.append(("replace", old, new))
        return LoudStr(str.replace(self, old, new, count))

    def __str__(self):
        LoudStr.log.append(("str",))
        return str.__str__(self)

    def __format__(self, spec):
        LoudStr.log.append(("format", spec))
        return str.__format__(self, spec)


class Truthy:
    def __init__(self, v):
        self.v = v
        self.n = 0

    def __bool__(self):
        self.n += 1
        return self.v


SPECIAL = "&<>\"'\r\n"
TEXTS = [
    "",
    "plain",
    " ",
    "a&b",
    "&amp;",
    "&&",
    "<",
    ">",
    '"',
    "'",
    "\r",
    "\n",
    "\r\n",
    "\t",
    SPECIAL,
    SPECIAL * 3,
    'x" onclick="evil()',
    "x'><script>alert(1)</script>",
    "line1\nline2\rline3",
    "|",
    "a|b",
    "\\",
    ".*",
    "[&]",
    "café   \u0085 \x00 \x0b \x0c",
    "\ud800",
    "&#10;",
    "&quot;&apos;&gt;&lt;",
    "\U0001f600<",
]

print("== html_escape ==")
for t in TEXTS:
    for kw in [(), (False,), (True,)]:
        show(f"esc {t!r} {kw}", lambda: html_escape(t, *kw))
    show(f"esc-kw {t!r}", lambda: html_escape(text=t, attr=True))
    # identity on the fast path
    r0 = html_escape(t)
    r1 = html_escape(t, attr=True)
    print("   same-object", r0 is t, r1 is t)
    # decode round trip
    print("   decodes", _stdhtml.unescape(r1) == t, _stdhtml.unescape(r0) == t)

for a in [0, 1, 2, "", "x", None, [], [0], 0.0, object]:
    show(f"esc attr={a!r}", lambda: html_escape("<'>", a))
for tv in (True, False):
    tr = Truthy(tv)
    show(f"esc Truthy({tv})", lambda: html_escape("<'\n>", tr))
    print("   bool-calls", tr.n)
    tr = Truthy(tv)
    show(f"esc Truthy({tv}) fast", lambda: html_escape("abc", tr))
    print("   bool-calls", tr.n)

for bad in [None, 5, 5.5, b"a&b", bytearray(b"<"), ["&"], ("<",), {"&": 1}, HTML("a&b"), object(), True]:
    for kw in [(), (True,)]:
        show(f"esc-bad {type(bad).__name__} {kw}", lambda: html_escape(bad, *kw))
show("esc noargs", lambda: html_escape())
show("esc 3args", lambda: html_escape("a", True, 1))
show("esc badkw", lambda: html_escape("a", attrs=True))
show("_html_escape alias", lambda: _util._html_escape("<'>", attr=True))
print("alias is", _util._html_escape is _util.html_escape, _core.html_escape is _util.html_escape)

for s in [MyStr("plain"), MyStr("a&b'"), MyStr("")]:
    show(f"esc MyStr {s!r}", lambda: html_escape(s))
    show(f"esc MyStr attr {s!r}", lambda: html_escape(s, attr=True))
    print("   same", html_escape(s) is s, html_escape(s, True) is s)
for s in ["plain", "a&b'\n", "<", "'"]:
    LoudStr.log = []
    show(f"esc LoudStr {s!r}", lambda: html_escape(LoudStr(s)))
    print("   log", LoudStr.log)
    LoudStr.log = []
    show(f"esc LoudStr attr {s!r}", lambda: html_escape(LoudStr(s), attr=True))
    print("   log", LoudStr.log)

print("tables", _util.HTML_ESCAPE_TABLE, _util.HTML_ATTRS_ESCAPE_TABLE)

print("== TagAttrDict construction / update ==")
VALUES = [
    "v",
    "",
    "a&b",
    SPECIAL,
    'x" y="z',
    HTML("raw&<>\"'\r\n"),
    HTML(""),
    HTML("h"),
    True,
    False,
    None,
    0,
    1,
    -1,
    1.5,
    float("nan"),
    float("inf"),
    10**30,
    MyStr("my<'"),
]


def dump(d):
    return [(k, type(v).__name__, str(v)) for k, v in dict.items(d)]


for v in VALUES:
    show(f"ctor {v!r}", lambda: dump(TagAttrDict(a=v)))
    show(f"ctor-map {v!r}", lambda: dump(TagAttrDict({"data_x_": v})))

for bad in [[1], (1,), {"a": 1}, b"x", object, 1j, TagList("a"), div()]:
    show(f"ctor-bad {type(bad).__name__}", lambda: dump(TagAttrDict(a=bad)))
    show(f"ctor-bad-after {type(bad).__name__}", lambda: dump(TagAttrDict({"ok": "1"}, {"a": bad})))

for v1 in VALUES:
    for v2 in VALUES:
        show(f"merge {v1!r} + {v2!r}", lambda: dump(TagAttrDict({"class": v1}, {"class_": v2})))

show("merge3 s,h,s", lambda: dump(TagAttrDict({"k": "<a'"}, {"k": HTML("<b'")}, {"k": "<c'\n"})))
show("merge3 h,s,h", lambda: dump(TagAttrDict({"k": HTML("<a'")}, {"k": "<b'"}, {"k": HTML("<c'\n")})))
show("merge3 s,s,h", lambda: dump(TagAttrDict({"k": "<a'"}, {"k": "<b'"}, {"k": HTML("<c'\n")})))
show("merge3 h,h,s", lambda: dump(TagAttrDict({"k": HTML("<a'")}, {"k": HTML("<b'")}, {"k": "<c'\n"})))
show("merge kwargs", lambda: dump(TagAttrDict({"k": "1&"}, {"k_": HTML("2&")}, k="3&")))
show("merge names", lambda: dump(TagAttrDict({"a_b": "1", "a-b": "2", "a_b_": "3", "a__b": "4", "_": "5", "": "6", "__": "7"})))
show("merge none-mid", lambda: dump(TagAttrDict({"k": "a"}, {"k": None}, {"k": False}, {"k": True}, {"k": "b"})))
show("order", lambda: dump(TagAttrDict({"z": "1", "a": "2"}, {"m": "3", "z": HTML("4")})))

# update on an existing dict: replaces, does not merge with the stored value
d = TagAttrDict(k="old&", j="keep<")
show("update-existing", lambda: (d.update({"k": "new&"}, {"k": HTML("h&")}), dump(d))[1])
show("update-empty", lambda: (d.update(), dump(d))[1])
show("update-empty-map", lambda: (d.update({}), dump(d))[1])
show("update-only-none", lambda: (d.update({"k": None, "q": False}), dump(d))[1])
show("update-nonmapping", lambda: d.update([("a", "b")]))
show("update-none-arg", lambda: d.update(None))
show("update-after-bad", lambda: dump(d))
show("update-bad-name-int", lambda: d.update({1: "x"}))
show("update-bad-name-none-skipped", lambda: (d.update({1: None}), dump(d))[1])
show("update-bad-name-and-value", lambda: d.update({1: [1]}))
show("update-partial", lambda: (d.update({"fine": "1"}, {"bad": [1]})))
show("update-partial-after", lambda: dump(d))

LoudStr.log = []
show("merge loud+html", lambda: dump(TagAttrDict({"k": LoudStr("a<'")}, {"k": HTML("<h")})))
print("   log", LoudStr.log)
LoudStr.log = []
show("merge html+loud", lambda: dump(TagAttrDict({"k": HTML("<h")}, {"k": LoudStr("plain")})))
print("   log", LoudStr.log)
LoudStr.log = []
show("merge loud+loud", lambda: dump(TagAttrDict({"k": LoudStr("a<")}, {"k": LoudStr("b>")})))
print("   log", LoudStr.log)


class SubHTML(HTML):
    def as_string(self):
        return "[" + self.data + "]"


show("merge subhtml+str", lambda: dump(TagAttrDict({"k": SubHTML("<h")}, {"k": "a<'"})))
show("merge str+subhtml", lambda: dump(TagAttrDict({"k": "a<'"}, {"k": SubHTML("<h")})))
show("merge subhtml+subhtml", lambda: dump(TagAttrDict({"k": SubHTML("x")}, {"k": SubHTML("y")})))


class SubDict(TagAttrDict):
    calls: list = []

    @staticmethod
    def _normalize_attr_name(x):
        SubDict.calls.append(("name", x))
        return x.upper()

    @staticmethod
    def _normalize_attr_value(x):
        SubDict.calls.append(("value", x))
        return TagAttrDict._normalize_attr_value(x)


SubDict.calls = []
show("subdict ctor", lambda: dump(SubDict({"a_b": "1<", "c": None}, a_b=HTML("2<"))))
print("   calls", SubDict.calls)
SubDict.calls = []
sd = SubDict()
show("subdict setitem", lambda: (sd.__setitem__("x_y", "v&"), sd.__setitem__("n", None), dump(sd))[2])
print("   calls", SubDict.calls)

print("== __setitem__ ==")
for v in VALUES:
    d = TagAttrDict(k="orig")
    show(f"set {v!r}", lambda: (d.__setitem__("k", v), d.__setitem__("new_key_", v), dump(d))[2])
d = TagAttrDict()
for bad in [[1], b"x", object(), 1j]:
    show(f"set-bad {type(bad).__name__}", lambda: d.__setitem__("k", bad))
show("set-bad-name", lambda: d.__setitem__(5, "v"))
show("set-bad-name-none", lambda: d.__setitem__(5, None))
show("set-bad-name-false", lambda: d.__setitem__(None, False))
show("set-bad-both", lambda: d.__setitem__(5, [1]))
show("set-result", lambda: TagAttrDict().__setitem__("a", "b"))
show("set-after", lambda: dump(d))
d["a_b_"] = "1"
d["a-b"] = HTML("2&")
d["a_b"] = 3
show("set-overwrite", lambda: dump(d))
show("set-no-merge", lambda: (d.__setitem__("a_b", "x<"), dump(d))[1])

print("== rendering ==")
for v in VALUES:
    show(f"render {v!r}", lambda: str(div(title=v)))
    show(f"render2 {v!r}", lambda: div({"title": v}, id="i&", title="t<").get_html_string())
for t in TEXTS:
    show(f"render-text {t!r}", lambda: span(title=t, data_x=HTML(t)).get_html_string())
    show(f"render-merge {t!r}", lambda: span({"class": t}, {"class": HTML(t)}, class_=t).get_html_string())
    s = span(title=t).get_html_string()
    print("   one-line", "\n" not in s and "\r" not in s)

show("render indent", lambda: div(span(a="'\n"), span("x", b=HTML("'")), c='"').get_html_string(indent=2, eol="\r\n"))
show("render void", lambda: tags.br(a="<>").get_html_string())
show("render void-img", lambda: tags.img(src="a&b", alt=True, hidden=False, x=None).get_html_string())
show("render script", lambda: tags.script("a<b", src='"&').get_html_string())
show("render noattrs", lambda: div().get_html_string())
show("render key-odd", lambda: div({'a"b': "v", "c d": "w", "<k>": "'"}).get_html_string())

t = div(a="1")
t.attrs["b_c"] = "x'"
t.attrs["d"] = True
t.attrs["e"] = None
t.attrs["f"] = 2.50
show("render setitem", lambda: t.get_html_string())
t.attrs.update({"a": "<"}, {"a": HTML(">")}, a="&")
show("render update", lambda: t.get_html_string())
t.add_class("k<'").add_class(HTML("h<'"), prepend=True).add_style("x:'1';").add_style(HTML("y:'2';"), prepend=True)
show("render add_class/style", lambda: t.get_html_string())
show("has_class", lambda: t.has_class("k<'"))

# attrs stored behind the dict's back / foreign attrs objects
t = div()
dict.__setitem__(t.attrs, "n", 5)
show("render int-in-dict", lambda: t.get_html_string())
t = div()
dict.__setitem__(t.attrs, "n", None)
show("render none-in-dict", lambda: t.get_html_string())
t = div()
dict.__setitem__(t.attrs, 7, "v<")
show("render int-key", lambda: t.get_html_string())
t = div()
t.attrs = {"p": "plain<'", "h": HTML("raw<'"), "m": MyStr("my<'")}
show("render plain-dict-attrs", lambda: t.get_html_string())
t = div(a="x'")
t.name = HTML("weird&")
show("render HTML-name", lambda: (type(t.get_html_string()).__name__, str(t.get_html_string())))
t = div(a="x'")
t.name = None
show("render None-name", lambda: t.get_html_string())
t = div()
dict.__setitem__(t.attrs, "n", 5)
t.name = None
show("render None-name+bad-attr", lambda: t.get_html_string())
LoudStr.log = []
t = div(a=LoudStr("plain"), b=LoudStr("q'"))
show("render loud", lambda: t.get_html_string())
print("   log", LoudStr.log)
show("render subhtml", lambda: div(a=SubHTML("<x'")).get_html_string())
show("Tag ctor", lambda: Tag("my-el", {"a": "1'"}, {"a": HTML("2'")}, "child", a="3'").get_html_string())
show("taglist", lambda: TagList(div(a="\n"), "txt<", span(b=HTML("\n"))).get_html_string())
show("repr", lambda: repr(div(a="<'>")))
show("render-doc", lambda: div(a="<'>").render()["html"])
