"""Deterministic probe for property C07 (metadata nodes leave no trace in markup).

Exercises Tag.get_html_string, TagList.get_html_string, TagList.tagify,
Tag/TagList.render, Tag/TagList.get_dependencies and _resolve_dependencies on a
spread of trees, with MetadataNode / HTMLDependency objects spliced in at every
position, and prints repr() of every result (or the exception type).
"""

from copy import copy

import htmltools
from htmltools import HTML, HTMLDependency, HTMLDocument, Tag, TagList, tags
from htmltools._core import MetadataNode, _resolve_dependencies


def show(label, fn):
    try:
        res = fn()
        print(f"{label}: {res!r}")
    except Exception as e:  # noqa: BLE001
        print(f"{label}: EXC {type(e).__name__}: {e}")


class Meta2(MetadataNode):
    def __init__(self, payload=None):
        self.payload = payload if payload is not None else []

    def __copy__(self):
        return Meta2(list(self.payload))

    def __repr__(self):
        return f"Meta2({self.payload!r})"


class Raw:
    """ReprHtml-only object."""

    def __init__(self, s):
        self.s = s

    def _repr_html_(self):
        return self.s


class Lazy:
    """Tagifiable-only object."""

    def __init__(self, out):
        self.out = out

    def tagify(self):
        return self.out


def dep(name="a", version="1.0"):
    return HTMLDependency(name=name, version=version)


def metas():
    return [
        ("meta", lambda: MetadataNode()),
        ("meta2", lambda: Meta2([1])),
        ("dep", lambda: dep("m", "0.1")),
    ]


# ---------------------------------------------------------------------------
# base child lists (factories so that each use gets fresh objects)
# ---------------------------------------------------------------------------
CHILDREN = {
    "empty": lambda: [],
    "one_text": lambda: ["hello"],
    "empty_text": lambda: [""],
    "one_html": lambda: [HTML("<b>x</b>")],
    "esc_text": lambda: ["a < b & c > \"d\" 'e'"],
    "two_text": lambda: ["a", "b"],
    "text_html": lambda: ["a<", HTML("<i>")],
    "one_block": lambda: [tags.div("x")],
    "one_inline": lambda: [tags.span("x")],
    "inline_mix": lambda: ["t1", tags.span("s"), "t2", tags.a("l", href="#"), "t3"],
    "block_mix": lambda: ["t1", tags.div("d"), "t2", tags.p(), "t3"],
    "inl_blk": lambda: [tags.span("s"), tags.div("d"), tags.span("s2"), tags.span()],
    "void": lambda: [tags.br(), tags.img(src="i.png"), tags.hr()],
    "nested": lambda: [tags.div(tags.div(tags.span("deep"), "x"), tags.ul(tags.li("1"), tags.li("2")))],
    "raw": lambda: [Raw("<raw/>"), "txt", Raw("")],
    "raw_first_blk": lambda: [tags.div(), Raw("<r>"), tags.div()],
    "numbers": lambda: [1, 2.5, None, [3, ["x"]]],
    "multiline": lambda: ["line1\nline2", tags.pre("a\n  b")],
}

TAGS = [
    ("div", True),
    ("span", False),
    ("p", True),
    ("br", True),
    ("img", False),
    ("input", True),
    ("script", True),
    ("style", True),
    ("head", True),
    ("custom-el", True),
    ("custom-el", False),
]


def make_tag(name, add_ws, kids, **attrs):
    return Tag(name, *kids, _add_ws=add_ws, **attrs)


def splice_variants(kids_factory):
    """Yield (label, kids) with metadata nodes inserted at each/all positions."""
    n = len(TagList(*kids_factory()))
    yield "base", list(TagList(*kids_factory()))
    for mname, mk in metas():
        for pos in range(n + 1):
            kids = list(TagList(*kids_factory()))
            kids.insert(pos, mk())
            yield f"{mname}@{pos}", kids
        # everywhere
        kids = list(TagList(*kids_factory()))
        out = [mk()]
        for k in kids:
            out.append(k)
            out.append(mk())
            out.append(mk())
        yield f"{mname}@all", out


print("== section 1: Tag rendering, metadata spliced at every position ==")
for cname, cf in CHILDREN.items():
    for tname, ws in TAGS:
        base_outputs = None
        for label, kids in splice_variants(cf):
            t = make_tag(tname, ws, kids, id="i", title='q"<')
            outs = []
            for indent, eol in [(0, "\n"), (2, "\n"), (1, ""), (3, "\r\n")]:
                try:
                    outs.append(t.get_html_string(indent, eol))
                except Exception as e:  # noqa: BLE001
                    outs.append(f"EXC {type(e).__name__}")
            try:
                outs.append(t.render()["html"])
            except Exception as e:  # noqa: BLE001
                outs.append(f"EXC {type(e).__name__}")
            if label == "base":
                base_outputs = outs
                print(f"[{cname}/{tname}/{ws}] base -> {outs!r}")
            else:
                same = outs == base_outputs
                if not same:
                    print(f"[{cname}/{tname}/{ws}] {label} DIFFERS -> {outs!r}")
        print(f"[{cname}/{tname}/{ws}] variants done")

print("== section 2: TagList rendering, metadata spliced at every position ==")
for cname, cf in CHILDREN.items():
    base_outputs = None
    for label, kids in splice_variants(cf):
        tl = TagList(*kids)
        outs = []
        for indent, eol, add_ws, esc in [
            (0, "\n", True, True),
            (0, "\n", False, True),
            (2, "\n", True, True),
            (2, "", False, True),
            (1, "|", True, False),
            (1, "\n", False, False),
        ]:
            try:
                outs.append(
                    tl.get_html_string(indent, eol, add_ws=add_ws, _escape_strings=esc)
                )
            except Exception as e:  # noqa: BLE001
                outs.append(f"EXC {type(e).__name__}")
        outs.append(tl.render()["html"])
        outs.append(str(tl))
        if label == "base":
            base_outputs = outs
            print(f"[{cname}] base -> {outs!r}")
        elif outs != base_outputs:
            print(f"[{cname}] {label} DIFFERS -> {outs!r}")
    print(f"[{cname}] variants done")

print("== section 3: only-metadata children ==")
for tname, ws in TAGS:
    for k in range(0, 4):
        for mname, mk in metas():
            t = make_tag(tname, ws, [mk() for _ in range(k)])
            show(f"{tname}/{ws}/{mname}x{k}", lambda: (t.get_html_string(), t.get_html_string(2, ""), t.render()))
for k in range(0, 3):
    tl = TagList(*[MetadataNode() for _ in range(k)], *[dep("z")] * k)
    show(f"taglist-only-meta x{k}", lambda: (tl.get_html_string(), tl.get_html_string(3, "\n", add_ws=False), tl.render(), len(tl)))

print("== section 4: tagify ==")
m_plain = MetadataNode()
m2 = Meta2(["p"])
d1 = dep("d1", "1.0")
inner = TagList("x", m2, tags.span("y", d1))
tl = TagList(
    m_plain,
    Lazy(inner),
    Lazy(TagList()),
    Lazy("just-str"),
    Lazy(HTML("<h>")),
    Lazy(Meta2(["from-lazy"])),
    Lazy(tags.div("from-lazy-div", dep("lz", "2"))),
    tags.div(m2, Lazy(TagList(1, 2, d1)), "tail"),
    "end",
    d1,
)
res = tl.tagify()
print("len before/after:", len(tl), len(res))
print("types:", [type(x).__name__ for x in res])
print("orig types:", [type(x).__name__ for x in tl])
print("plain meta copied:", res[0] is not m_plain, type(res[0]) is MetadataNode)
print("dep copied:", res[-1] is not d1, res[-1] == d1, res[-1].name, res[-1].version)
print("inner meta2 (from Tagifiable-returned TagList) identity kept:", res[2] is m2)
div_res = [x for x in res if isinstance(x, Tag) and x.name == "div"][-1]
print("nested meta2 copied:", div_res.children[0] is not m2, repr(div_res.children[0]))
div_res.children[0].payload.append("mutated")
print("original payload untouched:", m2.payload)
print("rendered:", repr(res.get_html_string()))
print("render():", repr(tl.render()))
show("non-tagified render", lambda: tl.get_html_string())
show("non-tagified in tag", lambda: tags.div(Lazy("x"), "a").get_html_string())
show("tag with lazy render", lambda: tags.div(Lazy("x"), "a", MetadataNode()).render())
show("tagify empty", lambda: (TagList().tagify(), len(TagList().tagify())))
show("tagify only meta", lambda: [type(x).__name__ for x in TagList(MetadataNode(), dep()).tagify()])
show(
    "lazy returning nested lazies in taglist (not re-tagified)",
    lambda: [type(x).__name__ for x in TagList(Lazy(TagList("a", Lazy("b"))), "c").tagify()],
)
t0 = tags.div("a", m_plain, tags.span(d1))
t1 = t0.tagify()
print("tag tagify:", t1 is not t0, t1.children is not t0.children, t1.children[1] is not m_plain, str(t1) == str(t0))

print("== section 5: dependencies ==")
a1 = dep("a", "1.0")
a2 = dep("a", "2.0")
a10 = dep("a", "10.0")
b1 = dep("b", "1.0")
b1b = dep("b", "1.0")
c0 = dep("c", "0.9.1")
tree = tags.div(
    a1,
    tags.span(b1, tags.b(a2, "x"), MetadataNode()),
    "text",
    c0,
    tags.div(a10, b1b, Meta2()),
    a1,
)
show("tag deps dedup", lambda: tree.get_dependencies())
show("tag deps nodedup", lambda: tree.get_dependencies(dedup=False))
show("tag deps positional", lambda: tree.get_dependencies(False))
show("tl deps dedup", lambda: TagList(tree, a2, b1).get_dependencies())
show("tl deps nodedup", lambda: TagList(tree, a2, b1).get_dependencies(dedup=False))
show("tl deps positional", lambda: TagList(tree).get_dependencies(False))
show("deps identity", lambda: [x is y for x, y in zip(tree.get_dependencies(dedup=False), [a1, b1, a2, c0, a10, b1b, a1])])
show("dedup keeps first equal version", lambda: [x is b1 for x in tree.get_dependencies() if x.name == "b"])
show("dedup picks highest", lambda: [x is a10 for x in tree.get_dependencies() if x.name == "a"])
show("empty deps", lambda: (TagList().get_dependencies(), tags.div().get_dependencies(), TagList("a").get_dependencies(dedup=False)))
show("resolve []", lambda: _resolve_dependencies([]))
show("resolve order", lambda: _resolve_dependencies([b1, a2, c0, a1, a10, b1b]))
show("resolve order2", lambda: _resolve_dependencies([a10, a2, a1]))
show("resolve same input returns new list", lambda: (lambda l: _resolve_dependencies(l) is not l)([a1]))
show("nodedup returns list type", lambda: type(TagList(a1).get_dependencies(dedup=False)).__name__)
show("resolve bad", lambda: _resolve_dependencies([a1, "x"]))
show("resolve bad2", lambda: _resolve_dependencies(None))
show("lazy not descended for deps", lambda: TagList(Lazy(tags.div(a1)), b1).get_dependencies())
show("render deps", lambda: tree.render()["dependencies"])
show("render keys", lambda: list(tree.render().keys()))
show("render type", lambda: type(tree.render()).__name__)
show("tl render keys", lambda: (list(TagList(tree).render().keys()), type(TagList(tree).render()).__name__))
show("tree html", lambda: tree.get_html_string())
show("tree html no deps", lambda: tags.div(tags.span(tags.b("x")), "text", tags.div()).get_html_string())

print("== section 6: document level ==")
doc_tree = tags.div("body", a1, tags.span(MetadataNode()), htmltools.head_content(tags.title("T")))
show("doc", lambda: HTMLDocument(doc_tree).render())
show("doc no meta", lambda: HTMLDocument(tags.div("body", tags.span())).render()["html"])
show("str(tree)", lambda: str(tree))
show("repr(tl)", lambda: repr(TagList(a1, "x", MetadataNode(), tags.br(MetadataNode()))))

print("== section 7: odd arguments ==")
show("indent bool", lambda: tags.div(tags.p("x"), MetadataNode()).get_html_string(True))
show("indent neg", lambda: tags.div(tags.p("x"), MetadataNode()).get_html_string(-2))
show("indent str", lambda: tags.div(tags.p("x")).get_html_string("2"))
show("indent float", lambda: tags.div(tags.p("x")).get_html_string(1.5))
show("eol None", lambda: tags.div(tags.p("x")).get_html_string(0, None))
show("eol None single text", lambda: tags.div("x", MetadataNode()).get_html_string(0, None))
show("eol None tl single", lambda: TagList(MetadataNode(), "x", MetadataNode()).get_html_string(0, None))
show("eol None tl two", lambda: TagList("x", MetadataNode(), tags.div()).get_html_string(0, None))
show("tl indent str", lambda: TagList("x").get_html_string("1"))
show("tl indent str no ws", lambda: TagList("x").get_html_string("1", add_ws=False))
show("name None", lambda: Tag(None).get_html_string())
show("name int", lambda: Tag(5, MetadataNode()).get_html_string())
show("raw returning nonstr", lambda: TagList(Raw(5)).get_html_string())
show("raw returning nonstr in tag", lambda: tags.div(Raw(None), MetadataNode()).get_html_string())
show("children replaced by list", lambda: (lambda t: (setattr(t, "children", ["a", MetadataNode()]), t.get_html_string())[1])(tags.div()))
show("children replaced by list 2", lambda: (lambda t: (setattr(t, "children", ["a", MetadataNode(), "b"]), t.get_html_string())[1])(tags.div()))
show("direct data injection", lambda: (lambda tl: (tl.data.append(5), tl.get_html_string())[1])(TagList("a")))
show("direct data injection escape off", lambda: (lambda tl: (tl.data.append(5), tl.get_html_string(_escape_strings=False))[1])(TagList("a")))
show("direct data tagify", lambda: (lambda tl: (tl.data.append(5), tl.data.append(MetadataNode()), [type(x).__name__ for x in tl.tagify()])[2])(TagList("a")))

print("== section 8: tagify / render ordering details ==")
LOG = []


class LogLazy:
    def __init__(self, tag, out):
        self.tag, self.out = tag, out

    def tagify(self):
        LOG.append(("tagify", self.tag))
        if isinstance(self.out, Exception):
            raise self.out
        return self.out


class LogMeta(MetadataNode):
    def __init__(self, tag):
        self.tag = tag

    def __copy__(self):
        LOG.append(("copy", self.tag))
        return LogMeta(self.tag + "'")


class LogRaw:
    def __init__(self, tag):
        self.tag = tag

    def _repr_html_(self):
        LOG.append(("repr_html", self.tag))
        return f"<{self.tag}>"


class LogTag(Tag):
    def get_dependencies(self, dedup=True):
        LOG.append(("deps", self.name))
        return super().get_dependencies(dedup=dedup)


tl = TagList(
    LogMeta("m0"),
    LogLazy("z1", TagList("a", LogMeta("inner"), "b", "c")),
    LogRaw("r1"),
    LogLazy("z2", TagList()),
    LogMeta("m1"),
    LogTag("section", LogMeta("m2"), LogLazy("z3", "txt"), LogRaw("r2"), a1),
    LogLazy("z4", LogMeta("ret")),
    LogLazy("z5", None),
)
LOG.clear()
show("ordered tagify", lambda: [getattr(x, "tag", None) or getattr(x, "name", None) or x for x in tl.tagify()])
print("log:", LOG)
LOG.clear()
show("ordered render", lambda: tl.render())
print("log:", LOG)
LOG.clear()
show("ordered tag render", lambda: LogTag("div", tl, b1).render())
print("log:", LOG)
LOG.clear()
show("ordered str", lambda: str(LogTag("div", LogRaw("r"), LogMeta("m"), a2)))
print("log:", LOG)

LOG.clear()
bad = TagList("x", LogLazy("ok", "fine"), LogLazy("boom", ValueError("boom")), LogMeta("after"), LogLazy("last", "l"))
show("exception mid tagify", lambda: bad.tagify())
print("log:", LOG)
print("original untouched:", [type(x).__name__ for x in bad])
LOG.clear()
show("exception mid render", lambda: bad.render())
print("log:", LOG)
show("lazy returning None", lambda: TagList(LogLazy("n", None), "a").tagify().data)
show("lazy returning None render", lambda: TagList(LogLazy("n", None), "a").render())
show("lazy returning int", lambda: TagList("a", LogLazy("n", 7)).render())
show("lazy returning list", lambda: TagList("a", LogLazy("n", ["p", "q"])).tagify().data)
show("lazy returning taglist w/ numbers", lambda: (lambda t: (t.data.extend([1, None]), TagList(LogLazy("n", t), "z").tagify().data)[1])(TagList("k")))
show("lazy returning taglist w/ bad item", lambda: (lambda t: (t.data.append(object()), TagList(LogLazy("n", t)).tagify())[1])(TagList("k")))


class SubList(TagList):
    pass


show("subclass preserved", lambda: type(SubList("a", MetadataNode()).tagify()).__name__)
show("lazy returning TagList subclass is flattened", lambda: TagList(LogLazy("s", SubList("a", "b")), "c").tagify().data)
show("tagify returns copy even w/o changes", lambda: (lambda t: (t.tagify() is not t, t.tagify() == t, t.tagify().data is not t.data))(TagList("a", "b")))
