# Probe for refactoring 3: shared __copy__ implementation of Tag / HTMLDocument / JSXTag.
import copy

from htmltools import (
    HTML,
    HTMLDependency,
    HTMLDocument,
    Tag,
    TagList,
    div,
    is_tag_node,
    span,
    tags,
)
from htmltools._core import MetadataNode
from htmltools._jsx import JSXTag, jsx, jsx_tag_create


def kids(x):
    out = []
    for c in x:
        if isinstance(c, (str, Tag, HTMLDependency, JSXTag)):
            out.append(type(c).__name__ + ":" + str(c).replace("\n", "\\n"))
        else:
            out.append("<" + type(c).__name__ + ">")
    return out


def show(label, fn):
    try:
        r = fn()
    except BaseException as e:  # noqa: BLE001
        print(label, "->", "EXC", type(e).__name__, str(e))
        return None
    print(label, "->", r)
    return r


class MyTag(Tag):
    def __init__(self, *args, **kwargs):
        super().__init__("my-tag", *args, **kwargs)
        self.extra = ["mutable", "list"]
        self.label = "lbl"
        self.nested = TagList("n1", 2)


class InitCounts(Tag):
    inits = 0

    def __init__(self, *args, **kwargs):
        InitCounts.inits += 1
        super().__init__("counted", *args, **kwargs)


class MyDoc(HTMLDocument):
    pass


dep = HTMLDependency("a", "1.0", source={"subdir": "."}, script={"src": "a.js"})
meta = MetadataNode()


def check_tag_copy(label, t):
    print("==", label)
    c = copy.copy(t)
    print(" type same:", type(c) is type(t), "not same obj:", c is not t, "eq:", c == t)
    print(" dict keys:", list(c.__dict__.keys()) == list(t.__dict__.keys()), list(c.__dict__.keys()))
    print(" children is new TagList:", c.children is not t.children, type(c.children).__name__)
    print(" attrs is new:", c.attrs is not t.attrs, type(c.attrs).__name__, dict(c.attrs))
    print(" elements shared:", all(a is b for a, b in zip(c.children, t.children)), len(c.children) == len(t.children))
    # mutate the copy through every child operation; the original must not change
    before = kids(t.children)
    c.append("app", 1, [None, 2.5, ("deep",)])
    c.extend(["ext", None, TagList("tl", 3)])
    c.insert(0, ["ins", 7])
    c.children += ["iadd", 8]
    c.attrs["data-x"] = "y"
    print(" copy children:", kids(c.children), all(is_tag_node(x) for x in c.children))
    print(" orig children unchanged:", kids(t.children) == before, before)
    print(" orig attrs:", dict(t.attrs))
    show(" bad append to copy", lambda: c.append(object()))
    show(" bad insert to copy", lambda: c.insert(1, [b"x"]))
    print(" copy children after failures:", len(c.children))
    print(" eq after mutation:", c == t)
    print(" render orig:", str(t).replace("\n", "\\n"))
    print(" render copy:", str(c).replace("\n", "\\n"))


check_tag_copy("plain div", div("a", span("b"), 1, None, [2.5, "c"], id="i", class_="k"))
check_tag_copy("empty div", div())
check_tag_copy("with deps and meta", div(dep, meta, HTML("<i>x</i>"), "s"))
check_tag_copy("inline", span("x", _add_ws=False))
check_tag_copy("Tag direct", Tag("custom", {"a": "1"}, "kid", b=2))
mt = MyTag("k1", id="m")
check_tag_copy("subclass w/ extra fields", mt)
mc = copy.copy(mt)
print("extra copied shallowly:", mc.extra == mt.extra, mc.extra is not mt.extra, mc.label is mt.label)
print("nested TagList field copied:", mc.nested is not mt.nested, kids(mc.nested))
mc.nested.append("only-in-copy", 9)
print("nested after append:", kids(mt.nested), kids(mc.nested))

InitCounts.inits = 0
ic = InitCounts("z")
ic2 = copy.copy(ic)
print("__init__ not called by copy:", InitCounts.inits, type(ic2).__name__, kids(ic2.children))

# a field that cannot be shallow-copied
bad = div("g")
bad.gen = (i for i in range(3))
show("copy with generator field", lambda: copy.copy(bad))
bad2 = div("g")
bad2.fh = memoryview(b"abc")
show("copy with memoryview field", lambda: type(copy.copy(bad2).fh).__name__)

# context manager state is copied as a plain field
t = div("cm")
print("prev_displayhook in copy:", copy.copy(t).prev_displayhook)

# tagify uses copy()
t = div("a", div("b", dep), meta)
tg = t.tagify()
print("tagify:", tg is not t, tg == t, tg.children[1] is not t.children[1], tg.children[2] is not t.children[2], kids(tg.children))
tg.children[1].append("new")
print("orig nested after tagify-copy mutation:", kids(t.children[1].children))

# deepcopy is untouched
d = copy.deepcopy(t)
print("deepcopy:", d == t, d.children[1] is not t.children[1], kids(d.children))

# HTMLDocument
print("== HTMLDocument")
for doc in (HTMLDocument("a", div("b"), 1, [None, 2.5], lang="en"), HTMLDocument(), MyDoc(dep, "x", id="q")):
    c = copy.copy(doc)
    print(" type:", type(c).__name__, c is not doc, list(c.__dict__.keys()))
    print(" content new:", c._content is not doc._content, kids(c._content))
    print(" attr args copied:", c._html_attr_args is not doc._html_attr_args, c._html_attr_args == doc._html_attr_args, c._html_attr_args)
    c.append("more", 3, [None, ("t",)])
    c._html_attr_args["class"] = "z"
    show(" bad append", lambda: c.append({"a": 1}.keys()))
    print(" copy content:", kids(c._content), all(is_tag_node(x) for x in c._content))
    print(" orig content:", kids(doc._content), doc._html_attr_args)
    print(" orig render:", doc.render()["html"].replace("\n", "\\n"))
    print(" copy render:", c.render()["html"].replace("\n", "\\n"))

# JSXTag
print("== JSXTag")
Foo = jsx_tag_create("Foo")
j = Foo("a", div("b"), 1, [None, 2.5], prop=jsx("x => x"), style={"color": "red"})
jc = copy.copy(j)
print(" type:", type(jc).__name__, jc is not j, list(jc.__dict__.keys()))
print(" children new:", jc.children is not j.children, kids(jc.children))
print(" attrs new:", jc.attrs is not j.attrs, type(jc.attrs).__name__, jc.attrs == j.attrs)
jc.append("more", 2)
jc.extend([None, ["x", 3.5]])
show(" bad append", lambda: jc.append(object()))
print(" copy:", kids(jc.children), all(is_tag_node(x) for x in jc.children))
print(" orig:", kids(j.children))
print(" render orig:", str(j).replace("\n", "\\n"))
print(" render copy:", str(jc).replace("\n", "\\n"))
outer = div(j, "tail")
print(" tagify outer:", str(outer.tagify()).replace("\n", "\\n"))
print(" orig jsx untouched:", kids(j.children))
