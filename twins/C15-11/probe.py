# Probe for refactoring 1: Tag.__init__ / consolidate_attrs share one partition helper.
from collections import OrderedDict, UserDict
from types import MappingProxyType

from htmltools import HTML, Tag, TagList, consolidate_attrs, div, span, tags
from htmltools._core import TagAttrDict


def show(label, fn):
    try:
        out = fn()
        print(label, "->", repr(out))
    except Exception as e:  # noqa: BLE001
        print(label, "-> EXC", type(e).__name__, str(e))


def tag_info(t):
    return (
        t.name,
        type(t.attrs).__name__,
        list(t.attrs.items()),
        [type(v).__name__ for v in t.attrs.values()],
        [(type(c).__name__, str(c)) for c in t.children],
        str(t),
    )


class MyDict(dict):
    pass


ARGSETS = [
    ((), {}),
    (("a",), {}),
    (({"class": "a"},), {}),
    (({"class": "a"}, "kid", {"class": "b"}, span("x"), {"id": "i"}), {"class_": "c"}),
    (("k1", {"data_x": 1}, "k2", {"data_x": 2.5}, None, {"data_x": True}), {"data_x": "z"}),
    (({"a": None, "b": False, "c": True, "d": 0, "e": 1.5},), {"f_": "g", "h_i_j": 3}),
    ((TagAttrDict({"class": "tad"}, class_="tad2"), "kid"), {}),
    ((MyDict(x="1"), OrderedDict([("y_", "2"), ("x", "3")]), [1, 2, ["n", None]]), {"x": "4"}),
    (({}, {}, "only"), {}),
    (({"style": HTML("a&b;")}, {"style": "c<d;"}), {"style": "e\"f;"}),
    (({"style": "c<d;"}, {"style": HTML("a&b;")}), {}),
    ((TagList("a", {"not": "attr"} if False else "b"), 3, 4.5), {"n": 7}),
    ((UserDict({"u": "v"}),), {}),
    ((MappingProxyType({"u": "v"}),), {}),
    ((object(),), {}),
    (({"bad": object()},), {}),
    (({"bad": [1]},), {"ok": "1"}),
    (({1: "intkey"},), {}),
    (({"class": "a"},), {"_add_ws": False}),
    (({"class": "a"},), {"_add_ws": 1}),
    ((("tuple", {"in": "tuple"}),), {}),
    (([{"in": "list"}],), {}),
    (({"bad": [1]}, object()), {}),
    ((object(), {"bad": [1]}), {"worse": object()}),
]

for i, (a, kw) in enumerate(ARGSETS):
    show(f"Tag[{i}]", lambda: tag_info(Tag("div", *a, **kw)))
    show(f"div[{i}]", lambda: tag_info(div(*a, **kw)))

    def ca():
        attrs, kids = consolidate_attrs(*a, **kw)
        return (
            type(attrs).__name__,
            list(attrs.items()),
            [type(v).__name__ for v in attrs.values()],
            type(kids).__name__,
            [(type(k).__name__, repr(k) if not isinstance(k, object().__class__) or isinstance(k, (str, int, float, list, tuple, type(None))) else type(k).__name__) for k in kids],
            [k is x for k, x in zip(kids, [x for x in a if not isinstance(x, dict)])],
        )

    show(f"consolidate[{i}]", ca)

    def rebuild():
        attrs, kids = consolidate_attrs(*a, **kw)
        kw2 = {k: v for k, v in kw.items() if k == "_add_ws"}
        t1 = Tag("p", attrs, *kids, **kw2)
        t2 = Tag("p", *a, **kw)
        return (t1 == t2, str(t1) == str(t2), str(t1))

    show(f"rebuild[{i}]", rebuild)

# identity / non-mutation of inputs
d1 = {"class_": "a", "x": None}
d2 = {"class": "b"}
kid = span("s")
attrs, kids = consolidate_attrs(d1, kid, d2, "t", class_="c")
print(d1, d2, kids[0] is kid, kids[1], attrs, type(attrs) is dict)
show("name clash", lambda: consolidate_attrs(_name="x"))
show("generator arg", lambda: tag_info(Tag("div", (c for c in ["a", "b"]), {"id": "g"})))
show("tags.a", lambda: tag_info(tags.a({"href": "h"}, "txt", {"href": "i"}, href="j")))
