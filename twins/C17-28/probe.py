import re
import sys

import htmltools
from htmltools import HTML, Tag, TagList, div, span, tags, wrap_displayhook_handler

ORIG_HOOK = sys.displayhook
OUT = []


def p(*a):
    print(*a)


def safe_repr(x):
    try:
        r = repr(x)
    except Exception as e:  # pragma: no cover
        return "<repr failed %s>" % type(e).__name__
    # no memory addresses in the output
    return re.sub(r" at 0x[0-9a-fA-F]+", "", r)


def show(t):
    try:
        return str(t).replace("\n", "\\n")
    except Exception as e:
        return "<render failed %s>" % type(e).__name__


class Recorder:
    """A base display hook that records what it is given."""

    def __init__(self, name):
        self.name = name
        self.seen = []

    def __call__(self, value):
        self.seen.append(value)

    def __repr__(self):
        return "Recorder(%s)" % self.name


class Tagif:
    def __init__(self, label):
        self.label = label

    def tagify(self):
        return span("tagified-" + self.label)


class Repr:
    def __init__(self, s):
        self.s = s

    def _repr_html_(self):
        return self.s


class Both:
    log = []

    def tagify(self):
        Both.log.append("tagify")
        return div("both")

    def _repr_html_(self):
        Both.log.append("_repr_html_")
        return "<b>both</b>"


class ReprRaises:
    def _repr_html_(self):
        raise KeyError("boom")


class ReprNonStr:
    def _repr_html_(self):
        return 42


class EqAlways:
    def __eq__(self, other):
        return True

    __hash__ = None


class EqLogs:
    def __init__(self):
        self.log = []

    def __eq__(self, other):
        self.log.append(safe_repr(other))
        return False

    __hash__ = None


class EqRaises:
    def __eq__(self, other):
        raise ZeroDivisionError("eq")

    __hash__ = None


class EqEllipsisOnly:
    def __eq__(self, other):
        return other is Ellipsis

    __hash__ = None


class AttrLogger:
    """Logs the attribute probes made by the isinstance() checks on protocols."""

    def __init__(self, have=()):
        object.__setattr__(self, "_log", [])
        object.__setattr__(self, "_have", have)

    def __getattr__(self, name):
        self._log.append(name)
        if name in self._have:
            if name == "_repr_html_":
                return lambda: "<i>attrlogger</i>"
            if name == "tagify":
                return lambda: span("attrlogger")
        raise AttributeError(name)


class StrSub(str):
    pass


class NoneLike:
    def __eq__(self, other):
        return other is None

    __hash__ = None


def values():
    return [
        ("None", None),
        ("Ellipsis", ...),
        ("str", "hello <&>"),
        ("empty str", ""),
        ("StrSub", StrSub("sub")),
        ("int", 7),
        ("zero", 0),
        ("float", 1.5),
        ("bool", False),
        ("HTML", HTML("<em>x</em>")),
        ("Tag", div("inner", id="i")),
        ("TagList", TagList("a", span("b"))),
        ("empty TagList", TagList()),
        ("Tagifiable", Tagif("t")),
        ("ReprHtml", Repr("<u>r</u>")),
        ("Both", Both()),
        ("ReprNonStr", ReprNonStr()),
        ("ReprRaises", ReprRaises()),
        ("list", ["x", None, span("y")]),
        ("tuple", ("p", 3)),
        ("empty list", []),
        ("dict", {"class": "c"}),
        ("set", {1}),
        ("object", object()),
        ("bytes", b"by"),
        ("EqAlways", EqAlways()),
        ("EqRaises", EqRaises()),
        ("EqEllipsisOnly", EqEllipsisOnly()),
        ("NoneLike", NoneLike()),
        ("lambda", len),
        ("dependency", htmltools.HTMLDependency("dep", "1.0")),
        ("class Tagif", Tagif),
        ("class Repr", Repr),
    ]


def section(title):
    p("=" * 10, title)


# ---------------------------------------------------------------- wrapper alone
section("wrap_displayhook_handler with a recording handler")
for label, v in values():
    rec = Recorder("w")
    w = wrap_displayhook_handler(rec)
    try:
        r = w(v)
        p(label, "->", "ret", repr(r), "seen", [(type(s).__name__, safe_repr(s)) for s in rec.seen],
          "same-object", [s is v for s in rec.seen])
    except Exception as e:
        p(label, "-> EXC", type(e).__name__, e.args, "seen", len(rec.seen))

section("wrapper metadata")
w = wrap_displayhook_handler(print)
p(type(w).__name__, w.__name__, w.__qualname__, w.__module__)
p(w.__closure__ is not None, w.__code__.co_freevars, w.__code__.co_argcount, w.__code__.co_varnames[:1])
p(wrap_displayhook_handler(print) is wrap_displayhook_handler(print))

section("wrapper: handler that raises")


def bad_handler(v):
    raise OverflowError(safe_repr(v))


w = wrap_displayhook_handler(bad_handler)
for label, v in values()[:17]:
    try:
        p(label, "ret", repr(w(v)))
    except Exception as e:
        p(label, "EXC", type(e).__name__, e.args)

section("wrapper: order of protocol attribute probes")
for have in [(), ("tagify",), ("_repr_html_",), ("tagify", "_repr_html_")]:
    a = AttrLogger(have)
    rec = Recorder("a")
    try:
        wrap_displayhook_handler(rec)(a)
        p(have, "log", a._log, "seen", [type(s).__name__ + ":" + (str(s) if isinstance(s, HTML) else "obj") for s in rec.seen])
    except Exception as e:
        p(have, "EXC", type(e).__name__, "log", a._log)

Both.log.clear()
rec = Recorder("b")
wrap_displayhook_handler(rec)(Both())
p("Both log", Both.log, [type(s).__name__ for s in rec.seen])

e = EqLogs()
rec = Recorder("e")
wrap_displayhook_handler(rec)(e)
p("EqLogs log", e.log, "seen", len(rec.seen), rec.seen[0] is e)

section("wrapper: handler not callable / wrapper of wrapper")
try:
    wrap_displayhook_handler(None)("x")
except Exception as ex:
    p("EXC", type(ex).__name__)
p(repr(wrap_displayhook_handler(None)(None)), repr(wrap_displayhook_handler(None)(...)))
rec = Recorder("ww")
ww = wrap_displayhook_handler(wrap_displayhook_handler(rec))
for v in [None, "s", Repr("<q>"), Tagif("z"), ...]:
    ww(v)
p([(type(s).__name__, safe_repr(s)) for s in rec.seen])

# ---------------------------------------------------------------- with blocks
section("with blocks: each value displayed inside a block")
for label, v in values():
    base = Recorder("base")
    sys.displayhook = base
    t = div()
    try:
        with t:
            inner_hook = sys.displayhook
            sys.displayhook("first")
            sys.displayhook(v)
            sys.displayhook("last")
        p(label, "OK", show(t), "| base seen", [s is t for s in base.seen],
          "| restored", sys.displayhook is base, "| prev", t.prev_displayhook)
    except Exception as e:
        p(label, "EXC", type(e).__name__, "|", show(t), "| base seen",
          [s is t for s in base.seen], "| restored", sys.displayhook is base, "| prev", t.prev_displayhook)
    finally:
        sys.displayhook = ORIG_HOOK

section("nesting, order and hook chain")
base = Recorder("base")
sys.displayhook = base
a, b, c, d = div(id="a"), span(id="b"), tags.p(id="c"), tags.ul(id="d")
chain = []
with a:
    ha = sys.displayhook
    chain.append(("a.prev is base", a.prev_displayhook is base))
    sys.displayhook("a1")
    with b:
        hb = sys.displayhook
        chain.append(("b.prev is ha", b.prev_displayhook is ha))
        sys.displayhook("b1")
        with c:
            chain.append(("c.prev is hb", c.prev_displayhook is hb))
            sys.displayhook(None)
            sys.displayhook(Repr("<i>c</i>"))
        chain.append(("after c hook is hb", sys.displayhook is hb, c.prev_displayhook))
        sys.displayhook("b2")
    chain.append(("after b hook is ha", sys.displayhook is ha, b.prev_displayhook))
    with d:
        sys.displayhook(...)
    sys.displayhook("a2")
chain.append(("after a hook is base", sys.displayhook is base, a.prev_displayhook))
sys.displayhook = ORIG_HOOK
for item in chain:
    p(item)
p(show(a))
p("base seen", [s is a for s in base.seen], len(base.seen))
p("b children", len(b.children), "c children", len(c.children), "d children", len(d.children))

section("exceptions inside blocks")
for depth_exc in ["inner", "outer", "display-invalid"]:
    base = Recorder("base")
    sys.displayhook = base
    a, b = div(id="a"), span(id="b")
    try:
        with a:
            ha = sys.displayhook
            sys.displayhook("a1")
            with b:
                sys.displayhook("b1")
                if depth_exc == "inner":
                    raise LookupError("in b")
                if depth_exc == "display-invalid":
                    sys.displayhook(object())
            p("hook after b is ha", sys.displayhook is ha)
            if depth_exc == "outer":
                raise LookupError("in a")
        p(depth_exc, "no exception")
    except Exception as e:
        p(depth_exc, "EXC", type(e).__name__)
    p(" restored", sys.displayhook is base, "a.prev", a.prev_displayhook, "b.prev", b.prev_displayhook)
    p(" a =", show(a), "| base", [s is a for s in base.seen])
    sys.displayhook = ORIG_HOOK

section("exit hands the tag to an enclosing hook that rejects it")
base = Recorder("base")


def rejecting(value):
    base(value)
    raise BufferError("rejected")


sys.displayhook = rejecting
t = div("k")
try:
    with t:
        sys.displayhook("x")
    p("no exception")
except Exception as e:
    p("EXC", type(e).__name__, e.args)
p("restored", sys.displayhook is rejecting, "prev", t.prev_displayhook, "seen", [s is t for s in base.seen], str(t))
# the original exception is replaced by the hook's exception
try:
    with t:
        raise LookupError("body")
except Exception as e:
    p("EXC", type(e).__name__, type(e.__context__).__name__)
p("restored", sys.displayhook is rejecting, "prev", t.prev_displayhook, "seen", [s is t for s in base.seen])
sys.displayhook = ORIG_HOOK

section("re-entering an active tag")
base = Recorder("base")
sys.displayhook = base
t = div(id="t")
u = span(id="u")
try:
    with t:
        h1 = sys.displayhook
        sys.displayhook("one")
        with u:
            h2 = sys.displayhook
            try:
                with t:
                    p("SHOULD NOT HAPPEN")
            except RuntimeError as e:
                p("RuntimeError", e.args)
            p("hook intact", sys.displayhook is h2, "t.prev is base", t.prev_displayhook is base,
              "u.prev is h1", u.prev_displayhook is h1)
            try:
                t.__enter__()
            except RuntimeError as e:
                p("RuntimeError again", len(e.args))
            sys.displayhook("two")
        p("after u", sys.displayhook is h1)
        sys.displayhook("three")
finally:
    p("after t", sys.displayhook is base, t.prev_displayhook, u.prev_displayhook)
    sys.displayhook = ORIG_HOOK
p(show(t), "| base", [s is t for s in base.seen])
# a tag may be entered again after it has exited
sys.displayhook = base
with t:
    sys.displayhook("again")
with t:
    pass
sys.displayhook = ORIG_HOOK
p(show(t), "| base", [s is t for s in base.seen])
p("enter returns", repr(div().__enter__.__call__.__self__.__name__))

section("__enter__/__exit__ return values and direct calls")
base = Recorder("base")
sys.displayhook = base
t = div()
r1 = t.__enter__()
mid = sys.displayhook
r2 = t.__exit__(None, None, None)
p(repr(r1), repr(r2), mid is not base, sys.displayhook is base, base.seen[0] is t)
r3 = t.__enter__()
r4 = t.__exit__(ValueError, ValueError("v"), None)
p(repr(r3), repr(r4), sys.displayhook is base, len(base.seen))
with div() as target:
    p("as-target", repr(target))
sys.displayhook = ORIG_HOOK

section("__exit__ without __enter__")
base = Recorder("base")
sys.displayhook = base
t = div()
try:
    t.__exit__(None, None, None)
    p("no exception")
except Exception as e:
    p("EXC", type(e).__name__, e.args)
p("hook now", repr(sys.displayhook), "prev", t.prev_displayhook, "seen", len(base.seen))
sys.displayhook = ORIG_HOOK

section("sys.displayhook missing or None at entry")
saved = sys.displayhook
del sys.displayhook
t = div()
try:
    try:
        t.__enter__()
        p("no exception")
    except Exception as e:
        p("EXC", type(e).__name__, "prev", t.prev_displayhook, "has hook", hasattr(sys, "displayhook"))
finally:
    sys.displayhook = saved
sys.displayhook = None
t = div()
try:
    t.__enter__()
    p("entered with None hook; prev", t.prev_displayhook, callable(sys.displayhook))
    sys.displayhook("v")
    t.__enter__()
    p("entered twice; prev is wrapper", callable(t.prev_displayhook))
    try:
        t.__enter__()
    except RuntimeError:
        p("third enter RuntimeError")
    try:
        t.__exit__(None, None, None)
    except Exception as e:
        p("exit EXC", type(e).__name__)
    p("children", len(t.children), t.children[0], t.children[1] is t)
    p("prev", t.prev_displayhook, "hook callable", callable(sys.displayhook))
finally:
    sys.displayhook = ORIG_HOOK

section("which append is used, and when it is bound")


class MyTag(Tag):
    def append(self, *args):
        OUT.append(("MyTag.append", args))
        super().append(*args)


base = Recorder("base")
sys.displayhook = base
m = MyTag("my")
with m:
    sys.displayhook("via subclass")
    m.append = lambda *a: OUT.append(("late instance append", a))
    sys.displayhook("after rebinding")
    sys.displayhook(Repr("<x/>"))
sys.displayhook = ORIG_HOOK
p(OUT, show(m))
del OUT[:]

base = Recorder("base")
sys.displayhook = base
t = div()
t.append = lambda *a: OUT.append(("early instance append", a))
with t:
    sys.displayhook("x")
    del t.append
    sys.displayhook(5)
sys.displayhook = ORIG_HOOK
p(OUT, str(t))
del OUT[:]


class NoAppend(Tag):
    @property
    def append(self):
        OUT.append("append looked up; prev set: %r hook is base: %r" % (self.prev_displayhook is not None, sys.displayhook is BASE))
        raise AttributeError("no append")


BASE = Recorder("BASE")
sys.displayhook = BASE
n = NoAppend("n")
try:
    with n:
        p("SHOULD NOT HAPPEN")
except Exception as e:
    p("EXC", type(e).__name__, OUT, "hook is base", sys.displayhook is BASE, "prev is base", n.prev_displayhook is BASE)
sys.displayhook = ORIG_HOOK
del OUT[:]

section("order of side effects seen through __setattr__ / hook identity")


class Spy(Tag):
    def __setattr__(self, name, value):
        if name == "prev_displayhook":
            OUT.append((name, "None" if value is None else "hook", "sys hook is base: %r" % (sys.displayhook is BASE)))
        object.__setattr__(self, name, value)

    def __getattribute__(self, name):
        if name in ("prev_displayhook", "append"):
            OUT.append(("get", name, "sys hook is base: %r" % (sys.displayhook is BASE)))
        return object.__getattribute__(self, name)


class SpyHook:
    def __call__(self, value):
        OUT.append(("base hook called", type(value).__name__, "prev", value.prev_displayhook is None,
                    "sys hook is base: %r" % (sys.displayhook is BASE)))


BASE = SpyHook()
sys.displayhook = BASE
s = Spy("spy")
del OUT[:]
with s:
    OUT.append("body")
    sys.displayhook("v")
sys.displayhook = ORIG_HOOK
for item in OUT:
    p(item)
del OUT[:]

section("copy / equality of a tag around blocks")
from copy import copy

base = Recorder("base")
sys.displayhook = base
t = div("a")
with t:
    cp = copy(t)
    p("copy prev is same", cp.prev_displayhook is t.prev_displayhook, cp == t)
    try:
        with cp:
            pass
    except RuntimeError:
        p("copy of active tag cannot be entered")
p(t == div("a"), t.prev_displayhook, sorted(t.__dict__))
sys.displayhook = ORIG_HOOK

section("done")
p(sys.displayhook is ORIG_HOOK)
