import itertools
from htmltools import HTML, TagList, Tag, tags, div, span, a, p, br, HTMLDependency, head_content
b = tags.b

class R:
    def __init__(self, s): self.s = s
    def _repr_html_(self): return self.s
    def __repr__(self): return "R(%r)" % self.s

class T:
    def tagify(self): return span("tagified")

dep = HTMLDependency("dep", "1.0", source={"subdir": "x"}, script={"src": "x.js"})

def leaves():
    return [
        lambda: "txt",
        lambda: "a<b>&\"c'\nline2",
        lambda: "",
        lambda: HTML("<i>raw&</i>\n<u>x</u>"),
        lambda: R("<em>r\nr</em>"),
        lambda: br(),
        lambda: span(),
        lambda: span("s<"),
        lambda: span("x", b("y"), "z"),
        lambda: div(),
        lambda: div("d&"),
        lambda: div("t", span("u"), div("v")),
        lambda: a(div("blk"), "after", href="h?a=1&b=2"),
        lambda: dep,
        lambda: head_content(tags.title("t")),
        lambda: tags.script("if (a < b && c) {}\nx"),
        lambda: tags.script("a<b", HTML("c<d"), "e&f"),
        lambda: tags.style("a > b {}", "p&q"),
        lambda: tags.pre("l1\nl2", span("k")),
        lambda: TagList("in", span("tl"), div("tl2")),
        lambda: 3,
        lambda: None,
    ]

def show(label, f):
    try:
        out = f()
        print(label, "=>", repr(out), type(out).__name__)
    except Exception as e:
        print(label, "!!", type(e).__name__, str(e))

L = leaves()
fmts = [(0, "\n"), (2, "\n"), (1, "\r\n"), (3, ""), (0, "|")]

# single leaf in each container
for i, mk in enumerate(L):
    for cname, c in [("div", div), ("span", span), ("TagList", TagList)]:
        for ind, eol in fmts:
            show(f"1:{i}:{cname}:{ind}:{eol!r}", lambda: c(mk()).get_html_string(ind, eol))

# pairs and triples of siblings
for n in (2, 3):
    for combo in itertools.product(range(len(L)), repeat=n):
        if n == 3 and (sum(combo) % 7):  # deterministic thinning
            continue
        for cname, c in [("div", div), ("span", span), ("TagList", TagList)]:
            ind, eol = fmts[(sum(combo) + n) % len(fmts)]
            show(f"{n}:{combo}:{cname}:{ind}:{eol!r}",
                 lambda: c(*[L[j]() for j in combo], id="i\"d<", title=HTML("&amp;")).get_html_string(ind, eol)
                 if c is not TagList else c(*[L[j]() for j in combo]).get_html_string(ind, eol))

# TagList-only keyword paths
for combo in itertools.product(range(len(L)), repeat=2):
    for add_ws in (True, False):
        for esc in (True, False):
            show(f"kw:{combo}:{add_ws}:{esc}",
                 lambda: TagList(*[L[j]() for j in combo]).get_html_string(2, "\n", add_ws=add_ws, _escape_strings=esc))

# deep nestings
def nest(kinds, leaf):
    x = leaf
    for k in reversed(kinds):
        x = k(x, "s", x)
    return x
for kinds in itertools.product([div, span, a, p], repeat=3):
    for leaf in ("t\nu", HTML("<x/>"), R("<r/>")):
        for ind, eol in fmts[:3]:
            show(f"nest:{[k.__name__ for k in kinds]}:{leaf!r}:{ind}:{eol!r}",
                 lambda: nest(kinds, leaf).get_html_string(ind, eol))

# other observation points and error cases
show("str", lambda: str(div("a", span("b"), HTML("<c>"), R("<d>"))))
show("repr_html", lambda: div("a", span("b"))._repr_html_())
show("render", lambda: div("a", dep, span("b")).render()["html"])
show("tl-render", lambda: TagList("a", dep, span("b"), "c").render()["html"])
show("untagified", lambda: div(T(), "x").get_html_string())
show("untagified2", lambda: TagList("x", T()).get_html_string())
show("tagified", lambda: div(T(), "x").tagify().get_html_string())
show("void-child", lambda: br("x").get_html_string())
show("void-attr", lambda: tags.img(src="a b&c", alt=HTML("&lt;")).get_html_string(1))
show("noadd_ws", lambda: div("a", div("b"), _add_ws=False).get_html_string())
show("span_add_ws", lambda: span("a", span("b"), _add_ws=True).get_html_string(1))
show("bad-indent", lambda: TagList("a").get_html_string("x"))
show("bad-indent-empty", lambda: TagList().get_html_string("x"))
show("bad-indent-tag", lambda: div("a", "b").get_html_string(1.5))
show("bad-eol", lambda: div("a", "b").get_html_string(0, None))
show("bad-eol2", lambda: div(span("a"), T()).get_html_string(0, None))
show("bad-eol3", lambda: span(span("a"), "b").get_html_string(0, None))
def raw_child():
    t = div("a"); t.children.data.append(5); return t.get_html_string()
show("raw-int-child", raw_child)
def raw_child2():
    t = tags.script("a"); t.children.data.append(5); return t.get_html_string()
show("raw-int-child-script", raw_child2)
def raw_child3():
    t = span(); t.children.data.append(5); return t.get_html_string()
show("raw-int-single", raw_child3)
