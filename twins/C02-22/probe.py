# Probe for refactoring 2: _tagchilds_to_tagnodes (child normalisation)
from htmltools import HTML, HTMLDependency, Tag, TagList, div, span, tags
from htmltools import _core

LOG = []


def show(label, fn):
    try:
        r = fn()
        print(label, "->", type(r).__name__, repr(r))
    except BaseException as e:  # noqa: BLE001
        print(label, "-> EXC", type(e).__name__, str(e))


class MyInt(int):
    def __str__(self):
        LOG.append(("str", int(self)))
        return "<myint %d>" % int(self)


class MyFloat(float):
    def __str__(self):
        LOG.append(("strf", float(self)))
        return "mf&" + float.__repr__(self)


class MyStr(str):
    pass


class Tagi:
    def __init__(self, ret):
        self.ret = ret

    def tagify(self):
        return self.ret

    def __repr__(self):
        return "Tagi(%r)" % (self.ret,)


class Reprish:
    def _repr_html_(self):
        return "<i>raw & html</i>"

    def __repr__(self):
        return "Reprish()"


class Plain:
    def __repr__(self):
        return "Plain()"


dep = HTMLDependency("dep", "1.0")


def describe(nodes):
    return [(type(n).__name__, n if not isinstance(n, HTMLDependency) else "dep") for n in nodes]


inputs = [
    "a<string>&",
    "",
    MyStr("<sub>"),
    [],
    (),
    [None],
    [None, [None, (None,)]],
    ["<a>", "&amp;", ">"],
    [1, 2.5, True, False, -0.0, float("nan"), float("inf"), 10**30, 1e100],
    [MyInt(3), "x", MyInt(4), MyFloat(1.5)],
    [["<b>", [1, ("&", [2.0, None])]], TagList("t<", 7, TagList("u>"))],
    [HTML("<raw>"), div("x<"), dep, Reprish(), Tagi("<t>")],
    [Plain()],
    ["ok", 1, Plain(), MyInt(9), object()],
    [MyInt(1), {"a": 1}, MyInt(2)],
    [b"bytes"],
    [{1, 2}],
    [{"class": "x"}],
    [1 + 2j],
    [lambda: 1],
    [range(3)],
    (i for i in ["gen<", 1, None, [2, "&"]]),
    iter(["it>", 3.0]),
    {"k<": 1},
    range(3),
    5,
    None,
    3.5,
    HTML("<i>chars</i>"),
    TagList("<x>", 1),
    div("child<", 2),
]

for i, x in enumerate(inputs):
    LOG.clear()
    label = "in[%d] %s" % (i, type(x).__name__)

    def run():
        res = _core._tagchilds_to_tagnodes(x)
        return describe(res)

    show(label, run)
    print("   log:", LOG)

# the result is a fresh plain list, the input is untouched
src = ["<a>", 1, [2, None]]
out = _core._tagchilds_to_tagnodes(src)
print(type(out).__name__, out is src, src, out)
tl = TagList("<a>", 1)
out = _core._tagchilds_to_tagnodes(tl)
print(type(out).__name__, out is tl.data, out, tl.data)
out.append("zzz")
print(tl.data)

# through the public API: constructor, append, extend, insert, +, +=, radd
def build():
    t = TagList("<a>", [1, ["&", (2.5, None)]])
    t.append("<app>", 3, [None, "x>"])
    t.extend(["<ext>", 4.0, ("&&",)])
    t.insert(0, "<ins>")
    t.insert(2, [5, "<ins2>", None])
    t.insert(-1, 6)
    t += ["<iadd>", 7]
    t = t + "<add-str>"
    t = t + ["<add-list>", 8]
    t = "<radd-str>" + t
    t = ["<radd-list>", 9] + t
    return t


t = build()
print([type(c).__name__ for c in t])
print(list(t))
print(str(t))
d = div(t, "<tail>", 10, True, None, [None], class_="c")
print(str(d))
d.append("<later>", 11)
d.extend([12.5, "&later"])
d.insert(0, ["<first>", 0])
print(str(d))
print(str(span(MyInt(5), MyFloat(2.0), MyStr("<s>"))))

for bad in [Plain(), b"b", {"a"}, 1j, object]:
    show("TagList(%s)" % type(bad).__name__, lambda: TagList("ok", bad))
    show("div(%s)" % type(bad).__name__, lambda: div("ok", [1, [bad]]))
    show("append(%s)" % type(bad).__name__, lambda: TagList("ok").append(bad))
    show("extend(%s)" % type(bad).__name__, lambda: TagList("ok").extend([bad]))
    show("insert(%s)" % type(bad).__name__, lambda: TagList("ok").insert(0, bad))

# a failed mutation leaves the list unchanged
t = TagList("keep<")
try:
    t.extend(["new", Plain()])
except TypeError as e:
    print("EXC", e)
print(list(t))

# tagify expansion goes through the same normalisation
show("tagify", lambda: str(TagList(Tagi(TagList("<x>", 1, Tagi("<y>"))), "z").tagify()))
show("tagify div", lambda: str(div(Tagi(TagList("<x>", 1.5)), Tagi("&s")).tagify()))
show("render", lambda: div(Tagi(TagList("<x>", 1.5)), Tagi("&s")).render()["html"])
