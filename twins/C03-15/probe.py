# Probe for refactoring 5: Tag.__init__ and consolidate_attrs (splitting positional
# arguments into attribute dicts and children), and the attribute output that results.
import collections
import copy
import types
from htmltools import HTML, Tag, TagList, div, span, tags, consolidate_attrs, HTMLDependency
from htmltools._core import TagAttrDict


def show(label, fn):
    try:
        out = fn()
        print(label, "=>", type(out).__name__, repr(out))
    except Exception as e:  # noqa: BLE001
        print(label, "=> EXC", type(e).__name__)


def state(t):
    return (
        str(t),
        [(k, type(v).__name__, str(v)) for k, v in t.attrs.items()],
        [type(c).__name__ + ":" + str(c) for c in t.children],
        type(t.attrs).__name__,
        type(t.children).__name__,
        t.add_ws,
    )


class DictSub(dict):
    pass


class MyMapping(collections.abc.Mapping):
    def __init__(self, d):
        self.d = d

    def __getitem__(self, k):
        return self.d[k]

    def __iter__(self):
        return iter(self.d)

    def __len__(self):
        return len(self.d)


NASTY = "a&<>\"'\r\nz"

CASES = {
    "empty": lambda f: f(),
    "only kwargs": lambda f: f(id="i", class_=NASTY, hidden=True, x=None, y=False, n=3),
    "only dict": lambda f: f({"id": "i", "class": NASTY}),
    "dict then kids": lambda f: f({"class": "a"}, "k1", span("k2")),
    "kids then dict": lambda f: f("k1", span("k2"), {"class": "a"}),
    "interleaved": lambda f: f("k1", {"class": "a"}, "k2", {"class": HTML("<b>")}, "k3", {"id": "x\n"}, class_="kw'"),
    "merge order dicts before kwargs": lambda f: f({"class": "d1"}, {"class": "d2"}, class_="kw"),
    "HTML + plain": lambda f: f({"title": HTML("<raw \"q\">")}, title=NASTY),
    "plain + HTML": lambda f: f({"title": NASTY}, title=HTML("<raw \"q\">")),
    "empty dicts": lambda f: f({}, {}, "kid", {}),
    "dict subclass": lambda f: f(DictSub(a="1<"), "kid"),
    "OrderedDict": lambda f: f(collections.OrderedDict([("b_", "2"), ("a_b", "1")]), "kid"),
    "defaultdict": lambda f: f(collections.defaultdict(list, {"a": "x"}), "kid"),
    "TagAttrDict arg": lambda f: f(TagAttrDict(a="1", b=HTML("&")), {"a": "2"}),
    "other tag's attrs": lambda f: f(div(class_="from-other", id=HTML("<i>")).attrs, "kid"),
    "Counter": lambda f: f(collections.Counter("aab")),
    "mappingproxy is a child": lambda f: f(types.MappingProxyType({"a": "1"})),
    "custom Mapping is a child": lambda f: f(MyMapping({"a": "1"})),
    "UserDict is a child": lambda f: f(collections.UserDict({"a": "1"})),
    "None kids dropped": lambda f: f(None, {"a": "1"}, None, "k"),
    "nested lists": lambda f: f(["a", ["b", {"not": "attrs"}]], {"c": "1"}),
    "list containing dict": lambda f: f([{"x": "1"}]),
    "tuple kids": lambda f: f(("a", None, span("b")), {"c": "1"}),
    "TagList kid": lambda f: f(TagList("a", span("b")), {"c": "1"}),
    "numbers": lambda f: f(1, 2.5, {"n": 1}, {"n": 2.5}, n=True),
    "bool child": lambda f: f(True, {"a": "1"}),
    "HTML kid": lambda f: f(HTML("<b>x</b>"), {"a": HTML("<b>")}),
    "dependency kid": lambda f: f(HTMLDependency("d", "1.0"), {"a": "1"}),
    "bad child": lambda f: f(object(), {"a": "1"}),
    "bad child after bad attr": lambda f: f(object(), {"a": [1]}),
    "bad attr value": lambda f: f("kid", {"a": [1]}),
    "bad attr name": lambda f: f("kid", {1: "a"}),
    "bad attr name, dropped": lambda f: f("kid", {1: None}),
    "bad kwarg value": lambda f: f("kid", a={"x": 1}),
    "set child": lambda f: f({"a", }),
    "add_ws False": lambda f: f({"a": "1"}, "k", _add_ws=False),
    "add_ws True": lambda f: f({"a": "1"}, "k", _add_ws=True),
    "add_ws bad": lambda f: f({"a": "1"}, "k", _add_ws="yes"),
    "add_ws None": lambda f: f({"a": "1"}, "k", _add_ws=None),
    "name-like kwargs": lambda f: f({"_name": "x"}, name="n", _class="c"),
}

FUNCS = {
    "Tag": lambda *a, **k: state(Tag("mytag", *a, **k)),
    "div": lambda *a, **k: state(div(*a, **k)),
    "span": lambda *a, **k: state(span(*a, **k)),
    "input": lambda *a, **k: state(tags.input(*a, **k)),
    "script": lambda *a, **k: state(tags.script(*a, **k)),
}


def cons(*a, **k):
    attrs, children = consolidate_attrs(*a, **k)
    return (
        type(attrs).__name__,
        [(key, type(v).__name__, str(v)) for key, v in attrs.items()],
        type(children).__name__,
        [type(c).__name__ for c in children],
        [c is orig for c, orig in zip(children, [x for x in a if not isinstance(x, dict)])],
        len(children),
    )


for cname, case in CASES.items():
    for fname, f in FUNCS.items():
        show(f"{fname} / {cname}", lambda: case(f))
    show(f"consolidate / {cname}", lambda: case(cons))

# consolidate_attrs details
a, c = consolidate_attrs({"class": "x"}, "kid", class_="y")
show("consolidate result types", lambda: (type(a), type(c)))
show("consolidate fresh lists", lambda: consolidate_attrs("k")[1] is not consolidate_attrs("k")[1])
show("consolidate positional name clash", lambda: consolidate_attrs("k", _name="x"))
show("consolidate round trip", lambda: (lambda at, ch: str(div(at, *ch)))(*consolidate_attrs({"title": NASTY}, "kid", span("s"), title=HTML("<&>"), id="i\n")))
show("consolidate does not mutate args", lambda: (lambda d: (consolidate_attrs(d, x="2"), d))({"x": "1"}))

# Tag does not keep references to / mutate the dicts it was given
d = {"class": "a", "data_x_": NASTY}
t = div(d, d, class_="b")
show("same dict twice", lambda: state(t))
show("arg dict untouched", lambda: d)
t.attrs["new"] = "1"
show("arg dict still untouched", lambda: d)
show("copy of constructed", lambda: state(copy.copy(t)))
show("tagify of constructed", lambda: state(t.tagify()))
show("eq", lambda: (div(d, "k") == div("k", d), div(d, "k") == div(d, "j")))
show("no name", lambda: Tag())
show("name only", lambda: state(Tag("x")))
show("dict as name", lambda: str(Tag({"a": 1})))
