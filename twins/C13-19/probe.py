# Probe for HTMLDependency.as_html_tags / as_dict (the dependency markup put in <head>).
import htmltools as ht
from htmltools import HTMLDependency, HTMLDocument, HTMLTextDocument, TagList, Tag, div, tags, HTML, head_content


def run(label, f):
    try:
        print(label, "->", f())
    except BaseException as e:  # noqa
        print(label, "!!", type(e).__name__, str(e)[:140])


def mk():
    return [
        HTMLDependency("a", "1.0"),
        HTMLDependency("a", "1.0.1", source={"subdir": "x"}, script={"src": "a.js"}),
        HTMLDependency("b", "2.1.3", source={"href": "https://x/y/"}, stylesheet=[{"href": "b.css"}, {"href": "c d.css", "media": "print", "rel": "alternate"}],
                       script=[{"src": "s1.js", "async": ""}, {"src": "sub/s 2.js", "type": "module"}], meta=[{"name": "m1", "content": "1"}, {"name": "m2", "content": "<&>"}]),
        HTMLDependency("c", "0.1", head="<script>alert(1)</script>"),
        HTMLDependency("d", "3", meta={"name": "viewport", "content": "w", "class_": "k", "data_x": "y"}, all_files=True,
                       head=TagList(tags.title("T"), HTML("<!-- c -->"), HTMLDependency("nested", "1", script={"src": "n.js"}))),
        HTMLDependency("e", "1", source={"package": "htmltools", "subdir": "lib"}, script=[{"src": "e.js", "defer": ""}]),
        HTMLDependency("f", "1", source={"package": None, "subdir": "rel/dir"}, stylesheet={"href": "/abs.css"}, script={"src": "/abs.js"}),
        HTMLDependency("g", "1", head=TagList()),
        HTMLDependency("h", "1", head=div("x", class_="k")),
        head_content(tags.title("</title>"), "txt"),
        HTMLDependency("i", "1", script={"src": "i.js", "_add_ws": False}),  # type: ignore
        HTMLDependency("j", "1", meta={"name": "n", "content": "c", "children": "ch"}),  # type: ignore
        HTMLDependency("k", "1", script={"src": "k.js", "integrity": None, "crossorigin": True, "nomodule": False}),  # type: ignore
    ]


KW = ({}, {"lib_prefix": None}, {"lib_prefix": ""}, {"lib_prefix": "L/x"}, {"include_version": False}, {"lib_prefix": "p", "include_version": False})


def strip_source(dct):
    return dct


for i, d in enumerate(mk()):
    for kw in KW:
        def go():
            tl = d.as_html_tags(**kw)
            return (
                type(tl).__name__, len(tl), [type(x).__name__ for x in tl],
                [(x.name, dict(x.attrs), len(x.children)) if isinstance(x, Tag) else repr(x) for x in tl],
                repr(tl.get_html_string()),
            )
        if i == 5 and "lib_prefix" in kw and False:
            continue
        run(f"dep{i} tags {kw!r}", go)
        run(f"dep{i} dict {kw!r}", lambda: d.as_dict(**kw))
    run(f"dep{i} str", lambda: repr(str(d)))
    run(f"dep{i} in-div", lambda: repr(str(div(d))))

# as_dict / as_html_tags do not modify the dependency, and return fresh item dicts.
for i, (d, e) in enumerate(zip(mk(), mk())):
    a = d.as_dict()
    d.as_html_tags()
    for lst in (a["script"], a["stylesheet"]):
        for item in lst:
            item["poke"] = "1"
    print(i, d == e, d.as_dict() == e.as_dict(), a["meta"] is d.meta)

# Errors: positional arguments, items that are invalid Tag keyword arguments, broken state.
run("positional", lambda: mk()[1].as_html_tags("lib"))  # type: ignore
bad = mk()[2]
bad.meta.append({"name": "x", "content": "y", 5: "z"})  # type: ignore
run("non-str key in meta", lambda: bad.as_html_tags())
bad = mk()[2]
bad.script.insert(0, {"src": "ok.js", 5: "z"})  # type: ignore
run("non-str key in script", lambda: bad.as_html_tags())
bad = mk()[2]
bad.stylesheet.append({"rel": "x"})  # type: ignore
run("stylesheet without href", lambda: bad.as_html_tags())
bad = mk()[2]
bad.script.append({"type": "x"})  # type: ignore
run("script without src", lambda: bad.as_dict())
bad = mk()[2]
bad.script[0]["src"] = 5  # type: ignore
run("int src", lambda: bad.as_dict())
bad = mk()[2]
bad.head = "plain str"  # type: ignore
run("str head dict", lambda: bad.as_dict())
run("str head tags", lambda: bad.as_html_tags().get_html_string())
bad = mk()[2]
bad.meta = None  # type: ignore
run("None meta", lambda: bad.as_html_tags())
bad = mk()[2]
bad.meta = ({"name": "t", "content": "u"},)  # type: ignore
run("tuple meta", lambda: bad.as_html_tags().get_html_string())
bad = mk()[2]
bad.source = {"package": "no_such_pkg_zz", "subdir": "s"}
run("bad package", lambda: type(bad.as_html_tags()).__name__)
bad = mk()[2]
bad.source = {}
run("empty source", lambda: bad.as_html_tags())

# The head markup of both document classes.
D = mk()
for pick in ([1, 2, 3], [4], [5, 6, 12], [0, 7, 8, 9], []):
    ds = [D[i] for i in pick]
    for kw in ({}, {"lib_prefix": None}, {"lib_prefix": "q", "include_version": False}):
        run(f"HTMLDocument {pick} {kw}", lambda: repr(HTMLDocument(div("x", *ds)).render(**kw)["html"]))
        run(f"HTMLTextDocument {pick} {kw}", lambda: repr(HTMLTextDocument("<head>##</head>##", list(ds), "##").render(**kw)["html"]))

old = ht.html_dependency_render_mode
ht.html_dependency_render_mode = "json"
try:
    txt = str(div("x", *[D[i] for i in (1, 2, 3, 4, 5)]))
finally:
    ht.html_dependency_render_mode = old
r = HTMLTextDocument("<head>##</head>" + txt, deps_replace_pattern="##").render()
print(repr(r["html"]), r["dependencies"])
