"""Probe for refactoring 1: __copy__ of Tag / HTMLDocument / JSXTag (shared helper)."""
import copy

import htmltools as ht
from htmltools import HTML, HTMLDependency, HTMLDocument, Tag, TagList, div, span, tags
from htmltools._jsx import JSXTag, jsx, jsx_tag_create


def show(label, fn):
    try:
        res = fn()
        print(label, "=>", repr(res))
    except Exception as e:  # noqa: BLE001
        print(label, "=> EXC", type(e).__name__, str(e))


def dump(x, depth=0):
    """Structural dump that does not go through __copy__/render."""
    pad = "  " * depth
    if isinstance(x, Tag):
        out = [f"{pad}{type(x).__name__}<{x.name}> ws={x.add_ws} attrs={dict(x.attrs)!r} keys={sorted(x.__dict__)}"]
        for c in x.children:
            out.append(dump(c, depth + 1))
        return "\n".join(out)
    if isinstance(x, JSXTag):
        out = [f"{pad}JSXTag<{x.name}> attrs={ {k: type(v).__name__ for k, v in x.attrs.items()} } keys={sorted(x.__dict__)}"]
        for c in x.children:
            out.append(dump(c, depth + 1))
        return "\n".join(out)
    if isinstance(x, TagList):
        out = [f"{pad}{type(x).__name__}[{len(x)}]"]
        for c in x:
            out.append(dump(c, depth + 1))
        return "\n".join(out)
    if isinstance(x, HTMLDependency):
        return f"{pad}DEP {x.name} {x.version} {x.script} {x.stylesheet} {x.meta}"
    return f"{pad}{type(x).__name__}:{str(x)!r}"


dep = HTMLDependency("a", "1.0", source={"subdir": "x"}, script={"src": "a.js"})


class MyTag(Tag):
    def __init__(self, *args, **kwargs):
        super().__init__("mytag", *args, **kwargs)
        self._extra = ["e1", "e2"]
        self._extra_dict = {"k": [1]}


class Slotted(Tag):
    extra_class_level = ["shared"]


def sharing(a, b):
    """Which instance fields are shared (same object) between a and its copy b."""
    res = {}
    for k in a.__dict__:
        res[k] = a.__dict__[k] is b.__dict__[k]
    return res


cases = {
    "empty_div": div(),
    "div_kids": div("a", span("b", class_="x"), dep, HTML("<i>"), id="i", _add_ws=False),
    "nested": div(div(div("deep")), TagList("x", "y")),
    "mytag": MyTag("c", id="q"),
    "slotted": Slotted("s", "kid"),
    "void": tags.br(),
    "script": tags.script("a<b"),
}

for name, t in cases.items():
    print("=== Tag case", name)
    before = dump(t)
    cp = copy.copy(t)
    print("type same:", type(cp) is type(t), "is not:", cp is not t)
    print("dict keys order:", list(cp.__dict__) == list(t.__dict__), list(cp.__dict__))
    print("sharing:", sharing(t, cp))
    print("eq:", cp == t, t == cp)
    print("children elt identity:", [a is b for a, b in zip(t.children, cp.children)])
    print(dump(cp))
    # mutate the copy, original unaffected
    cp.children.append("ZZ")
    cp.attrs["data-new"] = "1"
    cp.add_class("kls")
    print("after mutation orig unchanged:", dump(t) == before)
    print("neq after mutation:", cp == t)
    # copy of a copy
    cp2 = copy.copy(cp)
    print("cp2 eq cp:", cp2 == cp, "str eq:", str(cp2) == str(cp))
    print(str(t))

# subclass private fields are shallow-copied
m = MyTag("c")
mc = copy.copy(m)
print("extra is:", m._extra is mc._extra, m._extra == mc._extra)
print("extra_dict is:", m._extra_dict is mc._extra_dict, "inner is:", m._extra_dict["k"] is mc._extra_dict["k"])
mc._extra.append("e3")
print(m._extra, mc._extra)

# ad-hoc attributes set on instances are carried too
d = div("x")
d.custom = {"a": 1}
d.num = 3
d.none = None
dc = copy.copy(d)
print("custom:", dc.custom, dc.custom is d.custom, dc.num, dc.none, list(dc.__dict__))

# context manager state field
d = div("x")
print("prev_displayhook:", copy.copy(d).prev_displayhook)

# HTMLDocument
print("=== HTMLDocument")
doc = HTMLDocument(div("a", dep), "txt", lang="en", class_="c")
dc = copy.copy(doc)
print(type(dc) is HTMLDocument, dc is not doc, list(dc.__dict__))
print("sharing:", sharing(doc, dc))
print("content eq:", dc._content == doc._content, "attrs eq:", dc._html_attr_args == doc._html_attr_args)
r1 = doc.render()
dc.append(span("more"))
dc._html_attr_args["lang"] = "fr"
r2 = doc.render()
print("orig render unchanged:", r1 == r2)
print(r2["html"])
print(dc.render()["html"])
print([repr(x) for x in dc.render()["dependencies"]])


class MyDoc(HTMLDocument):
    def __init__(self, *a, **k):
        super().__init__(*a, **k)
        self.tagline = ["t"]


md = MyDoc("x")
mdc = copy.copy(md)
print(type(mdc).__name__, mdc.tagline, mdc.tagline is md.tagline, list(mdc.__dict__))
show("empty doc copy", lambda: copy.copy(HTMLDocument()).render()["html"])

# JSXTag
print("=== JSXTag")
Foo = jsx_tag_create("Foo")
j = Foo(div("k", dep), "s", a=1, b=[1, 2], c={"x": div()}, d=jsx("()=>1"), style="color:red")
jc = copy.copy(j)
print(type(jc) is JSXTag, jc is not j, list(jc.__dict__))
print("sharing:", sharing(j, jc))
print("attr value identity:", {k: j.attrs[k] is jc.attrs[k] for k in j.attrs})
print("children identity:", [a is b for a, b in zip(j.children, jc.children)])
s_before = str(j)
jc.append("extra")
jc.attrs["zz"] = 1
print("orig unchanged:", str(j) == s_before, dump(j) != dump(jc))
print(str(jc))
print(str(div(j, jc)))
show("tagify twice equal", lambda: j.tagify() == j.tagify())
show("deepcopy tag eq", lambda: copy.deepcopy(cases["nested"]) == cases["nested"])

# tagify uses __copy__
t = div("a", span("b"), dep)
tt = t.tagify()
print("tagify sharing:", sharing(t, tt), tt == t, tt.tagify() == tt)
print("tagify child identity:", [a is b for a, b in zip(t.children, tt.children)])

# objects lacking instance dict entries: __new__ based construction
raw = Tag.__new__(Tag)
show("copy raw Tag", lambda: copy.copy(raw).__dict__)
rawdoc = HTMLDocument.__new__(HTMLDocument)
show("copy raw doc", lambda: copy.copy(rawdoc).__dict__)


class Uncopyable:
    def __copy__(self):
        raise ValueError("no copy")


d = div()
d.bad = Uncopyable()
show("uncopyable field", lambda: copy.copy(d))
show("uncopyable field tagify", lambda: d.tagify())
