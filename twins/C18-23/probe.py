from collections import OrderedDict, defaultdict

from htmltools import HTML, HTMLDependency, HTMLDocument, TagList, div, head_content, tags


def show(label, fn):
    try:
        out = fn()
        print(label, "->", repr(out))
    except Exception as e:  # noqa: BLE001
        print(label, "-> EXC", type(e).__name__, str(e)[:200])


def fields(d):
    return (
        d.name,
        str(d.version),
        d.source,
        type(d.script).__name__,
        d.script if isinstance(d.script, (list, tuple)) else "<other>",
        type(d.stylesheet).__name__,
        d.stylesheet if isinstance(d.stylesheet, (list, tuple)) else "<other>",
        type(d.meta).__name__,
        d.meta if isinstance(d.meta, (list, tuple)) else "<other>",
        d.all_files,
        None if d.head is None else (type(d.head).__name__, str(d.head)),
    )


def mk(**kw):
    return HTMLDependency("nm", "1.2.3", **kw)


# Normalisation of script / stylesheet / meta
show("defaults", lambda: fields(mk()))
show("nones", lambda: fields(mk(script=None, stylesheet=None, meta=None)))
show("dicts", lambda: fields(mk(script={"src": "a.js"}, stylesheet={"href": "a.css"}, meta={"name": "n", "content": "c"})))
show(
    "lists",
    lambda: fields(
        mk(
            script=[{"src": "a.js"}, {"src": "b.js", "type": "module", "async": ""}],
            stylesheet=[{"href": "a.css"}, {"href": "b.css", "rel": "preload", "as": "style"}, {"media": "print", "href": "c.css"}],
            meta=[{"name": "n", "content": "c"}, {"content": "c2", "name": "n2", "charset": "x"}],
        )
    ),
)
show("empty-lists", lambda: fields(mk(script=[], stylesheet=[], meta=[])))
show("empty-dict-script", lambda: fields(mk(script={})))
show("empty-dict-stylesheet", lambda: fields(mk(stylesheet={})))
show("empty-dict-meta", lambda: fields(mk(meta={})))
show("tuples", lambda: fields(mk(script=({"src": "a.js"},), stylesheet=({"href": "a.css"},), meta=())))
show("ordered-dict", lambda: fields(mk(stylesheet=OrderedDict([("media", "all"), ("href", "a.css")]))))
show("defaultdict", lambda: fields(mk(stylesheet=[defaultdict(str, href="a.css")])))
show("rel-empty-string-kept", lambda: fields(mk(stylesheet={"href": "a.css", "rel": ""})))
show("rel-none-kept", lambda: fields(mk(stylesheet={"href": "a.css", "rel": None})))

# Generators are consumed by validation and stored as they are
g = mk(script=({"src": s} for s in ["a.js"]), stylesheet=({"href": s} for s in ["a.css"]))
show("generators", lambda: (fields(g), list(g.script), list(g.stylesheet)))

# Object identity / mutation of what the caller passed
sc_list = [{"src": "a.js"}]
st_dict = {"href": "a.css"}
st_list = [{"href": "b.css"}, {"href": "c.css", "rel": "alternate stylesheet"}]
me_dict = {"name": "n", "content": "c"}
d1 = mk(script=sc_list, stylesheet=st_dict, meta=me_dict)
d2 = mk(stylesheet=st_list)
show("identity", lambda: (d1.script is sc_list, d1.stylesheet[0] is st_dict, d1.meta[0] is me_dict, d2.stylesheet is st_list))
show("caller-objects-after", lambda: (sc_list, st_dict, st_list, me_dict))

# Validation errors, and which one comes first
show("script-str", lambda: mk(script="a.js"))
show("script-list-of-str", lambda: mk(script=["a.js"]))
show("script-missing-src", lambda: mk(script=[{"src": "ok.js"}, {"href": "a.js"}]))
show("stylesheet-missing-href", lambda: mk(stylesheet={"src": "a.css"}))
show("stylesheet-int", lambda: mk(stylesheet=5))
show("meta-missing-content", lambda: mk(meta={"name": "n"}))
show("meta-missing-name", lambda: mk(meta=[{"content": "c"}]))
show("meta-none-item", lambda: mk(meta=[None]))
show("script-before-stylesheet", lambda: mk(script={"x": 1}, stylesheet={"y": 2}, meta={"z": 3}))
show("stylesheet-before-meta", lambda: mk(stylesheet={"y": 2}, meta={"z": 3}))
show("source-before-script", lambda: mk(source="dir", script={"x": 1}))
show("source-missing-keys", lambda: mk(source={"package": "p"}, script={"x": 1}))
bad_st = {"src": "oops"}
show("no-rel-added-on-invalid", lambda: mk(stylesheet=[{"href": "ok.css"}, bad_st]))
show("no-rel-added-on-invalid-after", lambda: bad_st)
show("bad-version", lambda: HTMLDependency("nm", "not a version", script={"x": 1}))


# A subclass hooking validation still sees every call, in order
class Loud(HTMLDependency):
    def _validate_dicts(self, ld, req_attr):
        print("  validate", req_attr, type(ld).__name__)
        super()._validate_dicts(ld, req_attr)


show("subclass-hook", lambda: fields(Loud("l", "1", script={"src": "s.js"}, meta=[{"name": "a", "content": "b"}])))
show("subclass-hook-fail", lambda: fields(Loud("l", "1", stylesheet=[{}], meta=[{"name": "a", "content": "b"}])))

# head= handling and head_content names
show("head-none", lambda: fields(mk(head=None)))
show("head-str", lambda: fields(mk(head="<b>&</b>")))
show("head-html", lambda: fields(mk(head=HTML("<b>&</b>"))))
show("head-tag", lambda: fields(mk(head=tags.title("a&b"))))
show("head-taglist", lambda: fields(mk(head=TagList("a<", tags.meta(name="x")))))
show("head-list", lambda: fields(mk(head=["a<", None, [tags.meta(name="x"), 3]])))
show("head-bad", lambda: fields(mk(head=object())))
show("head_content", lambda: fields(head_content(tags.title("a&b"), "x", [1, 2.5, None])))
show("head_content-equal-names", lambda: head_content("x", "y").name == head_content(TagList("x", "y")).name)
show("head_content-different-names", lambda: head_content("x", "y").name == head_content("xy").name)

# End to end
full = mk(
    source={"subdir": "www"},
    script=[{"src": "a b.js", "defer": ""}],
    stylesheet=[{"href": "a.css"}, {"media": "print", "href": "p.css", "rel": "alternate"}],
    meta={"name": "n", "content": "<c>"},
    head="<!--h-->",
)
show("as_dict", lambda: full.as_dict())
show("as_dict-opts", lambda: full.as_dict(lib_prefix=None, include_version=False))
show("as_html_tags", lambda: str(full.as_html_tags()))
show("serialize", lambda: str(full.serialize_to_script_json()))
show("doc", lambda: HTMLDocument(div(full, d1, head_content(tags.title("t")))).render()["html"])
show("eq", lambda: (mk(script={"src": "a.js"}) == mk(script=[{"src": "a.js"}]), mk() == mk(script=[{"src": "a.js"}])))
