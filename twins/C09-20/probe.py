import copy
import sys

from htmltools import (
    HTML,
    HTMLDependency,
    HTMLDocument,
    MetadataNode,
    Tag,
    TagList,
    div,
    span,
    tags,
)

LOG = []


def show(label, fn):
    """Run fn, print repr of result or the exception type/message, plus call log."""
    del LOG[:]
    try:
        res = fn()
        out = repr(res)
    except BaseException as e:  # noqa: BLE001
        out = "EXC " + type(e).__name__ + ": " + str(e)
    print("## " + label)
    print(out)
    if LOG:
        print("   log:", LOG)


def dep(name, version="1.0"):
    return HTMLDependency(name, version, source={"subdir": "."}, script={"src": name + ".js"})


def rendered(x):
    r = x.render()
    return (type(r["html"]).__name__, str(r["html"]), [(d.name, str(d.version)) for d in r["dependencies"]])


def doc_rendered(*args, **kwargs):
    r = HTMLDocument(*args, **kwargs).render()
    return (type(r["html"]).__name__, str(r["html"]), [(d.name, str(d.version)) for d in r["dependencies"]])


class Tf:
    """Tagifiable returning a fixed value; logs the call order."""

    def __init__(self, name, value):
        self.name = name
        self.value = value

    def tagify(self):
        LOG.append("tagify:" + self.name)
        v = self.value
        return v() if callable(v) else v


class TfRepr(Tf):
    """Tagifiable that is also self-rendering."""

    def _repr_html_(self):
        LOG.append("repr_html:" + self.name)
        return "<i>" + self.name + "</i>"


class OnlyRepr:
    def __init__(self, name, value=None):
        self.name = name
        self.value = value

    def _repr_html_(self):
        LOG.append("repr_html:" + self.name)
        return "<b>" + self.name + "</b>" if self.value is None else self.value


class TfMeta(MetadataNode):
    """Both a MetadataNode and Tagifiable."""

    def __init__(self, name, value):
        self.name = name
        self.value = value

    def tagify(self):
        LOG.append("tagify:" + self.name)
        return self.value

    def __copy__(self):
        LOG.append("copy:" + self.name)
        return TfMeta(self.name + "'", self.value)


class Meta(MetadataNode):
    def __init__(self, name):
        self.name = name

    def __copy__(self):
        LOG.append("copy:" + self.name)
        return Meta(self.name + "'")

    def __repr__(self):
        return "Meta(" + self.name + ")"


class Boom:
    def __init__(self, name, exc):
        self.name = name
        self.exc = exc

    def tagify(self):
        LOG.append("tagify:" + self.name)
        raise self.exc


def raw(tl):
    """Structural dump of a TagList / Tag without going through render()."""
    if isinstance(tl, Tag):
        return ("Tag", tl.name, dict(tl.attrs), raw(tl.children))
    if isinstance(tl, TagList):
        return [raw(c) for c in tl.data]
    if isinstance(tl, HTMLDependency):
        return ("Dep", tl.name, str(tl.version))
    if isinstance(tl, (Tf, TfMeta, OnlyRepr, Boom)):
        return (type(tl).__name__, tl.name)
    if isinstance(tl, HTML):
        return ("HTML", tl.as_string())
    if tl is None or isinstance(tl, (str, int, float, list, tuple, dict)):
        return tl
    return "<" + type(tl).__name__ + ">"


# ------------------------------------------- HTMLDocument._gen_html_tag_tree
import os
import tempfile


class NameEq:
    """A tag name object whose comparisons are logged."""

    def __init__(self, s):
        self.s = s

    def __eq__(self, other):
        LOG.append("eq:%s==%s" % (self.s, other))
        return self.s == other

    def __ne__(self, other):
        LOG.append("ne:%s!=%s" % (self.s, other))
        return self.s != other

    def __hash__(self):
        return hash(self.s)

    def __str__(self):
        return self.s

    def __add__(self, other):
        return self.s + other

    def __radd__(self, other):
        return other + self.s


def doc(*args, **kwargs):
    render_kwargs = kwargs.pop("_render", {})
    r = HTMLDocument(*args, **kwargs).render(**render_kwargs)
    return (type(r["html"]).__name__, str(r["html"]), [(d.name, str(d.version)) for d in r["dependencies"]])


html_tag = lambda *a, **k: Tag("html", *a, **k)
head_tag = lambda *a, **k: Tag("head", *a, **k)
body_tag = lambda *a, **k: Tag("body", *a, **k)

show("empty", lambda: doc())
show("empty with attrs", lambda: doc(lang="en", class_="k"))
show("only None", lambda: doc(None, [None]))
show("fragment str", lambda: doc("hello <b>"))
show("fragment tags", lambda: doc(div("a"), span("b"), dep("d1")))
show("single div", lambda: doc(div("a", dep("d1")), lang="fr"))
show("single dependency", lambda: doc(dep("only")))
show("single tagifiable -> str", lambda: doc(Tf("t", "S")))
show("single self-rendering", lambda: doc(OnlyRepr("r")))
show("un-expanded inside", lambda: doc(div(Tf("t", TagList("ok", Tf("never", "x"))))))

# <html> given directly
show("html direct", lambda: doc(html_tag(head_tag(tags.title("T")), body_tag("B", dep("dh"))), lang="en"))
show("html direct no head", lambda: doc(html_tag(body_tag("B")), data_x="1"))
show("html direct empty", lambda: doc(html_tag()))
show("html with own attrs", lambda: doc(html_tag(body_tag("B"), lang="de", class_="a"), lang="en", class_="b"))
show("html with tagifiable inside", lambda: doc(html_tag(head_tag(Tf("hd", tags.meta(name="m"))), body_tag(Tf("bd", TagList(span("s"), dep("db")))))))
show("html from tagifiable", lambda: doc(Tf("h", lambda: html_tag(body_tag("B", Tf("inner", "never")))), lang="en"))
show("html from tagifiable ok", lambda: doc(Tf("h", lambda: html_tag(body_tag("B", dep("dd")))), lang="en"))
show("html from tagifiable taglist", lambda: doc(Tf("h", lambda: TagList(html_tag(body_tag("B")))), id="i"))
show("html plus sibling -> fragment", lambda: doc(html_tag(body_tag("B")), "sib"))
show("html plus dependency sibling -> fragment", lambda: doc(html_tag(body_tag("B")), dep("dsib")))
show("html plus None", lambda: doc(html_tag(body_tag("B")), None))
show("html in list", lambda: doc([html_tag(body_tag("B"))]))
show("two htmls", lambda: doc(html_tag(), html_tag()))
show("tagifiable -> two items incl html", lambda: doc(Tf("t", lambda: TagList(html_tag(), "x"))))
show("tagifiable -> empty plus html", lambda: doc(Tf("t", TagList()), html_tag(body_tag("B2"))))
show("HTML (case)", lambda: doc(Tag("HTML", body_tag("B"))))

# <body> given directly
show("body direct", lambda: doc(body_tag("B", dep("db"), class_="c"), lang="en"))
show("body empty", lambda: doc(body_tag()))
show("body with tagifiable inside", lambda: doc(body_tag(Tf("t", TagList("x", dep("dx"))), Tf("u", div("y")))))
show("body from tagifiable", lambda: doc(Tf("b", lambda: body_tag("B", dep("db"))), class_="z"))
show("body plus sibling -> nested", lambda: doc(body_tag("B"), "sib"))
show("body plus meta sibling -> nested", lambda: doc(body_tag("B"), Meta("m")))
show("head only", lambda: doc(head_tag(tags.title("T"))))
show("body with add_ws False", lambda: doc(Tag("body", "B", span("s"), _add_ws=False)))
show("html with add_ws False", lambda: doc(Tag("html", body_tag("B"), _add_ws=False)))

# order of the name comparisons and of the expansion calls
show("name eq log: html", lambda: doc(Tag(NameEq("html"), body_tag("B"))))
show("name eq log: body", lambda: doc(Tag(NameEq("body"), "B")))
show("name eq log: div", lambda: doc(Tag(NameEq("div"), "B")))
show("name eq log: two", lambda: doc(Tag(NameEq("html")), Tag(NameEq("body"))))
show("call order", lambda: doc(Tf("a", lambda: body_tag(Tf("in1", "I1"), Tf("in2", "I2"))), Tf("z", TagList())))
show("call order html", lambda: doc(Tf("z", TagList()), Tf("a", lambda: html_tag(body_tag(Tf("in1", "I1"), Meta("mm"), Tf("in2", "I2"))))))
show("exception in expansion", lambda: doc(Tf("a", "A"), Boom("b", KeyError("k"))))
show("exception in body expansion", lambda: doc(body_tag(Tf("a", "A"), Boom("b", OSError("o")))))
show("exception in html expansion", lambda: doc(html_tag(body_tag(Tf("a", "A"), Boom("b", OSError("o")))), lang="x"))

# attribute arguments
show("attrs odd", lambda: doc("x", data_a=1, hidden=True, skip=None, no=False, class_="c"))
show("attrs _add_ws clash", lambda: doc("x", _add_ws=False))
show("attrs _add_ws clash html", lambda: doc(html_tag(), _add_ws=False))
show("attrs _name clash", lambda: doc("x", _name="n"))
show("attrs html merged twice", lambda: (lambda d: (d.render()["html"], d.render()["html"]))(HTMLDocument(html_tag(body_tag("B"), class_="a"), class_="b")))

# render options
show("lib_prefix None", lambda: doc(div(dep("d1")), _render={"lib_prefix": None}))
show("lib_prefix custom/no version", lambda: doc(body_tag(dep("d1", "2.0")), _render={"lib_prefix": "assets", "include_version": False}))
show("html lib_prefix", lambda: doc(html_tag(body_tag(dep("d1", "2.0"))), _render={"lib_prefix": "x/y"}))
show("dependency versions resolved", lambda: doc(div(dep("d", "1.0")), Tf("t", dep("d", "2.0")), dep("d", "1.5"), dep("e", "0.1")))
show("head_content", lambda: doc(div(__import__("htmltools").head_content(tags.title("TT"))), Tf("t", lambda: __import__("htmltools").head_content(tags.meta(name="k")))))


def untouched():
    t = Tf("t", TagList("x"))
    h = html_tag(body_tag(t), class_="orig")
    d = HTMLDocument(h, class_="added")
    d.render()
    return (raw(h), raw(d._content), d._html_attr_args)


show("inputs untouched", untouched)


def append_then_render():
    d = HTMLDocument(body_tag("B"))
    first = d.render()["html"]
    d.append("more", Tf("t", "T"))
    return (first, d.render()["html"])


show("append changes shape", append_then_render)


def save():
    with tempfile.TemporaryDirectory() as tmp:
        f = os.path.join(tmp, "index.html")
        out = HTMLDocument(Tf("b", lambda: body_tag("B", Tf("never", "x").tagify()))).save_html(f)
        with open(f) as fh:
            return (out == f, fh.read())


show("save_html", save)
show("tag.save path via TagList.render", lambda: rendered(TagList(html_tag(body_tag(Tf("t", "T"))))))
show("direct _gen_html_tag_tree", lambda: raw(HTMLDocument(Tf("b", lambda: body_tag("B", Meta("m"))), lang="q")._gen_html_tag_tree("lp", include_version=False)))
show("direct _gen_html_tag_tree html", lambda: raw(HTMLDocument(html_tag(Meta("m"), body_tag("B")), lang="q")._gen_html_tag_tree(None, True)))
