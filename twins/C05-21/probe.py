"""Probe for property C05 (no whitespace injected into inline content).

Exercises Tag.get_html_string, TagList.get_html_string and _normalize_text on a
spread of ordinary and corner-case inputs and prints deterministic results.
"""
import itertools
import random

import htmltools
from htmltools import HTML, HTMLDependency, Tag, TagList, a, div, p, span, tags

b = tags.b
from htmltools._core import MetadataNode, _normalize_text

LOG = []


def show(label, fn):
    del LOG[:]
    try:
        res = fn()
        out = (type(res).__name__, repr(str(res)) if not isinstance(res, (str, dict)) else repr(res))
    except BaseException as e:  # noqa: BLE001
        out = ("EXC", type(e).__name__, str(e))
    print(label, "=>", out, "| log:", LOG)


class Repr:
    def __init__(self, s, name="r"):
        self.s = s
        self.name = name

    def _repr_html_(self):
        LOG.append("repr:" + self.name)
        return self.s


class ReprAndTagify(Repr):
    def tagify(self):
        LOG.append("tagify:" + self.name)
        return span("tagified")


class OnlyTagify:
    def tagify(self):
        LOG.append("tagify-only")
        return span("T")


class Boom:
    def _repr_html_(self):
        LOG.append("boom")
        raise KeyError("boom")


class StrSub(str):
    def __str__(self):
        LOG.append("StrSub.__str__")
        return "STR(" + str.__str__(self) + ")"


class RaddStr(str):
    def __radd__(self, other):
        LOG.append("radd")
        return "[" + other + "|" + str.__str__(self) + "]"


class Meta(MetadataNode):
    pass


class LoudTag(Tag):
    """Tag subclass logging every add_ws read and every render call."""

    @property
    def add_ws(self):
        LOG.append("add_ws?" + self.name)
        return self.__dict__["_ws"]

    @add_ws.setter
    def add_ws(self, v):
        self.__dict__["_ws"] = v

    def get_html_string(self, indent=0, eol="\n"):
        LOG.append("render:%s(%r,%r)" % (self.name, indent, eol))
        return super().get_html_string(indent, eol)


dep = HTMLDependency("dep", "1.0", source={"subdir": "."}, script={"src": "x.js"})

# ---------------------------------------------------------------------------
print("## _normalize_text")
for x in ["", "a<b>&\"'", HTML("<i>&</i>"), HTML(""), StrSub("x<y"), 5, None, b"x"]:
    show("norm %r" % (x,), lambda x=x: _normalize_text(x))

# ---------------------------------------------------------------------------
print("## Tag.get_html_string basics")
cases = {
    "empty span": span(),
    "empty div": div(),
    "void br": tags.br(),
    "void br w/ child": tags.br("x"),
    "void br only dep": tags.br(dep),
    "void img attrs": tags.img(src="a&b", alt=HTML("a&b"), hidden=True, x=None, y=False),
    "span text": span("a<b"),
    "span HTML": span(HTML("<i>x</i>")),
    "span empty text": span(""),
    "div text": div("a<b"),
    "div text + dep": div("x", dep),
    "div dep only": div(dep),
    "span dep only": span(dep),
    "script text": tags.script("a<b && c"),
    "script HTML": tags.script(HTML("a<b")),
    "script two": tags.script("a<b", "c>d"),
    "script two html": tags.script("a<b", HTML("c>d"), span("<")),
    "style text": tags.style("a>b{}"),
    "style two": tags.style("a>b{}", HTML("c>d"), "e&f"),
    "span strsub": span(StrSub("q<r")),
    "script strsub": tags.script(StrSub("q<r")),
    "script strsub two": tags.script(StrSub("q<r"), StrSub("s&t")),
    "inline nest": span("a", b("c"), a("d", href="#"), "e"),
    "inline in block": div(span("a", b("c")), span("d")),
    "block in inline": span(div("x"), "y"),
    "mixed": div("t1", span("s1"), div("d1", span("s2")), "t2", p("p1"), span("s3"), span("s4")),
    "deep": div(div(div(span(span(span("x"), "y"), "z")))),
    "ws false div": div(div("x", "y"), span("z"), _add_ws=False),
    "ws false manual": div("\n", span("a"), "\n", _add_ws=False),
    "ws true span": span(span("a"), "b", _add_ws=True),
    "repr child": div(Repr("<R>"), "txt", Repr("<S>", "s")),
    "repr inline": span(Repr("<R>"), span("x"), Repr("<S>", "s")),
    "attrs": div({"class": "a"}, span("x", id="i<\"'>"), class_="b", data_x=HTML("<&>")),
    "numbers": div(1, 2.5, span(3)),
    "taglist child": div(TagList("a", span("b")), TagList(), "c"),
    "html first": div(HTML("<hr>"), "a", HTML("<hr>"), span("b"), HTML("<hr>")),
    "eol texts": div("a\nb", span("c\n"), "\n"),
}
for label, t in cases.items():
    show("str   " + label, lambda t=t: str(t))
    show("i2    " + label, lambda t=t: t.get_html_string(2))
    show("eol   " + label, lambda t=t: t.get_html_string(1, "\r\n"))
    show("eol'' " + label, lambda t=t: t.get_html_string(0, ""))

# ---------------------------------------------------------------------------
print("## TagList.get_html_string")
tl_cases = {
    "empty": TagList(),
    "only dep": TagList(dep, Meta()),
    "texts": TagList("a<", "b>", HTML("<c>")),
    "inline": TagList(span("a"), b("b"), "c", a("d")),
    "blocks": TagList(div("a"), div("b")),
    "mixed": TagList("x", div("a"), span("b"), "y", span("c"), div(span("d"), "e"), Repr("<r>")),
    "dep between": TagList(span("a"), dep, span("b"), Meta(), div("c"), dep, "t"),
    "dep first": TagList(dep, span("a"), div("b")),
    "dep first text": TagList(Meta(), "a", div("b")),
    "repr first": TagList(Repr("<r>"), div("b"), Repr("<s>", "s"), Repr("<t>", "t")),
}
for label, t in tl_cases.items():
    for kw in (
        {},
        {"indent": 3},
        {"eol": "~"},
        {"add_ws": False},
        {"add_ws": False, "indent": 2, "eol": "\r\n"},
        {"_escape_strings": False},
        {"_escape_strings": False, "add_ws": False, "indent": 1},
    ):
        show("tl %s %r" % (label, sorted(kw.items())), lambda t=t, kw=kw: t.get_html_string(**kw))
    show("tl positional " + label, lambda t=t: t.get_html_string(1, "|"))
    show("tl str " + label, lambda t=t: str(t))

# ---------------------------------------------------------------------------
print("## raw .data corner cases (bypassing normalisation)")


def raw(*xs):
    t = TagList()
    t.data.extend(xs)
    return t


def rawtag(name, *xs, ws=True):
    t = Tag(name, _add_ws=ws)
    t.children.data.extend(xs)
    return t


raws = {
    "int": raw("a", 5, "b"),
    "none": raw(None),
    "bytes": raw(b"x"),
    "nested taglist": raw("a", TagList("b<", span("c")), div("d")),
    "only tagify": raw(Repr("<r>"), OnlyTagify(), Repr("<s>", "s")),
    "repr+tagify": raw(ReprAndTagify("<rt>", "rt"), "x"),
    "boom": raw(Repr("<r>"), Boom(), Repr("<s>", "s")),
    "repr returns HTML": raw("a<", Repr(HTML("<h>")), "b<", span("c")),
    "repr returns HTML after div": raw(div("a<"), Repr(HTML("<h>")), div("b")),
    "repr returns int": raw("a", Repr(5), "b"),
    "repr returns None": raw(Repr(None)),
    "repr returns raddstr": raw("a", Repr(RaddStr("R")), "b"),
    "strsub": raw(StrSub("a<"), span("b")),
    "raddstr text": raw("a<", RaddStr("R<"), "b"),
    "raddstr after div": raw(div("x"), RaddStr("R<"), "b"),
    "html subclass": raw(type("H2", (HTML,), {})("<x>"), "y<"),
}
for label, t in raws.items():
    for kw in ({}, {"indent": 1}, {"add_ws": False}, {"_escape_strings": False}, {"_escape_strings": False, "add_ws": False}):
        show("raw %s %r" % (label, sorted(kw.items())), lambda t=t, kw=kw: t.get_html_string(**kw))
    for name, ws in (("div", True), ("span", False), ("script", True), ("style", False), ("br", True)):
        show(
            "rawtag %s in %s" % (label, name),
            lambda t=t, name=name, ws=ws: rawtag(name, *t.data, ws=ws).get_html_string(1),
        )

# single raw child of odd type
for child in (5, None, b"x", StrSub("s<"), RaddStr("r<"), Repr("<r>"), OnlyTagify(), TagList("q<")):
    for name in ("div", "span", "script", "br"):
        show(
            "single %s in %s" % (type(child).__name__, name),
            lambda child=child, name=name: rawtag(name, child).get_html_string(),
        )

# ---------------------------------------------------------------------------
print("## odd arguments")
t_mixed = TagList("x", div("a"), span("b"), "y")
t_inline = TagList("x", span("b"), "y")
t_tagfirst = TagList(span("a"), span("b"))
t_blockfirst = TagList(div("a"), "t")
for label, t in (("mixed", t_mixed), ("inline", t_inline), ("tagfirst", t_tagfirst), ("blockfirst", t_blockfirst), ("empty", TagList())):
    for kw in (
        {"indent": "2"},
        {"indent": 1.5},
        {"indent": None},
        {"indent": -1},
        {"indent": True},
        {"eol": None},
        {"eol": 5},
        {"eol": HTML("<e>")},
        {"eol": None, "add_ws": False},
        {"indent": None, "add_ws": False},
        {"add_ws": 1},
        {"add_ws": 0},
        {"add_ws": None},
        {"add_ws": "yes"},
        {"add_ws": []},
        {"_escape_strings": 0},
        {"_escape_strings": "y"},
    ):
        show("odd tl %s %r" % (label, sorted(kw.items(), key=str)), lambda t=t, kw=kw: t.get_html_string(**kw))
for label, t in (
    ("div mixed", div("x", div("a"), span("b"), "y")),
    ("span inline", span("x", span("b"), "y")),
    ("span text", span("x")),
    ("span empty", span()),
    ("br", tags.br()),
    ("div ws off", div(span("a"), "b", _add_ws=False)),
):
    for args in ((None,), ("1",), (1.5,), (-2,), (1, None), (1, 5), (0, HTML("<e>")), (True, "\t")):
        show("odd tag %s %r" % (label, args), lambda t=t, args=args: t.get_html_string(*args))

# odd tag attributes / names
odd = span("x")
odd.add_ws = 1
show("add_ws=1 span", lambda: div(odd, "t").get_html_string())
odd2 = div("x", span("y"))
odd2.add_ws = None
show("add_ws=None div", lambda: TagList("a", odd2, "b").get_html_string())
odd3 = div("x", span("y"))
odd3.add_ws = "yes"
show("add_ws='yes' div", lambda: span(odd3, "b").get_html_string())
hn = Tag(HTML("h<n"), "a<", span("b"), id="i")
show("HTML name", lambda: hn.get_html_string())
show("HTML name in div", lambda: div(hn, "t").get_html_string())
show("HTML name empty", lambda: Tag(HTML("h<n"), id="i").get_html_string(1))
show("HTML name text", lambda: Tag(HTML("h<n"), "a<").get_html_string(1))
show("int name", lambda: Tag(5, "a").get_html_string())
show("list name", lambda: Tag(["x"], "a").get_html_string())
show("strsub name", lambda: Tag(StrSub("nm"), "a<", span("b")).get_html_string())
show("raddstr name", lambda: Tag(RaddStr("nm"), "a<", span("b"), id="i").get_html_string())
show("raddstr name empty", lambda: Tag(RaddStr("nm"), id="i").get_html_string())
show("script-like strsub name", lambda: Tag(StrSub("script"), "a<").get_html_string())
bad_attr = span("x")
dict.__setitem__(bad_attr.attrs, "k", 5)
show("int attr", lambda: bad_attr.get_html_string())
bad_attr2 = span("x")
dict.__setitem__(bad_attr2.attrs, "k", StrSub('v"<'))
show("strsub attr", lambda: bad_attr2.get_html_string())
bad_attr3 = span("x", a="1")
dict.__setitem__(bad_attr3.attrs, 7, "v")
dict.__setitem__(bad_attr3.attrs, "h", HTML('"<&'))
show("int key attr", lambda: bad_attr3.get_html_string())
many = div(span("x"), **{"data_%d" % i: "v%d<" % i for i in range(6)})
show("many attrs", lambda: many.get_html_string(1))

# ---------------------------------------------------------------------------
print("## order of side effects")


def loud(name, *children, ws):
    t = LoudTag(name, *children, _add_ws=ws)
    return t


show(
    "loud mixed",
    lambda: TagList(
        "a", loud("span", "s1", ws=False), loud("div", "d1", loud("b", "bb", Repr("<r>"), ws=False), ws=True), Repr("<q>", "q"), loud("i", ws=False), loud("p", ws=True)
    ).get_html_string(),
)
show(
    "loud add_ws False",
    lambda: TagList(loud("span", "s1", ws=False), loud("div", "d1", ws=True), loud("em", "x", "y", ws=False)).get_html_string(
        add_ws=False
    ),
)
show(
    "loud in loud",
    lambda: loud("div", loud("span", loud("b", "x", "y", ws=False), "t", ws=False), loud("section", "x", "y", ws=True), ws=True).get_html_string(1, "~"),
)
show(
    "loud inline parent",
    lambda: loud("span", loud("div", "x", "y", ws=True), Repr("<r>"), loud("b", ws=False), "t", ws=False).get_html_string(2),
)
show(
    "loud w/ exception",
    lambda: raw(loud("span", "a", "b", ws=False), Repr("<r>"), OnlyTagify(), loud("div", ws=True)).get_html_string(),
)
show(
    "loud w/ bad eol",
    lambda: raw(loud("span", "a", "b", ws=False), Repr("<r>"), loud("div", ws=True), Repr("<s>", "s")).get_html_string(eol=None, add_ws=False),
)
show(
    "loud w/ bad indent",
    lambda: raw(loud("span", "a", "b", ws=False), Repr("<r>"), loud("div", ws=True), Repr("<s>", "s")).get_html_string(indent="x", add_ws=False),
)


class Mutator:
    """_repr_html_ mutates the list that is being rendered."""

    def __init__(self, tl):
        self.tl = tl

    def _repr_html_(self):
        LOG.append("mutate")
        if len(self.tl.data) < 6:
            self.tl.data.append("late<")
            self.tl.data.append(Meta())
            self.tl.data.append(span("late"))
        return "<m>"


def mutating():
    tl = TagList("a")
    tl.data.append(Mutator(tl))
    return tl.get_html_string()


def mutating_tag():
    t = div("a")
    t.children.data.append(Mutator(t.children))
    return t.get_html_string()


show("mutating taglist", mutating)
show("mutating tag", mutating_tag)


class WsFlipper:
    """_repr_html_ flips add_ws of the enclosing tag mid-render."""

    def __init__(self):
        self.tag = None

    def _repr_html_(self):
        LOG.append("flip")
        self.tag.add_ws = not self.tag.add_ws
        return "<f>"


def flipping(ws):
    f = WsFlipper()
    t = Tag("div", "a", f, span("b"), _add_ws=ws)
    f.tag = t
    return t.get_html_string(1)


show("flip from True", lambda: flipping(True))
show("flip from False", lambda: flipping(False))

# ---------------------------------------------------------------------------
print("## property check on random trees")
rng = random.Random(20240505)
INLINE = ["span", "a", "b", "em", "i", "code"]
BLOCK = ["div", "p", "section", "ul", "li"]


def rand_leaf():
    k = rng.randrange(5)
    if k == 0:
        return rng.choice(["t", "x<y", "a&b", "", " ", "q\"'"])
    if k == 1:
        return HTML(rng.choice(["<hr>", "<i>r</i>", "", "&amp;"]))
    if k == 2:
        return Repr(rng.choice(["<R/>", "", "r r"]))
    if k == 3:
        return dep
    return rng.choice(["u", "v"])


def rand_tree(depth, inline_only=False):
    if depth == 0 or rng.random() < 0.25:
        return rand_leaf()
    if inline_only or rng.random() < 0.5:
        name = rng.choice(INLINE + ["br", "script", "style"])
    else:
        name = rng.choice(BLOCK)
    n = rng.randrange(0, 4)
    if name == "br":
        n = 0
    kids = [rand_tree(depth - 1, inline_only) for _ in range(n)]
    attrs = {}
    if rng.random() < 0.3:
        attrs["class_"] = rng.choice(["c", "c<d", 'e"f'])
    kw = {}
    if rng.random() < 0.15:
        kw["_add_ws"] = rng.random() < 0.5
    return getattr(tags, name)(*kids, **attrs, **kw)


for i in range(120):
    t = rand_tree(4)
    container = rng.choice([div, span, TagList, p])(rng.choice(["pre", span("pre"), div("pre")]), t, rng.choice(["post", b("post"), p("post")]))
    for args in ((), (2,), (1, "\r\n"), (0, "")):
        show("rand %d %r" % (i, args), lambda container=container, args=args: container.get_html_string(*args))

for i in range(60):
    sub = rand_tree(3, inline_only=True)
    if isinstance(sub, Tag):
        sub.add_ws = False
        alone = sub.get_html_string()
        for wrap in (lambda s: div(s), lambda s: div("a", s, "b"), lambda s: div(div("x"), s, div("y")), lambda s: span(p(s), s), lambda s: TagList(s, s)):
            out = wrap(sub).get_html_string(1)
            print("inline", i, repr(alone), alone in out, repr(out))

print("## module surface")
print(htmltools.__version__)
print(str(div(span("a"), "b")))
print(repr(TagList(span("a"), div("b"))))
print(div(span("a"), "b").render())
print(TagList(span("a"), div("b"), dep).render()["html"])
print(div(span("a"), "b")._repr_html_())
