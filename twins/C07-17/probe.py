# Probe for refactoring 2: JSXTag.tagify() - tagify/copy walk and metadata collection.
import copy

from htmltools import HTML, HTMLDependency, MetadataNode, Tag, TagList, div, span, tags
from htmltools._jsx import JSXTag, jsx, jsx_tag_create

LOG = []


class Meta(MetadataNode):
    def __init__(self, label):
        self.label = label
        self.copies = 0

    def __copy__(self):
        LOG.append(("copy", self.label))
        m = Meta(self.label + "'")
        return m

    def __repr__(self):
        return f"<Meta {self.label}>"


class Widget:
    """Tagifiable returning whatever it was given."""

    def __init__(self, label, result):
        self.label = label
        self.result = result

    def tagify(self):
        LOG.append(("tagify", self.label))
        r = self.result
        return r() if callable(r) else r


class Boom:
    def tagify(self):
        LOG.append(("tagify", "boom"))
        raise KeyError("boom")


def dep(name="a", version="1.0"):
    return HTMLDependency(name, version, source={"subdir": "."}, script={"src": name + ".js"})


def describe(tag):
    out = []
    for c in tag.children:
        if isinstance(c, MetadataNode):
            out.append(repr(c))
        else:
            out.append(type(c).__name__)
    return out


def show(label, fn):
    LOG.clear()
    try:
        r = fn()
        print(label, "=>", repr(r))
    except Exception as e:  # noqa: BLE001
        print(label, "!!", type(e).__name__, str(e))
    print("   log:", LOG)


Foo = jsx_tag_create("Foo")
Bar = jsx_tag_create("Ns.Bar")

m1, m2, m3 = Meta("m1"), Meta("m2"), Meta("m3")

cases = {
    "empty": lambda: Foo(),
    "meta-children": lambda: Foo(m1, "a", m2, div(m3, "b")),
    "meta-in-attr": lambda: Foo(icon=m1, other=div(m2), third=Bar(m3)),
    "meta-attr-and-children": lambda: Foo(m1, div(m2), a=m3, b=Bar(Meta("m4"), c=Meta("m5"))),
    "dep-children": lambda: Foo(dep("x"), div(dep("y"), dep("x", "2.0")), dep("z")),
    "widget->meta": lambda: Foo(Widget("w1", m1), "t"),
    "widget->tag-with-meta": lambda: Foo(Widget("w1", lambda: div(m1, "x")), Widget("w2", lambda: span(m2))),
    "widget->str": lambda: Foo(Widget("w1", "text"), a=Widget("w2", "attr")),
    "widget->taglist": lambda: Foo(Widget("w1", lambda: TagList("a", m1))),
    "widget-in-div": lambda: Foo(div(Widget("w1", lambda: span("s")), m1)),
    "widget-order": lambda: Foo(Widget("c1", "1"), div(Widget("c2", "2"), Widget("c3", "3")), x=Widget("a1", "4"), y=Bar(Widget("a2", "5"))),
    "boom-child": lambda: Foo(m1, Widget("w1", "ok"), Boom(), Widget("w2", "never")),
    "boom-attr": lambda: Foo(Widget("w1", "ok"), a=Boom()),
    "plain-values": lambda: Foo(n=1, f=2.5, none=None, l=[1, m1], d={"k": m2}, j=jsx("x")),
    "html-child": lambda: Foo(HTML("<b>")),
    "nested-jsx": lambda: Foo(Bar(m1, Bar(m2)), m3),
}

for label, mk in cases.items():
    def run():
        x = mk()
        t = x.tagify()
        return (t.name, dict(t.attrs), describe(t), str(t.children[0]) if t.children else None)
    show("tagify " + label, run)
    show("str    " + label, lambda: str(mk()))
    show("render " + label, lambda: (lambda r: (r["html"], [repr(d) for d in r["dependencies"]]))(div(mk(), m1).render()))

# Original object is untouched and collected nodes are copies
x = Foo(m1, div(m2), a=m3)
before = (list(map(repr, x.children)), {k: repr(v) for k, v in x.attrs.items()})
LOG.clear()
t = x.tagify()
after = (list(map(repr, x.children)), {k: repr(v) for k, v in x.attrs.items()})
print("orig unchanged:", before == after, before)
collected = [c for c in t.children if isinstance(c, Meta)]
print("collected:", collected, [c is m for c in collected for m in (m1, m2, m3)])
print("log:", LOG)

# deps: identity / equality of the collected dependencies
d1 = dep("x")
y = Foo(d1, k=dep("y"))
t = y.tagify()
ds = [c for c in t.children if isinstance(c, HTMLDependency)]
print([repr(d) for d in ds], [d is d1 for d in ds], [d == d1 for d in ds])
print([repr(d) for d in t.get_dependencies()])
