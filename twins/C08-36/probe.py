# Probe for refactoring 1: Tag.__copy__ / HTMLDocument.__copy__ share one helper.
import copy
from htmltools import Tag, TagList, HTML, HTMLDocument, HTMLDependency, div, span, tags
from htmltools import _core


def show(label, f):
    try:
        print(label, "->", repr(f()))
    except Exception as e:  # noqa: BLE001
        print(label, "-> EXC", type(e).__name__, str(e)[:80])


class MyTag(Tag):
    def __init__(self, *a, **k):
        super().__init__("mytag", *a, **k)
        self.extra = {"k": [1, 2]}
        self.marker = ("t", 1)


class NoCopy:
    def __copy__(self):
        raise ValueError("cannot copy me")


class Doc2(HTMLDocument):
    pass


dep = HTMLDependency("a", "1.0", source={"href": "http://x"}, script={"src": "a.js"})
inner = span("in", dep, class_="c")
t = div("x", inner, HTML("<b>"), {"id": "i"}, data_x=1, _add_ws=False)

cp = copy.copy(t)
show("type", lambda: type(cp).__name__)
show("eq", lambda: cp == t)
show("str same", lambda: str(cp) == str(t))
show("dict keys", lambda: (list(cp.__dict__), list(t.__dict__)))
show("children distinct", lambda: cp.children is not t.children)
show("attrs distinct", lambda: cp.attrs is not t.attrs)
show("attrs type", lambda: type(cp.attrs).__name__)
show("children type", lambda: type(cp.children).__name__)
show("shallow child identity", lambda: [a is b for a, b in zip(cp.children, t.children)])
show("add_ws/name", lambda: (cp.add_ws, cp.name, cp.prev_displayhook))
cp.append("more")
cp.attrs["id"] = "changed"
show("orig after mutate", lambda: str(t))
show("copy after mutate", lambda: str(cp))
show("neq now", lambda: cp == t)

m = MyTag("a", id="z")
mc = copy.copy(m)
show("subclass type", lambda: type(mc).__name__)
show("subclass extra", lambda: (mc.extra, mc.extra is not m.extra, mc.extra["k"] is m.extra["k"]))
show("subclass marker", lambda: (mc.marker, mc.marker is m.marker))
show("subclass eq", lambda: mc == m)
show("subclass tagify", lambda: (str(m.tagify()), type(m.tagify()).__name__))

m.bad = NoCopy()
show("uncopyable field", lambda: copy.copy(m))
show("uncopyable tagify", lambda: m.tagify())
del m.bad

# empty tag, tag whose __dict__ was emptied
e = Tag("br")
show("empty", lambda: (str(copy.copy(e)), copy.copy(e) == e))
raw = Tag.__new__(Tag)
show("raw new", lambda: copy.copy(raw).__dict__)

with_hook = div("h")
with_hook.prev_displayhook = print
show("hook copied", lambda: copy.copy(with_hook).prev_displayhook is print)

# HTMLDocument
d = HTMLDocument(t, dep, lang="en", class_="k")
dc = copy.copy(d)
show("doc type", lambda: type(dc).__name__)
show("doc keys", lambda: list(dc.__dict__))
show("doc content distinct", lambda: dc._content is not d._content)
show("doc kwargs distinct", lambda: dc._html_attr_args is not d._html_attr_args)
show("doc kwargs eq", lambda: dc._html_attr_args == d._html_attr_args)
show("doc render eq", lambda: dc.render() == d.render())
dc.append(div("added"))
dc._html_attr_args["lang"] = "fr"
show("doc orig", lambda: d.render()["html"])
show("doc copy", lambda: dc.render()["html"])
d2 = Doc2("a")
d2.other = [1]
c2 = copy.copy(d2)
show("doc subclass", lambda: (type(c2).__name__, c2.other, c2.other is not d2.other))
d2.bad = NoCopy()
show("doc uncopyable", lambda: copy.copy(d2))

# tagify independence goes through __copy__
tl = TagList(t, "s", dep)
tt = tl.tagify()
show("tagify eq", lambda: tt == tl)
show("tagify fixed point", lambda: tt.tagify() == tt)
show("tagify tags distinct", lambda: tt[0] is not tl[0] and tt[0].children[1] is not tl[0].children[1])
show("tagify dep distinct", lambda: tt[2] is not tl[2] and tt[2] == tl[2])
tt[0].children[1].add_class("zzz")
show("orig unaffected", lambda: str(tl))
show("helper names", lambda: hasattr(_core.Tag, "__copy__") and hasattr(_core.HTMLDocument, "__copy__"))
show("deepcopy", lambda: str(copy.deepcopy(t)) == str(t))
