"""Probe for refactoring 5: JSX tagify walk / React serialisers."""
import copy

from htmltools import HTML, HTMLDependency, HTMLDocument, Tag, TagList, div, span, tags
from htmltools._jsx import (
    JSXTag,
    _render_react_js,
    _serialize_attr,
    _serialize_style_attr,
    _walk_attrs_and_children,
    jsx,
    jsx_tag_create,
)


def dep(name, version="1.0"):
    return HTMLDependency(name, version, source={"subdir": "."}, script={"src": name + ".js"})


class Multi:
    def __init__(self, *items):
        self.items = items

    def tagify(self):
        return TagList(*self.items)

    def __repr__(self):
        return "Multi(...)"


class One:
    def __init__(self, x):
        self.x = x

    def tagify(self):
        return self.x

    def __repr__(self):
        return "One(%s)" % type(self.x).__name__


class Raises:
    def tagify(self):
        raise ValueError("boom")


class ReprOnly:
    def _repr_html_(self):
        return "<u>ro</u>"

    def __str__(self):
        return "ReprOnly-str"


class Both:
    def tagify(self):
        return span("tagified")

    def _repr_html_(self):
        return "<b>repr</b>"


def show(label, fn):
    try:
        r = fn()
        if isinstance(r, dict) and "html" in r:
            print(label, "html=", repr(r["html"]), "deps=", [(d.name, str(d.version)) for d in r["dependencies"]])
        else:
            print(label, repr(r))
    except Exception as e:  # noqa
        print(label, "EXC", type(e).__name__, str(e))


Foo = jsx_tag_create("Foo")
Bar = jsx_tag_create("Lib.Bar")

cases = {
    "empty": lambda: Foo(),
    "only_attr": lambda: Foo(a="1"),
    "only_child": lambda: Foo("txt"),
    "attrs_many": lambda: Foo(a="1", b=2, c=2.5, d=True, e=False, f=None, g=[1, "two", None, [3]], h={"k": "v", "n": {"m": 1}}, i=jsx("() => 1"), j=(1, 2)),
    "attr_names": lambda: Foo(class_="c", data_x="d", for_="f", aria_label_="x"),
    "quotes": lambda: Foo('say "hi"', title='a "quoted" value', k={'q"k': 'q"v'}),
    "style_str": lambda: Foo(style="color:red;margin: 0 auto;bad;x:y:z"),
    "style_str_simple": lambda: Foo(style="color:red;margin:0"),
    "style_dict": lambda: Foo(style={"color": "red", "n": 1}),
    "style_none": lambda: Foo(style=None),
    "style_empty": lambda: Foo(style=""),
    "style_bad": lambda: Foo(style=3),
    "style_first_of_many": lambda: Foo(style="a:b", z="1", y=None),
    "style_last_of_many": lambda: Foo(z="1", y=None, style={"a": "b"}),
    "html_child": lambda: Foo(div("in div", span("s", id="sid"), class_="dc"), "t"),
    "html_child_attr_escape": lambda: Foo(div(title="a&b<c>")),
    "html_void_child": lambda: Foo(tags.br(), tags.img(src="x.png")),
    "jsx_child": lambda: Foo(Bar("inner", x=1), Bar()),
    "jsx_attr": lambda: Foo(comp=Bar("in attr", y=jsx("z")), tag=span("st", id="q")),
    "jsx_attr_in_list": lambda: Foo(items=[Bar(n=1), span("s"), {"c": Bar()}]),
    "tagifiable_child": lambda: Foo(One(span("from one")), "x"),
    "tagifiable_child_str": lambda: Foo(One("plain")),
    "tagifiable_child_html": lambda: Foo(One(HTML("<raw>"))),
    "tagifiable_child_jsx": lambda: Foo(One(Bar("late jsx"))),
    "tagifiable_attr": lambda: Foo(p=One(span("attr one"))),
    "tagifiable_attr_str": lambda: Foo(p=One("s")),
    "tagifiable_nested_in_tag": lambda: Foo(div(One(span("deep")), One("t"))),
    "tagifiable_deeper": lambda: Foo(div(div(Bar(One(span("deepest")), q=One(Bar("aq")))))),
    "tagifiable_in_list_attr": lambda: Foo(items=[One("x")]),
    "multi_child": lambda: Foo(Multi("a", "b")),
    "multi_in_tag": lambda: Foo(div(Multi("a", "b"))),
    "empty_multi_child": lambda: Foo(Multi()),
    "both_child": lambda: Foo(Both()),
    "repr_only_child": lambda: Foo(ReprOnly()),
    "repr_only_attr": lambda: Foo(p=ReprOnly()),
    "raises_child": lambda: Foo("a", Raises()),
    "raises_attr": lambda: Foo(p=Raises()),
    "dep_child": lambda: Foo("a", dep("c1"), "b"),
    "dep_only_child": lambda: Foo(dep("c1")),
    "dep_attr": lambda: Foo(p=dep("a1"), q="1"),
    "dep_nested": lambda: Foo(div(dep("n1"), Bar(dep("n2"), r=dep("n3"))), One(dep("n4")), z=Bar(dep("n5"))),
    "dep_dups": lambda: Foo(dep("react", "0.1"), dep("x", "1.0"), div(dep("x", "2.0"))),
    "dep_in_tagified_tag": lambda: Foo(One(div("c", dep("hidden")))),
    "html_obj_child": lambda: Foo(HTML("<b>h</b>")),
    "number_children": lambda: Foo(1, 2.5, None, ["l", [None, span("n")]]),
    "script_child": lambda: Foo(tags.script("a<b")),
}

for name, mk in cases.items():
    show("tagify-str %s" % name, lambda: str(mk()))
    show("render-in-div %s" % name, lambda: div("before", mk(), "after").render())
    show("taglist %s" % name, lambda: TagList(mk(), mk()).render())
    show("doc %s" % name, lambda: HTMLDocument(mk()).render())

# un-expanded JSXTag is self-rendering, so get_html_string() emits its markup
show("unexpanded get_html_string", lambda: div(Foo(a=1)).get_html_string())
show("jsx as Tag attr value", lambda: str(div(title=Foo())))
show("bad name", lambda: jsx_tag_create("foo")())
show("allowed props ok", lambda: str(jsx_tag_create("P", allowedProps=["a"])(a=1)))
show("allowed props bad", lambda: str(jsx_tag_create("P", allowedProps=["a"])(b=1)))

# tagify does not mutate the original
orig = Foo(One(span("c")), div(One("d")), p=One("attr"), q=Bar(One("e")))
snapshot = ([type(c).__name__ for c in orig.children], {k: type(v).__name__ for k, v in orig.attrs.items()}, [type(c).__name__ for c in orig.children[1].children], [type(c).__name__ for c in orig.attrs["q"].children])
orig.tagify()
after = ([type(c).__name__ for c in orig.children], {k: type(v).__name__ for k, v in orig.attrs.items()}, [type(c).__name__ for c in orig.children[1].children], [type(c).__name__ for c in orig.attrs["q"].children])
print("unmutated", snapshot == after, snapshot)

# ---- direct calls to the private helpers --------------------------------------------------
visits = []


def logging_fn(x):
    visits.append(type(x).__name__ + ":" + (x.name if isinstance(x, (Tag, JSXTag)) else repr(x)[:30]))
    return copy.copy(x)


tree = Foo("t0", div("t1", Bar("t2", k=span("t3")), "t4"), a="v0", b=Bar("t5", c=div("t6")), c=[Bar("not walked")])
res = _walk_attrs_and_children(tree, logging_fn)
print("walk visits", visits)
print("walk result is copy", res is not tree, res.children[1] is not tree.children[1], res.attrs["b"] is not tree.attrs["b"], res.attrs["c"] is tree.attrs["c"])
visits.clear()
res = _walk_attrs_and_children(div("a", span("b", Foo("c", z=div())), Multi("m")), logging_fn)
print("walk visits tag root", visits)
visits.clear()
for leaf in ("s", None, 3, Multi("m"), dep("d"), TagList("a", div())):
    r = _walk_attrs_and_children(leaf, logging_fn)
    print("walk leaf", type(leaf).__name__, type(r).__name__, visits)
    visits.clear()
show("walk identity keeps object", lambda: (lambda t: _walk_attrs_and_children(t, lambda x: x) is t)(Foo(div("a"), p=Bar())))
show("walk fn raises", lambda: _walk_attrs_and_children(Foo("a", div("b")), lambda x: (_ for _ in ()).throw(KeyError("fn"))))


def replace_fn(x):
    if isinstance(x, str):
        return x.upper()
    return copy.copy(x)


show("walk replace", lambda: _render_react_js(_walk_attrs_and_children(Foo("a", div("b", Bar("c")), p="attr", q=Bar("d")), replace_fn), 0, "\n"))

for indent in (0, 1, 3):
    for eol in ("\n", "", " "):
        show("react indent=%d eol=%r" % (indent, eol), lambda: _render_react_js(Foo("t", div("u", id="i"), dep("x"), Bar(), a=1, style="b:c"), indent, eol))
show("react str", lambda: _render_react_js('q"uote', 2, "\n"))
show("react html obj", lambda: _render_react_js(HTML("<b>"), 1, "\n"))
show("react dep", lambda: _render_react_js(dep("d"), 1, "\n"))
show("react tagifiable", lambda: _render_react_js(Multi("a"), 1, "\n"))
show("react taglist", lambda: _render_react_js(TagList("a"), 1, "\n"))
show("react none", lambda: _render_react_js(None, 1, "\n"))
show("react tag no attrs with children", lambda: _render_react_js(div("a", "b"), 0, "\n"))
show("react tag attrs no children", lambda: _render_react_js(div(id="x", class_="y"), 0, "\n"))
show("react tag only deps", lambda: _render_react_js(div(dep("a"), dep("b")), 0, "\n"))
show("react tag style attr", lambda: _render_react_js(div(style="color:red;"), 0, "\n"))
show("react jsx style bad then more", lambda: _render_react_js(Foo(a=1, style=[1], b=Multi()), 0, "\n"))
show("react jsx bad attr then bad style", lambda: _render_react_js(Foo(a=Bar(Multi("m")), style=[1]), 0, "\n"))

attr_values = [None, True, False, 0, 1, -2.5, "s", 'q"', "", jsx("raw()"), jsx("a", "b"), [], [None], (1, "a"), {}, {"a": [1, {"b": None}]}, {1: 2},
               div(), div("c", id="i"), Foo(), Foo("c", a=[Bar()]), HTML("<b>"), ReprOnly(), Multi("m"), dep("d"), TagList("a"), b"bytes", 1 + 2j, float("inf")]
for v in attr_values:
    show("serialize_attr %s" % type(v).__name__, lambda: _serialize_attr(v))
for v in [None, "", "a:b", "a:b;c:d;", "nocolon", "a:b:c", {}, {"a": 1}, [], 3, jsx("a:b"), HTML("c:d")]:
    show("serialize_style %s %r" % (type(v).__name__, str(v)), lambda: _serialize_style_attr(v))
