"""Probe for refactoring 2: shared __copy__ helper for Tag / HTMLDocument / JSXTag."""
import copy
import sys

from htmltools import HTML, HTMLDependency, HTMLDocument, Tag, TagList, div, span
from htmltools._jsx import JSXTag, jsx, jsx_tag_create


def dep(name, version="1.0"):
    return HTMLDependency(name, version, source={"subdir": "."}, script={"src": name + ".js"})


class Multi:
    def __init__(self, *items):
        self.items = items

    def tagify(self):
        return TagList(*self.items)


class One:
    def __init__(self, x):
        self.x = x

    def tagify(self):
        return self.x


class NoCopy:
    def __copy__(self):
        raise RuntimeError("cannot copy me")


class Counting:
    n = 0

    def __copy__(self):
        Counting.n += 1
        return self


class MyTag(Tag):
    inits = 0

    def __init__(self, *args, **kwargs):
        MyTag.inits += 1
        super().__init__("my-tag", *args, **kwargs)
        self.extra = ["e"]
        self.marker = Counting()


class MyDoc(HTMLDocument):
    inits = 0

    def __init__(self, *args, **kwargs):
        MyDoc.inits += 1
        super().__init__(*args, **kwargs)
        self.extra = {"k": [1]}


class MyJSX(JSXTag):
    inits = 0

    def __init__(self, *args, **kwargs):
        MyJSX.inits += 1
        super().__init__("My.Comp", *args, **kwargs)
        self.extra = ["j"]


def show(label, fn):
    try:
        r = fn()
        if isinstance(r, dict) and "html" in r:
            print(label, "html=", repr(r["html"]), "deps=", [(d.name, str(d.version)) for d in r["dependencies"]])
        else:
            print(label, repr(r))
    except Exception as e:  # noqa
        print(label, "EXC", type(e).__name__, str(e))


def describe(orig, cp, fields):
    print("  class same:", type(cp) is type(orig), type(cp).__name__)
    print("  keys:", list(cp.__dict__.keys()) == list(orig.__dict__.keys()), list(cp.__dict__.keys()))
    for f in fields:
        a, b = getattr(orig, f), getattr(cp, f)
        print("  field", f, "identical:", a is b, "equal:", a == b, "type:", type(b).__name__)


# ---- Tag -------------------------------------------------------------------------
t = div("a", span("b"), Multi("c"), dep("d"), {"class": "k"}, id="i", _add_ws=False)
c = copy.copy(t)
print("Tag copy")
describe(t, c, ["name", "add_ws", "attrs", "children", "prev_displayhook"])
print("  children elements identical:", all(x is y for x, y in zip(t.children, c.children)))
c.append("new")
c.attrs["id"] = "changed"
c.name = "section"
print("  orig after mutation of copy:", repr(str(t)))
print("  copy after mutation:", repr(c.get_html_string() if not any(hasattr(x, "items") for x in c.children) else "n/a"))
show("  orig render", lambda: t.render())

# subclass with extra fields; __init__ must not be called by copy
m = MyTag("x", Multi("y", "z"), title="T")
i0, n0 = MyTag.inits, Counting.n
mc = copy.copy(m)
print("MyTag copy: inits delta", MyTag.inits - i0, "Counting copies", Counting.n - n0)
describe(m, mc, ["name", "attrs", "children", "extra", "marker"])
i0, n0 = MyTag.inits, Counting.n
mt = m.tagify()
print("MyTag tagify: inits delta", MyTag.inits - i0, "Counting copies", Counting.n - n0, type(mt).__name__)
describe(m, mt, ["extra", "marker", "attrs"])
show("MyTag render", lambda: m.render())
print("MyTag orig children types", [type(x).__name__ for x in m.children])

# field whose copy raises
bad = div("a")
bad.oops = NoCopy()
show("copy with NoCopy field", lambda: copy.copy(bad))
show("tagify with NoCopy field", lambda: bad.tagify())
show("render with NoCopy field", lambda: bad.render())

# empty __dict__-ish / freshly-made
e = Tag.__new__(Tag)
show("copy of uninitialised Tag", lambda: copy.copy(e).__dict__)

# inside the context manager prev_displayhook holds a function
old_hook = sys.displayhook
w = div()
with w:
    inner = copy.copy(w)
    print("in-context copy prev_displayhook identical:", inner.prev_displayhook is w.prev_displayhook, inner.prev_displayhook is old_hook)
    sys.displayhook = lambda v: None  # swallow the final display
sys.displayhook = old_hook

# deepcopy still works and is independent
d = copy.deepcopy(t)
print("deepcopy equal:", d == t, "children identical:", d.children is t.children)

# ---- HTMLDocument ----------------------------------------------------------------
doc = HTMLDocument(div("a", Multi("b", dep("dd"))), lang="en")
dc = copy.copy(doc)
print("HTMLDocument copy")
describe(doc, dc, ["_content", "_html_attr_args"])
dc.append("more")
dc._html_attr_args["lang"] = "fr"
show("  orig render", lambda: doc.render())
show("  copy render", lambda: dc.render())
md = MyDoc(span("s"), class_="c")
i0 = MyDoc.inits
mdc = copy.copy(md)
print("MyDoc copy: inits delta", MyDoc.inits - i0)
describe(md, mdc, ["_content", "_html_attr_args", "extra"])
show("  MyDoc copy render", lambda: mdc.render())

# ---- JSXTag ----------------------------------------------------------------------
Foo = jsx_tag_create("Foo")
j = Foo(span("s"), "txt", Multi("m1", span("m2")), dep("jd"), a="1", b=jsx("x => x"), c=[1, {"k": None}], style="color:red;x:y")
jc = copy.copy(j)
print("JSXTag copy")
describe(j, jc, ["name", "attrs", "children"])
jc.append("zzz")
jc.attrs["a"] = "2"
show("  orig str", lambda: str(j))
show("  copy str", lambda: str(jc))
show("  orig render in div", lambda: div(j, "after").render())
show("  doc render", lambda: HTMLDocument(j).render())
j2 = Foo(span("s"), "txt", One(span("m2")), dep("jd"), a="1", b=jsx("x => x"), c=[1, {"k": None}], style="color:red;x:y")
j2c = copy.copy(j2)
j2c.append("zzz")
j2c.attrs["a"] = "2"
show("  j2 orig str", lambda: str(j2))
show("  j2 copy str", lambda: str(j2c))
show("  j2 render in div", lambda: div(j2, "after").render())
show("  j2 doc render", lambda: HTMLDocument(j2).render())
print("  j2 orig child types", [type(x).__name__ for x in j2.children])
mj = MyJSX(Foo(One(span("inner"))), p=Foo(q=One("v")))
i0 = MyJSX.inits
mjc = copy.copy(mj)
print("MyJSX copy: inits delta", MyJSX.inits - i0)
describe(mj, mjc, ["name", "attrs", "children", "extra"])
i0 = MyJSX.inits
show("  MyJSX render", lambda: TagList(mj).render())
print("  MyJSX tagify inits delta", MyJSX.inits - i0)
print("  MyJSX orig child types", [type(x).__name__ for x in mj.children], [type(x).__name__ for x in mj.children[0].children])
bj = Foo()
bj.oops = NoCopy()
show("JSX copy with NoCopy field", lambda: copy.copy(bj))
show("JSX tagify with NoCopy field", lambda: bj.tagify())
