# Probe for refactoring 2: HTMLTextDocument._static_extract_serialized_html_deps
import json
import htmltools
from htmltools import HTMLDependency, HTMLTextDocument, TagList, div, span, head_content, tags, HTML


def show(label, fn):
    try:
        r = fn()
        print(label, "->", r)
    except BaseException as e:  # noqa
        print(label, "!!", type(e).__name__, str(e)[:90])


def describe(res):
    html, deps = res
    return (
        type(html).__name__,
        html,
        [(type(d).__name__, d.name, str(d.version), d.script, d.stylesheet, d.meta,
          d.all_files, None if d.head is None else d.head.get_html_string()) for d in deps],
    )


extract = HTMLTextDocument._static_extract_serialized_html_deps

OPEN = '<script type="application/json" data-html-dependency="">'
CLOSE = "</script>"


def ser(d, indent=None):
    return d.serialize_to_script_json(indent).get_html_string()


a = HTMLDependency("a", "1.0", script={"src": "a.js"})
a2 = HTMLDependency("a", "2.0", script=[{"src": "a.js"}, {"src": "b.js", "defer": ""}])
b = HTMLDependency("b", "0.1", stylesheet={"href": "b.css"}, meta={"name": "m", "content": "c"},
                   source={"subdir": "x"}, all_files=True)
h = head_content(tags.title("</script> & <b>"), tags.script("if (a</b) x();"))
u = HTMLDependency("ü-é", "1", head="<!--   \r\n -->")

print(ser(a)); print(ser(h)); print(ser(a2, 2))

inputs = {
    "empty": "",
    "nodeps": "<html><body>hi</body></html>",
    "only": ser(a),
    "start": ser(a) + "tail",
    "end": "head" + ser(a),
    "middle": "x" + ser(a) + "y",
    "adjacent": ser(a) + ser(b) + ser(a2),
    "dup": "1" + ser(a) + "2" + ser(b) + "3" + ser(a) + "4" + ser(b) + "5",
    "dup_diff_indent": ser(a) + "|" + ser(a, 2) + "|" + ser(a, 0),
    "indented_multiline": "<p>" + ser(a2, 4) + "</p>",
    "headcontent": "<div>" + ser(h) + "</div>" + ser(h),
    "unicode": "é" + ser(u) + "ü\r\n" + ser(u, 1),
    "empty_json_obj_body": "x" + OPEN + '{"name":"n","version":"1"}' + CLOSE + "y",
    "newlines_in_body": "x" + OPEN + '\r\n{"name":"n",\n"version":"1"}\r' + CLOSE + "y",
    "uppercase_not_matched": "x" + OPEN.upper() + "{}" + CLOSE + "y",
    "other_attr_order_not_matched": '<script data-html-dependency="" type="application/json">{}</script>',
    "unterminated": "x" + OPEN + '{"name":"n","version":"1"}',
    "unterminated_then_ok": OPEN + "A" + OPEN + '{"name":"n","version":"1"}',
    "close_only": "x" + CLOSE + "y",
    "nested_open": "x" + OPEN + OPEN + '{"name":"n","version":"1"}' + CLOSE + "y" + CLOSE,
    "backslashes": "a\\1b\\g<0>" + ser(a) + "\\n\\\\",
    "str_subclass": None,
}


class S(str):
    pass


inputs["str_subclass"] = S("p" + ser(a) + "q")
inputs["str_subclass_nomatch"] = S("pq")

for k, v in inputs.items():
    show("extract " + k, lambda v=v: describe(extract(v)))

bad = {
    "empty_body": OPEN + CLOSE,
    "bad_json": "x" + OPEN + "{not json" + CLOSE,
    "json_list": OPEN + "[1,2]" + CLOSE,
    "json_str": OPEN + '"s"' + CLOSE,
    "json_null": OPEN + "null" + CLOSE,
    "missing_version": OPEN + '{"name":"n"}' + CLOSE,
    "unknown_key": OPEN + '{"name":"n","version":"1","zzz":1}' + CLOSE,
    "bad_version": OPEN + '{"name":"n","version":"not a version"}' + CLOSE,
    "bad_script": OPEN + '{"name":"n","version":"1","script":[{"nosrc":1}]}' + CLOSE,
    "bad_script_type": OPEN + '{"name":"n","version":"1","script":[1]}' + CLOSE,
    "bad_source": OPEN + '{"name":"n","version":"1","source":{"x":1}}' + CLOSE,
    "good_then_bad": ser(a) + OPEN + "{" + CLOSE,
    "bad_then_good": OPEN + "{" + CLOSE + ser(a),
    "bad_dup": OPEN + "{" + CLOSE + OPEN + "{" + CLOSE,
    "bytes": ser(a).encode(),
    "bytearray": bytearray(b"abc"),
    "none": None,
    "int": 3,
    "HTML_obj": HTML(ser(a)),
    "list": [ser(a)],
}
for k, v in bad.items():
    show("extract-bad " + k, lambda v=v: describe(extract(v)))

# Through the constructor / render
tmpl = "<html><head><meta data-foo=''>" + ser(b) + "</head><body>" + ser(a) + ser(h) + ser(a) + "</body></html>"
show("doc no pattern", lambda: (lambda d: (d._html, [repr(x) for x in d._deps]))(HTMLTextDocument(tmpl)))
doc = HTMLTextDocument(tmpl, deps=[a2], deps_replace_pattern="<meta data-foo=''>")
print("doc html:", doc._html)
print("doc deps:", [repr(x) for x in doc._deps])
r = doc.render()
print(r["html"]); print([repr(x) for x in r["dependencies"]])
r = doc.render(lib_prefix=None, include_version=False)
print(r["html"])
given = [a]
doc2 = HTMLTextDocument(ser(b) + "X", deps=given, deps_replace_pattern="X")
print("given list extended in place:", given is doc2._deps, [repr(x) for x in given])
show("ctor bad json", lambda: HTMLTextDocument(OPEN + "{" + CLOSE))
show("ctor deps w/o pattern", lambda: HTMLTextDocument("x", deps=[a]))
show("ctor html None", lambda: HTMLTextDocument(None))


# a failing extraction leaves the object as it was before
class D(HTMLTextDocument):
    pass


d = D("x")
d._html = "before" + OPEN + "{" + CLOSE
show("extract fails", d._extract_serialized_html_deps)
print("state after failure:", d._html, d._deps)
d._html = "before" + ser(a) + "after"
show("extract ok", d._extract_serialized_html_deps)
print("state after ok:", d._html, [repr(x) for x in d._deps])

# quarto-like round trip in json mode
htmltools.html_dependency_render_mode = "json"
try:
    txt = str(div("hello", a, span(h), b, a2))
finally:
    htmltools.html_dependency_render_mode = "invisible"
print(txt)
show("roundtrip", lambda: describe(extract(txt)))
