"""Probe for refactoring 1: escape decision shared between Tag.get_html_string
and TagList.get_html_string."""
import htmltools
from htmltools import HTML, Tag, TagList, div, span, tags, html_escape, HTMLDocument


def show(label, fn):
    try:
        out = fn()
        print(label, "->", repr(out))
    except BaseException as e:  # noqa
        print(label, "!!", type(e).__name__)


class StrSub(str):
    def __str__(self):
        return "STRSUB<" + str.__str__(self) + ">"


class Tagi:
    def __init__(self, v):
        self.v = v

    def tagify(self):
        return self.v


class Rep:
    def _repr_html_(self):
        return "<b>rep & raw</b>"


TEXTS = [
    "",
    "plain",
    "a & b",
    "<script>alert(1)</script>",
    "-->",
    "<!-- x -->",
    "<!DOCTYPE html>",
    "&amp;",
    "&#60;",
    "x > y < z",
    "\"quoted\" 'single'",
    "line1\nline2\r\n\ttab",
    "é中\U0001f600 & <",
    "&&&<<<>>>",
    "]]>",
    StrSub("sub & <x>"),
]

NAMES = ["div", "span", "p", "script", "style", "br", "SCRIPT", "title", "textarea"]

for name in NAMES:
    for t in TEXTS:
        show(f"single {name} {t!r}", lambda: Tag(name, t).get_html_string())
        show(f"single-html {name} {t!r}", lambda: Tag(name, HTML(t)).get_html_string())
        show(f"str {name} {t!r}", lambda: str(Tag(name, t)))
        show(
            f"multi {name} {t!r}",
            lambda: Tag(name, t, "second <&>", HTML("<i>raw</i>"), 3, 2.5).get_html_string(),
        )
        show(
            f"multi-noWS {name} {t!r}",
            lambda: Tag(name, t, span(t), t, _add_ws=False).get_html_string(2, "\r\n"),
        )
        show(
            f"nested-list {name} {t!r}",
            lambda: Tag(name, [t, [t, (t, None)]], None).get_html_string(),
        )

# numbers
for n in [0, 1, -1, 1.5, float("inf"), float("nan"), True, False, 10**30, -0.0, 1e-7]:
    show(f"num {n!r}", lambda: str(div(n)))
    show(f"num2 {n!r}", lambda: str(div(n, n)))
    show(f"num script {n!r}", lambda: str(tags.script(n, n)))

# TagList rendering with both values of _escape_strings, indents and eols
for t in TEXTS:
    for esc in (True, False, 0, 1, None, "", "x"):
        show(
            f"taglist {t!r} esc={esc!r}",
            lambda: TagList(t, span(t), t, Rep(), t).get_html_string(
                1, "\n", add_ws=True, _escape_strings=esc
            ),
        )
    show(f"taglist-default {t!r}", lambda: TagList(t, t).get_html_string())
    show(f"taglist-str {t!r}", lambda: str(TagList(t, HTML(t), t)))

# later additions
for name in ("div", "script"):
    x = Tag(name)
    x.append("a<b", 5)
    x.extend(["c&d", ["e>f", None, 1.25]])
    x.insert(0, "<first>")
    x.children.insert(1, ["&lt;", HTML("&lt;")])
    show(f"added {name}", lambda: str(x))
    show(f"added {name} children", lambda: list(x.children))

# tagify expansion
show("tagify str", lambda: str(div(Tagi("<x>&"))))
show("tagify taglist", lambda: str(div(Tagi(TagList("<a>", 1, HTML("<b>"))), "z&")))
show("tagify in script", lambda: str(tags.script(Tagi("<x>&"), "y<")))
show("untagified", lambda: div(Tagi("<x>"), "a").get_html_string())
show("untagified single", lambda: div(Tagi("<x>")).get_html_string())

# void and empty tags
show("void", lambda: str(Tag("br")))
show("void with child", lambda: str(Tag("br", "a<b")))
show("empty", lambda: str(Tag("div")))
show("meta only", lambda: str(div(htmltools.HTMLDependency("x", "1.0"))))
show("meta + text", lambda: str(div(htmltools.HTMLDependency("x", "1.0"), "a<b")))
show("meta + text script", lambda: str(tags.script(htmltools.HTMLDependency("x", "1.0"), "a<b")))

# corrupted children (non-str items put directly in the data)
for name in ("div", "script"):
    for bad in (5, None, b"bytes", ["l"], 2.5):
        def mk():
            t = Tag(name)
            t.children.data.append(bad)
            return t.get_html_string()

        def mk2():
            t = Tag(name, "ok<")
            t.children.data.append(bad)
            return t.get_html_string()

        show(f"bad single {name} {bad!r}", mk)
        show(f"bad multi {name} {bad!r}", mk2)

# weird names
for nm in (None, 5, ["script"], ("script",), b"script"):
    def wn(k):
        t = Tag("div", *(["a<"] * k))
        t.name = nm
        return t.get_html_string()

    show(f"weird name {nm!r} 0", lambda: wn(0))
    show(f"weird name {nm!r} 1", lambda: wn(1))
    show(f"weird name {nm!r} 2", lambda: wn(2))

# weird eol / indent
show("eol None", lambda: div("a", "b").get_html_string(0, None))
show("eol None single", lambda: div("a<").get_html_string(0, None))
show("indent str", lambda: div("a", "b").get_html_string("x"))
show("indent neg", lambda: div("a<", div("b>")).get_html_string(-3))

# html_escape itself
for t in TEXTS:
    show(f"html_escape {t!r}", lambda: html_escape(t))
    show(f"html_escape attr {t!r}", lambda: html_escape(t, attr=True))
    show(f"html_escape pos {t!r}", lambda: html_escape(t, True))
for bad in (None, 5, b"a&b", HTML("a&b"), ["a"]):
    show(f"html_escape bad {bad!r}", lambda: html_escape(bad))

# documents
show("doc", lambda: HTMLDocument(div("a<b", 3), "x&y").render()["html"])
show("doc script", lambda: HTMLDocument(tags.script("a<b", "c&d")).render()["html"])
