# Probe for _render_tag_or_taglist (str()/repr() of Tag and TagList, "json" render mode).
import htmltools as ht
from htmltools import HTMLDependency, HTMLDocument, HTMLTextDocument, TagList, Tag, div, span, tags, HTML, head_content
from htmltools._core import _render_tag_or_taglist


def run(label, f):
    try:
        print(label, "->", f())
    except BaseException as e:  # noqa
        print(label, "!!", type(e).__name__, str(e)[:140])


D = [
    HTMLDependency("a", "1.0", source={"subdir": "x"}, script={"src": "a.js"}),
    HTMLDependency("b", "2.1.3", source={"href": "https://x/y"}, stylesheet=[{"href": "b.css"}, {"href": "c d.css", "media": "print"}]),
    HTMLDependency("c", "0.1", head="<script>alert('</script>')</SCRIPT>"),
    HTMLDependency("d<&\"\n", "3", meta={"name": "</script>", "content": "m"}, all_files=True, head=TagList(tags.title("T"), HTML("<!-- </sCrIpT -->"))),
    HTMLDependency("a", "2.0", source={"subdir": "x"}, script={"src": "a2.js"}),
    HTMLDependency("e", "1", source={"package": "htmltools", "subdir": "lib"}, script=[{"src": "e.js", "defer": ""}]),
]


class Tagifiable1:
    def tagify(self):
        return TagList(span("from tagify"), D[5], D[0])


class BadDep(HTMLDependency):
    def serialize_to_script_json(self, indent=None):
        print("  serialize called for", self.name)
        raise RuntimeError("boom " + self.name)


class LoudDep(HTMLDependency):
    def serialize_to_script_json(self, indent=None):
        print("  serialize called for", self.name, indent)
        return super().serialize_to_script_json(indent)


def uis():
    return [
        div(),
        TagList(),
        div("hi"),
        TagList("a", "<b>", HTML("<i>")),
        div("hi", D[0]),
        TagList(D[0]),
        TagList(D[0], D[1]),
        div("hi", D[0], span(D[3], D[2]), D[4], D[1], D[0]),
        TagList(D[2], "t", div(D[3]), Tagifiable1()),
        div(Tagifiable1(), head_content(tags.style("p{}"))),
        tags.head(D[1]),
        tags.html(tags.body(D[5])),
        TagList(LoudDep("l1", "1"), div(LoudDep("l2", "1"), LoudDep("l1", "2"))),
        TagList(LoudDep("l1", "1"), BadDep("bad", "1"), LoudDep("l3", "1")),
        div(7, 1.5, None, [D[1], [D[0]]]),
    ]


old = ht.html_dependency_render_mode
print("default mode", repr(old))
for mode in ("invisible", "json", "JSON", "", None, 0, "json "):
    ht.html_dependency_render_mode = mode
    try:
        for i, ui in enumerate(uis()):
            run(f"mode={mode!r} ui{i} str", lambda: repr(str(ui)))
            run(f"mode={mode!r} ui{i} repr", lambda: repr(repr(ui)))
            run(f"mode={mode!r} ui{i} fn", lambda: (type(_render_tag_or_taglist(ui)).__name__, _render_tag_or_taglist(ui) == str(ui)))
            run(f"mode={mode!r} ui{i} _repr_html_", lambda: repr(ui._repr_html_()))
    finally:
        ht.html_dependency_render_mode = old

# Arguments that are not Tag / TagList.
ht.html_dependency_render_mode = "json"
try:
    for bad in (None, "str", D[0], HTML("x"), HTMLDocument(div(D[0])), [div()]):
        run(f"bad {type(bad).__name__}", lambda: repr(_render_tag_or_taglist(bad)))  # type: ignore

    class FakeRender:
        def __init__(self, r):
            self.r = r

        def render(self):
            return self.r

    run("fake empty", lambda: repr(_render_tag_or_taglist(FakeRender({"html": "H", "dependencies": []}))))  # type: ignore
    run("fake HTML", lambda: repr(_render_tag_or_taglist(FakeRender({"html": HTML("<H>"), "dependencies": [D[2]]}))))  # type: ignore
    run("fake gen", lambda: repr(_render_tag_or_taglist(FakeRender({"html": "H", "dependencies": (d for d in D[:2])}))))  # type: ignore
    run("fake missing deps", lambda: repr(_render_tag_or_taglist(FakeRender({"html": "H"}))))  # type: ignore
    run("fake missing html", lambda: repr(_render_tag_or_taglist(FakeRender({"dependencies": [D[0]]}))))  # type: ignore
    run("fake non-dep", lambda: repr(_render_tag_or_taglist(FakeRender({"html": "H", "dependencies": ["x"]}))))  # type: ignore
    run("fake None deps", lambda: repr(_render_tag_or_taglist(FakeRender({"html": "H", "dependencies": None}))))  # type: ignore
    run("fake int html", lambda: repr(_render_tag_or_taglist(FakeRender({"html": 5, "dependencies": []}))))  # type: ignore
    run("fake list html", lambda: repr(_render_tag_or_taglist(FakeRender({"html": ["L"], "dependencies": [D[0]]}))))  # type: ignore

    # JSON mode + HTMLTextDocument post-processing == direct rendering of the document.
    for i, ui in enumerate(uis()[:12]):
        def go():
            txt = str(ui)
            doc = HTMLTextDocument("<html><head>@@</head><body>" + txt + "@@</body></html>", deps_replace_pattern="@@")
            r = doc.render()
            return repr(r["html"]), r["dependencies"], r["dependencies"] == ui.render()["dependencies"], "data-html-dependency" in r["html"]
        run(f"roundtrip ui{i}", go)
finally:
    ht.html_dependency_render_mode = old

# Module attribute removed: the import inside the function fails after render().
del ht.html_dependency_render_mode
try:
    try:
        print("no mode attr ->", str(TagList(LoudDep("l1", "1"))))
    except BaseException as e:  # noqa  (the message contains an absolute path)
        print("no mode attr !!", type(e).__name__)
finally:
    ht.html_dependency_render_mode = old
print("restored", repr(str(div(D[0]))))
