"""Probe for refactoring 2: HTMLDependency constructor - item normalisation and validation."""

import collections

from htmltools import HTMLDependency, HTMLTextDocument, TagList, div
from packaging.version import Version


def state(d):
    # everything the constructor stored, in the order it was stored
    return [(k, repr(v)) for k, v in d.__dict__.items()]


def attempt(label, **kwargs):
    name = kwargs.pop("name", "nm")
    version = kwargs.pop("version", "1.2.3")
    try:
        d = HTMLDependency(name, version, **kwargs)
    except Exception as e:  # noqa: BLE001
        print(label, "-> EXC", type(e).__name__, str(e))
        return None
    print(label, "->", state(d))
    try:
        print("   as_dict", d.as_dict())
        print("   tags", repr(str(d.as_html_tags(lib_prefix=None))))
        print("   json", str(d.serialize_to_script_json()))
    except Exception as e:  # noqa: BLE001
        print("   later EXC", type(e).__name__, str(e))
    return d


class Partial(HTMLDependency):
    """Keeps whatever the constructor managed to store before it raised."""

    def __init__(self, *args, **kwargs):
        try:
            super().__init__(*args, **kwargs)
        except Exception as e:  # noqa: BLE001
            self.error = type(e).__name__
        else:
            self.error = None


def partial(label, **kwargs):
    p = Partial("nm", "1.0", **kwargs)
    print(label, "-> partial", list(p.__dict__.keys()), p.error)


src = {"href": "https://x.org/lib"}

# --- single item vs list: identical results, and identity of what is stored ---------
one = {"src": "a.js"}
lst = [{"src": "a.js"}]
d_one = attempt("script-single", source=src, script=one)
d_lst = attempt("script-list", source=src, script=lst)
print("single==list", d_one == d_lst, d_one.script[0] is one, d_lst.script is lst)

css_one = {"href": "a.css"}
css_lst = [{"href": "a.css", "rel": "preload"}, {"href": "b.css"}]
d_one = attempt("css-single", source=src, stylesheet=css_one)
d_lst = attempt("css-list", source=src, stylesheet=css_lst)
print("rel default written into caller dicts", css_one, css_lst, d_lst.stylesheet is css_lst)

meta_one = {"name": "viewport", "content": "width=device-width"}
d_one = attempt("meta-single", meta=meta_one)
d_lst = attempt("meta-list", meta=[dict(meta_one)])
print("single==list", d_one == d_lst, d_one.meta[0] is meta_one)

attempt("all-none")
attempt("all-empty-lists", script=[], stylesheet=[], meta=[])
attempt("empty-dict-script", script={})
attempt("empty-dict-stylesheet", stylesheet={})
attempt("empty-dict-meta", meta={})
attempt("tuple-of-items", script=({"src": "a.js"}, {"src": "b.js"}), stylesheet=({"href": "a.css"},), meta=())
attempt("extra-keys", script={"src": "a.js", "defer": True, "type": "module"}, stylesheet={"href": "a b.css", "media": "print"}, meta={"name": "n", "content": "c", "x": "y"})
attempt("ordered-dict", script=collections.OrderedDict(src="a.js"), stylesheet=collections.OrderedDict(href="a.css"))
attempt("defaultdict", script=collections.defaultdict(str, src="a.js"), stylesheet=collections.defaultdict(str, href="a.css"))

# --- rejected items -----------------------------------------------------------------
attempt("script-missing-src", script={"href": "a.js"})
attempt("script-list-second-bad", script=[{"src": "a.js"}, {"nosrc": 1}])
attempt("script-str", script="a.js")
attempt("script-empty-str", script="")
attempt("script-int", script=3)
attempt("script-list-of-str", script=["a.js"])
attempt("script-list-none", script=[None])
attempt("script-nested-list", script=[[{"src": "a.js"}]])
attempt("script-false", script=False)
attempt("script-zero", script=0)
attempt("stylesheet-missing-href", stylesheet={"src": "a.css"})
attempt("stylesheet-str", stylesheet="a.css")
attempt("stylesheet-list-int", stylesheet=[1])
attempt("meta-missing-name", meta={"content": "c"})
attempt("meta-missing-content", meta={"name": "n"})
attempt("meta-missing-both", meta={"x": "y"})
attempt("meta-list-second-bad", meta=[{"name": "n", "content": "c"}, {"name": "n"}])
attempt("meta-str", meta="viewport")
g = HTMLDependency("nm", "1", meta=(m for m in [{"name": "n", "content": "c"}]))
print("meta-generator", type(g.meta).__name__, list(g.meta), list(g.__dict__))
try:
    HTMLDependency("nm", "1", meta=(m for m in [{"name": "n", "content": "c"}, {"name": "n"}]))
except Exception as e:  # noqa: BLE001
    print("meta-generator-bad -> EXC", type(e).__name__, str(e))
attempt("script-bad-and-css-bad", script={"x": 1}, stylesheet={"y": 2})
attempt("css-bad-and-meta-bad", stylesheet={"y": 2}, meta={"z": 3})
attempt("error-message-uses-version", name="pkg", version=Version("2.0rc1"), script={"x": 1})
attempt("error-message-nonstr-version", name=None, version=None, script=[7])

# --- what is already stored when the constructor raises --------------------------------
partial("ok")
partial("bad-source", source="lib/")
partial("bad-script", script={"x": 1}, stylesheet={"href": "a.css"})
partial("bad-stylesheet", script={"src": "a.js"}, stylesheet={"x": 1})
partial("bad-meta", script={"src": "a.js"}, stylesheet={"href": "a.css"}, meta={"name": "n"})
css = {"href": "a.css"}
partial("bad-meta-rel-already-defaulted", stylesheet=css, meta="nope")
print("  css after failed meta", css)
css = {"href": "a.css"}
partial("bad-stylesheet-second-item", stylesheet=[css, {"x": 1}])
print("  css after failed stylesheet", css)

# --- source validation -----------------------------------------------------------------
attempt("source-none", source=None)
attempt("source-href", source={"href": "https://x.org"})
attempt("source-subdir", source={"subdir": "lib/x"})
attempt("source-subdir-package", source={"package": "htmltools", "subdir": "lib/x"})
attempt("source-both", source={"href": "https://x.org", "subdir": "lib/x"})
attempt("source-package-only", source={"package": "htmltools"})
attempt("source-empty-dict", source={})
attempt("source-str", source="lib/x")
attempt("source-list", source=["href"])
attempt("source-tuple-pairs", source=(("href", "x"),))
attempt("source-int", source=0)
attempt("source-false", source=False)
attempt("source-ordered-dict", source=collections.OrderedDict(href="https://x.org"))
attempt("bad-source-and-bad-script", source="x", script={"x": 1})

# --- other constructor arguments ---------------------------------------------------------
attempt("head-str", head="<title>t</title>")
attempt("head-tag", head=div("x"))
attempt("head-taglist", head=TagList("a", div()))
attempt("version-object", version=Version("1.0"))
attempt("version-bad-str", version="not a version")
attempt("all-files", all_files=True, source={"subdir": "lib"}, script=[{"src": "a.js"}, {"src": "b.js"}])

# --- the alternative entry point: reconstituting serialised dependencies ------------------
good = HTMLDependency("ser", "1.0", source=src, script={"src": "a.js"}, stylesheet={"href": "a.css"}, meta={"name": "n", "content": "c"}, head="<b>h</b>")
text = "<html><head>HEAD</head><body>" + str(good.serialize_to_script_json()) + "</body></html>"
doc = HTMLTextDocument(text, deps_replace_pattern="HEAD")
print("roundtrip", [state(d) for d in doc.render()["dependencies"]])
bad = text.replace('"src": "a.js"', '"nosrc": "a.js"')
try:
    HTMLTextDocument(bad, deps_replace_pattern="HEAD")
except Exception as e:  # noqa: BLE001
    print("roundtrip bad -> EXC", type(e).__name__, str(e))
