"""Probe for refactoring 4: shared __copy__ implementation of Tag / HTMLDocument / JSXTag
(tags built by the tag functions keep name, add_ws, attrs, children when copied/tagified)."""
import copy
import sys

import htmltools
from htmltools import HTML, HTMLDependency, HTMLDocument, Tag, TagList, div, span, svg, tags
from htmltools._jsx import JSXTag, jsx_tag_create


def show(label, fn):
    try:
        res = fn()
    except Exception as e:  # noqa: BLE001
        print(label, "->", "EXC", type(e).__name__, str(e))
    else:
        print(label, "->", repr(res))


def desc(t):
    return (
        type(t).__name__, t.name, t.add_ws, dict(t.attrs),
        [type(c).__name__ for c in t.children], sorted(t.__dict__), str(t),
    )


def relation(a, b):
    """How the fields of a copy relate to the original."""
    out = []
    for k in a.__dict__:
        va, vb = a.__dict__[k], b.__dict__.get(k, "<missing>")
        out.append((k, type(vb).__name__, va is vb, va == vb))
    return (type(b) is type(a), list(a.__dict__) == list(b.__dict__), out)


dep = HTMLDependency("dep", "1.0", source={"subdir": "x"}, script={"src": "a.js"})

# every tag function: copy keeps the element's own name / default whitespace mode
for mod in (tags, svg):
    for nm in sorted(vars(mod)):
        f = getattr(mod, nm)
        if callable(f) and getattr(f, "__module__", None) == mod.__name__:
            t = f("c", span("k"), {"id": "i"}, dep, title="t")
            c = copy.copy(t)
            print(mod.__name__, nm, desc(c) == desc(t), c == t, c is t, relation(t, c), (c.name, c.add_ws))
for nm in tags.__all__:
    f = getattr(htmltools, nm)
    for ws in (True, False):
        t = f("x", _add_ws=ws, class_="k")
        c = copy.copy(t)
        print("top", nm, ws, desc(c), relation(t, c))

# independence of the copy
t = div("a", span("b"), id="x")
c = copy.copy(t)
c.append("new")
c.attrs["id"] = "y"
c.children[1].append("shared-child")  # shallow: the nested tag is shared
c.name = "section"
c.add_ws = False
print(desc(t))
print(desc(c))

# extra instance fields, and fields whose copy() fails
t = span("x")
t.extra_list = [1, [2]]
t.extra_str = "s"
t.extra_none = None
c = copy.copy(t)
print(relation(t, c), c.extra_list[1] is t.extra_list[1])


class NoCopy:
    def __copy__(self):
        raise RuntimeError("no copy for you")


t.bad = NoCopy()
show("copy failing field", lambda: copy.copy(t))
show("tagify failing field", lambda: t.tagify())


# subclasses: class is preserved, __init__ is not re-run, class attributes untouched
class MyTag(Tag):
    kind = "class-level"
    inits = 0

    def __init__(self, *args, **kwargs):
        MyTag.inits += 1
        super().__init__("my-tag", *args, **kwargs)
        self.mine = {"k": [1]}


m = MyTag("kid", _add_ws=False, id="m")
c = copy.copy(m)
print(desc(c), relation(m, c), MyTag.inits, "kind" in c.__dict__, c.mine["k"] is m.mine["k"])
tg = m.tagify()
print(type(tg).__name__, relation(m, tg), MyTag.inits)

# Tag without __init__ having run (empty __dict__)
raw = Tag.__new__(Tag)
c = copy.copy(raw)
print(type(c).__name__, c.__dict__, c is raw)

# inside a with block (prev_displayhook is set and copied by reference-copy)
hook = sys.displayhook
t = div()
with t:
    c = copy.copy(t)
    print(c.prev_displayhook is t.prev_displayhook, c.prev_displayhook is hook)
print(sys.displayhook is hook, t.prev_displayhook, c.prev_displayhook is hook)

# tagify uses copy: original untouched, result has the same name/add_ws


class Tagif:
    def tagify(self):
        return TagList("t1", span("t2"))


for f in (div, span, tags.map, svg.text):
    t = f(Tagif(), dep, "s", HTML("<i>"))
    tg = t.tagify()
    print(desc(t))
    print(desc(tg), tg.children is t.children, tg.attrs is t.attrs, tg.children[-3] is dep, tg.children[-3] == dep)

# deepcopy does not go through __copy__ but must still work
d = copy.deepcopy(div("a", span("b"), id="x"))
print(desc(d))

# HTMLDocument
doc = HTMLDocument(div("body"), tags.title("T"), lang="en", class_="c")
dc = copy.copy(doc)
print(relation(doc, dc))
dc.append("more")
dc._html_attr_args["lang"] = "fr"
print(doc.render()["html"])
print(dc.render()["html"])


class MyDoc(HTMLDocument):
    pass


md = MyDoc("x")
md.note = ["n"]
mc = copy.copy(md)
print(type(mc).__name__, relation(md, mc))

# JSXTag
Foo = jsx_tag_create("Foo")
j = Foo(span("kid"), "txt", prop="p", lst=[1, 2], tag=div("attr"))
jc = copy.copy(j)
print(relation(j, jc), type(jc.attrs).__name__, type(jc.children).__name__)
jc.append("more")
jc.attrs["prop"] = "changed"
jc.attrs["lst"].append(3)  # shallow
print(str(j))
print(str(jc))
print(str(div(j, Foo())))
show("JSX lower", lambda: JSXTag("foo"))
jr = JSXTag.__new__(JSXTag)
print(copy.copy(jr).__dict__)
