import hashlib
import os
import re
import shutil
import sys
import tempfile
import urllib.parse

import htmltools
from htmltools import HTMLDependency, HTMLDocument, TagList, Tag, div, tags

ROOT = os.path.realpath(tempfile.mkdtemp(prefix="c12probe"))
PKGDIR = os.path.dirname(os.path.realpath(htmltools.__file__))


def norm(x):
    s = x if isinstance(x, str) else repr(x)
    return s.replace(ROOT, "<ROOT>").replace(PKGDIR, "<PKG>")


def show(label, fn):
    try:
        r = fn()
        print(label, "->", norm(r))
    except BaseException as e:  # noqa
        print(label, "!!", type(e).__name__, norm(str(e)))


def write(path, data):
    os.makedirs(os.path.dirname(path), exist_ok=True)
    with open(path, "wb") as f:
        f.write(data)


def tree(d):
    out = []
    if not os.path.exists(d):
        return ["<absent>"]
    for base, dirs, files in os.walk(d):
        dirs.sort()
        rel = os.path.relpath(base, d)
        if not dirs and not files:
            out.append(rel + "/ (empty)")
        for f in sorted(files):
            p = os.path.join(base, f)
            with open(p, "rb") as fh:
                h = hashlib.md5(fh.read()).hexdigest()[:8]
            out.append(os.path.normpath(os.path.join(rel, f)) + ":" + h)
    return sorted(out)


# ---------------------------------------------------------------- source dirs
SRC = os.path.join(ROOT, "src")
write(os.path.join(SRC, "a.js"), b"alert(1)\n")
write(os.path.join(SRC, "b c.css"), b"body{}\r\n")
write(os.path.join(SRC, "js", "deep", "d.js"), b"\x00\xff deep")
write(os.path.join(SRC, "css", "x%y.css"), b"pct")
write(os.path.join(SRC, ".hidden"), b"dot")
write(os.path.join(SRC, "unlisted.txt"), b"unlisted")
os.makedirs(os.path.join(SRC, "emptydir"))
write(os.path.join(ROOT, "outside.js"), b"outside")
EMPTY = os.path.join(ROOT, "emptysrc")
os.makedirs(EMPTY)


def mk(name="dep", version="1.2.3", **kw):
    return HTMLDependency(name, version, **kw)


deps = {
    "nosrc": lambda: mk(script={"src": "a.js"}),
    "url": lambda: mk(source={"href": "https://cdn.example/x y"},
                      script={"src": "a b.js", "defer": True},
                      stylesheet=[{"href": "s.css"}, {"href": "t.css", "rel": "preload"}]),
    "url_and_subdir": lambda: mk(source={"href": "/base/", "subdir": SRC},
                                 script={"src": "a.js"}),
    "local": lambda: mk(source={"subdir": SRC},
                        script=[{"src": "a.js"}, {"src": "js/deep/d.js", "type": "module"}],
                        stylesheet=[{"href": "b c.css"}, {"media": "print", "href": "css/x%y.css", "rel": "alternate"}],
                        meta={"name": "m", "content": "c"},
                        head="<title>t</title>"),
    "local_pkgnone": lambda: mk(source={"package": None, "subdir": SRC}, script={"src": "a.js"}),
    "local_all": lambda: mk("all", "2.0", source={"subdir": SRC}, script={"src": "a.js"}, all_files=True),
    "local_all_missing_script": lambda: mk("allm", "2.0", source={"subdir": SRC}, script={"src": "nope.js"}, all_files=True),
    "all_empty": lambda: mk("ae", "0", source={"subdir": EMPTY}, all_files=True),
    "all_nodir": lambda: mk("an", "0", source={"subdir": os.path.join(ROOT, "doesnotexist")}, all_files=True),
    "nofiles": lambda: mk("nf", "0", source={"subdir": SRC}),
    "missing": lambda: mk("miss", "3", source={"subdir": SRC},
                          script=[{"src": "a.js"}, {"src": "gone.js"}], stylesheet={"href": "b c.css"}),
    "missing_css": lambda: mk("missc", "3", source={"subdir": SRC},
                              script=[{"src": "a.js"}], stylesheet=[{"href": "gone.css"}, {"href": "gone2.css"}]),
    "dir_entry": lambda: mk("dire", "1", source={"subdir": SRC}, script=[{"src": "js"}, {"src": "emptydir"}]),
    "dir_twice": lambda: mk("dirt", "1", source={"subdir": SRC}, script=[{"src": "js"}], stylesheet=[{"href": "js"}]),
    "file_twice": lambda: mk("filet", "1", source={"subdir": SRC}, script=[{"src": "a.js"}, {"src": "a.js"}]),
    "dotdot": lambda: mk("dd", "1", source={"subdir": os.path.join(SRC, "js")}, script=[{"src": "../a.js"}]),
    "abs_entry": lambda: mk("abse", "1", source={"subdir": SRC}, script=[{"src": os.path.join(ROOT, "outside.js")}]),
    "empty_entry": lambda: mk("empt", "1", source={"subdir": SRC}, script=[{"src": ""}]),
    "bad_type_entry": lambda: mk("badt", "1", source={"subdir": SRC}, script=[{"src": "gone.js"}, {"src": 5}]),
    "bad_type_first": lambda: mk("badf", "1", source={"subdir": SRC}, script=[{"src": 5}, {"src": "gone.js"}]),
    "bad_type_ok": lambda: mk("bado", "1", source={"subdir": SRC}, script=[{"src": "a.js"}, {"src": None}]),
    "bytes_entry": lambda: mk("byt", "1", source={"subdir": SRC}, script=[{"src": b"a.js"}]),
    "pkg": lambda: mk("pk", "1", source={"package": "htmltools", "subdir": "lib"}, script={"src": "x.js"}),
    "pkg_real": lambda: mk("pkr", "1", source={"package": "htmltools", "subdir": ""}, script={"src": "py.typed"}),
    "pkg_bad": lambda: mk("pkb", "1", source={"package": "no_such_pkg_c12", "subdir": "lib"}, script={"src": "x.js"}),
    "pkg_empty": lambda: mk("pke", "1", source={"package": "", "subdir": SRC}, script={"src": "a.js"}),
    "tuple_items": lambda: mk("tup", "1", source={"subdir": SRC}, script=({"src": "a.js"},), stylesheet=({"href": "b c.css"},)),
    "weird_name": lambda: mk("na me/é", "1.0.0rc1", source={"subdir": SRC}, script={"src": "a.js"}),
    "int_name": lambda: mk(7, "1", source={"subdir": SRC}, script={"src": "a.js"}),
    "src_no_subdir": lambda: _no_subdir(),
    "head_tags": lambda: mk("ht", "1", head=TagList(tags.title("x"), tags.meta(name="q"))),
}


def _no_subdir():
    d = mk("nsd", "1", source={"subdir": SRC}, script={"src": "a.js"})
    d.source = {"package": "htmltools"}
    return d


PREFIXES = [None, "", "lib", "a/b", "/abs/", "l b"]

print("=== source_path_map / as_dict / as_html_tags")
for key, make in deps.items():
    for pre in PREFIXES:
        for iv in (True, False):
            lab = f"{key} pre={pre!r} iv={iv}"
            show("spm " + lab, lambda: make().source_path_map(lib_prefix=pre, include_version=iv))
            show("dct " + lab, lambda: make().as_dict(lib_prefix=pre, include_version=iv))
            show("tag " + lab, lambda: str(make().as_html_tags(lib_prefix=pre, include_version=iv)))
    show("spm-default " + key, lambda: make().source_path_map())
    show("dct-default " + key, lambda: make().as_dict())

print("=== as_dict identity / non-mutation")
d = deps["local"]()
before = repr((d.script, d.stylesheet, d.meta))
r = d.as_dict(lib_prefix="p")
print("unchanged", repr((d.script, d.stylesheet, d.meta)) == before)
print("meta is", r["meta"] is d.meta)
print("script copies", all(a is not b for a, b in zip(r["script"], d.script)), type(r["script"]).__name__)
print("sheet copies", all(a is not b for a, b in zip(r["stylesheet"], d.stylesheet)), type(r["stylesheet"]).__name__)
print("key order", [list(x) for x in r["stylesheet"]], [list(x) for x in r["script"]], list(r))
t = deps["tuple_items"]()
r = t.as_dict()
print("tuple types", type(r["script"]).__name__, type(r["stylesheet"]).__name__)
# nested mutable value inside an item must be deep-copied
n = mk("nest", "1", source={"subdir": SRC}, script={"src": "a.js", "extra": ["x"]})
r = n.as_dict()
print("nested deep", r["script"][0]["extra"] is not n.script[0]["extra"], r["script"][0]["extra"])
# shared item object between script entries stays shared after deepcopy
shared = {"src": "a.js"}
n = mk("sh", "1", source={"subdir": SRC}, script=[shared, shared])
show("shared item", lambda: n.as_dict())


class LoudDict(dict):
    def update(self, *a, **k):
        print("   LoudDict.update", a, k)
        return super().update(*a, **k)

    def __setitem__(self, k, v):
        print("   LoudDict.__setitem__", k, norm(v))
        return super().__setitem__(k, v)


n = mk("loud", "1", source={"subdir": SRC}, script=LoudDict(src="a.js"), stylesheet=[LoudDict(href="b c.css")])
show("loud", lambda: n.as_dict())
n.script[0]["src"] = 3
show("loud bad src", lambda: n.as_dict())
n = mk("lk", "1", source={"subdir": SRC}, script={"src": "a.js"})
del n.script[0]["src"]
n.stylesheet.append({"rel": "x"})
show("missing keys", lambda: n.as_dict())

print("=== copy_to")
case = 0
for key, make in deps.items():
    for iv in (True, False):
        for stale in (False, True):
            case += 1
            dest = os.path.join(ROOT, "out", f"c{case}")
            try:
                dep = make()
            except BaseException as e:
                print("construct", key, type(e).__name__)
                continue
            tdir = None
            if stale:
                try:
                    href = dep.source_path_map(lib_prefix=None, include_version=iv)["href"]
                    tdir = os.path.join(dest, href)
                    write(os.path.join(tdir, "stale.txt"), b"stale")
                    write(os.path.join(tdir, "js", "old.js"), b"old")
                except BaseException as e:
                    print("stale setup failed", key, type(e).__name__)
            show(f"copy {key} iv={iv} stale={stale}", lambda: dep.copy_to(dest, include_version=iv))
            print("   tree", tree(dest))

# relative destination + trailing slash + nonexisting nested destination
os.chdir(ROOT)
show("copy rel", lambda: deps["local"]().copy_to("reldest/x/", include_version=True))
print("   tree", tree(os.path.join(ROOT, "reldest")))
show("copy positional iv", lambda: deps["local"]().copy_to("reldest2", False))
print("   tree", tree(os.path.join(ROOT, "reldest2")))
# target exists as a file
write(os.path.join(ROOT, "tf", "dep-1.2.3"), b"i am a file")
show("copy target is file", lambda: deps["local"]().copy_to(os.path.join(ROOT, "tf")))
print("   tree", tree(os.path.join(ROOT, "tf")))
# source listed file removed between: unreadable symlink
os.symlink(os.path.join(ROOT, "nowhere"), os.path.join(SRC, "dangling.js"))
dl = mk("dang", "1", source={"subdir": SRC}, script={"src": "dangling.js"})
show("copy dangling", lambda: dl.copy_to(os.path.join(ROOT, "dang")))
print("   tree", tree(os.path.join(ROOT, "dang")))
da = mk("danga", "1", source={"subdir": SRC}, all_files=True)
show("copy all w/ dangling", lambda: da.copy_to(os.path.join(ROOT, "danga")))
print("   tree", tree(os.path.join(ROOT, "danga")))
os.remove(os.path.join(SRC, "dangling.js"))
show("copy Path dest", lambda: deps["local"]().copy_to(__import__("pathlib").Path(ROOT) / "pd"))
print("   tree", tree(os.path.join(ROOT, "pd")))
show("copy bad dest", lambda: deps["local"]().copy_to(None))
show("copy bad dest url", lambda: deps["url"]().copy_to(None))

print("=== save_html")
URL_RE = re.compile(r'(?:src|href)="([^"]*)"')


def check_saved(file):
    with open(file) as f:
        html = f.read()
    res = []
    base = os.path.dirname(os.path.realpath(file))
    for u in URL_RE.findall(html):
        if re.match(r"^([a-z]+:)?//|^/", u):
            res.append((u, "remote"))
            continue
        p = os.path.join(base, urllib.parse.unquote(u))
        if os.path.isfile(p):
            with open(p, "rb") as fh:
                res.append((u, hashlib.md5(fh.read()).hexdigest()[:8]))
        else:
            res.append((u, "MISSING"))
    return html, res


case = 0
combos = [("local", "local_all"), ("url", "nosrc", "head_tags"), ("local", "missing"), ("missing", "local"),
          ("weird_name",), ("pkg_real",), (), ("dir_entry", "file_twice")]
for names in combos:
    for libdir in ("lib", None, "", "x/y", "l b", "../up"):
        for iv in (True, False):
            for kind in ("doc", "tag", "list"):
                case += 1
                base = os.path.join(ROOT, "save", f"s{case}")
                os.makedirs(os.path.join(base, "sub"))
                file = os.path.join(base, "sub", "index.html")
                ds = [deps[n]() for n in names]
                if kind == "doc":
                    obj = HTMLDocument(div("hi", *ds), lang="en")
                    call = lambda: obj.save_html(file, libdir, iv)
                elif kind == "tag":
                    obj = div("hi", *ds)
                    call = lambda: obj.save_html(file, libdir=libdir, include_version=iv)
                else:
                    obj = TagList("hi", *ds)
                    call = lambda: obj.save_html(file, libdir=libdir, include_version=iv)
                lab = f"save {names} libdir={libdir!r} iv={iv} {kind}"
                show(lab, call)
                print("   tree", tree(base))
                if os.path.exists(file):
                    html, res = check_saved(file)
                    print("   html", repr(html))
                    print("   urls", res)

os.chdir(ROOT)
doc = HTMLDocument(div(deps["local"]()))
show("save rel", lambda: doc.save_html("relsave.html"))
print("   tree", tree(os.path.join(ROOT, "lib")), os.path.exists(os.path.join(ROOT, "relsave.html")))
show("save rel subdir missing", lambda: doc.save_html("nodir/relsave.html"))
print("   tree", tree(os.path.join(ROOT, "nodir")))
show("save defaults kw", lambda: doc.save_html(file="kw.html", libdir="kwlib", include_version=False))
print("   tree", tree(os.path.join(ROOT, "kwlib")))
show("save bad file None", lambda: doc.save_html(None))
show("save bad file int", lambda: doc.save_html(12345))
show("save bytes libdir", lambda: doc.save_html("b.html", libdir=b"lib"))
show("save Path file", lambda: doc.save_html(__import__("pathlib").Path("p.html")))
show("save Path libdir", lambda: doc.save_html("pl.html", libdir=__import__("pathlib").Path("plib")))
print("   tree", tree(os.path.join(ROOT, "plib")))
show("save int libdir", lambda: doc.save_html("il.html", libdir=3))
show("save dir as file", lambda: doc.save_html(ROOT))
# failure in a dependency: html file must not be written, earlier deps are copied
bad = HTMLDocument(div(deps["local"](), deps["missing"]()))
show("save failing dep", lambda: bad.save_html("fail/index.html") if os.makedirs("fail", exist_ok=True) is None else None)
print("   tree", tree(os.path.join(ROOT, "fail")))

shutil.rmtree(ROOT)
print("done")
