# Probe for css() in htmltools/_util.py
from htmltools import css, div, HTML


def show(label, fn):
    try:
        r = fn()
        print(label, "->", type(r).__name__, repr(r))
    except Exception as e:  # noqa: BLE001
        print(label, "-> EXC", type(e).__name__, str(e))


class Weird:
    def __str__(self):
        return "weird;value"


class BadStr:
    def __str__(self):
        raise RuntimeError("boom")


class S(str):
    pass


cases = [
    ("empty", lambda: css()),
    ("all none", lambda: css(a=None, b=None)),
    ("basic", lambda: css(font_size="12px", backgroundColor="red")),
    ("order", lambda: css(z=1, a=2, m=3)),
    ("none in middle", lambda: css(a=1, b=None, c=3)),
    ("float", lambda: css(width=1.5, height=0, opacity=0.0)),
    ("bool", lambda: css(a=True, b=False)),
    ("empty value", lambda: css(a="")),
    ("list", lambda: css(margin=["1px", "2px"])),
    ("empty list", lambda: css(margin=[])),
    ("bad list", lambda: css(margin=[1, 2])),
    ("tuple", lambda: css(margin=("1px", "2px"))),
    ("leading cap", lambda: css(MozAppearance="none", WebkitBoxShadow="x")),
    ("consecutive caps", lambda: css(fontSIZE="1", ABC="2")),
    ("underscores", lambda: css(_a="1", b_="2", c__d="3", __="4")),
    ("mixed", lambda: css(font_Size="1", Font_size="2", a_B_c="3")),
    ("non-ascii", lambda: css(**{"État": "x", "straßE": "y", "İx": "z"})),
    ("odd keys", lambda: css(**{"": "x", "a-b": "y", "a b": "z", "a:b": "w", "A": "v"})),
    ("digits", lambda: css(h1Size="3", a9Z="4")),
    ("collapse nl", lambda: css("\n", a=1, b=2)),
    ("collapse nl none", lambda: css("\n", a=None)),
    ("collapse sp", lambda: css(" ", a=1)),
    ("collapse kw", lambda: css(collapse_="; ", a=1, b=None, c=2)),
    ("collapse None", lambda: css(None, a=1)),
    ("collapse int", lambda: css(1, a=1)),
    ("collapse None no kw", lambda: css(None)),
    ("collapse subclass", lambda: css(S("|"), a=1, b=2)),
    ("weird", lambda: css(a=Weird())),
    ("badstr", lambda: css(a=1, b=BadStr(), c=2)),
    ("html value", lambda: css(a=HTML("<b>"))),
    ("str subclass key", lambda: css(**{S("fooBar_baz"): S("v")})),
    ("value with semicolon", lambda: css(a="1;", b=";")),
    ("bytes", lambda: css(a=b"x")),
    ("dict value", lambda: css(a={"x": 1})),
    ("nested list", lambda: css(a=[["x"]])),
    ("many", lambda: css(**{"p%d" % i: i for i in range(30)})),
    ("many caps", lambda: css(**{"pA%dB_c" % i: None if i % 3 == 0 else i for i in range(12)})),
]
for label, fn in cases:
    show(label, fn)

# css() output is accepted by add_style
for kw in [dict(a=1), dict(font_size="1px", color=None, marginTop=["1", "2"])]:
    s = css(**kw)
    t = div()
    r = t.add_style(s)
    print(repr(s), r is t, repr(t.attrs), str(t))
    r = t.add_style(css(zIndex=3), prepend=True)
    print(r is t, repr(t.attrs), str(t))
show("css None to add_style", lambda: div().add_style(css()))
show("css nl to add_style", lambda: div().add_style(css("\n", a=1)))
