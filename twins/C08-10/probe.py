"""Probe for refactoring 5: HTMLDocument._gen_html_tag_tree / _hoist_head_content."""
import copy
import os
import tempfile

from htmltools import HTML, HTMLDependency, HTMLDocument, MetadataNode, Tag, TagList, div, span, tags, head_content
from htmltools._jsx import jsx_tag_create

LOG = []


def show(label, fn):
    try:
        res = fn()
        print(label, "=>", repr(res))
    except Exception as e:  # noqa: BLE001
        print(label, "=> EXC", type(e).__name__, str(e))


def dump(x, depth=0):
    pad = "  " * depth
    if isinstance(x, Tag):
        out = [f"{pad}{type(x).__name__}<{x.name}> ws={x.add_ws} attrs={dict(x.attrs)!r}"]
        out += [dump(c, depth + 1) for c in x.children]
        return "\n".join(out)
    if isinstance(x, TagList):
        out = [f"{pad}{type(x).__name__}[{len(x)}]"]
        out += [dump(c, depth + 1) for c in x]
        return "\n".join(out)
    if isinstance(x, HTMLDependency):
        return f"{pad}DEP {x.name} {x.version} {x.script} {x.stylesheet}"
    return f"{pad}{type(x).__name__}:{str(x)!r}"


def dep(name="a", version="1.0", **kw):
    kw.setdefault("source", {"subdir": "x"})
    return HTMLDependency(name, version, **kw)


class AsTag:
    def __init__(self, t):
        self.t = t

    def tagify(self):
        LOG.append("tagify:" + type(self.t).__name__)
        return self.t


class MyHtml(Tag):
    pass


Foo = jsx_tag_create("Foo")
d1 = dep("d1", script={"src": "one.js"})
d2 = dep("d2", "2.0", stylesheet={"href": "two.css"}, meta={"name": "m", "content": "c"})
d1new = dep("d1", "1.5", script={"src": "newer.js"})

cases = {
    "empty": lambda: HTMLDocument(),
    "text": lambda: HTMLDocument("just <text>"),
    "html raw": lambda: HTMLDocument(HTML("<p>raw</p>")),
    "div": lambda: HTMLDocument(div("a")),
    "two": lambda: HTMLDocument(div("a"), span("b")),
    "kwargs": lambda: HTMLDocument(div("a"), lang="en", class_="k", data_x=1, hidden=True, nope=None),
    "body": lambda: HTMLDocument(tags.body("b", class_="bc")),
    "body+kwargs": lambda: HTMLDocument(tags.body("b"), lang="fr"),
    "body+other": lambda: HTMLDocument(tags.body("b"), "x"),
    "two bodies": lambda: HTMLDocument(tags.body("b1"), tags.body("b2")),
    "body in list": lambda: HTMLDocument([tags.body("b")]),
    "body in taglist": lambda: HTMLDocument(TagList(None, tags.body("b"))),
    "body deps": lambda: HTMLDocument(tags.body(d1, div(d2), d1new)),
    "html": lambda: HTMLDocument(tags.html(tags.head(tags.title("t")), tags.body("b"))),
    "html+kwargs": lambda: HTMLDocument(tags.html(tags.body("b"), lang="a", class_="x"), lang="b", class_="y"),
    "html no head": lambda: HTMLDocument(tags.html(tags.body("b", d1))),
    "html head not first": lambda: HTMLDocument(tags.html(d2, "txt", tags.body("b"), tags.head(tags.title("late")))),
    "html two heads": lambda: HTMLDocument(tags.html(tags.head("h1"), tags.head("h2"), tags.body(d1))),
    "html head nested only": lambda: HTMLDocument(tags.html(tags.body(tags.head("inner")))),
    "html empty": lambda: HTMLDocument(tags.html()),
    "html only text": lambda: HTMLDocument(tags.html("t")),
    "html head with kids": lambda: HTMLDocument(tags.html(tags.head(tags.meta(name="first"), d1), tags.body(d2))),
    "html+other": lambda: HTMLDocument(tags.html(tags.body("b")), "x"),
    "html subclass": lambda: HTMLDocument(MyHtml("html", tags.body("b"))),
    "head only": lambda: HTMLDocument(tags.head(tags.title("t"))),
    "HTML-case name": lambda: HTMLDocument(Tag("HTML", "x")),
    "tagifiable->html": lambda: HTMLDocument(AsTag(tags.html(tags.body("via")))),
    "tagifiable->body": lambda: HTMLDocument(AsTag(tags.body("via", d1))),
    "tagifiable->div": lambda: HTMLDocument(AsTag(div("via"))),
    "tagifiable->taglist(body)": lambda: HTMLDocument(AsTag(TagList(tags.body("via")))),
    "tagifiable->taglist(2)": lambda: HTMLDocument(AsTag(TagList(tags.body("via"), "x"))),
    "tagifiable->empty": lambda: HTMLDocument(AsTag(TagList())),
    "tagifiable->str": lambda: HTMLDocument(AsTag("s")),
    "nested tagifiable in body": lambda: HTMLDocument(tags.body(AsTag(div(AsTag(span("deep")))))),
    "dep only": lambda: HTMLDocument(d1),
    "dep + body": lambda: HTMLDocument(d1, tags.body("b")),
    "head_content": lambda: HTMLDocument(div(head_content(tags.title("T"), tags.style("a>b")), head_content(tags.title("T"), tags.style("a>b")))),
    "jsx": lambda: HTMLDocument(Foo(div("k"), a=1)),
    "deps dup": lambda: HTMLDocument(div(d1, d1new, d2, d1)),
    "nums/None": lambda: HTMLDocument(1, None, 2.5, ["l", [None]]),
}

for name, mk in cases.items():
    print("=== case", name)
    LOG.clear()
    try:
        doc = mk()
    except Exception as e:  # noqa: BLE001
        print("ctor EXC", type(e).__name__, e)
        continue
    before = (dump(doc._content), repr(doc._html_attr_args))
    for kw in ({}, {"lib_prefix": None}, {"lib_prefix": "L/x", "include_version": False}):
        try:
            r = doc.render(**kw)
            print(f"render{kw}:")
            print(r["html"])
            print("deps:", r["dependencies"], [str(d.version) for d in r["dependencies"]])
        except Exception as e:  # noqa: BLE001
            print(f"render{kw} EXC", type(e).__name__, e)
    print("log:", LOG)
    print("unchanged:", (dump(doc._content), repr(doc._html_attr_args)) == before)
    show("repeat equal", lambda: doc.render() == doc.render())
    show("tree", lambda: dump(doc._gen_html_tag_tree("lib", include_version=True)))
    show("tree shares top-level with content", lambda: [c is doc._gen_html_tag_tree("lib", include_version=True) for c in doc._content])
    show("copy renders same", lambda: copy.copy(doc).render() == doc.render())

print("=== _hoist_head_content directly")
hoist = HTMLDocument._hoist_head_content
show("not html", lambda: hoist(div(), "lib", True))
show("not html (Tag body)", lambda: hoist(tags.body(), None, False))
x = tags.html(tags.body(d1, d2), tags.head("orig"))
sx = dump(x)
show("hoist", lambda: dump(hoist(x, "lib", True)))
show("hoist noversion", lambda: dump(hoist(x, None, False)))
print("arg unchanged:", dump(x) == sx)
r = hoist(x, "lib", True)
print("res is not x:", r is not x, "head copied:", r.children[1] is not x.children[1], "body shared:", r.children[0] is x.children[0])
x2 = tags.html("only text")
r2 = hoist(x2, "lib", True)
print(dump(r2), "| orig:", dump(x2))
x3 = tags.html(span("head"), Tag("head", "real", _add_ws=False), tags.head("second"))
print(dump(hoist(x3, "p", True)))


class NameLog(Tag):
    """Counts reads of .name through the head search (deterministic log)."""


x4 = tags.html(*[NameLog(n) for n in ("a", "head", "b", "head")])
print(dump(hoist(x4, "", True)))

print("=== save_html")
with tempfile.TemporaryDirectory() as tmp:
    os.makedirs(os.path.join(tmp, "x"))
    for fn in ("one.js", "two.css"):
        with open(os.path.join(tmp, "x", fn), "w") as f:
            f.write("/* */")
    cwd = os.getcwd()
    os.chdir(tmp)
    try:
        doc = HTMLDocument(tags.body(div("saved", d1), d2), lang="en")
        out = doc.save_html(os.path.join(tmp, "out.html"))
        print(os.path.basename(out))
        print(open(out).read())
        print(sorted(os.path.relpath(os.path.join(dp, f), tmp) for dp, _, fs in os.walk(tmp) for f in fs))
        out2 = div("t", d1).save_html(os.path.join(tmp, "t.html"), libdir="deps", include_version=False)
        print(open(out2).read())
        print(sorted(os.path.relpath(os.path.join(dp, f), tmp) for dp, _, fs in os.walk(tmp) for f in fs))
    finally:
        os.chdir(cwd)

print("=== errors")


class Raises:
    def tagify(self):
        raise LookupError("tagify failed")


show("tagify raises", lambda: HTMLDocument(Raises()).render())
show("bad attr kwarg", lambda: HTMLDocument(div(), lang=object()).render())
show("bad attr kwarg html", lambda: HTMLDocument(tags.html(), lang=object()).render())
bad = HTMLDocument(div())
bad._content.data.append(object())
show("bad content", lambda: bad.render())
