"""Probe for HTMLDependency.as_dict / as_html_tags URL construction."""
import collections
import os
import tempfile

import htmltools
from htmltools import HTMLDependency, HTMLDocument, TagList, div, tags

PKG_DIR = os.path.dirname(htmltools.__file__)
TMP = os.path.realpath(tempfile.mkdtemp())


def norm(s):
    return str(s).replace(PKG_DIR, "<PKG>").replace(TMP, "<TMP>")


def show(label, fn):
    try:
        out = fn()
        print(label, "->", norm(repr(out)))
    except BaseException as e:  # noqa: BLE001
        print(label, "-> EXC", type(e).__name__, norm(e))


def items_repr(d):
    # key order of every item is part of the observable result
    return {
        k: ([list(x.items()) for x in v] if k in ("script", "stylesheet", "meta") else v)
        for k, v in d.items()
    }


PREFIXES = [None, "", "lib", "a/b", "lib/", "/abs", "with space", "ü"]
SOURCES = {
    "none": None,
    "url": {"href": "https://cdn.example.com/x/1.0"},
    "url_slash": {"href": "https://cdn.example.com/x/"},
    "url_empty": {"href": ""},
    "local": {"subdir": os.path.join(TMP, "srcdir")},
    "pkg": {"package": "htmltools", "subdir": "libtest/testdep"},
    "both": {"href": "//h", "subdir": "zzz", "package": "nonexistent_pkg_zzz"},
}
SCRIPTS = [
    {"src": "a.js"},
    {"src": "a b.js", "defer": ""},
    {"src": "sub/dir/ü&é.js", "type": "module"},
    {"src": "/abs.js"},
    {"src": ""},
    {"src": "q?x=1#frag%20", "integrity": "sha-xyz", "crossorigin": "anonymous"},
]
SHEETS = [
    {"href": "a.css"},
    {"href": "b c.css", "rel": "preload", "media": "print"},
    {"media": "screen", "href": "~t'(x)*.css"},
    {"href": "/abs.css"},
]


def mk(source, **kw):
    import copy

    return HTMLDependency(
        "na me",
        "1.2.3",
        source=source,
        script=copy.deepcopy(SCRIPTS),
        stylesheet=copy.deepcopy(SHEETS),
        meta={"name": "viewport", "content": "x"},
        **kw,
    )


for sname, source in SOURCES.items():
    for prefix in PREFIXES:
        for iv in (True, False):
            dep = mk(source, head="<x>" if iv else None)
            label = f"as_dict[{sname},{prefix!r},{iv}]"
            show(label, lambda: items_repr(dep.as_dict(lib_prefix=prefix, include_version=iv)))
            show(
                "as_html_tags" + label[7:],
                lambda: str(dep.as_html_tags(lib_prefix=prefix, include_version=iv)),
            )
    dep = mk(source)
    show(f"default[{sname}]", lambda: items_repr(dep.as_dict()))
    show(f"str[{sname}]", lambda: str(dep))

# The dependency's own items must not be modified by as_dict (deep copies).
dep = mk(SOURCES["local"])
before = repr((dep.script, dep.stylesheet))
d = dep.as_dict()
print("unmodified", before == repr((dep.script, dep.stylesheet)))
print("fresh lists", d["script"] is not dep.script, d["stylesheet"] is not dep.stylesheet)
print("fresh items", all(a is not b for a, b in zip(d["script"], dep.script)))
print("meta shared", d["meta"] is dep.meta)
d["script"][0]["src"] = "changed"
print("still unmodified", before == repr((dep.script, dep.stylesheet)))

# Empty lists / no items
e = HTMLDependency("e", "0")
show("empty", lambda: items_repr(e.as_dict(lib_prefix="L")))
e2 = HTMLDependency("e", "0", source={"href": "u"}, script=[], stylesheet=[])
show("empty2", lambda: items_repr(e2.as_dict(lib_prefix="L")))

# Items changed after construction: missing keys, odd types, removed rel
m = mk(SOURCES["url"])
del m.stylesheet[0]["rel"]
m.stylesheet[1]["rel"] = "other"
show("rel-removed", lambda: items_repr(m.as_dict()))
m = mk(SOURCES["url"])
del m.script[2]["src"]
del m.stylesheet[1]["href"]
show("missing-both(stylesheet first)", lambda: items_repr(m.as_dict()))
m = mk(SOURCES["url"])
del m.script[2]["src"]
show("missing-src", lambda: items_repr(m.as_dict()))
m = mk(SOURCES["url"])
m.script[0]["src"] = 5
show("int-src", lambda: items_repr(m.as_dict()))
m = mk(SOURCES["url"])
m.stylesheet[0]["href"] = None
show("none-href", lambda: items_repr(m.as_dict()))
m = mk(SOURCES["url"])
m.script[0]["src"] = b"by tes.js"
show("bytes-src", lambda: items_repr(m.as_dict()))
m = mk(SOURCES["url"])
m.script.append("notadict")
show("str-item", lambda: items_repr(m.as_dict()))
m = mk(SOURCES["url"])
m.script = tuple(m.script)
show("tuple-script", lambda: (type(m.as_dict()["script"]).__name__, items_repr(m.as_dict())))

# dict subclasses as items keep their type and order
od = collections.OrderedDict([("z", "1"), ("src", "o d.js"), ("a", "2")])
os_ = collections.OrderedDict([("z", "1"), ("href", "o d.css"), ("a", "2")])
m = HTMLDependency("od", "1", source={"href": "H"}, script=od, stylesheet=os_)
show("ordered", lambda: m.as_dict())
show("ordered-types", lambda: [type(x).__name__ for x in m.as_dict()["script"] + m.as_dict()["stylesheet"]])


class Loud(dict):
    def update(self, *a, **k):
        print("  Loud.update", a, k)
        super().update(*a, **k)

    def __getitem__(self, k):
        print("  Loud.getitem", k)
        return super().__getitem__(k)


m = HTMLDependency(
    "loud", "1", source={"href": "H"}, script=Loud(src="l.js"), stylesheet=Loud(href="l.css")
)
show("loud", lambda: m.as_dict(lib_prefix="p"))

# Through documents
doc = HTMLDocument(div("x", mk(SOURCES["pkg"])), TagList(mk(SOURCES["url"])))
for prefix in (None, "lib", "p/q"):
    for iv in (True, False):
        show(f"doc[{prefix!r},{iv}]", lambda: doc.render(lib_prefix=prefix, include_version=iv)["html"])
show("tag.render", lambda: tags.span(mk(SOURCES["pkg"])).render())
