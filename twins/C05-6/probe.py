import copy
import itertools

import htmltools
from htmltools import HTML, HTMLDependency, Tag, TagList, div, span, tags
from htmltools import _core


def show(label, fn):
    try:
        out = fn()
        print(label, "->", repr(out))
    except BaseException as e:  # noqa: BLE001
        print(label, "-> EXC", type(e).__name__, str(e)[:120])


class Selfie:
    """Self-rendering object (ReprHtml only)."""

    def __init__(self, s):
        self.s = s

    def _repr_html_(self):
        return self.s


class Tagi:
    """Tagifiable object."""

    def __init__(self, ret):
        self.ret = ret

    def tagify(self):
        return self.ret


dep = HTMLDependency("x", "1.0", source={"subdir": "."}, script={"src": "x.js"})
dep2 = HTMLDependency("y", "2.0", source={"subdir": "."}, script={"src": "y.js"})


def leaves():
    return [
        lambda: "txt",
        lambda: "",
        lambda: " a <b> & ",
        lambda: HTML("<i>raw</i>"),
        lambda: HTML(""),
        lambda: Selfie("<self/>"),
        lambda: span("s"),
        lambda: span(),
        lambda: tags.a("l", href="u&v"),
        lambda: tags.b(span("x"), "y"),
        lambda: div("d"),
        lambda: div(),
        lambda: tags.br(),
        lambda: tags.p(span("in"), "t"),
        lambda: dep,
        lambda: 3,
        lambda: 2.5,
        lambda: None,
        lambda: Tag("span", "ws", _add_ws=True),
        lambda: Tag("div", "nows", _add_ws=False),
        lambda: tags.script("a<b"),
        lambda: tags.style("a>b", "c&d"),
        lambda: TagList("k", span("l")),
        lambda: ["m", [span("n"), None]],
    ]


containers = [
    ("TagList", lambda *a: TagList(*a)),
    ("span", lambda *a: span(*a)),
    ("div", lambda *a: div(*a)),
    ("div_nows", lambda *a: div(*a, _add_ws=False)),
    ("span_ws", lambda *a: span(*a, _add_ws=True)),
    ("script", lambda *a: tags.script(*a)),
    ("br", lambda *a: tags.br(*a)),
    ("nested", lambda *a: div(span(*a), tags.b(*a))),
]


def _try(fn):
    try:
        return fn()
    except BaseException as e:  # noqa: BLE001
        return ("EXC", type(e).__name__, str(e)[:100])


def render_all(x):
    res = []
    res.append(_try(lambda: str(x)))
    res.append(_try(lambda: x.get_html_string()))
    res.append(_try(lambda: x.get_html_string(2, "\r\n")))
    res.append(_try(lambda: x.get_html_string(indent=1, eol="")))
    if isinstance(x, TagList):
        res.append(_try(lambda: x.get_html_string(1, "\n", add_ws=False)))
        res.append(_try(lambda: x.get_html_string(1, "\n", add_ws=False, _escape_strings=False)))
        res.append(_try(lambda: x.get_html_string(_escape_strings=False)))
    r = x.render()
    res.append((r["html"], [d.name for d in r["dependencies"]]))
    return res


def main():
    L = leaves()
    # single, pairs and selected triples of children in every container
    for cname, mk in containers:
        show(f"{cname}[]", lambda: render_all(mk()))
        for i in range(len(L)):
            show(f"{cname}[{i}]", lambda: render_all(mk(L[i]())))
        for i, j in itertools.product(range(len(L)), repeat=2):
            show(f"{cname}[{i},{j}]", lambda: render_all(mk(L[i](), L[j]())))
        for i, j, k in [(0, 6, 10), (10, 0, 6), (6, 14, 6), (14, 5, 0), (3, 3, 3), (12, 12, 0), (10, 11, 10), (17, 14, 17), (14, 0, 14), (5, 6, 5)]:
            show(f"{cname}[{i},{j},{k}]", lambda: render_all(mk(L[i](), L[j](), L[k]())))

    # tagifiables
    for ret in [span("t"), div("t"), TagList("a", span("b"), div("c")), TagList(), "str"]:
        show(f"tagi {str(ret)!r}", lambda: render_all(div("x", Tagi(ret), span("y"))))
        show(f"tagi-tl {str(ret)!r}", lambda: render_all(TagList(Tagi(ret), "z", Tagi(ret))))
    show("untagified", lambda: TagList(Tagi(span("q"))).get_html_string())
    show("untagified2", lambda: div("a", Tagi(span("q"))).get_html_string())
    show("untagified3", lambda: TagList(dep, Tagi(span("q"))).get_html_string(add_ws=False))

    # attribute forms
    show("attrs", lambda: str(div({"class": "a"}, "k", {"class": "b", "id": 1}, class_="c", data_x=True, y=None, z=False, style=HTML("a&b"), title="q\"'<\n")))
    show("attrs-only", lambda: str(span({"a": "b"})))
    show("attr bad", lambda: str(span(a=object())))
    show("attr bad2", lambda: str(span({"a": [1]})))

    # _add_ws validation
    for v in [True, False, 0, 1, None, "yes", [], 1.0]:
        show(f"_add_ws={v!r}", lambda: (Tag("x", "c", span("k"), _add_ws=v).add_ws, str(Tag("x", "c", span("k"), _add_ws=v))))
        show(f"span _add_ws={v!r}", lambda: str(span("c", div(), _add_ws=v)))
    show("bad child", lambda: div(object()))
    show("bad child + bad ws", lambda: Tag("x", object(), _add_ws=3))
    show("bad attr + bad child", lambda: Tag("x", object(), {"a": object()}))
    show("bad name", lambda: str(Tag(None)))
    show("bad name2", lambda: str(Tag(5, "x")))
    show("name only", lambda: (Tag("q").name, Tag("q").add_ws, Tag("q").attrs, list(Tag("q").children), Tag("q").prev_displayhook))

    # copy / tagify identity details
    t = div(span("a", dep), "b", dep2, id="i")
    c = copy.copy(t)
    show("copy eq", lambda: (c == t, c is t, c.children is t.children, c.attrs is t.attrs, c.children[0] is t.children[0], c.add_ws, c.name, sorted(c.__dict__) == sorted(t.__dict__), list(c.__dict__) == list(t.__dict__)))
    tg = t.tagify()
    show("tagify ids", lambda: (tg == t, tg.children is t.children, tg.children[0] is t.children[0], tg.children[0].children[1] is dep, tg.children[2] is dep2, tg.children[2] == dep2, str(tg)))
    tl = TagList("a", dep, span("b", dep2), Tagi(TagList("p", Tagi(span("deep")), "q")), Tagi(div()))
    tt = tl.tagify()
    show("tl tagify", lambda: (len(tl), len(tt), [type(z).__name__ for z in tt], tt[1] is dep, tt[1] == dep, _try(lambda: str(tt)), _try(lambda: tt.get_html_string(add_ws=False)), str(tt.tagify()), [type(z).__name__ for z in tt.tagify()]))
    show("tl tagify empty", lambda: (TagList().tagify() == TagList(), TagList().tagify().data, str(TagList())))

    class MyTag(Tag):
        pass

    class MyTL(TagList):
        pass

    m = MyTag("my", span("a"), div("b"), _add_ws=False)
    m.extra = ["e"]
    show("subclass", lambda: (type(copy.copy(m)).__name__, type(m.tagify()).__name__, copy.copy(m).extra, copy.copy(m).extra is m.extra, str(m), m.render()["html"]))
    show("subclass tl", lambda: (type(MyTL("a", span("b")).tagify()).__name__, str(MyTL("a", div("b")))))

    # render modes
    old = htmltools.html_dependency_render_mode
    try:
        for mode in ["json", "none", "JSON"]:
            htmltools.html_dependency_render_mode = mode
            show(f"mode {mode} tag", lambda: (str(div("a", dep, span("b", dep2))), repr(div(dep)), div(dep)._repr_html_()))
            show(f"mode {mode} tl", lambda: (str(TagList("a", dep, span("b", dep2))), repr(TagList()), TagList(dep, dep)._repr_html_()))
            show(f"mode {mode} nodeps", lambda: (str(div("a")), str(TagList("a", span("b")))))
    finally:
        htmltools.html_dependency_render_mode = old

    # tables
    show("void", lambda: (sorted(_core._VOID_TAG_NAMES), len(_core._VOID_TAG_NAMES), sorted(_core._NO_ESCAPE_TAG_NAMES)))
    for nm in sorted(_core._VOID_TAG_NAMES) + ["script", "style", "Script", "BR", "", "x y"]:
        show(f"tag {nm}", lambda: (str(Tag(nm)), str(Tag(nm, "a<")), str(Tag(nm, HTML("a<"))), str(Tag(nm, "a<", "b>")), str(Tag(nm, dep)), str(Tag(nm, span("<")))))

    # direct data manipulation (bypassing normalisation)
    raw = TagList()
    raw.data.append(5)
    show("raw int", lambda: raw.get_html_string())
    show("raw int noescape", lambda: raw.get_html_string(_escape_strings=False))
    show("bad indent", lambda: TagList("a").get_html_string("x"))
    show("bad indent tag", lambda: div("a", span()).get_html_string("x"))
    show("bad indent selfie", lambda: div(Selfie("s"), span()).get_html_string(None))
    show("bad eol", lambda: div("a", span()).get_html_string(1, None))
    show("bad eol tl", lambda: TagList("a", div()).get_html_string(1, 3))

    # mutation entry points
    d = div()
    d.append("a", span("b"))
    d.insert(0, div("c"))
    d.extend([dep, "e", [span("f")]])
    show("mutated", lambda: render_all(d))
    tl2 = TagList("a") + [span("b")] + "c"
    tl2 += [div("d"), "e"]
    tl3 = "x" + tl2
    show("added", lambda: (render_all(tl2), render_all(tl3)))

    # HTMLDocument
    show("doc", lambda: htmltools.HTMLDocument(div("a", span("b"), dep)).render()["html"])
    show("doc2", lambda: htmltools.HTMLDocument(TagList("a", span("b"), tags.i("c"))).render()["html"])


main()
