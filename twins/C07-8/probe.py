# Probe for TagList.tagify (and Tag.tagify / render, which go through it).
from copy import copy
from htmltools import HTML, HTMLDependency, HTMLDocument, Tag, TagList, div, span, tags
from htmltools._core import MetadataNode

LOG = []


class Meta(MetadataNode):
    def __init__(self, label):
        self.label = label

    def __copy__(self):
        LOG.append(("copy", self.label))
        return Meta(self.label + "'")

    def __repr__(self):
        return f"Meta({self.label})"


class TagifMeta(MetadataNode):
    """Both a MetadataNode and Tagifiable: the tagify branch must win."""

    def __init__(self, label):
        self.label = label

    def __copy__(self):
        LOG.append(("copy-tm", self.label))
        return TagifMeta(self.label + "'")

    def tagify(self):
        LOG.append(("tagify-tm", self.label))
        return Meta(self.label + "!")

    def __repr__(self):
        return f"TagifMeta({self.label})"


class T:
    def __init__(self, label, result):
        self.label = label
        self.result = result

    def tagify(self):
        LOG.append(("tagify", self.label))
        r = self.result
        return r() if callable(r) else r

    def __repr__(self):
        return f"T({self.label})"


class Repr:
    def _repr_html_(self):
        return "<r/>"

    def __repr__(self):
        return "Repr()"


class MyList(TagList):
    pass


def dep(n="a", v="1.0"):
    return HTMLDependency(n, v)


def describe(x):
    if isinstance(x, Tag):
        return ("Tag", x.name, [describe(c) for c in x.children])
    if isinstance(x, TagList):
        return (type(x).__name__, [describe(c) for c in x])
    if isinstance(x, HTMLDependency):
        return ("Dep", x.name, str(x.version))
    if isinstance(x, (HTML,)):
        return ("HTML", x.as_string())
    return (type(x).__name__, repr(x))


def run(label, tl):
    LOG.clear()
    before = list(tl)
    try:
        out = tl.tagify()
    except Exception as e:  # noqa: BLE001
        print(label, "!!", type(e).__name__, str(e), "log=", LOG)
        return None
    print(label)
    print("   type:", type(out).__name__, "same obj:", out is tl)
    print("   out :", describe(out))
    print("   log :", LOG)
    print("   input untouched:", list(tl) == before and all(a is b for a, b in zip(tl, before)))
    ident = []
    for o in out:
        ident.append(any(o is b for b in before))
    print("   shared identity:", ident)
    try:
        print("   html:", repr(out.get_html_string()))
        print("   deps:", out.get_dependencies())
    except Exception as e:  # noqa: BLE001
        print("   render !!", type(e).__name__, e)
    return out


run("empty", TagList())
run("plain", TagList("a", HTML("<b>"), Repr(), 3))
run("only meta", TagList(Meta("m1"), dep("d1"), Meta("m2")))
run("meta around text", TagList(Meta("m1"), "x", dep("d1"), "y", Meta("m2")))
run("tags", TagList(div("a", Meta("in1"), span(dep("deep"))), Meta("m"), tags.br(Meta("inbr"))))
run("tagif->tag", TagList(Meta("m0"), T("t1", lambda: span("s")), Meta("m1")))
run("tagif->str", TagList(T("t1", "plain<"), Meta("m1"), T("t2", HTML("<raw>"))))
run("tagif->meta", TagList(T("t1", lambda: Meta("fromtag")), "z", T("t2", lambda: dep("fromtag2"))))
run("tagif->empty list", TagList("a", T("t1", lambda: TagList()), Meta("m"), "b"))
run("tagif->list of 1", TagList("a", T("t1", lambda: TagList(Meta("inner"))), "b"))
run("tagif->list of many", TagList(Meta("m0"), T("t1", lambda: TagList("p", Meta("inner"), div("q"), dep("dd"))), Meta("m1"), T("t2", lambda: TagList("r", "s"))))
run("tagif->list w/ tagifiable (not re-tagified)", TagList(T("t1", lambda: TagList(T("inner", "never"), "k"))))
run("tagif+meta object", TagList(TagifMeta("tm"), Meta("m"), TagifMeta("tm2")))
run("subclass", MyList(Meta("m"), T("t", lambda: MyList("x", Meta("n"))), "y"))
run("tagif->None", TagList(T("t", None), Meta("m")))
run("tagif->int", TagList(Meta("m"), T("t", 5)))


def raiser():
    raise ValueError("boom")


run("tagify raises", TagList(Meta("m0"), T("t1", raiser), Meta("m1"), T("t2", "ok")))

bad = TagList("x")
bad.data.append(object())
run("tagif->list with invalid item", TagList(Meta("m0"), T("t1", bad), Meta("m1")))

# Tag.tagify / render paths
t = div(Meta("a"), T("t1", lambda: TagList(Meta("b"), span("s", dep("sd")))), dep("top"), "txt")
LOG.clear()
t2 = t.tagify()
print("Tag.tagify", describe(t2), LOG)
print("children independent:", t2.children is not t.children, [a is b for a, b in zip(t.children, t2.children)])
LOG.clear()
print("render", t.render(), LOG)
LOG.clear()
print("str", repr(str(t)), LOG)
LOG.clear()
print("taglist render", TagList(Meta("x"), t, Meta("y")).render(), LOG)
LOG.clear()
doc = HTMLDocument(Meta("dm"), t, dep("docdep"))
print("doc", doc.render(), LOG)

# dependency copies are independent of the originals
d = HTMLDependency("orig", "1.0", head="<x>")
tl = TagList(d, div(d))
out = tl.tagify()
print("dep copied:", out[0] is not d, out[0] == d, out[1].children[0] is not d, out[1].children[0] == d)
