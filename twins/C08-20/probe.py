# Probe for refactoring 5: JSXTagAttrDict.update/_update, _walk_attrs_and_children, _render_react_js, _serialize_attr
import copy
from collections import OrderedDict

from htmltools import HTML, HTMLDependency, Tag, TagList, div, span, tags
from htmltools._core import MetadataNode
from htmltools._jsx import (
    JSXTag,
    JSXTagAttrDict,
    _render_react_js,
    _serialize_attr,
    _serialize_style_attr,
    _walk_attrs_and_children,
    jsx,
    jsx_tag_create,
)


def show(label, fn):
    try:
        res = fn()
        print(label, "->", repr(res))
    except BaseException as e:  # noqa: BLE001
        print(label, "-> EXC", type(e).__name__, str(e)[:200])


def dump(d):
    return [(k, type(v).__name__, repr(v)) for k, v in d.items()]


class Obj:
    def __str__(self):
        return 'obj "quoted"'


class LoggingMapping:
    def __init__(self, name, pairs, log):
        self.name, self.pairs, self.log = name, pairs, log

    def items(self):
        for k, v in self.pairs:
            self.log.append((self.name, k))
            yield k, v


# ---- JSXTagAttrDict ------------------------------------------------------------
show("attrs empty", lambda: dump(JSXTagAttrDict()))
show("attrs kw", lambda: dump(JSXTagAttrDict(class_="a", data_x_y=1, on_click_=None, f=False, t=True, l=[1], d={"k": 1}, _lead="x", __="u")))
show("attrs dup after normalise", lambda: dump(JSXTagAttrDict(a_b="first", **{"a-b": "second", "a_b_": "third"})))
d = JSXTagAttrDict(id="orig", keep="k")
log = []
show(
    "update many",
    lambda: d.update(
        LoggingMapping("m1", [("id", "one"), ("x_y", 1)], log),
        LoggingMapping("m2", [("x-y", 2), ("new_", None)], log),
        {"id": "three"},
        id_="kw",
        z=0,
    ),
)
print("  after", dump(d), log)
show("update nothing", lambda: d.update())
print("  after", dump(d))
show("update positional only", lambda: d.update({"p_": 1}))
print("  after", dump(d))
d = JSXTagAttrDict(id="orig")
log = []
show("update bad key midway", lambda: d.update(LoggingMapping("m1", [("ok", 1)], log), LoggingMapping("m2", [("a", 1), (5, 2), ("never", 3)], log), last=1))
print("  after", dump(d), log)
show("update non-mapping", lambda: d.update({"b": 1}, [("a", 1)], c=2))
print("  after", dump(d))
show("update html key", lambda: d.update({HTML("h_k_"): 1}))
print("  after", dump(d))
d["set_item_"] = None
d["a_b"] = "v"
show("setitem bad key", lambda: d.__setitem__(5, 1))
print("  after setitem", dump(d))
cp = copy.copy(d)
cp["only_copy"] = 1
print("  copy independent", type(cp).__name__, "only-copy" in d, "only-copy" in cp)


class UpperNames(JSXTagAttrDict):
    @staticmethod
    def _normalize_attr_name(x):
        return x.upper()


show("subclass normaliser", lambda: dump(UpperNames(a=1, b_=2)))

# ---- _serialize_attr / _serialize_style_attr -------------------------------------
Foo = jsx_tag_create("Foo")
values = {
    "none": None,
    "true": True,
    "false": False,
    "int": 5,
    "neg": -3,
    "zero": 0,
    "float": 1.5,
    "inf": float("inf"),
    "str": "plain",
    "str quotes": 'say "hi" \\ \' \n',
    "empty str": "",
    "jsx": jsx("() => 1", "x"),
    "jsx quotes": jsx('"q"'),
    "html": HTML('<b class="x">'),
    "obj": Obj(),
    "list": [1, "a", None, True, [2.5, jsx("j")]],
    "tuple": (1, ("x",)),
    "empty list": [],
    "dict": {"a": 1, "b": {"c": [False, 'q"']}, 3: "int key"},
    "empty dict": {},
    "ordered dict": OrderedDict([("z", 1), ("a", 2)]),
    "tag": div("kid", id="i"),
    "tag empty": span(),
    "jsxtag": Foo("kid", p=1),
    "jsxtag empty": Foo(),
    "list of tags": [div(), Foo(a=[span("s")])],
    "bytes": b"by",
    "set": frozenset(["only"]),
    "complex": 1 + 2j,
    "taglist": TagList("a", "b"),
    "dep": HTMLDependency("d", "1.0"),
}
for name, v in values.items():
    show("serialize_attr " + name, lambda: _serialize_attr(v))

styles = {
    "none": None,
    "str": "color:red;font-size:12px",
    "str trailing": "color:red;",
    "str spaces": " color : red ; x:y ",
    "str empty": "",
    "str no colon": "nocolon",
    "str url": "background:url(http://x/y);a:b",
    "str quotes": 'font-family:"A B"',
    "dict": {"color": "red", "n": 1, "q": 'x"y'},
    "empty dict": {},
    "list": ["a:b"],
    "int": 5,
    "jsx": jsx("a:b;c:d"),
    "html": HTML("a:b"),
}
for name, v in styles.items():
    show("serialize_style " + name, lambda: _serialize_style_attr(v))

# ---- _render_react_js ----------------------------------------------------------------
Bar = jsx_tag_create("ns.Bar")
dep = HTMLDependency("d", "1.0", script={"src": "d.js"})


class Meta(MetadataNode):
    pass


render_cases = {
    "meta": lambda: dep,
    "str": lambda: 'a "b" c',
    "str subclass": lambda: jsx('j"x'),
    "empty tag": lambda: div(),
    "empty jsx": lambda: Foo(),
    "attrs only tag": lambda: div(id="a", class_="b c", hidden=True),
    "attrs only jsx": lambda: Foo(a=1, style="color:red", b=None, c=[1, 2]),
    "style dict": lambda: Foo(style={"color": "red"}),
    "style none": lambda: Foo(style=None, other=None),
    "style on html tag": lambda: div(style="a:b;c:d"),
    "html attr on tag": lambda: div(title=HTML('<q"x">')),
    "children only": lambda: div("a", span("b"), "c"),
    "children jsx": lambda: Foo("a", Bar(), Foo(div("deep", Foo("deeper", x=jsx("y"))))),
    "only meta children": lambda: div(dep, Meta()),
    "only meta children jsx": lambda: Foo(dep),
    "meta between": lambda: Foo("a", dep, "b", Meta(), div(dep)),
    "attrs and meta child": lambda: Foo(dep, a=1),
    "html child": lambda: div(HTML("<b>")),
    "tag in prop": lambda: Foo(header=div("h", id="x"), footer=Bar(z=Foo())),
    "list of tags in prop": lambda: Foo(items=[div("1"), Foo("2")], m={"k": span()}),
    "number child": lambda: Foo(1, 2.5),
    "empty str child": lambda: Foo("", div("")),
    "script tag": lambda: tags.script("var x = \"1\";"),
    "untagified": lambda: div(type("T", (), {"tagify": lambda self: "x"})()),
    "bad style": lambda: Foo(style=5),
    "bad style deep": lambda: Foo("a", div(Foo(style=[1])), "never"),
}
for name, mk in render_cases.items():
    for indent, eol in [(0, "\n"), (2, "\n"), (1, "")]:
        show("render_react %s indent=%d eol=%r" % (name, indent, eol), lambda: _render_react_js(mk(), indent, eol))
for bad in [5, None, TagList("a"), [div()], 1.5, b"x"]:
    show("render_react non-node %s" % type(bad).__name__, lambda: _render_react_js(bad, 1, "\n"))

# ---- _walk_attrs_and_children -------------------------------------------------------------
def walk_log(x):
    visited = []

    def fn(v):
        visited.append(type(v).__name__ + ":" + (getattr(v, "name", None) or (v if isinstance(v, str) else "")))
        return copy.copy(v)

    res = _walk_attrs_and_children(x, fn)
    return res, visited


x = Foo(
    "c1",
    div("d1", Foo("inner", q=span("in-prop")), id="divattr"),
    dep,
    a=div("in-a"),
    b=[div("in-list-not-walked")],
    c="plain",
    d=Bar(e=span("deep-prop")),
)
before = str(x)
res, visited = walk_log(x)
print("walk visited", visited)
print("walk result equal render", str(res) == before, res is not x, res.children is not x.children, res.attrs is not x.attrs)
print("walk original unchanged", str(x) == before)
print("walk shares list prop (not walked)", res.attrs["b"] is x.attrs["b"])
res2, visited2 = walk_log(div("a", span("b", Foo("c", p=div("pp"))), title="t"))
print("walk html tag", visited2, str(res2))
show("walk scalar", lambda: walk_log(5))
show("walk str", lambda: walk_log("s"))
show("walk taglist", lambda: (lambda r: (type(r[0]).__name__, r[1]))(walk_log(TagList(div("x")))))


def boom(v):
    if v == "boom":
        raise ValueError("boom")
    return copy.copy(v)


y = Foo("ok", div("boom"), "after", p=div("prop"))
ybefore = str(y)
show("walk exc", lambda: _walk_attrs_and_children(y, boom))
print("walk exc original unchanged", str(y) == ybefore)

# ---- JSXTag.tagify / str (whole pipeline; pure and repeatable) ------------------------------------
class Widget:
    def __init__(self, log):
        self.log = log

    def tagify(self):
        self.log.append("widget")
        return span("w", HTMLDependency("wdep", "2.0"), Meta())


wl = []
big = Foo(
    "text \"q\"",
    div("d", Widget(wl), dep, class_="k"),
    Bar(Widget(wl), n=None),
    Widget(wl),
    Meta(),
    style="color:red;margin:0",
    cb=jsx("() => alert('x')"),
    child=Foo(Widget(wl)),
    flag=True,
    data_x=[1, {"y": (2, 3)}],
)
s1 = str(big)
t1 = big.tagify()
s2 = str(big)
print("jsx str", s1)
print("jsx repeat", s1 == s2, repr(big) == s1, big._repr_html_() == s1, str(t1) == s1, wl)
print("jsx tagify type", type(t1).__name__, t1.name, dump(t1.attrs), [type(c).__name__ for c in t1.children])
print("jsx deps", [(d.name, str(d.version)) for d in t1.get_dependencies()])
print("jsx render", big.tagify().render()["html"] == t1.render()["html"], div(big).render()["html"] == div(big).render()["html"])
print("jsx tagify fixed point", t1.tagify() == t1, t1.tagify() is not t1)
print("jsx in div", str(div(Foo(a=1), "x")))
cpb = copy.copy(big)
cpb.append("more")
cpb.attrs["flag"] = False
print("jsx copy independent", str(big) == s1, str(cpb) != s1)
show("jsx lowercase name", lambda: JSXTag("foo"))
show("jsx allowed props", lambda: str(jsx_tag_create("P", allowedProps=["a"])(a=1)).count("React"))
show("jsx disallowed prop", lambda: jsx_tag_create("P", allowedProps=["a"])(b=1))
show("jsx bad style", lambda: str(Foo(style=5)))


class ListWidget:
    def tagify(self):
        return TagList("a", "b")


show("jsx child expanding to a TagList", lambda: str(Foo(ListWidget())))
