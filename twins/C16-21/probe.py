"""Probe for css(): prints deterministic repr of results / exception types."""
from htmltools import HTML, css, div
from htmltools import _util


def show(label, fn):
    try:
        r = fn()
        print(label, "->", type(r).__name__, repr(r))
    except Exception as e:  # noqa: BLE001
        print(label, "!!", type(e).__name__, str(e))


class Weird:
    def __str__(self):
        return "weird-value"


class BadStr:
    def __str__(self):
        raise RuntimeError("no str")


class MyStr(str):
    pass


order = []


class Tracer:
    def __init__(self, n):
        self.n = n

    def __str__(self):
        order.append(self.n)
        return "t%d" % self.n


cases = [
    ("empty", dict()),
    ("all-none", dict(a=None, b=None)),
    ("simple", dict(font_size="12px", backgroundColor="red")),
    ("doc", dict(font_size="12px", background_color="red", margin=None)),
    ("camel-multi", dict(borderTopLeftRadius="1px", WebkitTransition="all")),
    ("leading-upper", dict(X="1", XY="2", aB_cD="3", a__b="4", _a="5", a_="6", _="7", A_B="8")),
    ("numbers", dict(width=10, opacity=0.5, z_index=-1, flag=True, other=False, zero=0)),
    ("empty-str", dict(color="", margin=" ")),
    ("list", dict(margin=["1px", "2px"], padding=[], font=["x"])),
    ("tuple", dict(margin=("1px", "2px"))),
    ("html-value", dict(color=HTML("<b>"))),
    ("object", dict(color=Weird())),
    ("mystr", dict(color=MyStr("abc"))),
    ("unicode", dict(**{"cölor": "ré", "ÉCLAIR": "1", "ßIZE": "2", "İx": "3"})),
    ("digits", dict(h1Size="1", size2X="2", **{"3d": "x", "a-b": "c", "a b": "d", "": "e"})),
    ("bad-list", dict(margin=[1, 2])),
    ("bad-str", dict(color=BadStr())),
    ("none-middle", dict(a="1", b=None, c="3")),
    ("bytes", dict(a=b"xy")),
    ("nested-list", dict(a=[["x"]])),
    ("mystr-key", {MyStr("fooBar_baz"): "1"}),
]

for label, kw in cases:
    show("css " + label, lambda: css(**kw))
    for coll in ["\n", " ", "; ", MyStr("|")]:
        show("css %s collapse=%r" % (label, coll), lambda: css(coll, **kw))

for bad in [None, 1, 1.5, b"", [], HTML(""), HTML(";")]:
    show("css bad collapse %r" % (bad,), lambda: css(bad, a="1"))
    show("css bad collapse, no kwargs %r" % (bad,), lambda: css(bad))
show("css collapse kw", lambda: css(collapse_="\n", a="1", b="2"))
show("css positional only", lambda: css("x"))
show("css two positional", lambda: css("x", "y"))

# order of side effects: values are converted in argument order, one time each
show("css tracer", lambda: css(a=Tracer(1), b=None, c=Tracer(2), d=[], e=Tracer(3)))
print("order", order)
del order[:]
show("css tracer then bad", lambda: css(a=Tracer(1), b=BadStr(), c=Tracer(2)))
print("order", order)

# css output with the default separator is accepted by add_style
for label, kw in cases:
    def run():
        s = css(**kw)
        if s is None:
            return None
        t = div()
        r = t.add_style(s)
        return (r is t, dict(t.attrs), str(t))
    show("add_style(css) " + label, run)
    def run2():
        s = css(**kw)
        if s is None:
            return None
        t = div(style="top:0;")
        t.add_style(s, prepend=True)
        return (dict(t.attrs), str(t))
    show("add_style(css, prepend) " + label, run2)

# module surface that callers might rely on
print("css in __all__", "css" in _util.__all__, _util.__all__)
print("doc head", css.__doc__.strip().splitlines()[0])
import inspect
print("sig", inspect.signature(css))
