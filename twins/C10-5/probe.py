"""Deterministic probe for property C10 (dependency validation + resolution).

Prints repr of outputs / exception types+messages.  Must print byte-identical
output on the unmodified tree and on the patched tree.
"""
import copy

from packaging.version import Version

import htmltools
from htmltools import HTML, HTMLDependency, HTMLDocument, TagList, div, span, tags
from htmltools import _core

LOG = []


def show(label, fn):
    del LOG[:]
    try:
        out = fn()
        print(label, "->", repr(out))
    except BaseException as e:  # noqa
        print(label, "!!", type(e).__name__, repr(e.args))
    if LOG:
        print("   log:", LOG)


def ident(deps):
    """Identify dependency objects by their tag attribute (set below)."""
    return [(d.name, str(d.version), getattr(d, "tagid", None)) for d in deps]


def mk(name, version, tagid=None, **kw):
    d = HTMLDependency(name, version, **kw)
    d.tagid = tagid
    return d


# ---------------------------------------------------------------- resolution
def sec_resolve():
    print("== resolve")
    a1 = mk("a", "1.0", "a1")
    a2 = mk("a", "1.10", "a2")
    a3 = mk("a", "1.9", "a3")
    a4 = mk("a", "1.10.0", "a4")  # equal to a2 under Version ordering
    b1 = mk("b", "2", "b1")
    b2 = mk("b", "2.0.0", "b2")
    c1 = mk("c", Version("0.1"), "c1")
    c2 = mk("c", "0.1rc1", "c2")
    c3 = mk("c", "0.1.post1", "c3")
    e = mk("", "0", "empty-name")

    res = _core._resolve_dependencies
    cases = {
        "empty": [],
        "single": [a1],
        "numeric-not-lexical": [a3, a2],
        "numeric-not-lexical-rev": [a2, a3],
        "tie-earliest": [a2, a4, a1],
        "tie-earliest-rev": [a4, a2, a1],
        "first-occurrence-order": [b1, a1, c1, a2, b2, c3, c2],
        "same-object-twice": [a1, a1, a1],
        "pre-post": [c2, c1, c3],
        "post-pre": [c3, c1, c2],
        "empty-name": [e, a1, e],
        "many": [a1, b1, a2, b2, a3, c1, a4, c2, c3, e],
    }
    for k, v in cases.items():
        show("resolve " + k, lambda v=v: ident(res(list(v))))
        # idempotent
        show("resolve^2 " + k, lambda v=v: ident(res(res(list(v)))))
        # input list not mutated and result is a fresh list
        def chk(v=v):
            inp = list(v)
            out = res(inp)
            return (ident(inp) == ident(v), out is inp, type(out).__name__)
        show("resolve-pure " + k, chk)

    # tuple / generator input (only needs iteration)
    show("resolve tuple", lambda: ident(res((a1, a2, b1))))
    show("resolve gen", lambda: ident(res(x for x in (a1, a2, b1))))
    # bad inputs
    show("resolve None", lambda: res(None))
    show("resolve [None]", lambda: res([None]))
    show("resolve ['x']", lambda: res(["x"]))
    show("resolve [a1, 3]", lambda: res([a1, 3]))

    # order-of-operations tracing with instrumented name / version objects
    class Name(str):
        def __hash__(self):
            LOG.append(("hash", str(self)))
            return str.__hash__(self)

        def __eq__(self, o):
            LOG.append(("eq", str(self), str(o)))
            return str.__eq__(self, o)

    class Ver:
        def __init__(self, n, tag):
            self.n = n
            self.tag = tag

        def __gt__(self, o):
            LOG.append(("gt", self.tag, o.tag))
            return Cmp(self.n > o.n, self.tag)

        def __lt__(self, o):
            LOG.append(("lt", self.tag, o.tag))
            return Cmp(self.n < o.n, self.tag)

        def __str__(self):
            return "V%s" % self.n

    class Cmp:
        def __init__(self, v, tag):
            self.v = v
            self.tag = tag

        def __bool__(self):
            LOG.append(("bool", self.tag, self.v))
            return self.v

    class Dep:
        """Duck-typed dependency whose attribute reads are traced."""

        def __init__(self, name, n, tag):
            object.__setattr__(self, "_name", Name(name))
            object.__setattr__(self, "_version", Ver(n, tag))
            object.__setattr__(self, "tag", tag)

        @property
        def name(self):
            LOG.append(("name", self.tag))
            return self._name

        @property
        def version(self):
            LOG.append(("version", self.tag))
            return self._version

    def traced():
        ds = [Dep("x", 1, "x1"), Dep("y", 5, "y5"), Dep("x", 3, "x3"), Dep("x", 3, "x3b"),
              Dep("y", 2, "y2"), Dep("x", 2, "x2")]
        return [d.tag for d in res(ds)]

    show("resolve traced", traced)

    class BadVer:
        def __gt__(self, o):
            raise RuntimeError("cmp boom")

    def boom():
        d1 = mk("z", "1", "z1")
        d2 = mk("z", "1", "z2")
        d2.version = BadVer()
        return ident(res([d1, d2]))

    show("resolve cmp raises", boom)

    def mixed_types():
        d1 = mk("z", "1", "z1")
        d2 = mk("z", "1", "z2")
        d2.version = "2"
        return ident(res([d1, d2]))

    show("resolve str-vs-Version", mixed_types)


# --------------------------------------------------------- tree collection
def sec_tree():
    print("== tree")
    a1 = mk("a", "1.0", "a1")
    a2 = mk("a", "1.10", "a2")
    a3 = mk("a", "1.9", "a3")
    a4 = mk("a", "1.10.0", "a4")
    b1 = mk("b", "2", "b1")
    c1 = mk("c", "0.1", "c1")

    trees = {
        "flat": TagList(a1, b1, a2),
        "nested": TagList(div(a3, span(b1, div(a2))), c1, a4),
        "deep-first": div(div(div(div(a4))), a2, "text", HTML("<b>"), 3, None),
        "list-children": div([a1, [b1, [a2]]], TagList(c1, TagList(a3))),
        "none": div("x", span("y")),
        "empty-taglist": TagList(),
        "empty-tag": div(),
        "dup-objects": TagList(a1, div(a1), a1),
        "attrs-only": div({"class": "k"}, id="q"),
    }
    for k, t in trees.items():
        show("deps " + k, lambda t=t: ident(t.get_dependencies()))
        show("deps-nodedup " + k, lambda t=t: ident(t.get_dependencies(dedup=False)))
        show("deps-dedup-explicit " + k, lambda t=t: ident(t.get_dependencies(dedup=True)))
        show("deps-fresh-list " + k, lambda t=t: t.get_dependencies(dedup=False) is t.get_dependencies(dedup=False))

    # truthy / falsy non-bool dedup values
    t = div(a3, span(b1, div(a2)), c1, div(a4))
    tl = TagList(a1, div(a2), a3)
    for val in (0, 1, "", "no", None, [], [0]):
        show("dedup=%r taglist" % (val,), lambda val=val: ident(tl.get_dependencies(dedup=val)))
        show("dedup=%r tag" % (val,), lambda val=val: ident(t.get_dependencies(dedup=val)))
    # positional dedup: allowed on Tag, keyword-only on TagList
    show("tag positional dedup", lambda: ident(t.get_dependencies(False)))
    show("taglist positional dedup", lambda: ident(tl.get_dependencies(False)))

    class Flag:
        def __init__(self, v):
            self.v = v

        def __bool__(self):
            LOG.append(("bool", self.v))
            return self.v

    show("dedup Flag(True)", lambda: ident(tl.get_dependencies(dedup=Flag(True))))
    show("dedup Flag(False)", lambda: ident(tl.get_dependencies(dedup=Flag(False))))
    show("dedup Flag(False) nested", lambda: ident(t.get_dependencies(dedup=Flag(False))))

    # position independence
    def posindep():
        x = TagList(a1, a2, b1)
        y = TagList(div(a1), span(div(a2)), div(div(div(b1))))
        return ident(x.get_dependencies()) == ident(y.get_dependencies())

    show("position independent", posindep)

    # render paths use resolution too
    show("render deps", lambda: ident(trees["nested"].render()["dependencies"]))
    show("tag render deps", lambda: ident(trees["deep-first"].render()["dependencies"]))
    show("doc render deps", lambda: ident(HTMLDocument(trees["nested"]).render()["dependencies"]))
    show("render html", lambda: trees["list-children"].render()["html"])

    # subclass that is both Tag and HTMLDependency-like ordering check
    class SubDep(HTMLDependency):
        pass

    s = SubDep("a", "3", script={"src": "s.js"})
    s.tagid = "sub"
    show("subclass dep", lambda: ident(TagList(a1, div(s), a2).get_dependencies()))

    # raw list data containing non-node objects (bypassing constructor coercion)
    def rawdata():
        tl2 = TagList()
        tl2.data = [a1, "s", 5, None, object, div(a2), [a3]]
        return ident(tl2.get_dependencies(dedup=False))

    show("raw data", rawdata)


# -------------------------------------------------------------- validation
class LogDict(dict):
    def __contains__(self, k):
        LOG.append(("contains", k))
        return dict.__contains__(self, k)

    def __setitem__(self, k, v):
        LOG.append(("set", k, v))
        dict.__setitem__(self, k, v)

    def __getitem__(self, k):
        LOG.append(("get", k))
        return dict.__getitem__(self, k)


def summarize(d):
    return (
        d.name,
        repr(d.version),
        d.source,
        d.script,
        d.stylesheet,
        d.meta,
        d.all_files,
        repr(d.head),
        type(d.script).__name__,
        type(d.stylesheet).__name__,
        type(d.meta).__name__,
    )


def sec_validate():
    print("== validate")
    D = HTMLDependency
    show("minimal", lambda: summarize(D("n", "1")))
    show("Version obj", lambda: summarize(D("n", Version("1.2.3"))))
    show("bad version str", lambda: D("n", "not a version"))
    show("version int", lambda: summarize(D("n", 3)))
    show("version None", lambda: summarize(D("n", None)))

    class StrSub(str):
        pass

    show("version str subclass", lambda: summarize(D("n", StrSub("4.5"))))

    # single item vs list
    for key, item in (
        ("script", {"src": "a.js"}),
        ("stylesheet", {"href": "a.css"}),
        ("meta", {"name": "k", "content": "v"}),
    ):
        def single(key=key, item=item):
            return summarize(D("n", "1", **{key: dict(item)}))

        def aslist(key=key, item=item):
            return summarize(D("n", "1", **{key: [dict(item)]}))

        show("single " + key, single)
        show("list " + key, aslist)
        show("single==list " + key, lambda: single() == aslist())
        show("empty list " + key, lambda key=key: summarize(D("n", "1", **{key: []})))
        show("tuple " + key, lambda key=key, item=item: summarize(D("n", "1", **{key: (dict(item),)})))
        show("empty dict " + key, lambda key=key: summarize(D("n", "1", **{key: {}})))
        for bad in ("x.js", 3, ["x.js"], [None], [{"zzz": 1}], [dict(item), 5], 0, False, "", (), [[]]):
            show("bad %s=%r" % (key, bad), lambda key=key, bad=bad: summarize(D("nm", "1.2", **{key: bad})))

    # required keys for meta: each individually missing
    show("meta missing content", lambda: D("n", "1", meta={"name": "k"}))
    show("meta missing name", lambda: D("n", "1", meta={"content": "k"}))
    show("meta missing both", lambda: D("n", "1", meta={"other": "k"}))
    show("meta second bad", lambda: D("n", "1", meta=[{"name": "k", "content": "v"}, {"name": "k"}]))
    show("script second bad", lambda: D("n", "1", script=[{"src": "k"}, {"href": "k"}]))

    # identity: caller's list object is kept, caller's dict is wrapped
    def identity():
        sc = [{"src": "a.js"}]
        st = {"href": "a.css"}
        me = ({"name": "a", "content": "b"},)
        d = D("n", "1", script=sc, stylesheet=st, meta=me)
        return (d.script is sc, d.stylesheet[0] is st, d.meta is me, st)

    show("identity", identity)

    # rel default
    show("rel default", lambda: D("n", "1", stylesheet=[{"href": "a"}, {"href": "b", "rel": "x"}]).stylesheet)

    # source validation
    for src in (
        None,
        {"href": "http://x"},
        {"subdir": "lib"},
        {"package": "p", "subdir": "lib"},
        {"href": "h", "subdir": "s"},
        {},
        {"package": "p"},
        "lib",
        ["href"],
        ("href",),
        0,
        False,
        3.5,
    ):
        show("source=%r" % (src,), lambda src=src: summarize(D("n", "1", source=src)))

    # order of containment checks on an instrumented dict
    show("source logdict href", lambda: D("n", "1", source=LogDict(href="h")).source)
    show("source logdict subdir", lambda: D("n", "1", source=LogDict(subdir="s")).source)
    show("source logdict both", lambda: D("n", "1", source=LogDict(subdir="s", href="h")).source)
    show("source logdict neither", lambda: D("n", "1", source=LogDict(x="s")))
    show("script logdict", lambda: D("n", "1", script=LogDict(src="s")).script)
    show("script logdict bad", lambda: D("n", "1", script=LogDict(x="s")))
    show("stylesheet logdict", lambda: D("n", "1", stylesheet=LogDict(href="s")).stylesheet)
    show("stylesheet logdict rel", lambda: D("n", "1", stylesheet=[LogDict(href="s", rel="r")]).stylesheet)
    show("meta logdict", lambda: D("n", "1", meta=LogDict(name="s", content="c")).meta)
    show("meta logdict bad", lambda: D("n", "1", meta=[LogDict(name="s", content="c"), LogDict(content="s")]))

    # error precedence across arguments
    show("prec source>script", lambda: D("n", "1", source={}, script="bad"))
    show("prec script>stylesheet", lambda: D("n", "1", script="bad", stylesheet={}))
    show("prec stylesheet>meta", lambda: D("n", "1", stylesheet={}, meta={}))
    show("prec version>source", lambda: D("n", "bad ver", source={}))

    # partially constructed object state on failure
    def partial(**kw):
        obj = D.__new__(D)
        try:
            obj.__init__("pn", "9", **kw)
        except Exception as e:
            return (type(e).__name__, sorted(obj.__dict__))
        return ("ok", sorted(obj.__dict__))

    show("partial source", lambda: partial(source={}))
    show("partial script", lambda: partial(script=5))
    show("partial stylesheet", lambda: partial(script={"src": "a"}, stylesheet=[5]))
    show("partial meta", lambda: partial(stylesheet={"href": "a"}, meta=[{}]))
    show("partial ok", lambda: partial())

    # instrumented name/version in error messages (formatting order)
    class NoisyStr:
        def __init__(self, s):
            self.s = s

        def __str__(self):
            LOG.append(("str", self.s))
            return self.s

        def __format__(self, spec):
            LOG.append(("format", self.s, spec))
            return self.s

    class NoisyItem:
        def __repr__(self):
            LOG.append(("repr-item",))
            return "<item>"

        def __str__(self):
            LOG.append(("str-item",))
            return "item"

    show("noisy name bad item", lambda: D(NoisyStr("nn"), NoisyStr("vv"), script=[NoisyItem()]))
    show("noisy name missing key", lambda: D(NoisyStr("nn"), NoisyStr("vv"), meta=LogDict(name="q")))
    show("noisy ok", lambda: repr(D(NoisyStr("nn"), NoisyStr("vv"), meta=LogDict(name="q", content="r"))))

    # direct calls to the private validators
    d = D("vd", "1.0")
    show("_validate_dicts ok", lambda: d._validate_dicts([{"a": 1}, {"a": 2, "b": 3}], ["a"]))
    show("_validate_dicts empty req", lambda: d._validate_dicts([{}, {}], []))
    show("_validate_dicts gen", lambda: d._validate_dicts(({"a": i} for i in range(3)), ["a"]))
    show("_validate_dicts bad", lambda: d._validate_dicts([{"a": 1}, {"b": 2}], ["a", "b"]))
    show("_validate_dicts str iter", lambda: d._validate_dicts("ab", ["a"]))
    show("_validate_dicts dict iter", lambda: d._validate_dicts({"a": 1}, ["a"]))
    show("_validate_dicts None", lambda: d._validate_dicts(None, ["a"]))
    show("_validate_dict ok", lambda: d._validate_dict({"a": 1}, ["a"]))
    show("_validate_dict missing 2nd", lambda: d._validate_dict({"a": 1}, ["a", "b", "c"]))
    show("_validate_dict nondict", lambda: d._validate_dict([("a", 1)], ["a"]))
    show("_validate_dict req tuple", lambda: d._validate_dict({"a": 1}, ("a", "z")))
    show("_validate_dict req str", lambda: d._validate_dict({"a": 1, "b": 1}, "abq"))
    show("_validate_dict req None", lambda: d._validate_dict({"a": 1}, None))
    show("_validate_dict unhashable req", lambda: d._validate_dict({"a": 1}, [[1]]))
    show("_validate_dict logdict", lambda: d._validate_dict(LogDict(a=1, b=2), ["a", "b", "c", "d"]))

    import collections

    show("ordered dict", lambda: summarize(D("n", "1", script=collections.OrderedDict(src="x"))))
    show("mapping non-dict", lambda: D("n", "1", script=collections.UserDict(src="x")))

    # head handling
    for h in (None, "", "<x>", HTML("<y>"), div("z"), [div(), "t"], TagList("q"), 5, 0, False):
        show("head=%r" % (h,), lambda h=h: (repr(D("n", "1", head=h).head), type(D("n", "1", head=h).head).__name__))

    class StrSub2(str):
        pass

    show("head str subclass", lambda: repr(D("n", "1", head=StrSub2("<s>")).head))
    show("head bad", lambda: D("n", "1", head=object()))

    # all_files passthrough
    for af in (True, False, 0, "yes", None):
        show("all_files=%r" % (af,), lambda af=af: D("n", "1", all_files=af).all_files)

    # downstream rendering of validated deps
    full = D(
        "full",
        "1.2.3",
        source={"href": "https://cdn/x"},
        script=[{"src": "a.js"}, {"src": "b.js", "defer": ""}],
        stylesheet={"href": "a.css"},
        meta={"name": "viewport", "content": "w"},
        head="<link rel='x'>",
    )
    show("as_dict", lambda: full.as_dict())
    show("as_html_tags", lambda: str(full.as_html_tags()))
    show("repr", lambda: repr(full))
    show("eq copy", lambda: full == copy.deepcopy(full))
    show("head_content", lambda: summarize(htmltools.head_content(tags.title("t"), "raw")))
    show("html_dependency export", lambda: htmltools.HTMLDependency is D)


def main():
    sec_resolve()
    sec_tree()
    sec_validate()


if __name__ == "__main__":
    main()
