import copy
import sys

from htmltools import (
    HTML,
    HTMLDependency,
    HTMLDocument,
    MetadataNode,
    Tag,
    TagList,
    div,
    span,
    tags,
)

LOG = []


def show(label, fn):
    """Run fn, print repr of result or the exception type/message, plus call log."""
    del LOG[:]
    try:
        res = fn()
        out = repr(res)
    except BaseException as e:  # noqa: BLE001
        out = "EXC " + type(e).__name__ + ": " + str(e)
    print("## " + label)
    print(out)
    if LOG:
        print("   log:", LOG)


def dep(name, version="1.0"):
    return HTMLDependency(name, version, source={"subdir": "."}, script={"src": name + ".js"})


def rendered(x):
    r = x.render()
    return (type(r["html"]).__name__, str(r["html"]), [(d.name, str(d.version)) for d in r["dependencies"]])


def doc_rendered(*args, **kwargs):
    r = HTMLDocument(*args, **kwargs).render()
    return (type(r["html"]).__name__, str(r["html"]), [(d.name, str(d.version)) for d in r["dependencies"]])


class Tf:
    """Tagifiable returning a fixed value; logs the call order."""

    def __init__(self, name, value):
        self.name = name
        self.value = value

    def tagify(self):
        LOG.append("tagify:" + self.name)
        v = self.value
        return v() if callable(v) else v


class TfRepr(Tf):
    """Tagifiable that is also self-rendering."""

    def _repr_html_(self):
        LOG.append("repr_html:" + self.name)
        return "<i>" + self.name + "</i>"


class OnlyRepr:
    def __init__(self, name, value=None):
        self.name = name
        self.value = value

    def _repr_html_(self):
        LOG.append("repr_html:" + self.name)
        return "<b>" + self.name + "</b>" if self.value is None else self.value


class TfMeta(MetadataNode):
    """Both a MetadataNode and Tagifiable."""

    def __init__(self, name, value):
        self.name = name
        self.value = value

    def tagify(self):
        LOG.append("tagify:" + self.name)
        return self.value

    def __copy__(self):
        LOG.append("copy:" + self.name)
        return TfMeta(self.name + "'", self.value)


class Meta(MetadataNode):
    def __init__(self, name):
        self.name = name

    def __copy__(self):
        LOG.append("copy:" + self.name)
        return Meta(self.name + "'")

    def __repr__(self):
        return "Meta(" + self.name + ")"


class Boom:
    def __init__(self, name, exc):
        self.name = name
        self.exc = exc

    def tagify(self):
        LOG.append("tagify:" + self.name)
        raise self.exc


def raw(tl):
    """Structural dump of a TagList / Tag without going through render()."""
    if isinstance(tl, Tag):
        return ("Tag", tl.name, dict(tl.attrs), raw(tl.children))
    if isinstance(tl, TagList):
        return [raw(c) for c in tl.data]
    if isinstance(tl, HTMLDependency):
        return ("Dep", tl.name, str(tl.version))
    if isinstance(tl, (Tf, TfMeta, OnlyRepr, Boom)):
        return (type(tl).__name__, tl.name)
    if isinstance(tl, HTML):
        return ("HTML", tl.as_string())
    if tl is None or isinstance(tl, (str, int, float, list, tuple, dict)):
        return tl
    return "<" + type(tl).__name__ + ">"


# ------------------------------------------------------- _tagchilds_to_tagnodes
from htmltools._core import _tagchilds_to_tagnodes


class LoudInt(int):
    def __str__(self):
        LOG.append("str:LoudInt(%d)" % int(self))
        return "loud" + int.__repr__(self)

    __repr__ = int.__repr__


class LoudFloat(float):
    def __str__(self):
        LOG.append("str:LoudFloat")
        return "lf"


class StrSub(str):
    pass


def conv(x):
    res = _tagchilds_to_tagnodes(x)
    return (type(res).__name__, [(type(i).__name__, raw(i)) for i in res])


t_obj = Tf("t", "T")
r_obj = OnlyRepr("r")
show("str input", lambda: conv("abc"))
show("empty str input", lambda: conv(""))
show("str subclass input", lambda: conv(StrSub("xyz")))
show("empty list", lambda: conv([]))
show("empty tuple", lambda: conv(()))
show("only None", lambda: conv([None, [None, (None,)]]))
show("numbers", lambda: conv([1, 2.5, True, False, -0.0, float("inf"), float("nan"), 10**30, 1e100]))
show("mixed", lambda: conv(["a", 1, None, ["b", (2.0, [None, "c"])], TagList("d", 3), HTML("<e>"), div("f"), dep("g"), t_obj, r_obj, Meta("m")]))
show("loud numbers order", lambda: conv([LoudInt(1), "s", [LoudFloat(2.0), LoudInt(3)], TagList(LoudInt(4))]))
show("invalid first", lambda: conv([object(), LoudInt(1)]))
show("invalid after numbers", lambda: conv([LoudInt(1), LoudInt(2), {"a": 1}, LoudInt(3)]))
show("invalid set", lambda: conv([{1, 2}]))
show("invalid bytes", lambda: conv([b"bytes"]))
show("invalid type", lambda: conv([int]))
show("invalid complex", lambda: conv([1j]))
show("invalid nested", lambda: conv(["ok", ["ok2", [LoudInt(7), [range(3)]]]]))
show("dict input (iterates keys)", lambda: conv({"k1": 1, "k2": 2}))
show("generator input", lambda: conv(x for x in ["g", 1, None, ["h"]]))
show("non iterable", lambda: conv(5))
show("None input", lambda: conv(None))
show("taglist input", lambda: conv(TagList("a", Tf("q", "Q"))))
show("identity kept", lambda: [a is b for a, b in zip(_tagchilds_to_tagnodes([t_obj, r_obj, "s"]), [t_obj, r_obj, "s"])])


def fresh():
    src = ["a", 1]
    out = _tagchilds_to_tagnodes(src)
    out.append("zzz")
    return (src, out, _tagchilds_to_tagnodes(src))


show("fresh list, input untouched", fresh)

# through the public entry points
show("TagList ctor", lambda: raw(TagList("a", 1, [2.5, None, ("b",)], LoudInt(9))))
show("TagList ctor invalid", lambda: raw(TagList("a", LoudInt(1), object(), LoudInt(2))))
show("Tag ctor", lambda: raw(div("a", 1, [None], Tf("t", "T"), {"id": "x"})))
show("Tag ctor invalid", lambda: raw(div("a", {1, 2})))


def mutate():
    tl = TagList("a")
    tl.append(1, [2, None])
    tl.extend(("b", 3.5))
    tl.insert(1, [LoudInt(5), "ins"])
    tl += [LoudFloat(1.0)]
    tl2 = tl + [7]
    tl3 = [8] + tl
    tl4 = tl + "str"
    tl5 = "str" + tl
    return (raw(tl), raw(tl2), raw(tl3), raw(tl4), raw(tl5))


show("append/extend/insert/+", mutate)
show("extend invalid leaves list", lambda: (lambda tl: (tl, [tl.extend(["x", object()])]))(TagList("keep")))


def extend_invalid():
    tl = TagList("keep")
    try:
        tl.extend(["x", LoudInt(1), object()])
    except TypeError as e:
        return (raw(tl), type(e).__name__)


show("extend invalid leaves list 2", extend_invalid)

# splice path of tagify (returned TagList goes through the same helper)
def weird_taglist(items):
    tl = TagList()
    tl.data = list(items)
    return tl


show("tagify splice normalises", lambda: rendered(TagList("a", Tf("w", weird_taglist([LoudInt(1), None, 2.5, ["n", ("m",)], TagList("q")])), "z")))
show("tagify splice invalid", lambda: rendered(TagList(Tf("first", "F"), Tf("w", weird_taglist([LoudInt(1), object])), Tf("last", "L"))))
show("doc", lambda: doc_rendered("a", 1, [None, Tf("t", TagList(span("s"), dep("dd")))], 2.5))
