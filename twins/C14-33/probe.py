"""Deterministic probe for the TagList child-normalisation code paths.

Prints repr()s of results / exception type names only, so that the output is
byte-identical before and after a behaviour-preserving refactoring.
"""

import builtins
import re
import sys
from collections import UserList

from htmltools import HTML, MetadataNode, Tag, TagList, div, span, tags
from htmltools._core import _tagchilds_to_tagnodes, is_tag_child, is_tag_node
from htmltools._util import flatten


def print(*args):  # noqa: A001 - scrub memory addresses so the output is deterministic
    builtins.print(re.sub(r"0x[0-9a-fA-F]+", "ADDR", " ".join(str(a) for a in args)))


def show(label, fn):
    try:
        out = fn()
    except BaseException as e:  # noqa: BLE001
        print(f"{label}: EXC {type(e).__name__}: {e}")
        return None
    print(f"{label}: {type(out).__name__} {out!r}")
    if isinstance(out, UserList):
        print(f"   data: {type(out.data).__name__} {out.data!r}")
    return out


def kinds(tl):
    return [type(c).__name__ for c in tl]


class Widget:
    """Tagifiable"""

    def __init__(self, n):
        self.n = n

    def tagify(self):
        return TagList("w", self.n)

    def __repr__(self):
        return f"Widget({self.n})"


class Rich:
    def _repr_html_(self):
        return "<b>rich</b>"

    def __repr__(self):
        return "Rich()"


class IntWidget(int):
    """Both a number and Tagifiable: number conversion must win."""

    def tagify(self):
        return "never"


class LoudStr(str):
    pass


class MyList(list):
    pass


class MyTagList(TagList):
    pass


class Bad:
    def __repr__(self):
        return "Bad()"


LOG = []


def gen(*items):
    for it in items:
        LOG.append(("yield", re.sub(r"0x[0-9a-fA-F]+", "ADDR", repr(it))))
        yield it


class NoisyFloat(float):
    def __str__(self):
        LOG.append(("str", float(self)))
        return "noisy" + float.__repr__(self)


GOOD_ARGS = [
    (),
    (None,),
    ("",),
    ("abc",),
    (1, 2.5, True, False, -0.0, float("inf"), 10**30),
    ([],),
    ([[]], ((),), [None, [None, (None,)]]),
    ("a", ["b", ("c", [None, "d", [1, [2, [3.5]]]])], None, "e"),
    (div("x"), [span("y"), TagList("z", 3)], TagList()),
    (TagList(TagList(TagList("deep", None)), "t"), MyTagList("m", [4])),
    (HTML("<i>"), LoudStr("loud"), MyList(["in-mylist", None, 7])),
    (Widget(1), Rich(), MetadataNode(), IntWidget(5), NoisyFloat(1.5)),
    (tags.p("p", 1, None, ["q"]),),
]

BAD_ARGS = [
    (object(),),
    (Bad(),),
    ("ok", [1, (2, Bad())], "after"),
    ({"a": 1},),
    ({1, 2},) if False else ({1},),
    (b"bytes",),
    (1 + 2j,),
    (gen("g"),),
    (range(3),),
    (UserList([1]),),
    (lambda: 1,),
]


def section(name):
    print(f"--- {name}")


def main():
    section("flatten")
    show("f0", lambda: flatten([]))
    show("f1", lambda: flatten([[]]))
    show("f2", lambda: flatten([1, [2], ["3", [4, None, 5, (6, [None], ())]]]))
    show("f3", lambda: flatten((None, None)))
    show("f4", lambda: flatten("abc"))
    show("f5", lambda: flatten(gen(1, [2, None], gen(3))))
    show("f6", lambda: [type(x).__name__ for x in flatten([gen(3)])])
    show("f7", lambda: flatten([TagList("a", TagList("b")), MyTagList("c"), MyList([1, None])]))
    show("f8", lambda: flatten({"k": [1]}))
    show("f9", lambda: flatten(5))
    show("f10", lambda: flatten(None))
    show("f11", lambda: flatten([UserList([1, [2]])]))
    show("f12", lambda: flatten([b"xy", bytearray(b"z"), range(2), {3}]))
    y = ["3", [4, None, 5]]
    x = [1, [2], y]
    show("f13", lambda: (flatten(x), x, y))
    r1 = flatten([1])
    r2 = flatten([1])
    print("f14 fresh:", r1 is not r2, type(r1).__name__)
    deep = []
    for _ in range(50):
        deep = [deep, "v", None]
    show("f15", lambda: flatten(deep))
    very_deep = ["bottom"]
    for _ in range(20000):
        very_deep = [very_deep]
    try:
        print("f16:", len(flatten(very_deep)))
    except RecursionError:
        print("f16: EXC RecursionError")
    loop = []
    loop.append(loop)
    try:
        flatten(loop)
        print("f17: returned")
    except RecursionError:
        print("f17: EXC RecursionError")
    print("LOG", LOG)
    del LOG[:]

    section("_tagchilds_to_tagnodes")
    show("n-str", lambda: _tagchilds_to_tagnodes("abc"))
    show("n-emptystr", lambda: _tagchilds_to_tagnodes(""))
    show("n-loudstr", lambda: _tagchilds_to_tagnodes(LoudStr("xy")))
    show("n-html", lambda: _tagchilds_to_tagnodes(HTML("<b>")))
    for i, a in enumerate(GOOD_ARGS):
        out = show(f"n-good{i}", lambda: _tagchilds_to_tagnodes(a))
        if out is not None:
            print("   kinds", kinds(out), "all nodes", all(is_tag_node(c) for c in out))
        show(f"n-good{i}-list", lambda: _tagchilds_to_tagnodes(list(a)))
    for i, a in enumerate(BAD_ARGS):
        show(f"n-bad{i}", lambda: _tagchilds_to_tagnodes(a))
    show("n-gen", lambda: _tagchilds_to_tagnodes(gen("a", None, [1, gen("x")])))
    show("n-int", lambda: _tagchilds_to_tagnodes(3))
    show("n-none", lambda: _tagchilds_to_tagnodes(None))
    show("n-dict", lambda: _tagchilds_to_tagnodes({"a": 1, "b": 2}))
    src = [1, "a", [2.0]]
    res = _tagchilds_to_tagnodes(src)
    print("n-input-untouched", src, res, res is not src)
    a1 = _tagchilds_to_tagnodes(["q"])
    a2 = _tagchilds_to_tagnodes(["q"])
    print("n-fresh", a1 is not a2, type(a1).__name__)
    s1 = _tagchilds_to_tagnodes("s")
    s2 = _tagchilds_to_tagnodes("s")
    print("n-fresh-str", s1 is not s2, type(s1).__name__)
    # order of side effects: str() conversions vs. validation failures
    del LOG[:]
    show("n-order", lambda: _tagchilds_to_tagnodes(gen(NoisyFloat(1.0), [NoisyFloat(2.0)], Bad(), NoisyFloat(3.0))))
    print("LOG", LOG)
    del LOG[:]

    section("TagList.__init__")
    for i, a in enumerate(GOOD_ARGS):
        tl = show(f"init-good{i}", lambda: TagList(*a))
        if tl is not None:
            print(
                "   kinds", kinds(tl), "data-type", type(tl.data).__name__,
                "nodes", all(is_tag_node(c) for c in tl),
                "childs", all(is_tag_child(c) for c in a),
            )
    for i, a in enumerate(BAD_ARGS):
        show(f"init-bad{i}", lambda: TagList(*a))
        print("   is_tag_child", [is_tag_child(c) for c in a])
    inner = ["a", "b"]
    t = TagList(inner)
    t.append("c")
    print("init-no-alias", inner, t, t.data is not inner)
    t1 = TagList("a", "b")
    t2 = TagList(t1)
    t2.append("c")
    print("init-no-alias-taglist", t1, t2, t1.data is not t2.data)
    t3 = TagList(*t1)
    print("init-star", t3, t3 == t1, t3.data is not t1.data)
    mt = MyTagList("a", [1])
    print("init-subclass", type(mt).__name__, mt, type(mt.data).__name__)
    show("init-kw", lambda: TagList(x=1))
    tl = TagList.__new__(TagList)
    show("init-fail-leaves-no-data", lambda: (TagList.__init__(tl, Bad())))
    print("   has data:", hasattr(tl, "data"))
    tl = TagList("keep")
    show("reinit-fail", lambda: tl.__init__("a", Bad()))
    print("   after:", tl)
    old = tl.data
    tl.__init__("new", 1)
    print("   reinit:", tl, "old list untouched:", old)

    section("extend / +=")
    for i, a in enumerate(GOOD_ARGS):
        tl = TagList("first")
        r = show(f"ext-good{i}", lambda: tl.extend(a))
        print("   ->", tl, kinds(tl))
        tl2 = TagList("first")
        before = tl2
        data_before = tl2.data
        tl2 += a
        print("   iadd same obj", tl2 is before, "same data list", tl2.data is data_before, tl2 == tl)
    for i, a in enumerate(BAD_ARGS):
        tl = TagList("first", 2)
        show(f"ext-bad{i}", lambda: tl.extend(a))
        print("   unchanged", tl)

        def iadd():
            nonlocal tl
            tl += a
            return tl

        show(f"iadd-bad{i}", iadd)
        print("   unchanged", tl)
    tl = TagList("x")
    show("ext-str", lambda: tl.extend("abc"))
    print("   ->", tl)
    show("ext-emptystr", lambda: tl.extend(""))
    print("   ->", tl)
    show("ext-html", lambda: tl.extend(HTML("<hr>")))
    print("   ->", tl, kinds(tl))
    show("ext-none", lambda: tl.extend(None))
    show("ext-int", lambda: tl.extend(5))
    show("ext-tag", lambda: tl.extend(div("d")))
    print("   ->", tl)
    show("ext-dict", lambda: tl.extend({"k": 1}))
    print("   ->", tl)
    show("ext-self", lambda: tl.extend(tl))
    print("   ->", tl)
    tl += tl
    print("iadd-self ->", len(tl))
    tl = TagList("a")
    show("ext-gen", lambda: tl.extend(gen(1, None, [gen("never-expanded")] if False else ["n"])))
    print("   ->", tl, LOG)
    del LOG[:]
    tl = TagList("a")
    show("ext-gen-bad", lambda: tl.extend(gen("ok", Bad(), "unreached?")))
    print("   ->", tl, LOG)
    del LOG[:]

    def sneaky(tl):
        yield "s1"
        tl.data = ["replaced"]
        yield "s2"

    tl = TagList("orig")
    old = tl.data
    show("ext-sneaky", lambda: tl.extend(sneaky(tl)))
    print("   ->", tl, old)
    ul = UserList(["u", 1])
    tl = TagList("a")
    show("ext-userlist", lambda: tl.extend(ul))
    print("   ->", tl)
    mt = MyTagList("m")
    mt.extend([1, [2]])
    mt += ("t",)
    print("ext-subclass", type(mt).__name__, mt)

    section("append")
    for i, a in enumerate(GOOD_ARGS):
        if not a:
            continue
        tl = TagList("first")
        show(f"app-good{i}", lambda: tl.append(*a))
        print("   ->", tl, kinds(tl))
    for i, a in enumerate(BAD_ARGS):
        tl = TagList("first")
        show(f"app-bad{i}", lambda: tl.append(*a))
        print("   unchanged", tl)
        show(f"app-bad{i}-2nd", lambda: tl.append("good", *a))
        print("   unchanged", tl)
    tl = TagList()
    show("app-noargs", lambda: tl.append())
    show("app-str", lambda: tl.append("abc"))
    show("app-emptystr", lambda: tl.append(""))
    show("app-none", lambda: tl.append(None))
    show("app-self", lambda: tl.append(tl))
    show("app-many", lambda: tl.append(1, [2, (3,)], None, "4"))
    print("   ->", tl)
    show("app-kw", lambda: tl.append(item="kw"))
    print("   ->", tl)

    section("insert")
    for idx in (0, 1, 2, 5, -1, -5, True):
        for item in ("s", None, 7, 2.5, ["l1", None, ["l2"]], (), TagList("t1", "t2"), div("d"), "", Widget(2)):
            tl = TagList("a", "b")
            show(f"ins[{idx!r}]", lambda: tl.insert(idx, item))
            print("   ->", tl, kinds(tl))
    for i, a in enumerate(BAD_ARGS):
        tl = TagList("a", "b")
        show(f"ins-bad{i}", lambda: tl.insert(1, a[-1]))
        print("   unchanged", tl)
    tl = TagList("a", "b")
    show("ins-badindex", lambda: tl.insert("1", "x"))
    show("ins-floatindex", lambda: tl.insert(1.0, "x"))
    show("ins-noneindex", lambda: tl.insert(None, "x"))
    show("ins-both-bad", lambda: tl.insert("1", Bad()))
    print("   unchanged", tl)

    class Idx:
        def __init__(self):
            self.calls = 0

        def __index__(self):
            self.calls += 1
            return 1

    ix = Idx()
    show("ins-index-obj", lambda: tl.insert(ix, ["i", 1]))
    print("   ->", tl, "index calls", ix.calls)
    show("ins-self", lambda: tl.insert(1, tl))
    print("   ->", tl)
    show("ins-noargs", lambda: tl.insert(0))
    show("ins-3args", lambda: tl.insert(0, "a", "b"))
    mt = MyTagList("m")
    mt.insert(0, [1, None])
    print("ins-subclass", type(mt).__name__, mt)

    section("+ / reflected +")
    base = TagList("a", div("b"))
    others = [
        "str", "", LoudStr("ls"), HTML("<h>"), [], [None], ["x", [1, None]], ("t", 2.5), TagList("tl", 9),
        TagList(), div("child1", "child2"), gen("g1", ["g2"]), {"k": "v"}, range(2), MyList(["ml"]),
        UserList(["ul"]), None, 5, 2.5, Bad(), [Bad()], b"by", Widget(3), Rich(), MetadataNode(),
    ]
    for i, o in enumerate(others):
        if i == 11:
            o1, o2 = gen("g1", ["g2"]), gen("g1", ["g2"])
        else:
            o1 = o2 = o
        r = show(f"add{i}", lambda: base + o1)
        if isinstance(r, TagList):
            print("   ", kinds(r), type(r).__name__, r is not base, r.data is not base.data)
        r = show(f"radd{i}", lambda: o2 + base)
        if isinstance(r, TagList):
            print("   ", kinds(r), type(r).__name__)
        show(f"radd-direct{i}", lambda: base.__radd__(o))
        show(f"add-direct{i}", lambda: base.__add__(o))
    print("base unchanged", base, LOG[:4], len(LOG))
    del LOG[:]
    mt = MyTagList("m")
    print("sub+", type(mt + ["x"]).__name__, mt + ["x"], type(["x"] + mt).__name__, ["x"] + mt)
    print("sub+tl", type(mt + base).__name__, type(base + mt).__name__, base + mt)

    class Expanding(TagList):
        def _should_not_expand(self, x):
            LOG.append(("sne", repr(x)))
            return isinstance(x, (str, bytes)) and x != "spread"

    e = Expanding("e")
    show("exp+str", lambda: e + "keep")
    show("exp+spread", lambda: e + "spread")
    show("str+exp", lambda: "keep" + e)
    show("spread+exp", lambda: "spread" + e)
    show("exp+bytes", lambda: e + b"x")
    show("exp+list", lambda: e + ["l"])
    print("LOG", LOG)
    del LOG[:]

    section("slicing / repetition / copy / Tag children")
    tl = TagList("a", 1, [2, None], div("d"))
    show("slice", lambda: (tl[1:3], type(tl[1:3]).__name__, tl[::-1], tl[5:]))
    show("mul", lambda: (tl * 2, type(tl * 2).__name__, 2 * tl, tl * 0))

    def imul():
        t = TagList("r", 1)
        t *= 2
        return t

    show("imul", imul)
    show("copy", lambda: (tl.copy(), type(tl.copy()).__name__, tl.copy().data is not tl.data))
    d = div("a", [1, None, ("t", [2.5])], TagList("x"), id="i")
    show("tag-children", lambda: (d.children, kinds(d.children)))
    show("tag-append", lambda: (d.append("n", [3]), d.children)[1])
    show("tag-extend", lambda: (d.extend(["e", None, 4]), d.children)[1])
    show("tag-insert", lambda: (d.insert(0, ["i", 5]), d.children)[1])
    show("tag-bad", lambda: div(Bad()))
    show("tag-bad-append", lambda: d.append(Bad()))
    show("tag-after", lambda: d.children)
    show("tagify", lambda: TagList(Widget(1), "s", div(Widget(2))).tagify())
    show("render", lambda: TagList(Widget(1), 2, None, [Rich()]).render()["html"])
    show("str", lambda: str(TagList("a<b", 1, HTML("<i>"), div("x", 2))))


if __name__ == "__main__":
    sys.setrecursionlimit(1000)
    main()
