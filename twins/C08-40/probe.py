# Probe for refactoring 5: HTMLDocument._gen_html_tag_tree / _hoist_head_content.
import copy
import os
import tempfile
from htmltools import Tag, TagList, HTML, HTMLDependency, HTMLDocument, div, span, tags, head_content

LOG = []


def show(label, f):
    try:
        print(label, "->", repr(f()))
    except Exception as e:  # noqa: BLE001
        print(label, "-> EXC", type(e).__name__, str(e)[:90])


class LoudName(str):
    def __eq__(self, other):
        LOG.append(("eq", str(self), other))
        return str.__eq__(self, other)

    def __ne__(self, other):
        LOG.append(("ne", str(self), other))
        return str.__ne__(self, other)

    __hash__ = str.__hash__


class MakesHtml:
    def tagify(self):
        LOG.append("MakesHtml.tagify")
        return tags.html(tags.body("made"), lang="xx")


class MakesBodyList:
    def tagify(self):
        return TagList(tags.body("one body", class_="b"))


class MakesTwo:
    def tagify(self):
        return TagList(tags.body("b1"), tags.body("b2"))


d1 = HTMLDependency("a", "1.0", source={"href": "https://cdn/x"}, script={"src": "a.js"}, stylesheet={"href": "a.css"},
                    meta={"name": "m", "content": "c"}, head="<!-- a head -->")
d2 = HTMLDependency("b", "2.1", source={"subdir": "some/dir"}, script=[{"src": "b 1.js"}, {"src": "b2.js", "async": ""}])
d1_newer = HTMLDependency("a", "1.5", source={"href": "https://cdn/y"}, script={"src": "a15.js"})
hc = head_content(tags.title("Title"), tags.meta(name="k", content="v"))

H = tags.html
cases = {
    "empty": (),
    "text": ("just text",),
    "two": (div("x", d1), span("y", d2)),
    "div root": (div("x", d1, hc),),
    "body root": (tags.body(div("in body", d2), d1, class_="bd"),),
    "body inline": (Tag("body", "a", span("b"), _add_ws=False),),
    "body + other": (tags.body("b"), "tail"),
    "BODY upper": (Tag("BODY", "x"),),
    "html root": (H(tags.head(tags.title("t")), tags.body("b", d1)),),
    "html no head": (H(tags.body("b", d2, hc)),),
    "html head second": (H(d1, tags.head(tags.title("t"), tags.link(href="l")), tags.body("b")),),
    "html head last": (H(tags.body("b", d1_newer), "txt", tags.head()),),
    "html two heads": (H(tags.head("h1"), tags.head("h2"), tags.body(d1)),),
    "html nested head only": (H(tags.body(tags.head("inner"), d2)),),
    "html empty": (H(),),
    "html only text": (H("txt", HTML("<raw>")),),
    "html attrs": (H(tags.head(), lang="de", class_="c"),),
    "html + sibling": (H(tags.body("b")), div("sib")),
    "HTML upper": (Tag("HTML", tags.body("x")),),
    "html in list": ([[H(tags.body("nested list"))]],),
    "tagifiable html": (MakesHtml(),),
    "tagifiable body": (MakesBodyList(),),
    "tagifiable two": (MakesTwo(),),
    "dups": (div(d1, d1_newer, d1), d2, d2),
    "head tag root": (tags.head(tags.title("only head")),),
    "dep only": (d1,),
    "HTML only": (HTML("<p>raw</p>"),),
}
kwsets = [{}, {"lang": "en"}, {"class_": "k", "data_x": 1, "hidden": True, "none": None}]
opts = [{}, {"lib_prefix": None}, {"lib_prefix": ""}, {"lib_prefix": "p/q", "include_version": False}]

for name, args in cases.items():
    for kw in kwsets:
        doc = HTMLDocument(*args, **kw)
        before = str(doc._content)
        for o in opts:
            show(f"{name} kw={sorted(kw)} {o}", lambda: doc.render(**o))
        show(f"{name} pure", lambda: (doc.render() == doc.render(), str(doc._content) == before))

print("LOG", LOG)
LOG.clear()

# attribute merging on an existing <html>, and invalid kwargs
show("merge class", lambda: HTMLDocument(H(tags.body(), class_="a", lang="x"), class_="b", lang="y").render()["html"])
show("kw _add_ws html", lambda: HTMLDocument(H(), _add_ws=False).render()["html"])
show("kw _add_ws div", lambda: HTMLDocument(div(), _add_ws=False).render()["html"])
show("kw _add_ws bad", lambda: HTMLDocument(div(), _add_ws="no").render()["html"])
show("kw _name", lambda: HTMLDocument(div(), _name="zzz").render()["html"])

# originals are not modified by rendering
root = H(tags.head(tags.title("t")), tags.body("b", d1))
snap = str(root), len(root.children), len(root.children[0].children), dict(root.attrs)
doc = HTMLDocument(root, lang="q")
r1 = doc.render(); r2 = doc.render()
show("orig html untouched", lambda: (str(root), len(root.children), len(root.children[0].children), dict(root.attrs)) == snap)
show("repeat equal", lambda: r1 == r2)
show("copy doc equal", lambda: copy.copy(doc).render() == r1)
body = tags.body("bb", d2)
bsnap = str(body)
HTMLDocument(body).render()
show("orig body untouched", lambda: str(body) == bsnap)

# comparison order on tag names
ln = Tag(LoudName("html"), Tag(LoudName("head")), Tag(LoudName("body"), "x"))
show("loud html", lambda: HTMLDocument(ln).render()["html"])
print("LOG", LOG); LOG.clear()
show("loud body", lambda: HTMLDocument(Tag(LoudName("body"), Tag(LoudName("head")))).render()["html"])
print("LOG", LOG); LOG.clear()
show("loud div", lambda: HTMLDocument(Tag(LoudName("div"))).render()["html"])
print("LOG", LOG); LOG.clear()
show("loud two", lambda: HTMLDocument(Tag(LoudName("html")), Tag(LoudName("body"))).render()["html"])
print("LOG", LOG); LOG.clear()

# direct calls to the helpers
hoist = HTMLDocument._hoist_head_content
show("hoist non-html", lambda: hoist(div("x"), "lib", True))
show("hoist html", lambda: str(hoist(H(tags.body(d1, d2)), "L", False)))
x = H("t", tags.head("keep"), tags.body(d1))
hx = hoist(x, None, True)
show("hoist res distinct", lambda: (hx is not x, hx.children is not x.children, hx.children[1] is not x.children[1],
                                    hx.children[2] is x.children[2], str(x.children[1])))
x2 = H(tags.body("nb"))
hx2 = hoist(x2, "lib", True)
show("hoist inserted head", lambda: (len(x2.children), len(hx2.children), hx2.children[0].name, str(x2)))
show("gen tree type", lambda: type(HTMLDocument(div())._gen_html_tag_tree("lib", include_version=True)).__name__)
show("non-tag raw child", lambda: hoist(Tag("html", "a", 1.5, None, [tags.head()]), "lib", True).get_html_string())

# save_html
with tempfile.TemporaryDirectory() as tmp:
    f = os.path.join(tmp, "out.html")
    res = HTMLDocument(div("saved", d1), lang="en").save_html(f)
    show("save returns", lambda: os.path.basename(res))
    show("save content", lambda: open(f).read())
    show("save listing", lambda: sorted(os.listdir(tmp)))
    f2 = os.path.join(tmp, "t.html")
    show("tag save", lambda: (os.path.basename(div("tt", hc).save_html(f2, libdir=None)), open(f2).read()))
    try:
        HTMLDocument(d2).save_html(os.path.join(tmp, "z.html"))
        print("missing dep files -> no error")
    except Exception as e:  # noqa: BLE001  (message contains the cwd, print the type only)
        print("missing dep files -> EXC", type(e).__name__)
