# Probe for refactoring 1: indentation helper shared by Tag.get_html_string and
# TagList.get_html_string.
import itertools

from htmltools import HTML, HTMLDependency, Tag, TagList, div, span, tags
from htmltools import a, p, pre, strong, em


class Rep:
    def __init__(self, s):
        self.s = s

    def _repr_html_(self):
        return self.s


class BadRep:
    def _repr_html_(self):
        raise KeyError("boom")


class Tgf:
    def tagify(self):
        return span("tagified")


def show(label, fn):
    try:
        out = fn()
        print(label, "->", type(out).__name__, repr(out))
    except Exception as e:  # noqa: BLE001
        print(label, "-> EXC", type(e).__name__, str(e))


dep = HTMLDependency("d", "1.0", source={"subdir": "x"}, script={"src": "a.js"})

inline = [
    span("a"),
    span(),
    a("x", b := strong("y"), "z", href="#"),
    span(span(span("deep")), "t"),
    span(HTML("<i>raw</i>"), "&<>"),
    span(Rep("<u>r</u>"), Rep("")),
    span(dep, "x", dep),
    em("  spaced  ", "\n"),
    Tag("custom", "q", Tag("br", _add_ws=False), _add_ws=False),
    Tag("script", "a<b", "c&d", _add_ws=False),
    Tag("style", HTML("x>y"), "z", _add_ws=False),
]
blocks = [
    div("a"),
    div(),
    div(span("a"), span("b")),
    div(div("x"), span("y"), "z", div("w")),
    p("text", span("in"), "more"),
    pre("a\n  b"),
    div(Rep("<u>r</u>"), "s", Rep("<u>t</u>")),
    div(dep, div(dep), dep),
    Tag("x", "one", "two", _add_ws=True),
    tags.ul(tags.li("1"), tags.li(span("2"), "3")),
    tags.br(),
    tags.img(src="a.png"),
]

print("== single tags, various indent / eol ==")
for i, t in enumerate(inline + blocks):
    for indent, eol in [(0, "\n"), (1, "\n"), (3, "\r\n"), (2, ""), (-1, "\n"), (0, "|")]:
        show(f"tag[{i}] indent={indent} eol={eol!r}", lambda: t.get_html_string(indent, eol))
    show(f"tag[{i}] str", lambda: str(t))

print("== tag lists: sibling pairs / triples ==")
pool = [
    "txt",
    "",
    HTML("<b>h</b>"),
    Rep("<u>r</u>"),
    span("s"),
    span(span("n"), "m"),
    div("d"),
    div(span("i")),
    dep,
    Tag("blk", _add_ws=True),
    Tag("inl", _add_ws=False),
]
for n in (1, 2, 3):
    for combo in itertools.product(range(len(pool)), repeat=n):
        if n == 3 and (combo[0] % 2 or combo[2] % 3):
            continue
        tl = TagList(*[pool[k] for k in combo])
        for indent, eol, add_ws in [(0, "\n", True), (2, "\n", False), (1, "~", True), (3, "", True)]:
            show(
                f"tl{combo} i={indent} e={eol!r} ws={add_ws}",
                lambda: tl.get_html_string(indent, eol, add_ws=add_ws),
            )
        show(f"tl{combo} noescape", lambda: tl.get_html_string(1, "\n", _escape_strings=False))
        for parent in (div, span):
            show(f"{parent.__name__}(tl{combo})", lambda: str(parent(tl)))
            show(
                f"{parent.__name__}(tl{combo}) i=2",
                lambda: parent(tl).get_html_string(2, "\n"),
            )

print("== inline subtree is contiguous wherever placed ==")
for i, t in enumerate(inline):
    flat = t.get_html_string(0, "")
    for ctx in (
        lambda x: div(x),
        lambda x: div(div(x)),
        lambda x: div("a", x, "b"),
        lambda x: div(div("k"), x, div("l")),
        lambda x: TagList(x, x),
        lambda x: span(x, x),
        lambda x: tags.ul(tags.li(x)),
    ):
        out = str(ctx(t))
        print(i, flat in out, repr(out))

print("== error paths ==")
show("non-tagified", lambda: TagList(Tgf()).get_html_string())
show("non-tagified in div", lambda: div(Tgf()).get_html_string())
show("non-tagified rendered", lambda: str(div(Tgf())))
show("bad repr", lambda: TagList("x", BadRep()).get_html_string())
show("bad repr in span", lambda: span("x", BadRep()).get_html_string(2))
for bad in (None, 1.5, "2", [1]):
    show(f"tag indent={bad!r}", lambda: div("a", "b").get_html_string(bad))
    show(f"inline tag indent={bad!r}", lambda: span("a", "b").get_html_string(bad))
    show(f"tl indent={bad!r} ws", lambda: TagList("a", "b").get_html_string(bad))
    show(f"tl indent={bad!r} nows", lambda: TagList("a", "b").get_html_string(bad, add_ws=False))
    show(f"tl rep indent={bad!r} ws", lambda: TagList(Rep("r")).get_html_string(bad))
    show(f"tl rep indent={bad!r} nows", lambda: TagList(Rep("r")).get_html_string(bad, add_ws=False))
    show(f"tl span indent={bad!r} nows", lambda: TagList(span("r")).get_html_string(bad, add_ws=False))
    show(f"tl div indent={bad!r} nows", lambda: TagList(div("r")).get_html_string(bad, add_ws=False))
show("indent=True", lambda: div(span("a"), "b").get_html_string(True))
show("eol=None block", lambda: div("a", "b").get_html_string(0, None))
show("eol=None inline", lambda: span("a", "b").get_html_string(0, None))
show("eol=None tl", lambda: TagList("a", "b").get_html_string(0, None))
show("eol=None tl single", lambda: TagList("a").get_html_string(0, None))
