"""Probe for HTMLDependency.serialize_to_script_json and its round trip through HTMLTextDocument (refactoring 5)."""
import json
import re
import htmltools
from htmltools import HTMLDependency, HTMLTextDocument, HTMLDocument, TagList, Tag, tags, div, HTML, head_content


def desc(d):
    return (
        d.name, str(d.version), d.source, d.script, d.stylesheet, d.meta, d.all_files,
        None if d.head is None else d.head.get_html_string(),
    )


def show(label, fn):
    try:
        r = fn()
    except BaseException as e:  # noqa
        print(label, "->", "EXC", type(e).__name__, repr(str(e)))
    else:
        print(label, "->", type(r).__name__, repr(r))


NASTY = [
    "</script>", "</SCRIPT>", "</ScRiPt >", "</script\t", "</script/", "</scr", "</", "<", "/", "<\\/script>",
    "<<//script>", "<!--<script>", "]]>", "\\", "\\u003c/script>", "\u2028\u2029", "é\U0001f600", "\"'&", "\r\n\t\x00\x7f", "",
]


def mk():
    out = {
        "bare": HTMLDependency("a", "1.0"),
        "subdir": HTMLDependency("b", "2.1.3", source={"subdir": "x/y"}, script={"src": "b.js"}),
        "pkg": HTMLDependency("e", "9.9", source={"package": "htmltools", "subdir": "libtest/testdep"},
                              script={"src": "testdep.js"}, stylesheet={"href": "testdep.css"}, all_files=True),
        "pkg_none": HTMLDependency("e2", "1", source={"package": None, "subdir": "s"}),
        "head_str": HTMLDependency("h1", "1", head="<title>t</title>"),
        "head_tag": HTMLDependency("h2", "1", head=tags.script("if (a </ b) {}")),
        "head_taglist": HTMLDependency("h3", "1", head=TagList(tags.title("x"), tags.style("a > b {}"), "txt & <", None, 7)),
        "head_empty_taglist": HTMLDependency("h4", "1", head=TagList()),
        "head_empty_str": HTMLDependency("h5", "1", head=""),
        "head_nested_dep": HTMLDependency("h6", "1", head=div("x", HTMLDependency("inner", "1"))),
        "head_content": head_content(tags.link(rel="icon", href="f.ico"), HTML("<!-- </script> -->")),
        "all_files_int": HTMLDependency("af", "1", all_files=1),
        "version_obj": HTMLDependency("v", htmltools._versions.Version("1.2.3") if hasattr(htmltools, "_versions") else "1.2.3"),
        "extra_keys": HTMLDependency("x", "1", script={"src": "a.js", "async": True, "n": 3, "none": None, "nested": {"k": ["</script>"]}}),
    }
    for i, n in enumerate(NASTY):
        out["nasty%02d" % i] = HTMLDependency(
            "n" + n, "1." + str(i),
            source={"href": "h" + n},
            script=[{"src": "s" + n, n + "k": n}],
            stylesheet={"href": "c" + n, "title": n},
            meta={"name": n, "content": n + n},
            head=TagList(HTML(n), n, tags.script(n), tags.meta(name=n)),
        )
    return out


def inner_ok(html):
    """No end-tag-like '</script' inside the element before its own closing tag."""
    assert html.endswith("</script>")
    body = html[: -len("</script>")]
    return "</script" not in body.lower()


INDENTS = [None, 0, 1, 2, 4, -1, "\t", "--", True]

for name in mk():
    for ind in INDENTS:
        d = mk()[name]
        label = "%s indent=%r" % (name, ind)
        show("ser[%s]" % label, lambda: d.serialize_to_script_json(indent=ind).get_html_string())
    d = mk()[name]
    show("ser_default[%s]" % name, lambda: d.serialize_to_script_json().get_html_string())
    t = d.serialize_to_script_json()
    show("tag[%s]" % name, lambda: (t.name, dict(t.attrs), len(t.children), type(t.children[0]).__name__, t.add_ws))
    show("safe[%s]" % name, lambda: inner_ok(t.get_html_string()))
    show("safe_indent[%s]" % name, lambda: inner_ok(d.serialize_to_script_json(indent=2).get_html_string()))
    show("payload_keys[%s]" % name, lambda: list(json.loads(str(t.children[0])).keys()))
    show("not_mutated[%s]" % name, lambda: desc(d) == desc(mk()[name]))

    def roundtrip(ind):
        s = d.serialize_to_script_json(indent=ind).get_html_string()
        text = "<html><head>@@</head><body>pre" + s + "mid" + s + "post@@</body></html>"
        doc = HTMLTextDocument(text, deps_replace_pattern="@@")
        r = doc.render()
        return doc._html, [desc(x) for x in r["dependencies"]], [x == d for x in r["dependencies"]], r["html"]

    show("roundtrip[%s]" % name, lambda: roundtrip(None))
    show("roundtrip_indent[%s]" % name, lambda: roundtrip(3))

# things JSON cannot carry, and malformed dependencies
def mutated(**attrs):
    d = HTMLDependency("m", "1", source={"subdir": "s"}, script={"src": "m.js"}, stylesheet={"href": "m.css"},
                       meta={"name": "a", "content": "b"}, head="<x>")
    for k, v in attrs.items():
        setattr(d, k, v)
    return d


class BadStr:
    def __str__(self):
        raise RuntimeError("no str")


class BadHead:
    pass


cases = {
    "source_obj": dict(source={"subdir": object()}),
    "script_html_value": dict(script=[{"src": HTML("a.js")}]),
    "script_set": dict(script={"a"}),
    "script_tuple": dict(script=({"src": "t.js"},)),
    "meta_nonstr_key": dict(meta=[{1: 2, None: 3, 1.5: 4, True: 5}]),
    "meta_tuple_key": dict(meta=[{(1, 2): 3}]),
    "name_none": dict(name=None),
    "name_bytes": dict(name=b"x"),
    "all_files_none": dict(all_files=None),
    "all_files_nan": dict(all_files=float("nan")),
    "version_float": dict(version=1.5),
    "version_badstr": dict(version=BadStr()),
    "head_plain_str": dict(head="</script> & <"),
    "head_int": dict(head=5),
    "head_list": dict(head=["a", tags.b("c")]),
    "head_bad": dict(head=BadHead()),
    "head_tag": dict(head=tags.p("q")),
    "version_and_head_bad": dict(version=BadStr(), head=BadHead()),
    "source_and_head_bad": dict(source={"subdir": object()}, head=BadHead()),
}
for k, attrs in cases.items():
    show("mut[%s]" % k, lambda: mutated(**attrs).serialize_to_script_json().get_html_string())
    show("mut_indent[%s]" % k, lambda: mutated(**attrs).serialize_to_script_json(2).get_html_string())

for attr in ["name", "version", "source", "script", "stylesheet", "meta", "all_files", "head"]:
    def missing():
        d = mutated()
        delattr(d, attr)
        return d.serialize_to_script_json().get_html_string()
    show("missing_attr[%s]" % attr, missing)

show("bad_indent_type", lambda: mutated().serialize_to_script_json(indent=1.5).get_html_string())
show("positional_indent", lambda: mutated().serialize_to_script_json(2).get_html_string())
show("too_many_args", lambda: mutated().serialize_to_script_json(2, 3))

# JSON render mode, end to end
ds = list(mk().values())
ui = div("x", *ds, tags.span(ds[3], ds[1]))
htmltools.html_dependency_render_mode = "json"
try:
    text = str(tags.html(tags.head(HTML("@@")), tags.body(ui)))
finally:
    htmltools.html_dependency_render_mode = "invisible"
show("json_text", lambda: text)
show("json_text_scripts", lambda: len(re.findall(r"</script", text, flags=re.I)))
for kw in [{}, {"lib_prefix": None, "include_version": False}]:
    r = HTMLTextDocument(text, deps_replace_pattern="@@").render(**kw)
    show("post %r" % (kw,), lambda: (r["html"], [desc(x) for x in r["dependencies"]]))
    show("direct %r" % (kw,), lambda: HTMLDocument(tags.html(tags.head(), tags.body(ui))).render(**kw)["html"])
