import copy
import sys

import htmltools
from htmltools import HTML, HTMLDependency, Tag, TagList, div, span, tags, wrap_displayhook_handler
from htmltools._core import _tagchilds_to_tagnodes

ORIG_HOOK = sys.displayhook


def show(label, value):
    print(f"{label}: {value!r}")


def attempt(label, fn):
    try:
        res = fn()
        print(f"{label}: ok {res!r}")
    except BaseException as e:  # noqa: BLE001
        print(f"{label}: raised {type(e).__name__}: {e}")


class Collector:
    def __init__(self, name):
        self.name = name
        self.seen = []

    def __call__(self, value):
        self.seen.append(value)

    def __repr__(self):
        return f"<Collector {self.name}>"


class Repr:
    def __init__(self, s):
        self.s = s

    def _repr_html_(self):
        return self.s


class ReprRaises:
    def _repr_html_(self):
        raise KeyError("boom-repr")


class ReprNonStr:
    def _repr_html_(self):
        return 42


class Tagif:
    def tagify(self):
        return span("tagified")

    def __repr__(self):
        return "<Tagif>"


class Both:
    # Both Tagifiable and ReprHtml: must be kept as-is (first branch wins)
    def tagify(self):
        return span("both")

    def _repr_html_(self):
        return "<b>never</b>"

    def __repr__(self):
        return "<Both>"


class EqRaises:
    def __eq__(self, other):
        raise ValueError("eq-raises")

    __hash__ = None

    def __repr__(self):
        return "<EqRaises>"


class EqAlwaysTrue:
    def __eq__(self, other):
        return True

    def __hash__(self):
        return 1

    def __repr__(self):
        return "<EqAlwaysTrue>"


class StrSub(str):
    pass


class IntSub(int):
    def __str__(self):
        return "intsub!"


VALUES = [
    ("str", "hello"),
    ("empty-str", ""),
    ("strsub", StrSub("sub")),
    ("int", 3),
    ("zero", 0),
    ("float", 2.5),
    ("nan", float("nan")),
    ("bool", True),
    ("false", False),
    ("intsub", IntSub(7)),
    ("none", None),
    ("ellipsis", ...),
    ("tag", span("s", id="x")),
    ("taglist", TagList("a", 1, tags.b("bold"))),
    ("empty-taglist", TagList()),
    ("list", ["a", 1, [None, tags.i("it"), ("t", 2.0)]]),
    ("empty-list", []),
    ("tuple", ("x", None, 4)),
    ("html", HTML("<hr>")),
    ("repr", Repr("<em>r</em>")),
    ("repr-empty", Repr("")),
    ("repr-nonstr", ReprNonStr()),
    ("repr-raises", ReprRaises()),
    ("tagifiable", Tagif()),
    ("both", Both()),
    ("dep", HTMLDependency("dep", "1.0")),
    ("set", {1, 2, 3}),
    ("dict", {"class": "foo"}),
    ("bytes", b"abc"),
    ("object", object()),
    ("module", tags),
    ("complex", 1j),
    ("eq-raises", EqRaises()),
    ("eq-true", EqAlwaysTrue()),
    ("list-with-bad", ["ok", {1}]),
    ("list-with-ellipsis", ["ok", ...]),
    ("generator", (c for c in "xyz")),
    ("range", range(3)),
]


def safe_repr(x):
    if isinstance(x, (Tag, TagList, HTML, str, int, float, HTMLDependency)):
        return f"{type(x).__name__}:{x!r}"
    if type(x).__name__ == "object":
        return "object"
    return f"{type(x).__name__}"


# ---------------------------------------------------------------------------
print("== 1. wrap_displayhook_handler called directly ==")
for label, v in VALUES:
    if label == "generator":
        v = (c for c in "xyz")
    col = Collector("direct")
    w = wrap_displayhook_handler(col)
    try:
        r = w(v)
        print(f"{label}: ret={r!r} forwarded={[safe_repr(s) for s in col.seen]}")
        if col.seen:
            print(f"   same-object={col.seen[0] is v} n={len(col.seen)}")
    except BaseException as e:  # noqa: BLE001
        print(f"{label}: raised {type(e).__name__}: {e} forwarded={[safe_repr(s) for s in col.seen]}")

w = wrap_displayhook_handler(Collector("x"))
show("wrapper name", w.__name__)
show("wrapper qualname", w.__qualname__)
show("wrapper is function", type(w).__name__)
show("two wrappers differ", wrap_displayhook_handler(print) is not wrap_displayhook_handler(print))


def raising_handler(v):
    raise OSError(f"handler-raises {type(v).__name__}")


w = wrap_displayhook_handler(raising_handler)
attempt("raising handler str", lambda: w("a"))
attempt("raising handler tag", lambda: w(div()))
attempt("raising handler repr", lambda: w(Repr("z")))
attempt("raising handler none", lambda: w(None))
attempt("raising handler ellipsis", lambda: w(...))
attempt("wrap(None)(1)", lambda: wrap_displayhook_handler(None)(1))
attempt("wrap(None)(None)", lambda: wrap_displayhook_handler(None)(None))
attempt("wrapper no args", lambda: w())
attempt("wrapper two args", lambda: w(1, 2))
attempt("wrapper kw", lambda: w(value="kw"))

# ---------------------------------------------------------------------------
print("== 2. values displayed inside a with block ==")
for label, v in VALUES:
    if label == "generator":
        v = (c for c in "xyz")
    base = Collector("base")
    sys.displayhook = base
    t = div("pre")
    try:
        with t:
            inner_hook = sys.displayhook
            sys.displayhook(v)
            sys.displayhook("post")
        outcome = "no-exc"
    except BaseException as e:  # noqa: BLE001
        outcome = f"raised {type(e).__name__}: {e}"
    print(f"{label}: {outcome}")
    print(f"   children={[safe_repr(c) for c in t.children]}")
    print(f"   hook-restored={sys.displayhook is base} prev={t.prev_displayhook!r} handed={[x is t for x in base.seen]}")
    sys.displayhook = ORIG_HOOK

# ---------------------------------------------------------------------------
print("== 3. nesting, order, return values ==")
base = Collector("base")
sys.displayhook = base
a, b, c = div(id="a"), span(id="b"), tags.p(id="c")
r = a.__enter__()
show("enter returns", r)
h_a = sys.displayhook
show("a.prev is base", a.prev_displayhook is base)
show("hook name", sys.displayhook.__name__)
sys.displayhook("a1")
with b as bound:
    show("as-binding", bound)
    h_b = sys.displayhook
    show("b.prev is h_a", b.prev_displayhook is h_a)
    sys.displayhook("b1")
    with c:
        show("c.prev is h_b", c.prev_displayhook is h_b)
        sys.displayhook("c1")
        sys.displayhook(None)
        sys.displayhook(...)
        sys.displayhook(Repr("<i>c2</i>"))
    show("after c hook is h_b", sys.displayhook is h_b)
    show("c.prev", c.prev_displayhook)
    sys.displayhook("b2")
show("after b hook is h_a", sys.displayhook is h_a)
sys.displayhook("a2")
r = a.__exit__(None, None, None)
show("exit returns", r)
show("after a hook is base", sys.displayhook is base)
show("base seen", [x is a for x in base.seen])
show("a", a)
show("a children types", [type(x).__name__ for x in a.children])
show("b children types", [type(x).__name__ for x in b.children])
show("c children types", [type(x).__name__ for x in c.children])
show("b in a once", sum(1 for x in a.children if x is b))
show("c in b once", sum(1 for x in b.children if x is c))

# re-use after exit
with a:
    sys.displayhook("again")
show("a reused", a)
show("base seen 2", [x is a for x in base.seen])
sys.displayhook = ORIG_HOOK

# ---------------------------------------------------------------------------
print("== 4. exceptions inside blocks ==")
for exc in (ValueError("v"), KeyboardInterrupt(), SystemExit(3), StopIteration("s"), GeneratorExit()):
    base = Collector("base")
    sys.displayhook = base
    o, i = div(id="o"), span(id="i")
    try:
        with o:
            sys.displayhook("o1")
            with i:
                sys.displayhook("i1")
                raise exc
            sys.displayhook("unreached")
    except BaseException as e:  # noqa: BLE001
        print(f"{type(exc).__name__}: propagated same={e is exc}")
    else:
        print(f"{type(exc).__name__}: swallowed")
    print(f"   restored={sys.displayhook is base} o={o!r} prevs={(o.prev_displayhook, i.prev_displayhook)!r} handed={[x is o for x in base.seen]}")
    sys.displayhook = ORIG_HOOK

show("exit(None*3)", None)
base = Collector("base")
sys.displayhook = base
t = div()
t.__enter__()
show("exit with exc info returns", t.__exit__(ValueError, ValueError("x"), None))
show("restored", sys.displayhook is base)
sys.displayhook = ORIG_HOOK

# enclosing hook raises on exit
def bad_base(v):
    raise LookupError("base-raises")


sys.displayhook = bad_base
t = div()
try:
    with t:
        sys.displayhook("k")
except BaseException as e:  # noqa: BLE001
    print(f"bad base: {type(e).__name__}: {e}")
print(f"   restored={sys.displayhook is bad_base} prev={t.prev_displayhook!r} t={t!r}")
# enclosing hook raises while another exception is in flight
t = div()
try:
    with t:
        raise ValueError("inner")
except BaseException as e:  # noqa: BLE001
    print(f"bad base + inner: {type(e).__name__}: {e}; context={type(e.__context__).__name__}: {e.__context__}")
print(f"   restored={sys.displayhook is bad_base} prev={t.prev_displayhook!r}")
sys.displayhook = ORIG_HOOK

# enclosing tag rejects nothing: tag handed to enclosing tag whose hook is wrapper
# ---------------------------------------------------------------------------
print("== 5. re-entering an active tag ==")
base = Collector("base")
sys.displayhook = base
t = div(id="t")
u = span(id="u")
with t:
    h_t = sys.displayhook
    attempt("re-enter direct", lambda: t.__enter__())
    show("hook intact", sys.displayhook is h_t)
    show("prev intact", t.prev_displayhook is base)
    with u:
        h_u = sys.displayhook
        try:
            with t:
                print("unreachable")
        except RuntimeError as e:
            print(f"re-enter nested: RuntimeError: {e}")
        show("hook intact nested", sys.displayhook is h_u)
        show("u.prev intact", u.prev_displayhook is h_t)
        sys.displayhook("u1")
    sys.displayhook("t1")
show("restored", sys.displayhook is base)
show("t", t)
show("handed", [x is t for x in base.seen])
sys.displayhook = ORIG_HOOK

# ---------------------------------------------------------------------------
print("== 6. odd uses ==")
base = Collector("base")
sys.displayhook = base
t = div()
attempt("exit without enter", lambda: t.__exit__(None, None, None))
show("hook after exit-without-enter", sys.displayhook)
show("prev", t.prev_displayhook)
sys.displayhook = base

# hook deleted / replaced inside the block
t = div()
with t:
    sys.displayhook = print
show("replaced inside: restored", sys.displayhook is base)
t = div()
with t:
    del sys.displayhook
show("deleted inside: restored", sys.displayhook is base)
del sys.displayhook
attempt("enter with no sys.displayhook", lambda: t.__enter__())
show("prev after failed enter", t.prev_displayhook)
show("has hook", hasattr(sys, "displayhook"))
sys.displayhook = base

# children replaced inside block; append looked up on entry
t = div("old")
with t:
    sys.displayhook("one")
    t.children = TagList("fresh")
    sys.displayhook("two")
show("children replaced", t)

t = div()
t.append = Collector("inst-append")  # instance attribute set before entry
with t:
    sys.displayhook("to-instance")
    sys.displayhook(Repr("<u>r</u>"))
show("instance append before", (t.append.seen, t.children))

t = div()
with t:
    t.append = Collector("late")  # set after entry: ignored by the hook
    sys.displayhook("still-children")
show("instance append after", (t.append.seen, t.children))


class MyTag(Tag):
    def append(self, *args):
        self.children.append("[", *args, "]")


t = MyTag("my")
with t:
    sys.displayhook("v")
    sys.displayhook(None)
show("subclass append", t)

# copy / equality while active
t = div("c")
with t:
    cp = copy.copy(t)
    show("copy prev is base", cp.prev_displayhook is base)
    show("eq active vs fresh", t == div("c"))
    show("eq active vs copy", t == cp)
    attempt("enter copy", lambda: cp.__enter__())
show("eq after exit", t == div("c", div("c")) or t == div("c"))
show("t after", t)
show("base seen count", len(base.seen))
sys.displayhook = ORIG_HOOK

# ---------------------------------------------------------------------------
print("== 7. append / child rules directly ==")
t = div()
attempt("append()", lambda: t.append())
attempt("append(1, None, 'x', [2.5, (True,)])", lambda: t.append(1, None, "x", [2.5, (True,)]))
attempt("append(...)", lambda: t.append(...))
attempt("append({1})", lambda: t.append({1}))
attempt("append('a', {1})", lambda: t.append("a", {1}))
attempt("append(kw)", lambda: t.append(x=1))
show("t", t)
show("children", [safe_repr(c) for c in t.children])
tl = TagList()
attempt("TagList.append()", lambda: tl.append())
attempt("TagList.append many", lambda: tl.append("a", ["b", None], TagList("c"), 1, 1.5, False, IntSub(9)))
attempt("TagList.extend str", lambda: tl.extend("xyz"))
attempt("TagList.extend gen", lambda: tl.extend(c for c in "pq"))
attempt("TagList.extend bad", lambda: tl.extend(["ok", b"no"]))
attempt("TagList.insert", lambda: tl.insert(0, [1, 2]))
show("tl", [safe_repr(c) for c in tl])
src = ["a", 1, None, [2.0, TagList("z")]]
out = _tagchilds_to_tagnodes(src)
show("nodes", out)
show("src untouched", src)
show("fresh list", out is not src and _tagchilds_to_tagnodes(src) is not out)
show("str passthrough", _tagchilds_to_tagnodes("abc"))
show("empty", _tagchilds_to_tagnodes([]))
attempt("nodes bad", lambda: _tagchilds_to_tagnodes([1, object]))
attempt("nodes not iterable", lambda: _tagchilds_to_tagnodes(5))
inner = span("in")
out = _tagchilds_to_tagnodes([inner, HTML("<br>")])
show("identity kept", out[0] is inner and type(out[1]).__name__ == "HTML")

# ---------------------------------------------------------------------------
print("== 8. deep nesting ==")
base = Collector("base")
sys.displayhook = base
stack = [div(id=f"n{i}") for i in range(30)]
hooks = []


def nest(i):
    if i == len(stack):
        sys.displayhook("leaf")
        return
    with stack[i]:
        hooks.append(sys.displayhook)
        sys.displayhook(i)
        nest(i + 1)
        sys.displayhook(-i)
    expected = base if i == 0 else hooks[i - 1]
    assert sys.displayhook is expected


nest(0)
show("deep", str(stack[0]).replace("\n", "").replace(" ", "")[:400])
show("deep restored", sys.displayhook is base and base.seen == [stack[0]])
show("all prev cleared", all(t.prev_displayhook is None for t in stack))
sys.displayhook = ORIG_HOOK
print("done")
