# Probe for Tag.remove_class (and has_class / TagAttrDict item assignment around it)
from htmltools import HTML, Tag, div, span


def state(t):
    return "attrs=%r types=%r html=%r" % (
        list(t.attrs.items()),
        [type(v).__name__ for v in t.attrs.values()],
        str(t),
    )


def run(label, make, op):
    t = make()
    try:
        r = op(t)
        print(label, "-> same" if r is t else "-> OTHER %r" % (r,), state(t))
    except Exception as e:  # noqa: BLE001
        print(label, "-> EXC", type(e).__name__, str(e), "|", state(t))


class Obj:
    def __init__(self, s, truth=True):
        self.s, self.truth = s, truth

    def __str__(self):
        return self.s

    def __bool__(self):
        return self.truth

    def __repr__(self):
        return "Obj(%r,%r)" % (self.s, self.truth)


class BadBool:
    def __bool__(self):
        raise RuntimeError("no truth")

    def __repr__(self):
        return "BadBool()"


class BadStr:
    def __str__(self):
        raise RuntimeError("no str")

    def __repr__(self):
        return "BadStr()"


makers = [
    ("noattr", lambda: div(id="i")),
    ("empty", lambda: div(class_="", id="i")),
    ("true", lambda: div(class_=True)),
    ("ws-only", lambda: div(id="i", class_=" \t\n ", title="t")),
    ("one", lambda: div(class_="a")),
    ("dup", lambda: div(id="i", class_="a b a  c\ta\na", title="t")),
    ("padded", lambda: span(class_="  a   b  ")),
    ("html", lambda: div(class_=HTML("a <b> &amp; a"), id="i")),
    ("html-one", lambda: div(class_=HTML("a"))),
    ("html-empty", lambda: div(class_=HTML(""))),
    ("html-ws", lambda: div(class_=HTML("  "))),
    ("case", lambda: div(class_="A a Ab ab")),
    ("nums", lambda: div(class_="1 2 3 None True")),
    ("unicode", lambda: div(class_="é ü 　z x\x1fy")),
]
args = ["a", "b", "zzz", "", " ", " a ", "\ta\n", "a b", "A", "<b>", "&amp;", HTML("a"), HTML(" <b> "), HTML(""),
        None, 0, 1, 2, True, False, 1.0, Obj("a"), Obj("a", False), Obj(" b "), BadBool(), BadStr(), [], ["a"],
        b"a", "é", "ü", "z", "x\x1fy", "x"]
for mlabel, make in makers:
    for a in args:
        run("remove_class[%s](%r)" % (mlabel, a), make, lambda t, a=a: t.remove_class(a))

# chaining, order, re-adding
t = div(id="i", class_="a b c", style="s:1;")
r = t.remove_class("b").remove_class("x").remove_class("a")
print(r is t, state(t))
r = t.remove_class("c")
print(r is t, state(t), t.has_class("c"))
t.add_class("n")
print(state(t))
t.remove_class("n").remove_class("n")
print(state(t))

# after removal the value is a plain str even if it was HTML
t = div(class_=HTML("a&b c"))
t.remove_class("c")
print(state(t), type(t.attrs["class"]).__name__)
t.add_class(HTML("<d>"))
print(state(t))
t.remove_class("<d>")
print(state(t))

# has_class agrees
t = div(class_="  foo bar\tbaz ")
for c in ["foo", "bar", "baz", "ba", "", " ", "foo bar", HTML("foo"), None, 1]:
    before = t.has_class(c)
    t2 = div(class_=t.attrs["class"])
    t2.remove_class(c)
    print(repr(c), before, t2.has_class(c), state(t2))


class MyTag(Tag):
    pass


m = MyTag("x-y", class_="p q")
print(type(m.remove_class("p")).__name__, state(m))
print(type(m.remove_class("q")).__name__, state(m))
print(type(m.remove_class("q")).__name__, state(m))
