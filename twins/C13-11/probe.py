# Probe for refactoring 1: the listing <script> + dependency tags emitted by
# HTMLDocument._hoist_head_content and HTMLTextDocument.render.
import htmltools
from htmltools import (
    HTMLDependency, HTMLDocument, HTMLTextDocument, Tag, TagList, div, span, tags,
    head_content,
)


def show(label, fn):
    try:
        r = fn()
    except Exception as e:  # noqa: BLE001
        print(label, "-> EXC", type(e).__name__, str(e)[:200])
    else:
        print(label, "->", repr(r))


def mk_deps():
    return [
        HTMLDependency("a", "1.0", source={"subdir": "libtest"}, script={"src": "a.js"}),
        HTMLDependency(
            "b-</script>", "2.1.3",
            source={"href": "https://x.org/b"},
            script=[{"src": "b 1.js", "defer": ""}, {"src": "b2.js", "type": "module"}],
            stylesheet=[{"href": "b.css"}, {"href": "c.css", "rel": "preload", "media": "print"}],
            meta={"name": "viewport", "content": "width=device-width"},
            head="<script>alert('</SCRIPT>')</script>",
            all_files=True,
        ),
        HTMLDependency("c", "0.0.1", head=TagList(tags.title("T & t"), tags.style("p{}"))),
        HTMLDependency("a", "1.2", source={"package": "htmltools", "subdir": "libtest"},
                       script={"src": "testdep/testdep.js"}),
        head_content(tags.link(rel="icon", href="x.ico")),
    ]


deps = mk_deps()
combos = [
    dict(),
    dict(lib_prefix=None),
    dict(lib_prefix=""),
    dict(lib_prefix="my/lib", include_version=False),
    dict(include_version=False),
]

# --- HTMLDocument (direct) ---
contents = {
    "empty": [],
    "nodeps": [div("x")],
    "one": [div("x", deps[0])],
    "all": [div("x", deps[0], span(deps[1])), deps[2], deps[3], deps[4], deps[0]],
    "html": [tags.html(tags.body(div(deps[1])), deps[2])],
    "html_head": [tags.html(deps[0], tags.head(tags.title("t")), tags.body("b", deps[3]))],
    "body": [tags.body(deps[2], "text")],
}
for name, c in contents.items():
    for kw in combos:
        def f():
            r = HTMLDocument(*c, lang="en").render(**kw)
            return (r["html"], [(d.name, str(d.version)) for d in r["dependencies"]])
        show(f"HTMLDocument[{name}]{kw}", f)

show("hoist non-html", lambda: HTMLDocument._hoist_head_content(div("x"), "lib", True))
show("hoist html", lambda: str(HTMLDocument._hoist_head_content(
    tags.html(tags.body(deps[1], deps[0])), None, False)))
orig = tags.html(tags.head("h"), tags.body(deps[0]))
before = orig.get_html_string()
HTMLDocument._hoist_head_content(orig, "lib", True)
print("hoist leaves input untouched:", before == orig.get_html_string())

# --- HTMLTextDocument ---
tmpl = "<html><head>@@DEPS@@</head><body>@@DEPS@@ text @@DEPS@@</body></html>"
dep_sets = {
    "none": None,
    "emptylist": [],
    "one": [deps[0]],
    "dup": [deps[0], deps[0], deps[3]],
    "all": mk_deps(),
}
for name, ds in dep_sets.items():
    for kw in combos:
        def f():
            doc = HTMLTextDocument(tmpl, deps=ds, deps_replace_pattern="@@DEPS@@" if ds is not None else None)
            r = doc.render(**kw)
            return (r["html"], [(d.name, str(d.version)) for d in r["dependencies"]],
                    r["dependencies"] == doc._deps, r["dependencies"] is doc._deps)
        show(f"HTMLTextDocument[{name}]{kw}", f)

show("textdoc deps w/o pattern", lambda: HTMLTextDocument("x", deps=[deps[0]]))
show("textdoc no deps pattern, no placeholder", lambda: HTMLTextDocument(
    "<p>no placeholder</p>", deps=[deps[1]], deps_replace_pattern="@@").render()["html"])
show("textdoc pattern None + embedded", lambda: HTMLTextDocument(
    "<p>" + deps[0].serialize_to_script_json().get_html_string() + "</p>").render())

# --- json mode round trip equivalence ---
htmltools.html_dependency_render_mode = "json"
try:
    for name, c in contents.items():
        body = str(TagList(*c))
        text = "<html><head><meta id='p'></head><body>" + body + "</body></html>"
        for kw in combos:
            def f():
                doc = HTMLTextDocument(text, deps=[], deps_replace_pattern="<meta id='p'>")
                r = doc.render(**kw)
                return (r["html"], [(d.name, str(d.version)) for d in r["dependencies"]])
            show(f"json-roundtrip[{name}]{kw}", f)
finally:
    htmltools.html_dependency_render_mode = "invisible"

# bad dependency objects: exception type / order
class Weird:
    name = "w"
    version = "1"
show("textdoc weird dep", lambda: HTMLTextDocument("@@", deps=[Weird()], deps_replace_pattern="@@").render())
class NoName:
    version = "1"
show("textdoc noname dep", lambda: HTMLTextDocument("@@", deps=[NoName()], deps_replace_pattern="@@").render())
show("textdoc int-name dep", lambda: HTMLTextDocument(
    "@@", deps=[HTMLDependency(3, "1")], deps_replace_pattern="@@").render())
show("textdoc tuple deps", lambda: HTMLTextDocument("@@", deps=(deps[0],), deps_replace_pattern="@@").render())
