# Probe for refactoring 2: TagAttrDict.update() merging and the attribute writer of
# Tag.get_html_string().
import itertools
from htmltools import HTML, Tag, TagList, div, span, tags, TagAttrs
from htmltools._core import TagAttrDict


def show(label, fn):
    try:
        r = fn()
        print(label, "->", type(r).__name__, repr(r if isinstance(r, (bool, int, list, tuple)) else str(r)))
    except Exception as e:  # noqa: BLE001
        print(label, "-> EXC", type(e).__name__, str(e)[:90])


class SubHTML(HTML):
    pass


vals = [
    "", "a", "<b>", "x & y", "\"q\" 'r'", "l1\nl2\r", "&amp;", "é<ü>",
    HTML(""), HTML("<i>"), HTML("&amp;\"'"), HTML("a\nb"), SubHTML("<s>&"),
    0, 1.5, True, False, None,
]


def dump(d):
    return [(k, type(v).__name__, str(v)) for k, v in d.items()]


# single values through every entry point
for v in vals:
    show(f"kw {v!r}", lambda: div(title=v))
    show(f"dict {v!r}", lambda: div({"title": v}))
    show(f"attrs {v!r}", lambda: dump(TagAttrDict(title=v)))
    show(f"void {v!r}", lambda: tags.img(alt=v))
    show(f"script-attr {v!r}", lambda: tags.script("x<y", data_x=v))

    def _set():
        t = div()
        t.attrs["data-x"] = v
        return t
    show(f"setitem {v!r}", _set)

# pairs and triples merged in one update, every order
for a, b in itertools.product(vals, repeat=2):
    show(f"merge {a!r},{b!r}", lambda: dump(TagAttrDict({"class": a}, {"class_": b})))
    show(f"render {a!r},{b!r}", lambda: div({"class": a}, class_=b))
for a, b, c in itertools.product(["<p>", HTML("<H>"), "'q'", HTML("&")], repeat=3):
    show(f"merge3 {a!r},{b!r},{c!r}", lambda: dump(TagAttrDict({"x": a}, {"x_": b}, x=c)))
    show(f"render3 {a!r},{b!r},{c!r}", lambda: span({"x": a}, {"x": b}, x=c))

# identity is preserved for HTML/HTML merges' operands, result types
h1, h2 = HTML("<1>"), HTML("<2>")
d = TagAttrDict({"a": h1}, {"a": h2}, b=h1)
show("types", lambda: dump(d))
show("same-obj", lambda: d["b"] is h1)

# update() on an existing dict replaces rather than merges; merging only within a call
d = TagAttrDict(a="<x>")
d.update({"a": HTML("<y>")})
show("replace", lambda: dump(d))
d.update({"a": "1'"}, {"a": HTML("<2>")}, a="3\"")
show("replace-merge", lambda: dump(d))
d.update()
show("noop", lambda: dump(d))
d.update({}, {})
show("noop2", lambda: dump(d))
d.update({"k_": None}, {"k": False}, k="v")
show("skip-none", lambda: dump(d))
d.update({"foo_bar_": "1"}, {"foo-bar": HTML("<2>")}, {"foo_bar": "3&"})
show("names", lambda: dump(d))

# add_class / add_style / remove_class go through update()
for cur in [None, "a<", HTML("b<")]:
    for new in ["c&", HTML("d&")]:
        for prepend in (False, True):
            def _cls():
                t = div(class_=cur) if cur is not None else div()
                t.add_class(new, prepend=prepend)
                return [str(t)] + dump(t.attrs)
            show(f"add_class {cur!r} {new!r} {prepend}", _cls)

            def _sty():
                t = div(style=(cur + ";") if cur is not None else None)
                t.add_style(new + ";", prepend=prepend)
                return [str(t)] + dump(t.attrs)
            show(f"add_style {cur!r} {new!r} {prepend}", _sty)
show("remove_class", lambda: div(class_=HTML("a <b> c")).remove_class("a"))
show("has_class", lambda: div({"class": "a"}, class_=HTML("<b>")).has_class("<b>"))

# bad inputs
show("bad-type", lambda: div(title=[1]))
show("bad-type-merge", lambda: div({"title": "a"}, title=object))
show("bad-key", lambda: TagAttrDict({1: "a"}))
show("not-mapping", lambda: TagAttrDict([("a", "b")]))


def _bypass():
    t = div()
    dict.__setitem__(t.attrs, "n", 5)
    return str(t)
show("bypass", _bypass)

# attributes on nested / documents / TagList paths
show("nested", lambda: TagList(div(span({"a": "<"}, a=HTML(">")), b="&"), "t<"))
show("render()", lambda: div({"a": "'"}, a=HTML('"')).render()["html"])
show("get_html_string", lambda: div(a="x\ny").get_html_string(indent=2, eol="\r\n"))
