"""Deterministic probe for the child-dispatch code of TagList/Tag.get_html_string."""
import itertools

from htmltools import HTML, HTMLDependency, Tag, TagList, a, br, div, img, p, span, tags
from htmltools._core import MetadataNode


class MyMeta(MetadataNode):
    pass


class MetaWithRepr(MetadataNode):
    # metadata wins over _repr_html_
    def _repr_html_(self):
        return "<SHOULD-NOT-APPEAR/>"


class MetaStr(str, MetadataNode):
    pass


class MyStr(str):
    def __radd__(self, other):
        return "[" + str(other) + "|" + str.__str__(self) + "]"


class Repr:
    def __init__(self, s):
        self.s = s

    def _repr_html_(self):
        return self.s


class ReprReturnsHTML:
    def _repr_html_(self):
        return HTML("<i>&</i>")


class ReprAndTagify:
    def _repr_html_(self):
        return "<repr-and-tagify/>"

    def tagify(self):
        return self


class OnlyTagify:
    def tagify(self):
        return self


class MyTag(Tag):
    pass


class TagifyMeta(MetadataNode):
    def tagify(self):
        return self


def dep(n="d"):
    return HTMLDependency(n, "1.0")


def show(label, fn):
    try:
        out = fn()
        print(label, "=>", type(out).__name__, repr(str(out)))
    except Exception as e:  # noqa: BLE001
        print(label, "=> EXC", type(e).__name__, str(e))


def mk_meta(i):
    return [dep("x%d" % i), MyMeta(), MetaWithRepr(), MetaStr("zzz"), TagifyMeta()][i % 5]


# ---- base sibling lists -------------------------------------------------
def bases():
    return {
        "empty": [],
        "text": ["a<b"],
        "two_text": ["a", "b&"],
        "html": [HTML("<b>&</b>")],
        "inline_block": [span("s"), div("d")],
        "block_inline": [div("d"), span("s"), "t"],
        "inline_text_inline": [span("x"), "mid", a("y", href="u?a=1&b=2")],
        "void": [br(), img(src="i.png"), "t"],
        "repr": [Repr("<r/>"), div("d"), Repr("<q/>"), span("s")],
        "repr_html": [ReprReturnsHTML(), "x"],
        "both": [ReprAndTagify(), "x"],
        "nested": [div(span("a", span("b")), p("c", div()), "t")],
        "mytag": [MyTag("section", "x", span()), MyTag("em", _add_ws=False)],
        "mystr": ["q", MyStr("w<")],
        "script": [tags.script("if (a < b) { x(); }"), tags.style("a > b {}")],
    }


def with_meta(items, mask):
    """Insert metadata nodes at the gap positions selected by bitmask (doubles in a row too)."""
    out = []
    k = 0
    for pos in range(len(items) + 1):
        if mask >> pos & 1:
            out.append(mk_meta(k))
            k += 1
            if pos % 2 == 0:
                out.append(mk_meta(k))
                k += 1
        if pos < len(items):
            out.append(items[pos])
    return out


for name in bases():
    n = len(bases()[name])
    for mask in range(2 ** (n + 1)):
        for add_ws in (True, False):
            for esc in (True, False):
                for indent, eol in ((0, "\n"), (2, "\n"), (1, "")):
                    kids = with_meta(bases()[name], mask)
                    tl = TagList(*kids)
                    show(
                        "TL %s m=%d ws=%s esc=%s i=%d eol=%r" % (name, mask, add_ws, esc, indent, eol),
                        lambda: tl.get_html_string(indent, eol, add_ws=add_ws, _escape_strings=esc),
                    )
        for wrapper in ("div", "span", "br", "script", "style", "pre"):
            for indent, eol in ((0, "\n"), (3, "\r\n")):
                kids = with_meta(bases()[name], mask)
                t = Tag(wrapper, *kids, {"class": "c<&\"", "data-x": HTML("<&>")})
                show("TAG %s %s m=%d i=%d eol=%r" % (wrapper, name, mask, indent, eol),
                     lambda: t.get_html_string(indent, eol))
        kids = with_meta(bases()[name], mask)
        show("STR %s m=%d" % (name, mask), lambda: str(div(*kids, _add_ws=False)))
        show("RENDER %s m=%d" % (name, mask), lambda: div(*kids).render()["html"])
        show("DEPS %s m=%d" % (name, mask),
             lambda: ",".join(d.name for d in div(*kids).get_dependencies()))

# ---- untagified / error paths ------------------------------------------
for pre in ([], [dep()], ["t"], [span("s")], [dep(), "t", dep()]):
    tl = TagList(*pre)
    tl.data.append(OnlyTagify())
    tl.data.append(dep())
    tl.data.append("after")
    show("ERR taglist %d" % len(pre), lambda: tl.get_html_string())
    t = div()
    t.children = tl
    show("ERR tag %d" % len(pre), lambda: t.get_html_string())

# raw objects placed directly in .children (bypass flattening)
for raw in (3, None, 2.5, b"by", ["l"], MyStr("m"), HTML("<h>"), MetaStr("ms")):
    for esc in (True, False):
        tl = TagList()
        tl.data.extend(["a", raw, dep(), span("s")])
        show("RAW %r esc=%s" % (type(raw).__name__, esc),
             lambda: tl.get_html_string(_escape_strings=esc))
    t = Tag("div")
    t.children.data.extend([dep(), raw, MyMeta()])
    show("RAW single child %s" % type(raw).__name__, lambda: t.get_html_string())
    v = Tag("br")
    v.children.data.extend([dep(), MyMeta()])
    show("VOID only meta", lambda: v.get_html_string(1, "\n"))

# ---- all permutations of a small mixed bag -------------------------------
bag = lambda: [dep("p"), "t<", span("s"), div("d"), Repr("<r/>"), MyMeta()]  # noqa: E731
for perm in itertools.permutations(range(6), 4):
    kids = [bag()[i] for i in perm]
    show("PERM %s" % (perm,), lambda: div(*kids).get_html_string())
    show("PERMi %s" % (perm,), lambda: span(*kids).get_html_string(1))
    show("PERMl %s" % (perm,), lambda: TagList(*kids).get_html_string(add_ws=False))
