import copy
import sys

from htmltools import (
    HTML,
    HTMLDependency,
    HTMLDocument,
    MetadataNode,
    Tag,
    TagList,
    div,
    span,
    tags,
)

LOG = []


def show(label, fn):
    """Run fn, print repr of result or the exception type/message, plus call log."""
    del LOG[:]
    try:
        res = fn()
        out = repr(res)
    except BaseException as e:  # noqa: BLE001
        out = "EXC " + type(e).__name__ + ": " + str(e)
    print("## " + label)
    print(out)
    if LOG:
        print("   log:", LOG)


def dep(name, version="1.0"):
    return HTMLDependency(name, version, source={"subdir": "."}, script={"src": name + ".js"})


def rendered(x):
    r = x.render()
    return (type(r["html"]).__name__, str(r["html"]), [(d.name, str(d.version)) for d in r["dependencies"]])


def doc_rendered(*args, **kwargs):
    r = HTMLDocument(*args, **kwargs).render()
    return (type(r["html"]).__name__, str(r["html"]), [(d.name, str(d.version)) for d in r["dependencies"]])


class Tf:
    """Tagifiable returning a fixed value; logs the call order."""

    def __init__(self, name, value):
        self.name = name
        self.value = value

    def tagify(self):
        LOG.append("tagify:" + self.name)
        v = self.value
        return v() if callable(v) else v


class TfRepr(Tf):
    """Tagifiable that is also self-rendering."""

    def _repr_html_(self):
        LOG.append("repr_html:" + self.name)
        return "<i>" + self.name + "</i>"


class OnlyRepr:
    def __init__(self, name, value=None):
        self.name = name
        self.value = value

    def _repr_html_(self):
        LOG.append("repr_html:" + self.name)
        return "<b>" + self.name + "</b>" if self.value is None else self.value


class TfMeta(MetadataNode):
    """Both a MetadataNode and Tagifiable."""

    def __init__(self, name, value):
        self.name = name
        self.value = value

    def tagify(self):
        LOG.append("tagify:" + self.name)
        return self.value

    def __copy__(self):
        LOG.append("copy:" + self.name)
        return TfMeta(self.name + "'", self.value)


class Meta(MetadataNode):
    def __init__(self, name):
        self.name = name

    def __copy__(self):
        LOG.append("copy:" + self.name)
        return Meta(self.name + "'")

    def __repr__(self):
        return "Meta(" + self.name + ")"


class Boom:
    def __init__(self, name, exc):
        self.name = name
        self.exc = exc

    def tagify(self):
        LOG.append("tagify:" + self.name)
        raise self.exc


def raw(tl):
    """Structural dump of a TagList / Tag without going through render()."""
    if isinstance(tl, Tag):
        return ("Tag", tl.name, dict(tl.attrs), raw(tl.children))
    if isinstance(tl, TagList):
        return [raw(c) for c in tl.data]
    if isinstance(tl, HTMLDependency):
        return ("Dep", tl.name, str(tl.version))
    if isinstance(tl, (Tf, TfMeta, OnlyRepr, Boom)):
        return (type(tl).__name__, tl.name)
    if isinstance(tl, HTML):
        return ("HTML", tl.as_string())
    if tl is None or isinstance(tl, (str, int, float, list, tuple, dict)):
        return tl
    return "<" + type(tl).__name__ + ">"


# ---------------------------------------------------------------- TagList.tagify
def mk_basic():
    return TagList(
        "a",
        Tf("t1", TagList("x", span("y"), "z")),
        Tf("t2", TagList()),
        Tf("t3", div("single")),
        Tf("t4", "plain <str>"),
        Tf("t5", HTML("<raw/>")),
        Tf("t6", dep("d6", "2.0")),
        Meta("m1"),
        dep("d0"),
        "b",
    )


show("basic raw", lambda: raw(mk_basic().tagify()))
show("basic render", lambda: rendered(mk_basic()))
show("basic in div render", lambda: rendered(div(mk_basic(), id="w")))
show("basic doc", lambda: doc_rendered(mk_basic()))
show("empty", lambda: (raw(TagList().tagify()), rendered(TagList())))
show("single tagifiable -> empty", lambda: (raw(TagList(Tf("e", TagList())).tagify()), rendered(TagList(Tf("e", TagList())))))
show("all tagifiables empty", lambda: raw(TagList(Tf("e1", TagList()), Tf("e2", TagList()), Tf("e3", TagList())).tagify()))
show("first/last splices", lambda: raw(TagList(Tf("f", TagList("1", "2", "3")), "mid", Tf("l", TagList("8", "9"))).tagify()))
show("adjacent splices", lambda: raw(TagList(Tf("p", TagList("1", "2")), Tf("q", TagList()), Tf("r", TagList("3")), Tf("s", TagList("4", "5", "6"))).tagify()))

# nested: tagifiable whose expansion is a tag that holds more tagifiables
nested = lambda: TagList(
    div(Tf("in1", TagList("i", Tf("never", "unexpanded"))), Tf("in2", lambda: div(Tf("deep", "D").tagify()))),
    Tf("out", lambda: TagList(span("s"), dep("dn", "3.1"))),
)
show("nested raw", lambda: raw(nested().tagify()))
show("nested render", lambda: rendered(nested()))

# tagify results that are unusual values: they take the object's place verbatim
show("odd results raw", lambda: raw(TagList("a", Tf("n", None), Tf("i", 5), Tf("l", ["x", "y"]), Tf("f", 1.5)).tagify()))
show("odd results render", lambda: rendered(TagList("a", Tf("i", 5))))
show("None result render", lambda: rendered(TagList("a", Tf("n", None))))

# TagList result whose data holds things needing normalisation / rejection
def weird_taglist(items):
    tl = TagList()
    tl.data = list(items)
    return tl

show("taglist result normalised", lambda: raw(TagList("a", Tf("w", weird_taglist([1, None, 2.5, ["n", ("m",)], TagList("q")]))).tagify()))
show("taglist result invalid", lambda: raw(TagList(Tf("late", "L"), Tf("w", weird_taglist([object])), Tf("early", "E")).tagify()))

# Both MetadataNode and Tagifiable: tagify wins, copy not called
show("meta+tagifiable", lambda: raw(TagList(TfMeta("tm", TagList("from-tm")), Meta("plain")).tagify()))

# Self rendering tagifiable: tagify still used
show("tagifiable with repr_html", lambda: rendered(TagList(TfRepr("tr", span("expanded")), OnlyRepr("or"))))

# Order of calls is last to first; exception propagates, earlier ones not called
show("exception order", lambda: raw(TagList(Tf("a", "A"), Boom("b", KeyError("kb")), Tf("c", "C"), Meta("m")).tagify()))
show("exception render", lambda: rendered(div(Tf("a", "A"), Boom("b", ZeroDivisionError("z")))))
show("exception doc", lambda: doc_rendered(Tf("a", "A"), Boom("b", StopIteration("s"))))

# A tagifiable that mutates its (original) parent while being expanded
class Mutator:
    def __init__(self):
        self.parent = None

    def tagify(self):
        LOG.append("tagify:mut len=%d" % len(self.parent))
        self.parent.append("added-by-mutator")
        self.parent.insert(0, "inserted-by-mutator")
        return TagList("M1", "M2")


def mutating():
    m = Mutator()
    tl = TagList("a", Tf("t", "T"), m, "z", Tf("u", TagList("U1", "U2")))
    m.parent = tl
    res = tl.tagify()
    return raw(res), raw(tl)


show("mutating parent", mutating)

# the original is untouched, copies independent
def independence():
    t = Tf("t", TagList("1", "2"))
    m = Meta("m")
    orig = TagList("a", t, m, div("d"))
    out = orig.tagify()
    return (raw(orig), raw(out), orig.data[1] is t, orig.data[2] is m, out.data[3] is m, out.data[-1] is orig.data[-1], type(out).__name__)


show("independence", independence)

# TagList subclass keeps its class
class MyList(TagList):
    pass


show("subclass", lambda: (type(MyList("a", Tf("t", TagList("b"))).tagify()).__name__, raw(MyList("a", Tf("t", TagList("b"))).tagify())))

# Tag.tagify and the html / body special cases of HTMLDocument
show("Tag.tagify", lambda: raw(div(Tf("t", TagList("1", span(Tf("inner", "kept")))), Meta("m"), class_="c").tagify()))
show("doc html", lambda: doc_rendered(Tf("h", lambda: tags.html(tags.body("B", dep("dh"))))))
show("doc body", lambda: doc_rendered(Tf("b", lambda: tags.body("B", dep("db"), class_="k")), lang="en"))
show("doc fragment", lambda: doc_rendered(Tf("f", TagList("x", tags.body("inner"))), "tail"))
show("str()", lambda: (str(TagList("a", Tf("t", TagList(span("b"), "c")))), repr(div(Tf("t", TagList()))), TagList(Tf("t", "x"))._repr_html_()))
