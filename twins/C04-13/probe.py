# Probe for refactoring 3: leaf (string / _repr_html_) children in
# TagList.get_html_string() and the <script>/<style> switch of Tag.get_html_string().
import itertools
from htmltools import HTML, Tag, TagList, div, span, tags, HTMLDependency, head_content

LOG = []


def show(label, fn):
    try:
        r = fn()
        print(label, "->", type(r).__name__, repr(r if isinstance(r, (bool, int, list, tuple)) else str(r)))
    except Exception as e:  # noqa: BLE001
        print(label, "-> EXC", type(e).__name__, str(e)[:90])


class Repr:
    def __init__(self, s):
        self.s = s

    def _repr_html_(self):
        LOG.append("repr:" + str(self.s))
        return self.s


class OnlyTagifiable:
    def tagify(self):
        LOG.append("tagify")
        return span("<tagified>")


class Both:
    def tagify(self):
        LOG.append("both.tagify")
        return self

    def _repr_html_(self):
        LOG.append("both.repr")
        return "<both & co>"


class BadRepr:
    def _repr_html_(self):
        raise KeyError("boom")


class S(str):
    pass


dep = HTMLDependency("d", "1.0", head="<x>")
leaves = {
    "str": "a < b & c",
    "empty": "",
    "quote": "\"q\" 'r'",
    "S": S("<S&>"),
    "html": HTML("<i>&amp;</i>"),
    "html-empty": HTML(""),
    "repr": Repr("<r & r>"),
    "repr-html": Repr(HTML("<rh>")),
    "repr-none": Repr(None),
    "both": Both(),
    "tag": div("in<"),
    "inline": span("sp&"),
    "dep": dep,
    "num": 3.5,
}
names = list(leaves)

for tagname in ["div", "span", "script", "style", "SCRIPT", "title", "br", "textarea"]:
    for ws in (True, False):
        for n in names:
            show(f"{tagname} ws={ws} [{n}]", lambda: Tag(tagname, leaves[n], _add_ws=ws))
        for a, b in itertools.permutations(["str", "html", "repr", "tag", "inline", "dep", "both", "empty"], 2):
            show(f"{tagname} ws={ws} [{a},{b}]", lambda: Tag(tagname, leaves[a], leaves[b], _add_ws=ws))
    show(f"{tagname} x3", lambda: Tag(tagname, "a<", HTML("<b>"), "c&", Repr("<d>"), span("e<", HTML("<f>")), "g'"))
    show(f"{tagname} nested", lambda: div(Tag(tagname, "x<y", Tag(tagname, "p&q", "r<s"), "z>")))
    show(f"{tagname} get_html_string", lambda: Tag(tagname, "x<y", "&").get_html_string(indent=2, eol="\r\n"))
    show(f"{tagname} render", lambda: Tag(tagname, "x<y", OnlyTagifiable(), Both()).render()["html"])
    show(f"{tagname} untagified", lambda: Tag(tagname, "x<y", OnlyTagifiable()).get_html_string())
    show(f"{tagname} untagified-single", lambda: Tag(tagname, OnlyTagifiable()).get_html_string())
    show(f"{tagname} both-untagified", lambda: Tag(tagname, "x<y", Both()).get_html_string())
    show(f"{tagname} badrepr", lambda: Tag(tagname, "x<y", BadRepr()))

# TagList directly, all keyword combinations
tl = TagList("a<", HTML("<b>"), Repr("<c&>"), div("d<"), "e&", span("f"), "g>", dep, Both(), S("<h>"))
for indent, eol, add_ws, esc in itertools.product([0, 1, 3], ["\n", "", "|"], [True, False], [True, False]):
    show(f"tl {indent} {eol!r} {add_ws} {esc}", lambda: tl.get_html_string(indent, eol, add_ws=add_ws, _escape_strings=esc))
show("tl str", lambda: tl)
show("tl empty", lambda: TagList().get_html_string(_escape_strings=False))
show("tl only-dep", lambda: TagList(dep).get_html_string())
show("tl untagified", lambda: TagList("a", OnlyTagifiable()).get_html_string())
show("tl untagified-noesc", lambda: TagList("a", OnlyTagifiable()).get_html_string(_escape_strings=False))
show("tl bad-indent", lambda: TagList("a<", Repr("<x>")).get_html_string(indent="i"))
show("tl bad-indent-untag", lambda: TagList(OnlyTagifiable()).get_html_string(indent="i"))


def _raw(esc):
    t = TagList("a<")
    t.data.append(5)
    return t.get_html_string(_escape_strings=esc)
show("tl raw-int esc", lambda: _raw(True))
show("tl raw-int noesc", lambda: _raw(False))
show("tl result type", lambda: type(TagList(S("x"), S("y")).get_html_string(_escape_strings=False)).__name__)
show("tl result type2", lambda: type(TagList("x<", Repr(HTML("<y>"))).get_html_string()).__name__)

# other entry points that reach the same code
show("head_content", lambda: HTMLDependency("h", "1", head=TagList("t<", HTML("<m>"), tags.style("a>b", "c<d"))).as_html_tags())
show("as_dict", lambda: head_content("t<", tags.script("1<2", HTML("</x>"))).as_dict()["head"])
show("json", lambda: head_content("t<", tags.script("1<2", "3>2")).serialize_to_script_json())
show("_repr_html_", lambda: tags.style("a>b", HTML("c>d"), Repr("e>f"))._repr_html_())
print(LOG)
