"""Probe for Tag.__copy__ (directly and through tagify / HTMLDocument rendering)."""
import sys
from copy import copy, deepcopy

from htmltools import HTML, HTMLDependency, HTMLDocument, Tag, TagList, div, span, tags


def show(label, fn):
    try:
        print(label, "->", repr(fn()))
    except Exception as e:  # noqa: BLE001
        print(label, "!!", type(e).__name__, str(e)[:90])


def describe(label, t):
    c = copy(t)
    print(label, "type:", type(c).__name__, "equal:", c == t, "same str:", str(c) == str(t))
    print(label, "keys:", list(c.__dict__.keys()) == list(t.__dict__.keys()), list(c.__dict__.keys()))
    print(label, "is:", c is t, "children is:", c.children is t.children, "attrs is:", c.attrs is t.attrs,
          "children type:", type(c.children).__name__, "attrs type:", type(c.attrs).__name__)
    print(label, "kids shared:", [a is b for a, b in zip(c.children, t.children)],
          "name/add_ws:", c.name, c.add_ws, "hook:", c.prev_displayhook)
    return c


d = HTMLDependency("dep", "1.0", source={"href": "/x"}, script={"src": "s.js"})

describe("empty", Tag("br"))
describe("plain", div("a", span("b"), HTML("<i>"), d, id="x", class_="k", _add_ws=False))
describe("weird-name", Tag("my-tag", {"data-a": "1"}, {"data-a": "2"}, None, 3, 4.5))

# independence both ways
t = div("a", span("b"), id="x")
c = copy(t)
c.append("more")
c.attrs["id"] = "changed"
c.add_class("z")
c.name = "section"
c.add_ws = False
print("orig after copy mutated:", repr(str(t)), t.name, t.add_ws)
t.children[1].append("shared-inner")  # shallow: inner nodes are shared
t.insert(0, "front")
del t.attrs["id"]
print("copy after orig mutated:", repr(str(c)))
print("repeat copies equal:", copy(t) == copy(t), copy(copy(t)) == t)


# subclass with extra instance fields and a class attribute
class Widget(Tag):
    kind = "widget"

    def __init__(self, *args, **kwargs):
        super().__init__("div", *args, **kwargs)
        self.extra = ["x", ["nested"]]
        self.options = {"a": [1]}
        self.label = "lbl"
        self.nothing = None
        self.inner = span("held")


w = Widget("w", id="w1")
wc = describe("widget", w)
print("widget extra:", wc.extra == w.extra, wc.extra is w.extra, wc.extra[1] is w.extra[1])
print("widget options:", wc.options == w.options, wc.options is w.options, wc.options["a"] is w.options["a"])
print("widget label/none:", wc.label is w.label, wc.nothing is None, wc.kind, "kind" in wc.__dict__)
print("widget inner:", wc.inner == w.inner, wc.inner is w.inner, wc.inner.children is w.inner.children)
wc.extra.append("only-copy")
wc.options["b"] = 2
wc.inner.append("!")
print("widget orig fields:", w.extra, w.options, str(w.inner))


# subclass whose __new__ pre-populates the instance
class Preset(Tag):
    def __new__(cls, *a, **k):
        obj = super().__new__(cls)
        obj.from_new = "set-in-new"
        obj.name = "overwritten-by-copy"
        return obj


p = Preset("p", "text")
del p.from_new
pc = copy(p)
print("preset:", pc.name, pc.__dict__.get("from_new"), list(pc.__dict__.keys()), str(pc))


# a field that cannot be copied
class NoCopy:
    def __copy__(self):
        raise RuntimeError("no copy for you")


bad = div("x")
bad.resource = NoCopy()
show("uncopyable field", lambda: copy(bad))
show("uncopyable tagify", bad.tagify)
print("bad still fine:", bad.get_html_string(), sorted(bad.__dict__.keys()))


# field order: fields added later, deleted fields
o = div("o")
o.zzz = 1
o.aaa = [2]
del o.add_ws
oc = copy(o)
print("order:", list(oc.__dict__.keys()), hasattr(oc, "add_ws"))
show("render without add_ws", lambda: str(oc))

# inside a with block the display hook is carried over by reference
hook_before = sys.displayhook
ctx = div("ctx")
with ctx:
    inside = copy(ctx)
    print("hook carried:", inside.prev_displayhook is hook_before, inside.prev_displayhook is ctx.prev_displayhook)
print("hook restored:", sys.displayhook is hook_before, ctx.prev_displayhook, inside.prev_displayhook is hook_before)
print("ctx:", repr(str(ctx)), repr(str(inside)))

# through tagify / render / deepcopy
tree = div(Widget("in", span("deep")), tags.p("para", d), id="root")
tg = tree.tagify()
print("tagify equal:", tg == tree, tg.tagify() == tg, type(tg.children[0]).__name__)
print("tagify shares:", tg.children is tree.children, tg.children[0] is tree.children[0],
      tg.children[0].children[1] is tree.children[0].children[1], tg.children[0].extra is tree.children[0].extra)
print("render:", repr(tree.render()["html"]), tree.render() == tree.render())
print("doc:", repr(HTMLDocument(tree).render()["html"]))
print("deepcopy:", deepcopy(tree) == tree, str(deepcopy(tree)) == str(tree))
