# Probe for refactoring 4: Tag.remove_class / Tag.has_class.
from htmltools import HTML, Tag, div, span, tags


def show(label, fn):
    try:
        r = fn()
        print(label, "->", repr(r))
    except Exception as e:  # noqa: BLE001
        print(label, "-> EXC", type(e).__name__, str(e))


def state(t):
    return (list(t.attrs.items()), [type(v).__name__ for v in t.attrs.values()], str(t))


class Falsy:
    def __bool__(self):
        return False

    def __str__(self):
        return "a"

    def __repr__(self):
        return "Falsy()"


class Named:
    def __init__(self, s):
        self.s = s

    def __str__(self):
        return self.s

    def __repr__(self):
        return f"Named({self.s!r})"


class BoolRaises:
    def __bool__(self):
        raise RuntimeError("bool")

    def __repr__(self):
        return "BoolRaises()"


class_attr_values = [None, "", " ", "\t\n", "a", "a b", "a  b   a", " a b ", "a\tb\nc\r\nd", "b a b a b", "A a", "a b", "a b", "a\x1fb",
                     "a-b a_b", HTML("a b"), HTML(""), HTML(" "), HTML("a <b> a"), "<x> &", True, 5]
tokens = ["a", "b", "c", "", " ", " a", "a ", " a ", "a b", "A", "<b>", "<x>", "&", "\t", "a b", "a\x1fb", None, 0, 1, 5, True, False, [], ["a"], ("a",), b"a",
          HTML("a"), HTML(""), HTML(" a "), Falsy(), Named("a"), Named(" b "), Named(""), BoolRaises()]

for cv in class_attr_values:
    for tk in tokens:
        def mk(cv=cv):
            return div("kid", id="first", class_=cv, title="last")

        t = mk()
        show(f"has_class[{cv!r}] {tk!r}", lambda: t.has_class(tk))
        print("    unchanged" if state(t) == state(mk()) else "    CHANGED")
        t2 = mk()

        def run(t2=t2, tk=tk):
            r = t2.remove_class(tk)
            return r is t2

        show(f"remove_class[{cv!r}] {tk!r}", run)
        print("   ", state(t2))

# no attrs at all, class only, key order kept, repeated removal, chaining
show("no attrs has", lambda: Tag("x").has_class("a"))
show("no attrs rm", lambda: state(Tag("x").remove_class("a")))
show("only class rm all", lambda: state(span(class_="a a").remove_class("a")))
show("order kept", lambda: state(div(id="1", class_="a b", style="s;").remove_class("a")))
show("order kept after delete+add", lambda: state(div(id="1", class_="a", style="s;").remove_class("a").add_class("z")))
show("chain", lambda: state(div(class_="a b c d").remove_class("b").remove_class("d").remove_class("zz").remove_class("a")))
show("chain to empty then again", lambda: state(div(class_="a").remove_class("a").remove_class("a")))
show("add then has/rm", lambda: (lambda t: (t.has_class("n"), t.has_class("m"), state(t.remove_class("m")), t.has_class("m")))(div(class_="m").add_class("n")))
show("prepend then rm", lambda: state(div(class_="m").add_class("n", prepend=True).remove_class("n")))
show("html class becomes str", lambda: state(div(class_=HTML("<a> b")).remove_class("b")))
show("html class untouched when token absent", lambda: state(div(class_=HTML("<a>  b")).remove_class("zz")))
show("normalises whitespace when token absent", lambda: state(div(class_=" a \t b ").remove_class("zz")))
show("merged class attr", lambda: state(div({"class": "a"}, class_="b a").remove_class("a")))
show("kw misuse", lambda: div(class_="a").remove_class())
show("kw misuse2", lambda: div(class_="a").has_class())
show("kw name", lambda: (div(class_="a").has_class(class_="a"), state(div(class_="a b").remove_class(class_="a"))))
show("attrs replaced by plain dict", lambda: (lambda t: (setattr(t, "attrs", {"class": "p q", "id": "z"}), t.has_class("q"), t.remove_class("q").attrs, t.remove_class("p").attrs))(div()))
show("attrs plain dict non-str class", lambda: (lambda t: (setattr(t, "attrs", {"class": 5}), t.has_class("q")))(div()))
show("attrs plain dict non-str class rm", lambda: (lambda t: (setattr(t, "attrs", {"class": 5}), t.remove_class("q")))(div()))
show("tags fn", lambda: state(tags.a("x", href="#", class_="btn btn-primary").remove_class("btn")))
