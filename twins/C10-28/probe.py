# Probe for HTMLDocument._gen_html_tag_tree (html / body / fragment case selection, deps hoisting)
from htmltools import HTMLDependency, HTMLDocument, TagList, Tag, div, span, tags, HTML, head_content


def show(label, f):
    try:
        r = f()
        print("==", label)
        print(r if isinstance(r, str) else repr(r))
    except BaseException as e:  # noqa
        print("==", label, "!!", type(e).__name__, str(e)[:200])


src = {"href": "https://x.org/l"}
a1 = HTMLDependency("a", "1.0", source=src, script={"src": "a1.js"})
a2 = HTMLDependency("a", "1.10", source=src, script={"src": "a2.js"}, stylesheet={"href": "a2.css"})
a3 = HTMLDependency("a", "1.9", source=src, script={"src": "a3.js"})
b1 = HTMLDependency("b", "2", source={"subdir": "sub"}, meta={"name": "m", "content": "c"})
b2 = HTMLDependency("b", "2.0", head="<!-- b2 -->")


class Lazy:
    """Tagifiable that expands to whatever it is given."""
    def __init__(self, x):
        self.x = x
    def tagify(self):
        return self.x


class Html2(Tag):
    pass


def tree(doc, **kw):
    t = doc._gen_html_tag_tree(kw.get("lib_prefix", "lib"), include_version=kw.get("include_version", True))
    return type(t).__name__ + " " + t.name + " " + repr(dict(t.attrs)) + "\n" + str(t) + "\ndeps=" + repr(
        [(d.name, str(d.version)) for d in t.get_dependencies()])


docs = {
    "empty": lambda: HTMLDocument(),
    "string": lambda: HTMLDocument("hello <world>"),
    "fragment": lambda: HTMLDocument(div("x", a1), span(a2), a3),
    "fragment-attrs": lambda: HTMLDocument(div("x"), lang="en", class_="k"),
    "single-div": lambda: HTMLDocument(div(a1, div(a2, b1), b2)),
    "single-dep": lambda: HTMLDocument(a1),
    "body": lambda: HTMLDocument(tags.body(div(a1), a2, class_="bd"), lang="fr"),
    "body-and-more": lambda: HTMLDocument(tags.body("x"), "tail"),
    "two-bodies": lambda: HTMLDocument(tags.body("x"), tags.body("y")),
    "html": lambda: HTMLDocument(tags.html(tags.head(tags.title("t")), tags.body(div(a1, a2)), b1)),
    "html-attrs": lambda: HTMLDocument(tags.html(tags.body("x"), lang="en"), lang="de", data_x="1"),
    "html-nohead": lambda: HTMLDocument(tags.html(a3, tags.body(a2))),
    "html-head-not-first": lambda: HTMLDocument(tags.html(a1, tags.head(tags.meta(name="q")), tags.body())),
    "html-and-more": lambda: HTMLDocument(tags.html(tags.body("x")), "tail"),
    "html-in-taglist": lambda: HTMLDocument(TagList(tags.html(tags.body("x", b2)))),
    "body-in-taglist": lambda: HTMLDocument(TagList(TagList(tags.body("x", b2)))),
    "head-tag-only": lambda: HTMLDocument(tags.head(tags.title("t"))),
    "lazy-html": lambda: HTMLDocument(Lazy(tags.html(tags.body(a1)))),
    "lazy-body": lambda: HTMLDocument(Lazy(tags.body(a1, Lazy(div(a2))))),
    "lazy-div": lambda: HTMLDocument(Lazy(div(a1))),
    "lazy-taglist": lambda: HTMLDocument(Lazy(TagList(div(a1), a2))),
    "lazy-taglist-html": lambda: HTMLDocument(Lazy(TagList(tags.html(tags.body(a1))))),
    "lazy-str": lambda: HTMLDocument(Lazy("plain")),
    "html-inside-lazy-inside-html": lambda: HTMLDocument(tags.html(tags.body(Lazy(div(b1, b2))))),
    "custom-Tag-html": lambda: HTMLDocument(Tag("html", Tag("body", "z"), a1)),
    "custom-Tag-HTML-upper": lambda: HTMLDocument(Tag("HTML", Tag("body", "z"))),
    "custom-Tag-Body-mixed": lambda: HTMLDocument(Tag("Body", "z")),
    "subclass-html": lambda: HTMLDocument(Html2("html", Tag("body", "z"), a2), id="i"),
    "subclass-body": lambda: HTMLDocument(Html2("body", "z", a2), id="i"),
    "HTML-str-single": lambda: HTMLDocument(HTML("<html><body>raw</body></html>")),
    "head_content": lambda: HTMLDocument(div(head_content(tags.title("T")), head_content(tags.title("T")))),
    "none-and-lists": lambda: HTMLDocument(None, [tags.body("q")], None),
    "int-float": lambda: HTMLDocument(1, 2.5),
    "html-with-none-kwarg": lambda: HTMLDocument(tags.html(tags.body("x")), lang=None, hidden=True),
    "frag-with-none-kwarg": lambda: HTMLDocument("x", lang=None, hidden=True, off=False),
}

for name, mk in docs.items():
    show(name, lambda: tree(mk()))
    show(name + " /noprefix,nov", lambda: tree(mk(), lib_prefix=None, include_version=False))
    show(name + " /render", lambda: (lambda r: (r["html"], [(d.name, str(d.version)) for d in r["dependencies"]]))(mk().render(lib_prefix="L")))

# the stored content / user objects are not modified, and repeated generation is stable
h = tags.html(tags.body(div(a1)), lang="en")
doc = HTMLDocument(h, lang="de", x="1")
before = (str(h), dict(h.attrs), str(doc._content))
r1 = tree(doc); r2 = tree(doc)
print("repeat same", r1 == r2)
print("user html untouched", before == (str(h), dict(h.attrs), str(doc._content)), dict(h.attrs))
bd = tags.body(div(a2), id="b")
doc = HTMLDocument(bd, lang="de")
before = (str(bd), dict(bd.attrs))
r1 = tree(doc); r2 = tree(doc)
print("repeat same body", r1 == r2, before == (str(bd), dict(bd.attrs)))
doc.append(span("more"))
show("after-append (body no longer alone)", lambda: tree(doc))

# bad content
show("bad-child", lambda: tree(HTMLDocument(object())))
class BadTagify:
    def tagify(self):
        raise RuntimeError("boom")
show("tagify-raises", lambda: tree(HTMLDocument(BadTagify())))
show("bad-kwarg-html", lambda: tree(HTMLDocument(tags.html(), foo=object())))
show("bad-kwarg-frag", lambda: tree(HTMLDocument("x", foo=object())))
