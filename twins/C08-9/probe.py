"""Probe for refactoring 4: TagList.tagify (and Tag.tagify / render / HTMLDocument on top)."""
import copy

from htmltools import HTML, HTMLDependency, HTMLDocument, MetadataNode, Tag, TagList, div, span, tags
from htmltools._jsx import jsx_tag_create

LOG = []


def show(label, fn):
    try:
        res = fn()
        print(label, "=>", repr(res))
    except Exception as e:  # noqa: BLE001
        print(label, "=> EXC", type(e).__name__, str(e))


def dump(x, depth=0):
    pad = "  " * depth
    if isinstance(x, Tag):
        out = [f"{pad}{type(x).__name__}<{x.name}> ws={x.add_ws} attrs={dict(x.attrs)!r}"]
        out += [dump(c, depth + 1) for c in x.children]
        return "\n".join(out)
    if isinstance(x, TagList):
        out = [f"{pad}{type(x).__name__}[{len(x)}]"]
        out += [dump(c, depth + 1) for c in x]
        return "\n".join(out)
    if isinstance(x, HTMLDependency):
        return f"{pad}DEP {x.name} {x.version}"
    return f"{pad}{type(x).__name__}:{getattr(x, 'label', None) or str(x)!r}"


class T1:
    """Tagifiable returning a Tag."""

    def __init__(self, label):
        self.label = label

    def tagify(self):
        LOG.append(self.label)
        return span(self.label, class_="t1")


class TL:
    """Tagifiable returning a TagList of n items."""

    def __init__(self, label, n):
        self.label, self.n = label, n

    def tagify(self):
        LOG.append(self.label)
        return TagList(*[f"{self.label}{i}" for i in range(self.n)])


class TStr:
    def __init__(self, label):
        self.label = label

    def tagify(self):
        LOG.append(self.label)
        return "plain<" + self.label


class THtml:
    def tagify(self):
        LOG.append("thtml")
        return HTML("<raw/>")


class TMeta:
    def tagify(self):
        LOG.append("tmeta")
        return HTMLDependency("frommeta", "1.0", source={"subdir": "x"})


class TNested:
    """Returns a TagList holding numbers / nested lists in its data (bypassing normalisation)."""

    def tagify(self):
        LOG.append("tnested")
        tl = TagList("a")
        tl.data.extend([1, 2.5, ["n1", [None, "n2"]], None, TagList("n3")])
        return tl


class TBadList:
    def tagify(self):
        tl = TagList()
        tl.data.append(object())
        return tl


class TRaise:
    def tagify(self):
        LOG.append("traise")
        raise KeyError("from tagify")


class TUntagified:
    """tagify returns something still Tagifiable (not re-tagified by the parent)."""

    def tagify(self):
        LOG.append("tuntag")
        return T1("inner")


class StrWithTagify(str):
    def tagify(self):
        LOG.append("strsub:" + str(self))
        return tags.b(str(self))


class StrSub(str):
    pass


class StrMeta(str, MetadataNode):
    def __copy__(self):
        LOG.append("strmeta copy")
        return StrMeta(str(self))


class Meta(MetadataNode):
    def __init__(self, label):
        self.label = label

    def __copy__(self):
        LOG.append("copy " + self.label)
        return Meta(self.label + "'")


class MetaTagifiable(MetadataNode):
    label = "mt"

    def tagify(self):
        LOG.append("mt tagify")
        return Meta("from-mt")

    def __copy__(self):
        LOG.append("mt copy")
        return self


class Repr:
    label = "reprhtml"

    def _repr_html_(self):
        return "<em>r</em>"


class ReprAndTagify:
    def _repr_html_(self):
        return "<em>no</em>"

    def tagify(self):
        LOG.append("rt")
        return tags.i("rt")


dep = HTMLDependency("d", "1.0", source={"subdir": "x"}, script={"src": "d.js"})
Foo = jsx_tag_create("Foo")

cases = {
    "empty": lambda: TagList(),
    "one str": lambda: TagList("a"),
    "strs": lambda: TagList("a", "", "<b>", "c"),
    "html": lambda: TagList(HTML("<x>"), "y"),
    "tags": lambda: TagList(div("a"), span("b"), tags.br()),
    "nested tags": lambda: TagList(div(span(T1("deep")), "s", dep)),
    "dep": lambda: TagList(dep, "a", dep),
    "t1": lambda: TagList(T1("x")),
    "t1s": lambda: TagList("a", T1("x"), "b", T1("y"), "c"),
    "tl0": lambda: TagList("a", TL("e", 0), "b"),
    "tl0 only": lambda: TagList(TL("e", 0)),
    "tl0 ends": lambda: TagList(TL("e", 0), "mid", TL("f", 0)),
    "tl1": lambda: TagList("a", TL("p", 1), "b"),
    "tl3": lambda: TagList(TL("p", 3), "b", TL("q", 2)),
    "tl adjacent": lambda: TagList(TL("p", 2), TL("e", 0), TL("q", 3), TL("z", 0)),
    "tstr": lambda: TagList(TStr("s"), "lit"),
    "thtml": lambda: TagList(THtml()),
    "tmeta": lambda: TagList(TMeta(), "x"),
    "tnested": lambda: TagList("pre", TNested(), "post"),
    "tuntag": lambda: TagList(TUntagified()),
    "strsub tagify": lambda: TagList("a", StrWithTagify("sw"), "b"),
    "strsub": lambda: TagList(StrSub("ss"), "b"),
    "strmeta": lambda: TagList(StrMeta("sm"), "b"),
    "meta": lambda: TagList(Meta("m1"), "x", Meta("m2")),
    "meta tagifiable": lambda: TagList(MetaTagifiable(), "x"),
    "repr": lambda: TagList(Repr(), "x"),
    "repr+tagify": lambda: TagList(ReprAndTagify(), "x"),
    "jsx": lambda: TagList(Foo(div("k"), a=1), "x"),
    "mix": lambda: TagList("s", T1("a"), dep, TL("l", 2), Meta("m"), HTML("<h>"), div(TL("in", 2), Meta("im")), Repr(), 3, 4.5, None, ["li", [T1("nl")]]),
}

for name, mk in cases.items():
    print("=== case", name)
    tl = mk()
    before = dump(tl)
    ids_before = [id(c) for c in tl]
    LOG.clear()
    try:
        res = tl.tagify()
    except Exception as e:  # noqa: BLE001
        print("EXC", type(e).__name__, e)
        continue
    print("log:", LOG)
    print(dump(res))
    print("type:", type(res).__name__, "distinct obj:", res is not tl, "data distinct:", res.data is not tl.data)
    print("orig unchanged:", dump(tl) == before, [id(c) for c in tl] == ids_before)
    print("shared non-str children:", [type(a).__name__ for a in tl for b in res if a is b and not isinstance(a, (str, HTML)) and not isinstance(a, Repr)])
    LOG.clear()
    res2 = res.tagify()
    print("fixed point:", dump(res2) == dump(res), "eq:", res2 == res, "log2:", LOG)
    show("eq orig", lambda: res == tl)
    show("str", lambda: str(tl))
    show("render", lambda: tl.render())
    show("html of result", lambda: res.get_html_string())
    show("deps of result", lambda: res.get_dependencies())
    LOG.clear()
    show("div wrapper tagify", lambda: dump(div(mk(), id="w").tagify()))
    print("log:", LOG)
    show("document", lambda: HTMLDocument(mk()).render()["html"])

print("=== errors")
LOG.clear()
show("raise in middle", lambda: TagList(T1("first"), TRaise(), T1("last")).tagify())
print("log:", LOG)
show("bad list from tagify", lambda: TagList("a", TBadList()).tagify())
show("tag raise", lambda: div(TRaise()).tagify())

print("=== subclass of TagList")


class MyList(TagList):
    def __getitem__(self, i):
        LOG.append(("get", i if not isinstance(i, slice) else (i.start, i.stop)))
        return super().__getitem__(i)

    def __setitem__(self, i, v):
        LOG.append(("set", i if not isinstance(i, slice) else (i.start, i.stop)))
        super().__setitem__(i, v)


LOG.clear()
ml = MyList("a", T1("t"), TL("l", 2), Meta("m"), "z", TL("e", 0))
r = ml.tagify()
print(type(r).__name__, dump(r))
print("log:", LOG)

print("=== independence")
orig = TagList(div("a", dep, id="x"), dep, "s", Meta("mm"))
tg = orig.tagify()
s_orig = dump(orig)
tg[0].append("new")
tg[0].attrs["id"] = "changed"
tg.append("tail")
tg[1].script.append({"src": "zzz"}) if False else None
print("orig unchanged:", dump(orig) == s_orig)
print(dump(tg))
s_tg = dump(tg)
orig[0].append("onorig")
orig.insert(0, "head")
print("tagified unchanged:", dump(tg) == s_tg)
show("copy.copy eq", lambda: copy.copy(orig) == orig)
