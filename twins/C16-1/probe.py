"""Probe for refactoring 1: css() property-name normalisation."""
from htmltools import HTML, css, div, span


def show(label, fn):
    try:
        out = fn()
        print(label, "->", type(out).__name__, repr(out))
    except BaseException as e:  # noqa: BLE001
        print(label, "-> EXC", type(e).__name__, str(e))


class Loud:
    def __init__(self, log, name):
        self.log = log
        self.name = name

    def __str__(self):
        self.log.append(self.name)
        return "S" + self.name


class Boom:
    def __str__(self):
        raise RuntimeError("boom")


NAMES = [
    "a",
    "font_size",
    "fontSize",
    "FontSize",
    "font__size",
    "_font",
    "font_",
    "_",
    "__",
    "A",
    "ABC",
    "aBC_dE",
    "background_Color",
    "WebkitTransition",
    "webkit_transition_",
    "x1Y2",
    "caféSize",
    "École",
    "İx",
    "straßeA",
    "a-b",
    "a b",
    "a:b;c",
    "",
    "--custom_Var",
    "Ａbc",
    "a\nB",
    "\\1",
    "a\\B",
]

for nm in NAMES:
    show("name %r" % nm, lambda nm=nm: css(**{nm: "v"}))
    show("name+sep %r" % nm, lambda nm=nm: css("\n", **{nm: 1}))

show("empty", lambda: css())
show("all none", lambda: css(a=None, b_c=None))
show("some none", lambda: css(a=None, b_c=2, dE=None, fG="x"))
show("order", lambda: css(zIndex=1, a_b="2", Mm=3.5, z_index=4))
show("collide", lambda: css(font_size="1px", fontSize="2px"))
show("list", lambda: css(margin=["1px", "2px"], paddingTop=[]))
show("list bad", lambda: css(margin=[1, 2]))
show("bool", lambda: css(a_b=True, cD=False))
show("float", lambda: css(lineHeight=1.50, x_y=-0.0, q=1e100))
show("tuple", lambda: css(margin_left=("1px", "2px")))
show("empty value", lambda: css(a_b=""))
show("html value", lambda: css(a_b=HTML("<b>")))
show("collapse None", lambda: css(None, a=1))
show("collapse int", lambda: css(1, a=1))
show("collapse None no kwargs", lambda: css(None))
show("collapse space", lambda: css(" ", aB=1, c_d=2))
show("collapse kw", lambda: css(collapse_="|", aB=1, c_d=2))
show("boom", lambda: css(aB=1, c_d=Boom(), e=2))

log = []
show("side effects", lambda: css(aB=Loud(log, "1"), c_d=None, eF=Loud(log, "2")))
print("log", log)

# css() output is accepted by add_style
for kw in [dict(font_size="12px"), dict(backgroundColor="red", margin_top=0), dict(A=1)]:
    t = div()
    r = t.add_style(css(**kw))
    print(r is t, repr(t.attrs), str(t))
    r = t.add_style(css(**kw), prepend=True)
    print(r is t, repr(t.attrs))
t = span(style="x:y;")
show("none style", lambda: t.add_style(css(a=None)))
print(repr(t.attrs))
show("sep style", lambda: t.add_style(css("\n", a=1)))
print(repr(t.attrs))
