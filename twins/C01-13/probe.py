import os
import tempfile

from htmltools import (
    HTML,
    HTMLDependency,
    HTMLDocument,
    HTMLTextDocument,
    Tag,
    TagList,
    div,
    head_content,
    span,
    tags,
)


def show(label, fn):
    try:
        print(label, "->", repr(fn()))
    except BaseException as e:  # noqa
        print(label, "-> EXC", type(e).__name__, str(e))


LOG = []


class LoggingHead(Tag):
    def __init__(self, *a, **k):
        super().__init__("head", *a, **k)

    def append(self, *args):
        LOG.append(("append", [type(a).__name__ for a in args]))
        super().append(*args)

    def extend(self, x):
        x = list(x)
        LOG.append(("extend", [type(a).__name__ for a in x]))
        super().extend(x)

    def insert(self, index, x):
        LOG.append(("insert", index, type(x).__name__))
        super().insert(index, x)


def deps():
    a = HTMLDependency(
        "a-lib",
        "1.2.3",
        source={"href": "https://cdn.example/a b"},
        script=[{"src": "a.js"}, {"src": "x y/b.js", "defer": ""}],
        stylesheet={"href": "a&b.css", "media": "print"},
        meta={"name": "viewport", "content": "width=<device>"},
        head=tags.title("T & <t>"),
    )
    b = HTMLDependency("b", "0.1", head="<link rel='x' href=\"y\">")
    a2 = HTMLDependency("a-lib", "1.10", source={"href": "/abs"}, script={"src": "new.js"})
    c = HTMLDependency("c", "2", source={"subdir": "."}, script={"src": "c.js"})
    return a, b, a2, c


a, b, a2, c = deps()
hc = head_content(tags.meta(name="k", content="v"), "text<in>head")

contents = {
    "empty": [],
    "text": ["just <text> & stuff"],
    "no-deps": [div("x", span("y"))],
    "one-dep": [div("x", a)],
    "dups": [div(a, span(b, a2)), a, c],
    "head_content": [div(hc, hc), hc],
    "html": [tags.html(tags.head(tags.title("t")), tags.body("b", a))],
    "html-nohead": [tags.html(tags.body(div("b", b)))],
    "html-head-late": [tags.html(a, tags.body("b"), tags.head(tags.title("late")), "tail")],
    "html-two-heads": [tags.html(tags.head("h1"), tags.head("h2"), b)],
    "html-nested-head": [tags.html(div(tags.head("inner")), c)],
    "html-logging": [tags.html(LoggingHead(tags.title("L")), tags.body(a, b))],
    "html-logging-nodeps": [tags.html(LoggingHead(), tags.body("z"))],
    "body": [tags.body(div("in body", a), class_="bd")],
    "taglist": [TagList("a", div("b", b), c)],
    "html-upper": [Tag("HTML", Tag("head"), "x")],
}

for label, content in contents.items():
    for kw in ({}, {"lib_prefix": None}, {"lib_prefix": "my/lib", "include_version": False}):
        del LOG[:]
        doc = HTMLDocument(*content, lang="en", data_x="<&>")
        show(f"doc|{label}|{kw}|html", lambda: doc.render(**kw)["html"])
        show(f"doc|{label}|{kw}|deps", lambda: doc.render(**kw)["dependencies"])
        show(f"doc|{label}|{kw}|log", lambda: list(LOG))
        show(f"doc|{label}|{kw}|orig", lambda: str(TagList(*content)))

# _hoist_head_content directly
show("hoist non-html", lambda: HTMLDocument._hoist_head_content(div("x"), "lib", True))
h = tags.html(tags.body(a))
show("hoist direct", lambda: str(HTMLDocument._hoist_head_content(h, None, False)))
show("hoist orig untouched", lambda: str(h))
h2 = tags.html(tags.head("keep"), b)
show("hoist head untouched", lambda: (str(HTMLDocument._hoist_head_content(h2, "p", True)), str(h2)))
show("hoist metadata first", lambda: str(HTMLDocument._hoist_head_content(tags.html(a, tags.head()), "l", True)))

# bad dependency fields
bad = HTMLDependency("ok", "1.0")
bad.name = 5
show("bad name doc", lambda: HTMLDocument(div(bad)).render()["html"])
show("bad name textdoc", lambda: HTMLTextDocument("<html>@@</html>", [bad], "@@").render()["html"])
bad2 = HTMLDependency("ok", "1.0", source={"package": "no_such_pkg_xyz", "subdir": "s"}, script={"src": "s.js"})
show("bad pkg doc", lambda: HTMLDocument(div(bad2)).render()["html"])
show("bad pkg textdoc", lambda: HTMLTextDocument("<html>@@</html>", [bad2], "@@").render()["html"])

# save_html
with tempfile.TemporaryDirectory() as d:
    os.makedirs(os.path.join(d, "src"))
    with open(os.path.join(d, "src", "f.js"), "w") as f:
        f.write("1")
    fd = HTMLDependency("fdep", "3.0", source={"subdir": os.path.join(d, "src")}, script={"src": "f.js"})
    out = os.path.join(d, "out", "index.html")
    os.makedirs(os.path.dirname(out))
    for libdir, iv in (("lib", True), (None, True), ("deep/er", False)):
        show(f"save {libdir} {iv}", lambda: os.path.relpath(HTMLDocument(div("s", fd, a)).save_html(out, libdir, iv), d))
        show(f"save {libdir} {iv} content", lambda: open(out).read())
        listing = []
        for root, _dirs, files in sorted(os.walk(os.path.join(d, "out"))):
            for fn in sorted(files):
                listing.append(os.path.relpath(os.path.join(root, fn), d))
        show(f"save {libdir} {iv} files", lambda: sorted(listing))
    show("tag save", lambda: os.path.relpath(div("s", fd).save_html(out, libdir="L2"), d))
    show("tag save content", lambda: open(out).read())
    show("taglist save", lambda: os.path.relpath(TagList("s", fd).save_html(out, include_version=False), d))
    show("taglist save content", lambda: open(out).read())

# HTMLTextDocument
TEMPLATE = "<html><head><!-- deps --></head><body><!-- deps --></body></html>"
for label, dl in {"none": None, "empty": [], "one": [a], "many": [a, b, a2, c], "hc": [hc]}.items():
    for kw in ({}, {"lib_prefix": None}, {"lib_prefix": "w", "include_version": False}):
        show(
            f"textdoc|{label}|{kw}",
            lambda: HTMLTextDocument(TEMPLATE, list(dl) if dl is not None else None, "<!-- deps -->" if dl is not None else None).render(**kw),
        )
show("textdoc no pattern", lambda: HTMLTextDocument(TEMPLATE, [a], None))
show("textdoc none none render", lambda: HTMLTextDocument(TEMPLATE).render())
show("textdoc pattern absent", lambda: HTMLTextDocument(TEMPLATE, [b], "@@nope@@").render()["html"])

ser = str(a.serialize_to_script_json()) + str(b.serialize_to_script_json(indent=2)) + str(a.serialize_to_script_json())
show("textdoc serialized", lambda: HTMLTextDocument("<html><head>@@</head><body>" + ser + "</body></html>", [c], "@@").render())
show("textdoc serialized nodeps", lambda: HTMLTextDocument("<html>" + ser + "</html>").render())
show("textdoc deepcopy", lambda: (lambda t: t.render()["dependencies"][0] is t._deps[0])(HTMLTextDocument("x@@", [a], "@@")))
