"""Probe for refactoring 1: htmltools.css()."""
from htmltools import HTML, css, div, tags


def show(label, fn):
    try:
        out = fn()
        print(label, "->", type(out).__name__, repr(out))
    except Exception as e:  # noqa: BLE001
        print(label, "-> EXC", type(e).__name__, str(e))


class Weird:
    def __str__(self):
        return "weird;value"


class Boom:
    def __str__(self):
        raise RuntimeError("boom")


show("empty", lambda: css())
show("all none", lambda: css(a=None, b=None))
show("basic", lambda: css(font_size="12px", backgroundColor="red"))
show("order", lambda: css(z=1, a=2, m=3))
show("none in middle", lambda: css(a=1, b=None, c=3))
show("float", lambda: css(line_height=1.5, zIndex=0))
show("bool", lambda: css(a=True, b=False))
show("empty value", lambda: css(a=""))
show("list value", lambda: css(margin=["1px", "2px", "3px"]))
show("empty list value", lambda: css(margin=[]))
show("tuple value", lambda: css(margin=("1px", "2px")))
show("bad list", lambda: css(margin=[1, 2]))
show("weird", lambda: css(a=Weird()))
show("boom", lambda: css(a=1, b=Boom()))
show("html value", lambda: css(a=HTML("<b>")))
show("collapse nl", lambda: css("\n", a=1, b=2))
show("collapse kw", lambda: css(collapse_=" ", a=1, b=None, c=2))
show("collapse none", lambda: css(None, a=1))
show("collapse none empty", lambda: css(None))
show("collapse int", lambda: css(1, a=1))
show("collapse html", lambda: css(HTML(" "), a=1))
show("collapse only", lambda: css("xx"))
show("collapse with none only", lambda: css("xx", a=None))

names = [
    "a", "A", "aB", "AB", "ABc", "a_b", "a__b", "_a", "a_", "_", "__", "A_B", "aB_cD",
    "webkitTransition", "WebkitTransition", "a1B2", "a-b", "a b", "a:b", "é", "É", "aÉb",
    "ǅ", "İ", "ß", "ẞ", "", "x" * 3 + "Y" * 3, "Σ", "aΣ", "background_Color", "_A", "A_",
    "K", "a\nB",
]
for n in names:
    show("name %r" % n, lambda n=n: css(**{n: "v"}))
    show("name2 %r" % n, lambda n=n: css("|", **{n: "v", "other": 1}))

# css output with default separator accepted by add_style
for kw in [dict(a=1), dict(fontSize="1px", b=None, c_d="x"), dict(a="")]:
    s = css(**kw)
    show("add_style %r" % kw, lambda s=s: str(div().add_style(s)))
    show("add_style prepend %r" % kw, lambda s=s: str(div(style="x:y;").add_style(s, prepend=True)))
show("style attr", lambda: str(tags.span(style=css(color="red", marginTop="1px"))))
show("style attr none", lambda: str(tags.span(style=css())))
