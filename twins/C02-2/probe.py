# Probe for refactoring 2: Tag.get_html_string (single text child fast path) and _normalize_text
from htmltools import HTML, HTMLDependency, Tag, TagList, div, head_content, span, tags
from htmltools import _core


class S(str):
    pass


class Repr:
    def _repr_html_(self):
        return "<repr&>"


def show(label, fn):
    try:
        r = fn()
        print(label, "->", type(r).__name__, repr(r))
    except Exception as e:  # noqa: BLE001
        print(label, "-> EXC", type(e).__name__)


TEXTS = [
    "",
    "plain",
    "a & b < c > d",
    "<script>alert(1)</script>",
    "</div><!-- x --><!DOCTYPE html>&lt;&#60;",
    "\"q\" 'a'\nnl\r",
    "é中 <é>",
    S("sub<class>"),
]
dep = HTMLDependency("d", "1.0", source={"subdir": "."}, script={"src": "x.js"})

# _normalize_text directly
for t in TEXTS:
    show(f"norm({t!r})", lambda t=t: _core._normalize_text(t))
    show(f"norm(HTML({t!r}))", lambda t=t: _core._normalize_text(HTML(t)))
for bad in [None, 3, 2.5, b"<", ["<"], Repr()]:
    show(f"norm bad {type(bad).__name__}", lambda bad=bad: _core._normalize_text(bad))

NAMES = ["div", "span", "p", "script", "style", "br", "img", "input", "title", "textarea", "x-y", "SCRIPT"]
for name in NAMES:
    show(f"{name} empty", lambda: Tag(name).get_html_string())
    show(f"{name} empty attrs", lambda: Tag(name, id="a<b", title=HTML("<&>")).get_html_string())
    show(f"{name} only dep", lambda: Tag(name, dep).get_html_string())
    show(f"{name} None child", lambda: Tag(name, None, []).get_html_string())
    for t in TEXTS:
        show(f"{name} one {t!r}", lambda: Tag(name, t).get_html_string())
        show(f"{name} one HTML {t!r}", lambda: Tag(name, HTML(t)).get_html_string())
        show(f"{name} one+dep {t!r}", lambda: Tag(name, dep, t, dep).get_html_string(2, "\r\n"))
        show(f"{name} two {t!r}", lambda: Tag(name, t, t).get_html_string())
        show(f"{name} mix {t!r}", lambda: Tag(name, t, HTML(t), span(t)).get_html_string(1))
        show(f"{name} nows {t!r}", lambda: Tag(name, t, span(t), _add_ws=False).get_html_string(3, "|"))
        show(f"{name} nested {t!r}", lambda: str(div(Tag(name, [t, [(t,)]]), Tag(name, t))))
    show(f"{name} one num", lambda: Tag(name, 5).get_html_string())
    show(f"{name} one float", lambda: Tag(name, -1.5e300).get_html_string())
    show(f"{name} one bool", lambda: Tag(name, True).get_html_string())
    show(f"{name} one repr", lambda: Tag(name, Repr()).get_html_string())
    show(f"{name} one tag", lambda: Tag(name, span("<")).get_html_string())
    show(f"{name} one taglist", lambda: Tag(name, TagList("<")).get_html_string())

# children mutated after construction / bypassing normalization
def later():
    d = div()
    d.append("<a>")
    out = [str(d)]
    d.extend(["&", 3])
    out.append(str(d))
    d.insert(0, HTML("<hr>"))
    out.append(str(d))
    return out

show("later", later)

def raw_child(obj, name="div"):
    t = Tag(name)
    t.children.data.append(obj)  # bypass _tagchilds_to_tagnodes
    return t.get_html_string()

for obj in [None, 7, b"x", ["<"], object()]:
    show(f"raw {type(obj).__name__}", lambda obj=obj: raw_child(obj))
    show(f"raw script {type(obj).__name__}", lambda obj=obj: raw_child(obj, "script"))

# odd indent / eol arguments and tag names
show("indent neg", lambda: div("<").get_html_string(-2))
show("indent None", lambda: div("<").get_html_string(None))
show("eol None one", lambda: div("<").get_html_string(0, None))
show("eol None two", lambda: div("<", "<").get_html_string(0, None))
show("name int", lambda: Tag(5, "<").get_html_string())
show("name None", lambda: Tag(None).get_html_string())
show("head_content", lambda: str(tags.head(head_content("<x>"), "<t>")))
show("render", lambda: div("<&>", dep).render()["html"])
