"""Probe for htmltools rendering (Tag.get_html_string / TagList.get_html_string).

Prints repr of outputs / exception type names deterministically.
"""
import itertools

from htmltools import HTML, HTMLDependency, Tag, TagList, div, span, tags, a, p, head_content
from htmltools._core import MetadataNode

LOG = []


def show(label, fn):
    del LOG[:]
    try:
        res = fn()
        print(label, "->", type(res).__name__, repr(res), "| log:", LOG)
    except BaseException as e:  # noqa: BLE001
        print(label, "-> EXC", type(e).__name__, str(e)[:80], "| log:", LOG)


class Repr:
    def __init__(self, s, ret=None):
        self.s = s
        self.ret = s if ret is None else ret

    def _repr_html_(self):
        LOG.append("repr:" + str(self.s))
        return self.ret


class ReprRaises:
    def _repr_html_(self):
        LOG.append("repr-raise")
        raise KeyError("boom")


class OnlyTagifiable:
    def tagify(self):
        LOG.append("tagify")
        return span("tagified")


class ReprAndTagifiable:
    def tagify(self):
        LOG.append("tagify2")
        return self

    def _repr_html_(self):
        LOG.append("repr2")
        return "<i>both</i>"


class RStr(str):
    def __radd__(self, other):
        LOG.append("radd")
        return "[" + str(other) + "|" + str.__str__(self) + "]"


class LoudTag(Tag):
    def get_html_string(self, indent=0, eol="\n"):
        LOG.append("loud(%r,%r)" % (indent, eol))
        return super().get_html_string(indent, eol)


class Idx:
    def __init__(self, n):
        self.n = n

    def __index__(self):
        LOG.append("index")
        return self.n


dep = HTMLDependency("dep", "1.0", source={"subdir": "."}, script={"src": "x.js"})

# ---------------------------------------------------------------- leaf nodes
LEAVES = {
    "str": "a<b&c",
    "empty": "",
    "html": HTML("<em>&</em>"),
    "repr": Repr("<u>r</u>"),
    "span": span("s"),
    "span_empty": span(),
    "span2": span("x", tags.b("y"), "z"),
    "a_attr": a("l", href="u?a=1&b=2", title=HTML("&quot;")),
    "div": div("d"),
    "div_empty": div(),
    "div_nested": div(span("i"), div("j", span("k")), "t"),
    "br": tags.br(),
    "img": tags.img(src="a b"),
    "dep": dep,
    "div_nows": div("q", span("r"), _add_ws=False),
    "span_ws": span("m", span("n"), _add_ws=True),
    "loud": LoudTag("em", "L", tags.i("M"), _add_ws=False),
    "loud_ws": LoudTag("section", "L", tags.i("M")),
}

print("== singles / pairs / triples in TagList, span, div")
names = list(LEAVES)
for n in names:
    show("TL1 " + n, lambda: TagList(LEAVES[n]).get_html_string())
for x, y in itertools.product(names, names):
    show("TL2 %s,%s" % (x, y), lambda: TagList(LEAVES[x], LEAVES[y]).get_html_string())
    show("SP2 %s,%s" % (x, y), lambda: span(LEAVES[x], LEAVES[y]).get_html_string())
    show("DV2 %s,%s" % (x, y), lambda: div(LEAVES[x], LEAVES[y]).get_html_string())
small = ["str", "html", "repr", "span", "div", "dep", "br", "div_nows", "loud"]
for x, y, z in itertools.product(small, small, small):
    show(
        "TL3 %s,%s,%s" % (x, y, z),
        lambda: TagList(LEAVES[x], LEAVES[y], LEAVES[z]).get_html_string(2, "\r\n"),
    )
    show(
        "DVSP3 %s,%s,%s" % (x, y, z),
        lambda: div(span(LEAVES[x], LEAVES[y], LEAVES[z]), LEAVES[z]).get_html_string(1),
    )

print("== TagList.get_html_string parameters")
tl = TagList("t<", span("a", tags.b("b")), Repr("R"), div("c", span("d")), HTML("<h>"), dep, "end")
for indent in (0, 1, 3, -1, True):
    for eol in ("\n", "", "\r\n", "~"):
        for add_ws in (True, False):
            for esc in (True, False):
                show(
                    "TLP %r %r %r %r" % (indent, eol, add_ws, esc),
                    lambda: tl.get_html_string(indent, eol, add_ws=add_ws, _escape_strings=esc),
                )
show("TL empty", lambda: TagList().get_html_string())
show("TL only dep", lambda: TagList(dep, dep).get_html_string(3, "X", add_ws=True))
show("TL dep first", lambda: TagList(dep, "a", dep, span("b"), dep, div("c"), dep).get_html_string(1))
show("TL kw", lambda: tl.get_html_string(indent=2, eol="|"))
show("TL truthy add_ws", lambda: tl.get_html_string(1, "\n", add_ws=1, _escape_strings=0))
show("TL truthy add_ws2", lambda: tl.get_html_string(1, "\n", add_ws=0, _escape_strings="y"))

print("== Tag.get_html_string parameters")
tg = div("t<", span("a", tags.b("b")), Repr("R"), div("c", span("d")), HTML("<h>"), dep, "end", id="x", cls=HTML("<&>"))
for indent in (0, 1, 3, -1, True):
    for eol in ("\n", "", "\r\n", "~"):
        show("TGP %r %r" % (indent, eol), lambda: tg.get_html_string(indent, eol))
        show("TGPk %r %r" % (indent, eol), lambda: span(tg, "u").get_html_string(indent=indent, eol=eol))

print("== attributes")
show("attrs esc", lambda: span("x", title="a\"b'c<d>&e\r\nf", data_x=HTML("\"raw\"&<>"), class_="k").get_html_string())
show("attrs empty val", lambda: span(hidden="", id=None, x=True, y=False, n=3, f=1.5).get_html_string(2))
show("attrs void", lambda: tags.input(type="text", value="a&b").get_html_string(2))
show("attrs void dep", lambda: tags.input(dep, type="text").get_html_string(2))
show("attrs none", lambda: tags.hr().get_html_string(1))
t_bad = span("x")
dict.__setitem__(t_bad.attrs, "bad", 5)
show("attr int val", lambda: t_bad.get_html_string())
t_bad2 = div(span("x"), "y")
dict.__setitem__(t_bad2.attrs, "ok", "1")
dict.__setitem__(t_bad2.attrs, "bad", None)
show("attr None val", lambda: t_bad2.get_html_string())
t_k = span("x")
dict.__setitem__(t_k.attrs, 7, "seven")
dict.__setitem__(t_k.attrs, "h", HTML("<&\">"))
show("attr int key", lambda: t_k.get_html_string(1, "~"))

print("== empty / void / single text")
for nm in ("br", "img", "input", "hr", "meta", "link", "div", "span", "script", "style", "p", "custom-el"):
    show("E0 " + nm, lambda: Tag(nm).get_html_string(1))
    show("E0d " + nm, lambda: Tag(nm, dep).get_html_string(1))
    show("E1s " + nm, lambda: Tag(nm, "<a&b>").get_html_string(1))
    show("E1e " + nm, lambda: Tag(nm, "").get_html_string(1))
    show("E1h " + nm, lambda: Tag(nm, HTML("<a&b>")).get_html_string(1))
    show("E1hd " + nm, lambda: Tag(nm, dep, HTML("<a&b>"), dep).get_html_string(1))
    show("E1r " + nm, lambda: Tag(nm, Repr("<a&b>")).get_html_string(1))
    show("E1t " + nm, lambda: Tag(nm, span("q")).get_html_string(1))
    show("E2 " + nm, lambda: Tag(nm, "<a", HTML("&b>"), "c>").get_html_string(1))
    show("E2n " + nm, lambda: Tag(nm, "<a", HTML("&b>"), "c>", _add_ws=False).get_html_string(1))
    show("E1rs " + nm, lambda: Tag(nm, RStr("<r>")).get_html_string(1))
    show("E2rs " + nm, lambda: Tag(nm, "a<", RStr("<r>"), span("z"), "k", _add_ws=False).get_html_string(1))

print("== script/style quirks (no-escape, HTML radd)")
show("script multi", lambda: tags.script("a<b", HTML("c<d"), "e<f").get_html_string())
show("script multi tag", lambda: tags.script("a<b", span("x<"), "e<f").get_html_string())
show("style multi nows", lambda: tags.style("a<b", "c>d", Repr("<R>"), _add_ws=False).get_html_string(2))
show("script in span", lambda: span(tags.script("1<2", "3>4", _add_ws=False), "t").get_html_string())
show("TL noesc rstr", lambda: TagList("a<", RStr("<r>"), "b>", span("s"), RStr("q")).get_html_string(1, "\n", _escape_strings=False))
show("TL esc rstr", lambda: TagList("a<", RStr("<r>"), "b>").get_html_string(1, "\n"))
show("TL rstr first", lambda: TagList(RStr("<r>"), "b>").get_html_string(1, "\n", _escape_strings=False))
show("TL rstr first nows", lambda: TagList(RStr("<r>"), RStr("b>")).get_html_string(1, "\n", add_ws=False, _escape_strings=False))

print("== odd eol / indent / name types")
show("eol HTML", lambda: div(span("a"), div("b"), "c").get_html_string(1, HTML("<br>")))
show("eol HTML TL", lambda: TagList(span("a"), div("b"), "c<", Repr("r")).get_html_string(1, HTML("<br>")))
show("eol RStr TL", lambda: TagList(span("a"), div("b"), "c<", Repr("r")).get_html_string(1, RStr("<e>")))
show("eol None inline", lambda: span(span("a"), "b").get_html_string(0, None))
show("eol None block", lambda: div(span("a"), "b").get_html_string(0, None))
show("eol None TL one", lambda: TagList(Repr("r")).get_html_string(0, None))
show("eol None TL one tag", lambda: TagList(span("r", tags.i("s"))).get_html_string(0, None))
show("eol None TL two", lambda: TagList(Repr("r1"), Repr("r2")).get_html_string(0, None))
show("eol None TL two nows", lambda: TagList(Repr("r1"), Repr("r2"), span("q"), "s").get_html_string(0, None, add_ws=False))
show("eol int TL", lambda: TagList(Repr("r1"), div("d")).get_html_string(0, 5, add_ws=False))
show("indent str", lambda: div(span("a")).get_html_string("x"))
show("indent float", lambda: div(span("a")).get_html_string(1.5))
show("indent None TL empty", lambda: TagList().get_html_string(None))
show("indent None TL dep", lambda: TagList(dep).get_html_string(None))
show("indent None TL inline tags", lambda: TagList(span("a"), span("b")).get_html_string(None, "\n", add_ws=False))
show("indent None TL tags ws", lambda: TagList(span("a"), span("b")).get_html_string(None, "\n"))
show("indent None TL repr", lambda: TagList(Repr("r1")).get_html_string(None))
show("indent None TL repr nows", lambda: TagList(Repr("r1"), "s").get_html_string(None, add_ws=False))
show("indent None TL tag then repr", lambda: TagList(span("x"), Repr("r1"), div("y"), Repr("r2")).get_html_string(None, add_ws=False))
show("indent None TL str", lambda: TagList("s").get_html_string(None))
show("indent None TL untagified", lambda: TagList(OnlyTagifiable()).get_html_string(None))
show("indent Idx tag", lambda: div(span("a"), "b").get_html_string(Idx(2)))
show("indent Idx TL", lambda: TagList("a", Repr("r"), div("b"), "c").get_html_string(Idx(2)))
show("indent Idx TL inline", lambda: TagList(span("a"), span("b")).get_html_string(Idx(2), add_ws=False))
show("name HTML", lambda: Tag(HTML("b"), "x", span("y")).get_html_string(1))
show("name HTML attrs", lambda: Tag(HTML("b"), "x", span("y"), id="<i>", k="v").get_html_string(1))
show("name HTML empty", lambda: Tag(HTML("b")).get_html_string(1))
show("name HTML one", lambda: Tag(HTML("b"), "<x>", id="<i>").get_html_string(1))
show("name int", lambda: Tag(5, "x").get_html_string())
show("name list", lambda: Tag([], "x").get_html_string())
show("name RStr", lambda: Tag(RStr("nm"), "<x>", span("y"), id="i").get_html_string(1))
show("name RStr empty", lambda: Tag(RStr("nm"), id="i", k="v").get_html_string(1))
show("name RStr one", lambda: Tag(RStr("nm"), "<x>", id="i").get_html_string(1))
show("name RStr void?", lambda: Tag(RStr("br"), id="i").get_html_string(1))

print("== order of side effects")
show("repr order", lambda: div(Repr("1"), span(Repr("2"), Repr("3")), Repr("4"), div(Repr("5"))).get_html_string())
show("repr raises", lambda: div(Repr("1"), ReprRaises(), Repr("3")).get_html_string())
show("repr raises TL", lambda: TagList(Repr("1"), span(ReprRaises()), Repr("3")).get_html_string())
show("repr non-str", lambda: TagList(Repr("1"), Repr("2", ret=5), Repr("3")).get_html_string())
show("repr non-str first", lambda: TagList(Repr("2", ret=None and 0 or 7), Repr("3")).get_html_string(add_ws=False))
show("repr HTML ret", lambda: TagList("a<", Repr("2", ret=HTML("<h>")), "b<", span("c")).get_html_string())
show("repr RStr ret", lambda: TagList("a<", Repr("2", ret=RStr("<h>")), "b<").get_html_string())
show("repr list ret first", lambda: TagList(Repr("2", ret=[1]), "b<").get_html_string(add_ws=False))
show("untagified", lambda: div(Repr("1"), OnlyTagifiable(), Repr("3")).get_html_string())
show("untagified TL", lambda: TagList(Repr("1"), OnlyTagifiable(), Repr("3")).get_html_string(None))
show("untagified first", lambda: TagList(OnlyTagifiable()).get_html_string())
show("both protocols", lambda: TagList("x", ReprAndTagifiable(), "y").get_html_string())
show("both protocols div", lambda: div(ReprAndTagifiable()).get_html_string())
show("render tagifies", lambda: div(Repr("1"), OnlyTagifiable(), Repr("3")).render()["html"])
show("render TL", lambda: TagList(Repr("1"), OnlyTagifiable(), div(OnlyTagifiable())).render()["html"])
show("str()", lambda: str(div(span("a"), OnlyTagifiable(), "b")))
show("loud in inline", lambda: span(LoudTag("b", "x", tags.i("y")), LoudTag("div", "z", tags.i("w"))).get_html_string(2, "~"))
show("loud in block", lambda: div(LoudTag("b", "x", tags.i("y"), _add_ws=False), "s", LoudTag("div", "z", tags.i("w"))).get_html_string(2, "~"))


class Mutator:
    """Appends to the list being rendered while it is rendered."""

    def __init__(self, target, what):
        self.target = target
        self.what = what
        self.done = False

    def _repr_html_(self):
        LOG.append("mut")
        if not self.done:
            self.done = True
            self.target.append(self.what)
            self.target.insert(0, "ins")
        return "<m/>"


def mut_case(what):
    tl2 = TagList("a", span("b"))
    tl2.append(Mutator(tl2, what))
    tl2.append(div("c"))
    return tl2.get_html_string()


show("mutate str", lambda: mut_case("late"))
show("mutate dep", lambda: mut_case(dep))
show("mutate div", lambda: mut_case(div("late")))


class Toggler:
    """Flips the add_ws flag of a tag while it is rendered."""

    def __init__(self):
        self.tag = None

    def _repr_html_(self):
        LOG.append("toggle")
        self.tag.add_ws = not self.tag.add_ws
        return "<t/>"


def toggle_case_tl(ws):
    tg2 = Toggler()
    inner = Tag("section", "a", tg2, span("b"), "c", _add_ws=ws)
    tg2.tag = inner
    return TagList("pre", inner, "post", inner, span("z")).get_html_string(1)


def toggle_case(ws, outer):
    tg2 = Toggler()
    inner = Tag("section", "a", tg2, span("b"), "c", _add_ws=ws)
    tg2.tag = inner
    return outer("pre", inner, "post", inner, span("z")).get_html_string(1)


for ws in (True, False):
    for outer in (div, span, TagList):
        if outer is TagList:
            show("toggle %r TL" % ws, lambda: toggle_case_tl(ws))
        else:
            show("toggle %r %s" % (ws, outer.__name__), lambda: toggle_case(ws, outer))
