# Deterministic probe for css() key normalisation; stdout must be identical with/without patch.
import itertools
from htmltools import css, tags

ALPHA = ["a", "B", "_", "1", "Z", "z", "é", "É", "Σ", "İ", "ǅ", "-"]
names = [""]
for n in range(1, 4):
    for t in itertools.product(ALPHA, repeat=n):
        names.append("".join(t))
# length-4/5 over the core ASCII alphabet
for n in (4, 5):
    for t in itertools.product(["a", "B", "_", "1"], repeat=n):
        names.append("".join(t))
names += ["font_size", "backgroundColor", "WebkitTransition", "MozBoxSizing", "border_TopWidth",
          "__x__", "ABC", "aBC_dEF", "x1Y2_z3", "_A", "A_", "a__b", "msTransform", "ΣΣ", "aΣ", "AΣ_", "_Σ"]

def show(*a, **k):
    try:
        r = css(*a, **k)
    except Exception as e:  # noqa
        r = "EXC %s: %s" % (type(e).__name__, e)
    return ascii(r)

for nm in names:
    print(ascii(nm), show(**{nm: "v"}))

VALUES = ["x", "", 1, 1.5, 0, None, ["a", "b"], [], ["only"], True, "a;b", " sp "]
for nm in ["fontSize", "font_size", "Font_Size", "x", "_", "A1_b"]:
    for v in VALUES:
        for c in ["", "\n", " ", "--"]:
            print(ascii(nm), ascii(v), ascii(c), show(c, **{nm: v}))

# multi-kwarg ordering, None skipping, colliding normalised names
for combo in itertools.permutations(["fontSize", "font_size", "color", "Color", "_color"], 3):
    for vals in itertools.product(["1", None, ["p", "q"]], repeat=3):
        print(combo, ascii(vals), show(**dict(zip(combo, vals))), show("\n", **dict(zip(combo, vals))))

print(show(), show(""), show("\n"), show(a=None), show(a=None, bC=None))
for bad in [None, 1, 1.5, b"", [], True]:
    print(ascii(bad), show(bad, a="1"), show(bad))
print(show(collapse_="|", aB="1", c_d="2"))

# accepted by add_style with default separator
for nm in ["fontSize", "a_b", "X", "_1"]:
    t = tags.div()
    r = t.add_style(css(**{nm: "v"}))
    print(r is t, ascii(t.attrs.get("style")), ascii(str(t)))
