# Probe for refactoring 4: _resolve_dependencies / TagList.get_dependencies.
import itertools
from packaging.version import Version
from htmltools import Tag, TagList, HTML, HTMLDependency, HTMLDocument, HTMLTextDocument, div, span, head_content, tags
from htmltools._core import _resolve_dependencies

LOG = []


def show(label, f):
    try:
        print(label, "->", repr(f()))
    except Exception as e:  # noqa: BLE001
        print(label, "-> EXC", type(e).__name__, str(e)[:90])


def dep(name, ver, **kw):
    return HTMLDependency(name, ver, **kw)


def ident(deps):
    return [(d.name, str(d.version), d.all_files) for d in deps]


a1 = dep("a", "1.0")
a1b = dep("a", "1.0", all_files=True)
a2 = dep("a", "2.0")
a10 = dep("a", "10.0")
a2rc = dep("a", "2.0rc1")
b1 = dep("b", "1")
b05 = dep("b", "0.5", all_files=True)
c = dep("c", "3.1.4")
pool = [a1, a1b, a2, a10, a2rc, b1, b05, c]

show("empty", lambda: _resolve_dependencies([]))
for n in (1, 2, 3):
    for combo in itertools.permutations(pool, n):
        lst = list(combo)
        res = _resolve_dependencies(lst)
        print(ident(lst), "=>", ident(res), [lst.index(r) for r in res], len(lst))

show("identity first-equal kept", lambda: _resolve_dependencies([a1, a1b])[0] is a1)
show("identity reverse", lambda: _resolve_dependencies([a1b, a1])[0] is a1b)
show("input untouched", lambda: (lambda l: (_resolve_dependencies(l), ident(l)))([a1, a2, b1, a1]))
show("new list each time", lambda: (lambda l: _resolve_dependencies(l) is not l)([a1]))
show("tuple input", lambda: ident(_resolve_dependencies((a1, b1, a2))))
show("generator input", lambda: ident(_resolve_dependencies(d for d in [a2, a1, b05, b1])))

# corrupted dependencies: exception types and which comparisons are made
s = dep("s", "1.0")
s.version = "1.0"
show("str vs Version", lambda: _resolve_dependencies([a1, s, dep("s", "2.0")]))
show("str first only", lambda: ident(_resolve_dependencies([s, b1])))
s2 = dep("s", "1.0")
s2.version = "0.9"
show("str vs str", lambda: ident(_resolve_dependencies([s, s2])))
show("str vs str rev", lambda: ident(_resolve_dependencies([s2, s])))
u = dep("u", "1")
u.name = ["unhashable"]
show("unhashable name", lambda: _resolve_dependencies([a1, u]))
nn = dep("n", "1")
nn.name = None
show("None name", lambda: [d.name for d in _resolve_dependencies([nn, a1, nn])])
show("non-dep", lambda: _resolve_dependencies([a1, "x"]))


class LoudVersion(Version):
    def __gt__(self, other):
        LOG.append(("gt", str(self), str(other)))
        return super().__gt__(other)


l1 = dep("l", LoudVersion("1")); l2 = dep("l", LoudVersion("2")); l3 = dep("l", LoudVersion("1.5")); m1 = dep("m", LoudVersion("9"))
show("loud", lambda: ident(_resolve_dependencies([l1, m1, l2, l3, l1, m1])))
print("LOG", LOG)

# through the public API
tree = TagList(div(a1, span(b1, div(a2)), "t"), b05, HTML("<x>"), a1b, span(c, _add_ws=False), None, [a10, [a2rc]])
for dd in (True, False, 1, 0, None, "", "no", [], [0]):
    show(f"TagList dedup={dd!r}", lambda: ident(tree.get_dependencies(dedup=dd)))
    show(f"Tag dedup={dd!r}", lambda: ident(div(tree).get_dependencies(dd)))
show("default", lambda: ident(tree.get_dependencies()))
show("nodedup is fresh list", lambda: tree.get_dependencies(dedup=False) is not tree.get_dependencies(dedup=False))
show("positional dedup", lambda: tree.get_dependencies(False))
show("no deps", lambda: (div("x").get_dependencies(), TagList().get_dependencies(dedup=False)))
show("render deps", lambda: ident(tree.render()["dependencies"]))
show("tag render deps", lambda: ident(div(tree).render()["dependencies"]))
show("doc deps", lambda: ident(HTMLDocument(tree).render()["dependencies"]))
show("doc html", lambda: HTMLDocument(tree).render()["html"])
h1 = head_content(tags.title("A")); h2 = head_content(tags.title("A")); h3 = head_content(tags.title("B"))
show("head_content dedup", lambda: ident(TagList(h1, h2, h3).get_dependencies()))
show("same twice stable", lambda: ident(tree.get_dependencies()) == ident(tree.get_dependencies()))
show("text doc", lambda: HTMLTextDocument("<html><head><!-- deps --></head><body></body></html>", deps=[a1, b1, a2, b05], deps_replace_pattern="<!-- deps -->").render())
