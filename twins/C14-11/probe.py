# Probe for refactoring 1: TagList.__add__ / __radd__ / __iadd__ via shared operand helper.
from htmltools import HTML, TagList, Tag, div, span, HTMLDependency, is_tag_node
from htmltools._core import MetadataNode


def desc(c):
    if isinstance(c, (str, Tag, HTMLDependency)):
        return str(c)
    return "<" + type(c).__name__ + ">"


def show(label, fn):
    try:
        r = fn()
    except BaseException as e:  # noqa: BLE001
        print(label, "->", "EXC", type(e).__name__, str(e))
        return None
    if isinstance(r, TagList):
        print(
            label,
            "->",
            type(r).__name__,
            [(type(c).__name__, desc(c)) for c in r.data],
            all(is_tag_node(c) for c in r.data),
        )
    else:
        print(label, "->", type(r).__name__, repr(r))
    return r


class SubList(TagList):
    """Subclass that treats tuples as atomic operands too."""

    def _should_not_expand(self, x):
        return isinstance(x, (str, tuple))


class Rep:
    def _repr_html_(self):
        return "<b>rep</b>"


def gen():
    yield "g1"
    yield None
    yield [1, (2.5, "g2")]


dep = HTMLDependency("a", "1.0", source={"subdir": "."}, script={"src": "a.js"})
base = TagList("a", div("b"), 3)

operands = {
    "str": "xyz",
    "empty_str": "",
    "html": HTML("<i>h</i>"),
    "list": ["l1", None, 2, ["l3", (4.5,)]],
    "tuple": ("t1", ("t2", None)),
    "empty_list": [],
    "taglist": TagList("x", span("y")),
    "empty_taglist": TagList(),
    "tag": div("child1", "child2"),
    "range": range(3),
    "dict": {"k1": 1, "k2": 2},
    "int": 5,
    "float": 1.5,
    "none": None,
    "bool": True,
    "bytes": b"ab",
    "set_obj": [object],
    "bad_elem": ["ok", object()],
    "bad_bytes_elem": ["ok", b"x"],
    "rep": Rep(),
    "rep_list": [Rep()],
    "dep_list": [dep],
    "meta_list": [MetadataNode()],
}

for name, op in operands.items():
    before = list(base.data)
    show(f"base + {name}", lambda: base + op)
    show(f"{name} + base", lambda: op + base)
    assert base.data == before
    sub = SubList("s")
    show(f"sub + {name}", lambda: sub + op)
    show(f"{name} + sub", lambda: op + sub)

show("base + gen", lambda: base + gen())
show("gen + base", lambda: gen() + base)
show("base.__radd__(gen)", lambda: base.__radd__(gen()))
show("base.__radd__(str)", lambda: base.__radd__("zz"))
show("base.__radd__(list)", lambda: base.__radd__(["p", ["q"]]))
show("sum", lambda: sum([TagList("a"), TagList("b")], TagList()))

# += keeps identity, normalises, and leaves the list unchanged on failure
for name, op in operands.items():
    ident = TagList("a")

    def iadd(x=ident, op=op):
        x += op
        return x

    r = show(f"iadd {name}", iadd)
    print("   same object:", r is ident if r is not None else None, "data after:", [desc(c) for c in ident.data])

# Tag children and add
t = div("a")
show("tag.children + list", lambda: t.children + ["b", 1])
show("list + tag.children", lambda: ["b", 1] + t.children)
show("result type of SubList + list", lambda: type(SubList("a") + ["b"]).__name__)
show("slice+add", lambda: base[1:] + base[:1])
show("mul+add", lambda: base * 2 + "end")
show("helper exists only privately", lambda: sorted(n for n in dir(TagList) if not n.startswith("_")))
