import copy

from htmltools import HTML, HTMLDependency, HTMLDocument, Tag, TagList, div, span, tags


def show(label, fn):
    try:
        print(label, "->", repr(fn()))
    except BaseException as e:  # noqa
        print(label, "-> EXC", type(e).__name__, str(e))


class MyTag(Tag):
    def __init__(self, *a, **k):
        super().__init__("my-tag", *a, **k)
        self.extra = ["x", {"k": [1]}]
        self._attrs = {"a": 1}


class InitCounter(Tag):
    count = 0

    def __init__(self, *a, **k):
        InitCounter.count += 1
        super().__init__("counter", *a, **k)


class Boom:
    def __copy__(self):
        raise ValueError("no copy")


class MyDoc(HTMLDocument):
    def __init__(self, *a, **k):
        super().__init__(*a, **k)
        self.note = ["n"]


dep = HTMLDependency("dep", "1.0", head="<meta name='x'>")

trees = [
    div(),
    div("a", span("b", class_="c"), 3, 4.5, id="x", data_y="<&\"'>"),
    tags.br(),
    tags.img(src="a b.png", alt=True),
    div(HTML("<b>raw</b>"), "txt & <i>", dep),
    tags.script("if (a < b) {}"),
    MyTag("child", id="m"),
    div(TagList("x", span("y")), [["n", None], ("t",)]),
]

for i, t in enumerate(trees):
    c = copy.copy(t)
    show(f"tree{i} type", lambda: type(c).__name__)
    show(f"tree{i} str", lambda: str(c))
    show(f"tree{i} eq", lambda: c == t)
    show(f"tree{i} dict keys", lambda: list(c.__dict__.keys()))
    show(f"tree{i} children is", lambda: c.children is t.children)
    show(f"tree{i} attrs is", lambda: c.attrs is t.attrs)
    show(f"tree{i} child0 is", lambda: len(t.children) == 0 or c.children[0] is t.children[0])
    c.append("added")
    c.attrs["new"] = "1"
    show(f"tree{i} orig after mutate", lambda: str(t))
    show(f"tree{i} copy after mutate", lambda: str(c))
    show(f"tree{i} tagify", lambda: str(t.tagify()))
    show(f"tree{i} render", lambda: t.render()["html"])
    show(f"tree{i} deepcopy", lambda: str(copy.deepcopy(t)))

m = MyTag("q")
mc = copy.copy(m)
show("mytag extra eq", lambda: mc.extra == m.extra)
show("mytag extra is", lambda: mc.extra is m.extra)
show("mytag extra inner is", lambda: mc.extra[1] is m.extra[1])
show("mytag _attrs is", lambda: mc._attrs is m._attrs)

ic = InitCounter("z")
copy.copy(ic)
ic.tagify()
show("init count", lambda: InitCounter.count)

b = div("x")
b.boom = Boom()
show("boom copy", lambda: copy.copy(b))
show("boom tagify", lambda: b.tagify())
show("boom str", lambda: str(b))

# context manager state is copied as a plain field
w = div("w")
show("prev_displayhook", lambda: copy.copy(w).prev_displayhook)
w.prev_displayhook = print
show("prev_displayhook set", lambda: copy.copy(w).prev_displayhook is print)

# documents
docs = [
    HTMLDocument(),
    HTMLDocument(div("a", dep), lang="en"),
    HTMLDocument(tags.html(tags.head(tags.title("t")), tags.body("b")), class_="k"),
    HTMLDocument(tags.body("only body", id="bb")),
    MyDoc(span("s"), "text", lang="fr"),
]
for i, d in enumerate(docs):
    c = copy.copy(d)
    show(f"doc{i} type", lambda: type(c).__name__)
    show(f"doc{i} keys", lambda: list(c.__dict__.keys()))
    show(f"doc{i} content is", lambda: c._content is d._content)
    show(f"doc{i} content eq", lambda: c._content == d._content)
    show(f"doc{i} attrs is", lambda: c._html_attr_args is d._html_attr_args)
    show(f"doc{i} attrs eq", lambda: c._html_attr_args == d._html_attr_args)
    c.append(div("appended"))
    c._html_attr_args["data-z"] = "1"
    show(f"doc{i} orig render", lambda: d.render()["html"])
    show(f"doc{i} copy render", lambda: c.render()["html"])

md = MyDoc("x")
show("mydoc note is", lambda: copy.copy(md).note is md.note)
show("mydoc note eq", lambda: copy.copy(md).note == md.note)
md.bad = Boom()
show("mydoc boom", lambda: copy.copy(md))
