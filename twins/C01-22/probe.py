# Probe for refactoring 2: TagList.get_html_string (child loop: tags, _repr_html_ objects, strings)
import itertools
from htmltools import HTML, Tag, TagList, div, span, tags, HTMLDependency

LOG = []


def show(label, fn):
    del LOG[:]
    try:
        r = fn()
        print(label, "->", type(r).__name__, repr(r if isinstance(r, str) else str(r)), LOG)
    except Exception as e:  # noqa
        print(label, "-> EXC", type(e).__name__, LOG)


class Rep:
    def __init__(self, v="<i>rep</i>"):
        self.v = v

    def _repr_html_(self):
        LOG.append("rep")
        return self.v


class Tfy:
    def tagify(self):
        LOG.append("tagify")
        return span("tfy")


class Both:
    def tagify(self):
        LOG.append("tagify")
        return span("both")

    def _repr_html_(self):
        LOG.append("both-rep")
        return "<u>both</u>"


class FlagTag(Tag):
    pass


dep = HTMLDependency("x", "1.0")

atoms = {
    "s": "a<b&c",
    "e": "",
    "ws": "  sp  ",
    "h": HTML("<b>&amp;</b>"),
    "blk": div("d"),
    "blk0": div(),
    "inl": span("s"),
    "inl0": span(),
    "void": Tag("br"),
    "voidinl": Tag("img", _add_ws=False),
    "rep": Rep(),
    "dep": dep,
    "nest": div(span("x"), "y", div("z")),
    "inlnest": span("x", span("y"), _add_ws=False),
    "both": Both(),
}
names = list(atoms)

# all singles, pairs, and a selection of triples
combos = [(n,) for n in names]
combos += list(itertools.product(names, repeat=2))
combos += [c for i, c in enumerate(itertools.product(names, repeat=3)) if i % 7 == 0]

for combo in combos:
    tl = TagList(*[atoms[n] for n in combo])
    label = "+".join(combo)
    show(label + " default", lambda: tl.get_html_string())
    show(label + " i2", lambda: tl.get_html_string(2, "\n"))
    show(label + " noadd", lambda: tl.get_html_string(1, "\n", add_ws=False))
    show(label + " noesc", lambda: tl.get_html_string(1, "|", add_ws=True, _escape_strings=False))
    show(label + " noesc noadd", lambda: tl.get_html_string(3, "", add_ws=False, _escape_strings=False))

# rendering through parents
for combo in combos[: len(names) + 60]:
    kids = [atoms[n] for n in combo]
    label = "+".join(combo)
    show("div(" + label + ")", lambda: str(div(*kids)))
    show("span(" + label + ")", lambda: str(span(*kids)))
    show("script(" + label + ")", lambda: tags.script(*kids).get_html_string())
    show("str " + label, lambda: str(TagList(*kids)))

# errors and odd inputs: the order of failures/side effects must be preserved
show("untagified", lambda: TagList("a", Tfy()).get_html_string())
show("untagified bad indent", lambda: TagList("a", Tfy()).get_html_string("x"))
show("untagified first bad indent", lambda: TagList(Tfy()).get_html_string(None))
show("rep bad indent", lambda: TagList(Rep()).get_html_string("x"))
show("rep bad indent noadd", lambda: TagList(Rep()).get_html_string("x", add_ws=False))
show("rep after inline bad indent", lambda: TagList("a", Rep()).get_html_string(1.5))
show("str bad indent", lambda: TagList("a").get_html_string(None))
show("str bad indent noadd", lambda: TagList("a").get_html_string(None, add_ws=False))
show("tag bad indent", lambda: TagList(div("a")).get_html_string("x"))
show("eol None", lambda: TagList("a", div()).get_html_string(0, None))
show("eol None single", lambda: TagList("a").get_html_string(0, None))
show("eol None inline", lambda: TagList("a", span()).get_html_string(0, None, add_ws=False))
show("eol int", lambda: TagList(div(), Rep()).get_html_string(0, 5))
show("rep returns HTML", lambda: TagList("a<", Rep(HTML("<x>")), "b<", div()).get_html_string())
show("rep returns int", lambda: TagList("a<", Rep(5)).get_html_string())
show("rep returns None", lambda: TagList(Rep(None), "z").get_html_string())
show("neg indent", lambda: TagList("a", div("b", div("c"))).get_html_string(-2))
show("bool indent", lambda: TagList("a", div("b", div("c"))).get_html_string(True))
show("add_ws int", lambda: TagList("a", span(), "b").get_html_string(1, "\n", add_ws=0))
show("add_ws str", lambda: TagList("a", span(), "b").get_html_string(1, "\n", add_ws="yes"))
t = span("q")
t.add_ws = 1
show("tag add_ws int", lambda: TagList("a", t, "b", t).get_html_string(1))
t2 = span("q")
t2.add_ws = None
show("tag add_ws None", lambda: TagList(t2, "a", t2, t2).get_html_string(1))
t3 = span("q")
del t3.add_ws
show("tag add_ws missing", lambda: TagList("a", t3).get_html_string(1))
show("tag add_ws missing noadd", lambda: TagList(t3).get_html_string(1, add_ws=False))
show("subclass tag", lambda: TagList(FlagTag("p", "x"), "y", FlagTag("b", _add_ws=False)).get_html_string())

# data manipulated behind the constructor's back
tl = TagList("a")
tl.data.append(5)
show("int in data", lambda: tl.get_html_string())
show("int in data noesc", lambda: tl.get_html_string(_escape_strings=False))
tl = TagList("a")
tl.data.append(None)
show("None in data", lambda: tl.get_html_string())
tl = TagList()
tl.data.extend([b"x", "y"])
show("bytes in data", lambda: tl.get_html_string())
show("bytes in data noesc", lambda: tl.get_html_string(_escape_strings=False))
tl = TagList("a<")
tl.data.append(TagList("in", "ner"))
show("nested taglist in data", lambda: tl.get_html_string())
tl = TagList()
tl.data.extend(["a<", Tfy(), Rep()])
show("tfy then rep in data", lambda: tl.get_html_string())
show("empty", lambda: TagList().get_html_string())
show("only deps", lambda: TagList(dep, dep).get_html_string(3, "X"))
show("dep between", lambda: TagList("a", dep, "b", dep, div(), dep, "c").get_html_string(1))


class S(str):
    pass


show("str subclass", lambda: TagList(S("a<b"), S("plain")).get_html_string())
show("str subclass noesc", lambda: TagList(S("a<b"), div(), S("plain")).get_html_string(_escape_strings=False))
