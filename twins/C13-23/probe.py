"""Probe for _render_tag_or_taglist (str()/repr() of Tag and TagList) in both dependency render modes (refactoring 3)."""
import htmltools
from htmltools import HTMLDependency, HTMLTextDocument, HTMLDocument, TagList, Tag, tags, div, span, HTML, head_content
from htmltools._core import _render_tag_or_taglist


def desc(d):
    return (
        d.name, str(d.version), d.source, d.script, d.stylesheet, d.meta, d.all_files,
        None if d.head is None else d.head.get_html_string(),
    )


def show(label, fn):
    try:
        r = fn()
    except BaseException as e:  # noqa
        print(label, "->", "EXC", type(e).__name__)
    else:
        print(label, "->", type(r).__name__, repr(r))


def mk():
    return [
        HTMLDependency("a", "1.0"),
        HTMLDependency("b", "2.1.3", source={"subdir": "x/y"}, script={"src": "b.js"}),
        HTMLDependency(
            "c", "0.0.1", source={"href": "https://e.com/</script>"},
            script=[{"src": "c1.js", "defer": ""}, {"src": "c 2.js"}],
            stylesheet={"href": "c.css"},
            meta={"name": "m", "content": "</SCRIPT><script>&\"'"},
            all_files=True, head="<title>t</ScRiPt ></title>\r\nline2\n",
        ),
        HTMLDependency("d</script>", "3", head=TagList(tags.title("x"), tags.style("a > b {}"), "txt & <")),
        HTMLDependency("a", "2.0", head=tags.script("if (a </ b) {}")),
        head_content(tags.link(rel="icon", href="f.ico")),
    ]


class Widget:
    def __init__(self, dep):
        self.dep = dep

    def tagify(self):
        return TagList(span("w"), self.dep)


class HtmlResultTag(Tag):
    """render() hands back an HTML object instead of a plain str."""

    def render(self):
        r = super().render()
        return {"dependencies": r["dependencies"], "html": HTML(r["html"])}


class NoHtmlKey(Tag):
    def render(self):
        return {"dependencies": []}


def objects():
    d = mk()
    unserializable = HTMLDependency("u", "1", source={"subdir": "s"})
    unserializable.source = {"subdir": object()}
    return {
        "tag_nodeps": div("x", span("y")),
        "taglist_nodeps": TagList("a", div("b")),
        "taglist_empty": TagList(),
        "tag_empty": div(),
        "tag_one": div("x", d[0]),
        "tag_only_dep": div(d[1]),
        "taglist_only_deps": TagList(d[1], d[2]),
        "tag_many": div("x", d[1], span(d[2], d[1]), d[3], d[5]),
        "tag_versions": div(d[0], d[4], d[0]),
        "taglist_many": TagList(d[3], "text <&>", div(d[4]), d[0], HTML("<b>raw</b>")),
        "tagifiable": div(Widget(d[2]), Widget(d[2]), Widget(d[1])),
        "script_tag": tags.script("a </ b", d[1]),
        "html_result": HtmlResultTag("section", "a<b", d[1], d[2]),
        "no_html_key": NoHtmlKey("section", d[1]),
        "unserializable": div("x", d[0], unserializable),
    }


for mode in ["invisible", "json", "native", "JSON", None, 0]:
    htmltools.html_dependency_render_mode = mode
    try:
        for k, o in objects().items():
            show("mode=%r str[%s]" % (mode, k), lambda: str(o))
            show("mode=%r direct[%s]" % (mode, k), lambda: _render_tag_or_taglist(o))
        o = objects()["tag_many"]
        show("mode=%r repr" % (mode,), lambda: repr(o))
        show("mode=%r _repr_html_" % (mode,), lambda: o._repr_html_())
        tl = objects()["taglist_many"]
        show("mode=%r tl_repr" % (mode,), lambda: repr(tl))
        show("mode=%r tl_repr_html" % (mode,), lambda: tl._repr_html_())
        show("mode=%r dep_str" % (mode,), lambda: str(mk()[2]))
    finally:
        htmltools.html_dependency_render_mode = "invisible"

# round trip: JSON mode text post-processed by HTMLTextDocument vs direct rendering
for k in ["tag_many", "taglist_many", "tagifiable", "tag_versions", "taglist_only_deps"]:
    o = objects()[k]
    htmltools.html_dependency_render_mode = "json"
    try:
        text = str(o)
    finally:
        htmltools.html_dependency_render_mode = "invisible"
    def post():
        doc = HTMLTextDocument("<html><head>@@</head><body>" + text + "</body></html>", deps_replace_pattern="@@")
        r = doc.render()
        return r["html"], [desc(x) for x in r["dependencies"]]
    show("roundtrip[%s]" % k, post)
    show("direct[%s]" % k, lambda: HTMLDocument(o).render()["html"])

# the module attribute missing altogether
saved = htmltools.html_dependency_render_mode
del htmltools.html_dependency_render_mode
try:
    show("mode_missing", lambda: str(div("x", mk()[0])))
    show("mode_missing_nokey", lambda: str(NoHtmlKey("p")))
finally:
    htmltools.html_dependency_render_mode = saved
show("restored", lambda: str(div("x", mk()[0])))
