import copy
import sys

from htmltools import (
    HTML,
    HTMLDependency,
    HTMLDocument,
    MetadataNode,
    Tag,
    TagList,
    div,
    span,
    tags,
)

LOG = []


def show(label, fn):
    """Run fn, print repr of result or the exception type/message, plus call log."""
    del LOG[:]
    try:
        res = fn()
        out = repr(res)
    except BaseException as e:  # noqa: BLE001
        out = "EXC " + type(e).__name__ + ": " + str(e)
    print("## " + label)
    print(out)
    if LOG:
        print("   log:", LOG)


def dep(name, version="1.0"):
    return HTMLDependency(name, version, source={"subdir": "."}, script={"src": name + ".js"})


def rendered(x):
    r = x.render()
    return (type(r["html"]).__name__, str(r["html"]), [(d.name, str(d.version)) for d in r["dependencies"]])


def doc_rendered(*args, **kwargs):
    r = HTMLDocument(*args, **kwargs).render()
    return (type(r["html"]).__name__, str(r["html"]), [(d.name, str(d.version)) for d in r["dependencies"]])


class Tf:
    """Tagifiable returning a fixed value; logs the call order."""

    def __init__(self, name, value):
        self.name = name
        self.value = value

    def tagify(self):
        LOG.append("tagify:" + self.name)
        v = self.value
        return v() if callable(v) else v


class TfRepr(Tf):
    """Tagifiable that is also self-rendering."""

    def _repr_html_(self):
        LOG.append("repr_html:" + self.name)
        return "<i>" + self.name + "</i>"


class OnlyRepr:
    def __init__(self, name, value=None):
        self.name = name
        self.value = value

    def _repr_html_(self):
        LOG.append("repr_html:" + self.name)
        return "<b>" + self.name + "</b>" if self.value is None else self.value


class TfMeta(MetadataNode):
    """Both a MetadataNode and Tagifiable."""

    def __init__(self, name, value):
        self.name = name
        self.value = value

    def tagify(self):
        LOG.append("tagify:" + self.name)
        return self.value

    def __copy__(self):
        LOG.append("copy:" + self.name)
        return TfMeta(self.name + "'", self.value)


class Meta(MetadataNode):
    def __init__(self, name):
        self.name = name

    def __copy__(self):
        LOG.append("copy:" + self.name)
        return Meta(self.name + "'")

    def __repr__(self):
        return "Meta(" + self.name + ")"


class Boom:
    def __init__(self, name, exc):
        self.name = name
        self.exc = exc

    def tagify(self):
        LOG.append("tagify:" + self.name)
        raise self.exc


def raw(tl):
    """Structural dump of a TagList / Tag without going through render()."""
    if isinstance(tl, Tag):
        return ("Tag", tl.name, dict(tl.attrs), raw(tl.children))
    if isinstance(tl, TagList):
        return [raw(c) for c in tl.data]
    if isinstance(tl, HTMLDependency):
        return ("Dep", tl.name, str(tl.version))
    if isinstance(tl, (Tf, TfMeta, OnlyRepr, Boom)):
        return (type(tl).__name__, tl.name)
    if isinstance(tl, HTML):
        return ("HTML", tl.as_string())
    if tl is None or isinstance(tl, (str, int, float, list, tuple, dict)):
        return tl
    return "<" + type(tl).__name__ + ">"


# ------------------------------------------------------------- JSXTag.tagify
from htmltools._jsx import JSXTag, jsx, jsx_tag_create

Foo = jsx_tag_create("Foo")
Bar = jsx_tag_create("Bar")
Ns = jsx_tag_create("My.Ns.Thing")


class CopyLogged:
    """Plain attribute value which records being copied."""

    def __init__(self, name):
        self.name = name

    def __copy__(self):
        LOG.append("copy:" + self.name)
        return CopyLogged(self.name + "'")

    def __str__(self):
        return "CL(" + self.name + ")"


def jrender(x):
    return rendered(TagList(x))


def jraw(x):
    t = x.tagify()
    return (type(t).__name__, t.name, dict(t.attrs), [raw(c) if not isinstance(c, HTML) else ("HTML", c.as_string()) for c in t.children])


show("empty", lambda: jrender(Foo()))
show("attrs only", lambda: jrender(Foo(id="a", class_="b", n=1, f=1.5, t=True, none=None, js=jsx("() => 1"), lst=[1, "x", None], dct={"k": (1, 2)})))
show("string children", lambda: jrender(Foo("a\"q\"", "b")))
show("html tag children", lambda: jrender(Foo(div("x", span("y"), id="d"), "t")))
show("namespaced", lambda: jrender(Ns(Foo())))

# Tagifiable children (not Tag / JSXTag) are expanded in visiting order
show("tagifiable child -> tag", lambda: jrender(Foo(Tf("t1", div("from-t1")), "mid", Tf("t2", "from-t2"))))
show("tagifiable child -> str", lambda: jraw(Foo(Tf("t", "S"))))
show("tagifiable child -> jsx tag (not walked further)", lambda: jrender(Foo(Tf("t", lambda: Bar("inner", x=1)))))
show("tagifiable child -> taglist", lambda: jrender(Foo(Tf("t", TagList("a", "b")))))
show("tagifiable child -> empty taglist", lambda: jrender(Foo(Tf("t", TagList()))))
show("tagifiable child -> dependency", lambda: jrender(Foo(Tf("t", dep("from-tf", "2.2")), "x")))
show("tagifiable child -> None", lambda: jrender(Foo(Tf("t", None))))
show("tagifiable child -> HTML", lambda: jrender(Foo(Tf("t", HTML("<raw>")))))
show("tagifiable nested in html tag", lambda: jrender(Foo(div(Tf("deep", span("D")), Tf("deep2", "E")))))
show("tagifiable nested in jsx child", lambda: jrender(Foo(Bar(Tf("deep", span("D")), a=Tf("attr", "AV")))))
show("tagifiable raising", lambda: jrender(Foo(Tf("ok", "fine"), Boom("b", KeyError("kb")), Tf("never", "x"))))
show("self-rendering only child", lambda: jrender(Foo(OnlyRepr("r"))))
show("self-rendering + tagifiable child", lambda: jrender(Foo(TfRepr("tr", span("exp")))))

# Tagifiable attribute values
show("tagifiable attr -> str", lambda: jrender(Foo(a=Tf("ta", "AV"), b="plain")))
show("tagifiable attr -> tag", lambda: jrender(Foo(a=Tf("ta", div("in-attr", Tf("still", "unexpanded"))))))
show("tagifiable attr -> jsxtag", lambda: jrender(Foo(a=Tf("ta", lambda: Bar(k="v")))))
show("tag attr with tagifiable inside", lambda: jrender(Foo(a=div(Tf("inner", "IV")))))
show("jsx attr with tagifiable inside", lambda: jrender(Foo(a=Bar(Tf("inner", "IV"), z=Tf("innerattr", 3)))))
show("attr order of calls", lambda: jrender(Foo(Tf("c1", "C1"), Tf("c2", "C2"), a=Tf("a1", "A1"), b=Tf("a2", "A2"))))
show("attr copied", lambda: jrender(Foo(a=CopyLogged("cl"), b=[1, 2])))
show("style attr str", lambda: jrender(Foo(style="color:red;margin:0")))
show("style attr dict", lambda: jrender(Foo(style={"color": "red"})))
show("style attr tagifiable", lambda: jrender(Foo(style=Tf("st", "color:blue"))))
show("style attr bad", lambda: jrender(Foo(style=5)))

# metadata nodes: collected from children, attrs, nested tags, and expansions
show("dependency children", lambda: jrender(Foo(dep("d1"), "x", dep("d2", "3.0"))))
show("dependency in attr", lambda: jrender(Foo(a=dep("dattr"))))
show("dependency nested", lambda: jrender(Foo(div(dep("dn1"), span(dep("dn2"))), Bar(dep("dn3"), q=dep("dn4")))))
show("dependency from expansion", lambda: jrender(Foo(Tf("t", lambda: div("x", dep("hidden"))), Tf("u", dep("top")))))
show("meta copied", lambda: jraw(Foo(Meta("m1"), div(Meta("m2")), a=Meta("m3"))))
show("meta+tagifiable", lambda: jraw(Foo(TfMeta("tm", "str-result"), TfMeta("tm2", Meta("res")))))
show("react version conflict", lambda: jrender(Foo(HTMLDependency("react", "99.0", source={"subdir": "."}, script={"src": "r.js"}))))


def independence():
    t = Tf("t", "T")
    inner = div("i", t)
    j = Foo(inner, t, a=t)
    before = (raw(j.children), dict((k, raw(v)) for k, v in j.attrs.items()))
    out = j.tagify()
    after = (raw(j.children), dict((k, raw(v)) for k, v in j.attrs.items()))
    return (before == after, j.children[0] is inner, raw(inner), type(out).__name__)


show("original untouched", independence)
show("twice", lambda: (lambda j: (jrender(j), jrender(j)))(Foo(Tf("t", "T"), dep("d"))))

# entry points
show("str()", lambda: str(Foo(Tf("t", "T"))))
show("repr()", lambda: repr(Foo("x")))
show("_repr_html_", lambda: Foo(Tf("t", "T"))._repr_html_())
show("in div", lambda: rendered(div(Foo(Tf("t", span("S"))), "after", id="host")))
show("in doc", lambda: doc_rendered(Foo(Tf("t", span("S")), dep("dd"))))
show("in tagifiable", lambda: rendered(TagList(Tf("outer", lambda: Foo(Tf("in", "IN"))))))
show("in tagifiable returning taglist", lambda: rendered(TagList("a", Tf("outer", lambda: TagList(Foo("f"), Bar("b"))), "z")))
show("bad name", lambda: JSXTag("foo"))
show("allowed props", lambda: jrender(jsx_tag_create("Lim", allowedProps=["a"])(a=Tf("t", "ok"))))
show("disallowed props", lambda: jsx_tag_create("Lim", allowedProps=["a"])(b=1))
