import copy
from collections import OrderedDict, UserDict
from htmltools import (HTML, HTMLDependency, Tag, TagList, consolidate_attrs, div, span, tags)
from htmltools._core import TagAttrDict
from htmltools._jsx import jsx_tag_create


def show(label, fn):
    try:
        print(label, "=>", repr(fn()))
    except Exception as e:  # noqa
        print(label, "=> EXC", type(e).__name__, e)


def describe(t):
    return (t.name, t.add_ws, type(t.attrs).__name__, dict(t.attrs), list(t.attrs.keys()),
            type(t.children).__name__, [type(c).__name__ + ":" + str(c) for c in t.children])


dep = HTMLDependency("d", "1.0")
d1 = {"id": "a", "class_": "c1"}
d2 = TagAttrDict(class_="c2", data_x=1)
d3 = OrderedDict([("class", HTML("<c3>")), ("style", "color:red;")])
ud = UserDict({"id": "ud"})  # not a dict -> treated as a child
kid_list = ["x", None, [span("y"), 3, 4.5], TagList("tl", dep)]

cases = {
    "empty": lambda: Tag("div"),
    "only_children": lambda: Tag("div", "a", "b"),
    "only_dicts": lambda: Tag("div", d1, d2, d3),
    "interleaved": lambda: Tag("div", "a", d1, span("b"), d2, None, d3, kid_list, id="kw", class_="kwc"),
    "dict_last": lambda: Tag("p", "a", {"title": 'q"uote'}),
    "empty_dict": lambda: Tag("p", {}, "a", {}),
    "none_vals": lambda: Tag("p", {"a": None, "b": False, "c": True, "d": 0}, e=None),
    "add_ws_false": lambda: Tag("span", d1, "t", _add_ws=False),
    "tagfn": lambda: div(d1, "k", d2, tags.b("bold"), class_="z"),
    "userdict": lambda: Tag("div", ud),
    "bad_add_ws": lambda: Tag("div", d1, "a", _add_ws="yes"),
    "bad_attr": lambda: Tag("div", {"id": object}, "a"),
    "bad_child": lambda: Tag("div", {"id": "a"}, object()),
    "bad_both": lambda: Tag("div", object(), {"id": []}),
    "bad_key": lambda: Tag("div", {1: "a"}),
    "set_child": lambda: Tag("div", {"a", }),
    "jsx_child": lambda: Tag("div", d1, jsx_tag_create("Foo")(a=1)),
}
for k, fn in cases.items():
    def run(fn=fn):
        t = fn()
        return describe(t), str(t), t == fn(), t.tagify() == t
    show(k, run)

# inputs are not modified, results do not alias them
print(d1, dict(d2), d3, kid_list[:2])
t = Tag("div", d1, d2, kid_list)
t.attrs["id"] = "changed"
t.attrs["new"] = "n"
t.append("more")
print(d1, dict(d2), len(kid_list), t.attrs is d2, t.children is kid_list)
t1 = Tag("div", d2)
print(t1.attrs is d2, t1.attrs == d2)

# consolidate_attrs
ca_cases = {
    "empty": lambda: consolidate_attrs(),
    "kids": lambda: consolidate_attrs("a", None, ["n", [1]], span("s")),
    "dicts": lambda: consolidate_attrs(d1, d2, d3),
    "mix": lambda: consolidate_attrs("a", d1, None, d2, kid_list, d3, id="kw", class_="k", hidden=True, skip=None),
    "userdict": lambda: consolidate_attrs(ud, id="x"),
    "bad_attr": lambda: consolidate_attrs({"id": object}),
    "bad_child": lambda: consolidate_attrs(object(), {"id": "a"}),
    "add_ws": lambda: consolidate_attrs("a", _add_ws=False),
    "bad_add_ws": lambda: consolidate_attrs("a", _add_ws=1),
}
for k, fn in ca_cases.items():
    def run(fn=fn):
        attrs, children = fn()
        return type(attrs).__name__, attrs, list(attrs.keys()), type(children).__name__, [type(c).__name__ for c in children], str(children)
    show("ca " + k, run)

attrs, children = consolidate_attrs("a", d1, kid_list, d2)
print(children[1] is kid_list, attrs is d1, attrs is d2, type(attrs) is dict)
children.append("z")
attrs["id"] = "mut"
print(d1, dict(d2), len(kid_list))
a2, c2 = consolidate_attrs("a", d1, kid_list, d2)
print(a2, len(c2), c2 is children)
print(str(div(a2, *c2)))

# subclass with extra handling still goes through Tag.__init__
class MyTag(Tag):
    def __init__(self, *args, **kwargs):
        super().__init__("my-tag", {"data-default": "1"}, *args, **kwargs)


m = MyTag("c", {"data-default": "2", "id": "m"}, x="y")
print(describe(m), str(m), copy.copy(m) == m, m.tagify() == m)
