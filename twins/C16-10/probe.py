"""Probe for refactoring 5: Tag.__init__ arg partition, TagAttrDict.__setitem__ and the name/value normalisers."""
from collections import OrderedDict
from fractions import Fraction

from htmltools import HTML, Tag, TagList, div, span, tags
from htmltools._core import TagAttrDict


def desc(d):
    return [(k, type(k).__name__, type(v).__name__, str(v)) for k, v in d.items()]


def state(t):
    return (str(t), desc(t.attrs), [type(c).__name__ for c in t.children])


def show(label, fn):
    try:
        out = fn()
        print(label, "->", repr(out))
    except Exception as e:  # noqa: BLE001
        print(label, "-> EXC", type(e).__name__, str(e))


class Obj:
    pass


class MyStr(str):
    pass


class MyInt(int):
    pass


class MyDict(dict):
    pass


# --- value normaliser -------------------------------------------------------
values = [None, False, True, "", "a", " a ", HTML(""), HTML("<a>"), MyStr("s"), 0, 1, -1, 0.0, 1.5,
          float("nan"), float("inf"), MyInt(7), 10**30, Fraction(1, 2), 1j, b"a", ["a"], ("a",),
          {"a": 1}, Obj, len]
for v in values:
    def nv(v=v):
        r = TagAttrDict._normalize_attr_value(v)
        return (type(r).__name__, r if r is None else str(r), r is v)
    show("norm value %s %r" % (type(v).__name__, v), nv)
show("norm value Obj()", lambda: TagAttrDict._normalize_attr_value(Obj()).__class__)

# --- name normaliser --------------------------------------------------------
names = ["", "_", "__", "___", "a", "a_", "a__", "_a", "_a_", "a_b", "a_b_", "a__b__", "class_", "for_",
         "data_foo_bar", "data-foo", "aB_c", "é_", MyStr("x_y_"), MyStr("plain")]
for n in names:
    def nn(n=n):
        r = TagAttrDict._normalize_attr_name(n)
        return (type(r).__name__, r)
    show("norm name %r" % n, nn)
show("norm name non-str", lambda: TagAttrDict._normalize_attr_name(5))
show("norm name via instance", lambda: TagAttrDict()._normalize_attr_name("q_r_"))

# --- __setitem__ -------------------------------------------------------------
def setitems():
    d = TagAttrDict(class_="a", id="i")
    out = []
    for k, v in [("class_", "b"), ("data_x", 1), ("hidden", True), ("gone", None), ("gone2", False),
                 ("id", None), ("id", False), ("w_", 2.5), ("h", HTML("<h>")), ("class", HTML("c")),
                 ("e", ""), ("k_k_", "v")]:
        d[k] = v
        out.append(desc(d))
    return out


for i, snap in enumerate(setitems()):
    print("setitem step", i, repr(snap))


def setitem_bad():
    d = TagAttrDict(a="1")
    try:
        d["b_"] = Obj()
    except TypeError as e:
        return ("TypeError", str(e).replace(repr(Obj), "OBJ"), desc(d))
    return desc(d)


show("setitem bad", setitem_bad)
show("setitem bad list", lambda: TagAttrDict().__setitem__("a", ["x"]))
show("setitem none returns", lambda: TagAttrDict().__setitem__("a", None))
show("setitem str returns", lambda: TagAttrDict().__setitem__("a", "x"))

# --- Tag constructor ----------------------------------------------------------
show("no args", lambda: state(Tag("div")))
show("kids only", lambda: state(div("a", span("b"), 1, None, 2.5)))
show("attrs only", lambda: state(div({"class": "a"}, {"class": "b", "id": "i"})))
show("interleaved", lambda: state(div("k1", {"class": "a"}, span("k2"), {"class_": "b"}, "k3", {"id": "x"}, class_="c")))
show("attr dict last", lambda: state(div("k1", "k2", {"style": "s:1;"}, style="t:2;")))
show("tagattrdict arg", lambda: state(div(TagAttrDict(class_="z"), "kid", {"class": "y"})))
show("dict subclasses", lambda: state(div(MyDict(class_="m"), OrderedDict([("class", "o")]), "kid")))
show("empty dict arg", lambda: state(div({}, "kid", {})))
show("list child with dict inside", lambda: state(div(["a", "b"], [span("c")])))
show("taglist child", lambda: state(div(TagList("a", span("b")), {"id": "i"})))
show("bad attr in dict", lambda: state(div("kid", {"a": Obj()})))
show("bad attr in kwargs", lambda: state(div("kid", a=Obj())))
show("bad kid and bad attr", lambda: state(div(Obj(), {"a": ["x"]})))
show("bad add_ws", lambda: state(div("kid", _add_ws="yes")))
show("add_ws false", lambda: state(span("kid", {"class": "a"}, _add_ws=False)))
show("normalize test", lambda: state(div(class_="class_", x__="x__", x_="x_", x="x")))
show("bool/num attrs", lambda: state(tags.input(type="checkbox", checked=True, disabled=False, value=3, step=0.5, title=None)))
show("html attrs", lambda: state(div({"class": HTML("<a>")}, class_="<b>")))
show("class then helpers", lambda: state(div({"class": "a"}, "kid", class_="b").add_class("c").remove_class("a").add_style("s:1;")))
show("has_class after ctor", lambda: [div({"class": "a b"}, class_="c").has_class(c) for c in ("a", "b", "c", "d")])
