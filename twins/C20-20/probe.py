import inspect
import os

from htmltools import HTML, HTMLDependency, HTMLDocument, TagList, div, span, tags
from htmltools._jsx import JSXTag, _lib_dependency, jsx, jsx_tag_create


def show(label, fn):
    try:
        res = fn()
        print(label, "->", repr(res))
    except BaseException as e:  # noqa
        print(label, "-> EXC", type(e).__name__, str(e)[:200])


class S(str):
    pass


# constructor: names
for name in ["Foo", "foo", "", ".", "a.B", "A.b", "a.b.C", "A.", ".A", "a..", "1", "_x", "É", "é", "ß",
             "A.ß", "x.1y", " Foo", "Foo bar", "a.B.c", "ǆ", "A" * 50, S("Sub"), S("sub.x")]:
    show("name %r" % name, lambda: (lambda t: (t.name, type(t.name).__name__))(JSXTag(name)))
for bad in [None, 1, b"Foo", ["Foo"], ("A",)]:
    show("bad name %r" % (bad,), lambda: JSXTag(bad))
show("no name", lambda: JSXTag())

# constructor: allow-lists
for allowed in [None, [], (), ["a"], ("a", "b"), {"a": 1}, {"a", "b"}, "ab", "a", ["a_"], ["class"], ["class_"], 0, 5]:
    for kw in [{}, {"a": 1}, {"b": 2}, {"a": 1, "b": 2}, {"z": 0, "a": 1, "y": 2}, {"a_": 1}, {"class_": "c"}]:
        show("allowed %r %r" % (sorted(allowed) if isinstance(allowed, set) else allowed, kw),
             lambda: list(JSXTag("Foo", "child", allowedProps=allowed, **kw).attrs.items()))
show("bad name wins", lambda: JSXTag("foo", allowedProps=["a"], b=1))
Lim = jsx_tag_create("Lim", allowedProps=["ok", "fine_"])
show("create ok", lambda: str(Lim(ok=1, fine_=2)))
show("create bad", lambda: Lim(ok=1, nope=2))
show("create name", lambda: (Lim.__name__, Lim("x").name, Lim("x").children))

# _lib_dependency is a private helper whose second parameter is either a script item
# ({"src": file}) or the file name itself; call it the way its signature asks for.
_takes_dict = "script" in inspect.signature(_lib_dependency).parameters


def lib(pkg, src):
    return _lib_dependency(pkg, {"src": src}) if _takes_dict else _lib_dependency(pkg, src)


def describe(d):
    return (d.name, str(d.version), d.source, d.script, d.stylesheet, d.meta, d.all_files, d.head,
            os.path.basename(d.source_path_map()["source"]), d.source_path_map()["href"], d.as_dict())


for pkg, src in [("react", "react.production.min.js"), ("react-dom", "react-dom.production.min.js"),
                 ("react", "other.js"), ("react-dom", "")]:
    show("lib %s %r" % (pkg, src), lambda: describe(lib(pkg, src)))
    show("lib html %s %r" % (pkg, src), lambda: str(lib(pkg, src).as_html_tags()))
    show("lib fresh %s %r" % (pkg, src), lambda: (lib(pkg, src) is not lib(pkg, src), lib(pkg, src) == lib(pkg, src),
                                                  lib(pkg, src).script is not lib(pkg, src).script))
show("lib unknown", lambda: lib("vue", "v.js"))

# tagify: the script element
Foo = jsx_tag_create("Foo")
Bar = jsx_tag_create("My.Bar")
dep = HTMLDependency("a", "1.1", source={"subdir": "foo"}, script={"src": "a1.js"})
dep2 = HTMLDependency("b", "2", source={"subdir": "foo"}, stylesheet={"href": "b.css"})
comps = {
    "empty": Foo(),
    "dotted": Bar("x", a=1),
    "quote name": JSXTag('Q"uote\''),
    "text": Foo("a", "b"),
    "deps": Foo(dep, div(dep2), p=Bar(dep)),
    "props": Foo(a=1, b="s", c=jsx("f()"), style="x:y"),
    "nested": Foo(div(span("t"), Bar()), Bar(Foo())),
}
for label, x in comps.items():
    t = x.tagify()
    show(label + " name/attrs", lambda: (t.name, dict(t.attrs), t.add_ws))
    show(label + " children", lambda: [(type(c).__name__, str(c)) for c in t.children])
    show(label + " html type", lambda: (type(t.children[0]).__name__, t.children[0].as_string()))
    show(label + " deps", lambda: [(d.name, str(d.version), d.source, d.script, d.stylesheet) for d in t.get_dependencies(dedup=False)])
    show(label + " str", lambda: str(x))
    show(label + " repr", lambda: repr(x) == str(x) == x._repr_html_())
    show(label + " fresh", lambda: (x.tagify() is not x.tagify(), x.tagify() == x.tagify(),
                                    x.tagify().children[1] is not x.tagify().children[1]))
    show(label + " doc", lambda: (lambda r: (r["html"], [d.name for d in r["dependencies"]]))(HTMLDocument(x).render()))
    show(label + " wrapped", lambda: (lambda r: (r["html"], [d.name for d in r["dependencies"]]))(div(x, x).render()))

# the script files of the react dependencies exist in the package
for d in Foo().tagify().get_dependencies():
    m = d.source_path_map()
    show("file " + d.name, lambda: [os.path.isfile(os.path.join(m["source"], s["src"])) for s in d.script])

# name re-assigned after construction
x = Foo("a")
x.name = 5
show("int name", lambda: str(x))
y = Foo()
y.name = 5
show("int name empty", lambda: str(y))
z = Foo("a")
z.name = "lower.case"
show("renamed", lambda: str(z))

# failures before the script is assembled
show("fail render", lambda: str(Foo(HTML("<b>"))))
show("fail style", lambda: str(Foo(style=1)))
