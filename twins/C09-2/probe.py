"""Deterministic probe for property C09 (tagifiable objects render as their expansion).

Prints repr of outputs / exception types+messages.  Must print byte-identical output
on the unmodified tree and on the patched tree.
"""

import htmltools
from htmltools import (
    HTML,
    HTMLDependency,
    HTMLDocument,
    Tag,
    TagList,
    div,
    span,
    tags,
)
from htmltools import _core
from htmltools._util import flatten

LOG = []


def show(label, fn):
    try:
        res = fn()
        print(f"{label}: OK {res!r}")
    except BaseException as e:  # noqa: BLE001
        print(f"{label}: EXC {type(e).__name__}: {e}")


def dep(name, version="1.0.0"):
    return HTMLDependency(name=name, version=version, head=f"<meta name='{name}'>")


class T:
    """Tagifiable returning whatever it was given (logs call order)."""

    def __init__(self, label, result):
        self.label = label
        self.result = result

    def tagify(self):
        LOG.append(self.label)
        r = self.result
        return r() if callable(r) else r


class Both:
    """Tagifiable AND self-rendering."""

    def __init__(self, label, result):
        self.label = label
        self.result = result

    def tagify(self):
        LOG.append("both:" + self.label)
        return self.result

    def _repr_html_(self):
        LOG.append("repr:" + self.label)
        return f"<both {self.label}>"


class R:
    """Only self-rendering."""

    def __init__(self, label):
        self.label = label

    def _repr_html_(self):
        LOG.append("repr:" + self.label)
        return f"<r {self.label}> & raw"


class MyTag(Tag):
    pass


def rendered(x):
    r = x.render()
    return (r["html"], [f"{d.name}-{d.version}" for d in r["dependencies"]], sorted(r))


def docrendered(doc, **kw):
    r = doc.render(**kw)
    return (r["html"], [f"{d.name}-{d.version}" for d in r["dependencies"]], sorted(r))


def with_log(fn):
    def inner():
        del LOG[:]
        res = fn()
        return (res, list(LOG))

    return inner


# --------------------------------------------------------------------------------------
# 1. A spread of expansions at various positions
# --------------------------------------------------------------------------------------
def expansions():
    return {
        "tag": lambda: T("tag", div("x", id="a")),
        "inline_tag": lambda: T("inline", span("i", _add_ws=False)),
        "str": lambda: T("str", "a < b & c"),
        "html": lambda: T("html", HTML("<b>raw & </b>")),
        "empty_str": lambda: T("es", ""),
        "empty_list": lambda: T("el", TagList()),
        "list1": lambda: T("l1", TagList("only")),
        "list3": lambda: T("l3", TagList("p", div("q"), HTML("<i>r</i>"))),
        "list_nested_tagifiable": lambda: T(
            "outer", lambda: TagList("A", T("inner", TagList("B", "C")), "D")
        ),
        "list_with_dep": lambda: T("ld", TagList(dep("d1"), "txt", dep("d2", "2.0"))),
        "dep": lambda: T("dep", dep("solo")),
        "tag_with_tagifiable": lambda: T("tw", lambda: div(T("deep", span("s")))),
        "both": lambda: Both("b", div("from-both")),
        "both_list": lambda: Both("bl", TagList("x", "y")),
        "repr_only": lambda: R("ro"),
        "mytag": lambda: T("mt", MyTag("section", "sub")),
    }


def place(kind, make):
    if kind == "alone":
        return TagList(make())
    if kind == "first":
        return TagList(make(), "tail", div("t2"))
    if kind == "middle":
        return TagList("head", make(), span("after"))
    if kind == "last":
        return TagList(div("h"), "mid", make())
    if kind == "twice":
        return TagList(make(), make())
    if kind == "in_div":
        return div("pre", make(), "post", class_="c")
    if kind == "in_inline":
        return span("pre", make(), "post", _add_ws=False)
    if kind == "deep":
        return div(div(span(make(), _add_ws=False), "z"), make())
    if kind == "in_script":
        return tags.script("var a = 1 < 2;", make(), "x && y")
    if kind == "in_style":
        return tags.style(make(), "p > a {}")
    raise AssertionError(kind)


KINDS = [
    "alone",
    "first",
    "middle",
    "last",
    "twice",
    "in_div",
    "in_inline",
    "deep",
    "in_script",
    "in_style",
]

for name, make in expansions().items():
    for kind in KINDS:
        show(f"render[{name}/{kind}]", with_log(lambda: rendered(place(kind, make))))
        show(
            f"doc[{name}/{kind}]",
            with_log(lambda: docrendered(HTMLDocument(place(kind, make)))),
        )
        show(f"str[{name}/{kind}]", with_log(lambda: str(place(kind, make))))
        # markup from a tree that still has un-expanded objects
        show(
            f"raw[{name}/{kind}]",
            with_log(lambda: place(kind, make).get_html_string()),
        )

# --------------------------------------------------------------------------------------
# 2. tagify(): structure, copies, non-mutation, call order
# --------------------------------------------------------------------------------------
def tagify_structure():
    d1 = dep("m1")
    t1 = T("t1", TagList("a", "b"))
    t2 = T("t2", TagList())
    t3 = T("t3", "s")
    inner = div("in", T("t4", span("k")))
    x = TagList("z", t1, d1, t2, inner, t3)
    before = list(x.data)
    y = x.tagify()
    same_after = all(a is b for a, b in zip(before, x.data)) and len(before) == len(x)
    return (
        [type(c).__name__ for c in y],
        [str(c) if not isinstance(c, HTMLDependency) else c.name for c in y],
        same_after,
        y is x,
        y[3] is d1,
        y[3] == d1,
        y[4] is inner,
        y[4].children is inner.children,
        [type(c).__name__ for c in inner.children],
        [type(c).__name__ for c in y[4].children],
        type(y).__name__,
    )


show("tagify_structure", with_log(tagify_structure))


def tag_tagify():
    t = MyTag("article", "a", T("q", TagList("b", "c")), id="i")
    cp = t.tagify()
    return (
        type(cp).__name__,
        cp is t,
        cp.attrs is t.attrs,
        cp.attrs == t.attrs,
        len(t.children),
        len(cp.children),
        str(cp),
        cp.name,
        cp.add_ws,
    )


show("tag_tagify", with_log(tag_tagify))

# Results that are not re-tagified / odd results
show(
    "custom_returns_unexpanded_tag",
    with_log(lambda: rendered(TagList(T("o", lambda: T("p", "never"))))),
)
show("custom_returns_int", with_log(lambda: rendered(TagList("a", T("i", 5), "b"))))
show(
    "custom_returns_int_in_script",
    with_log(lambda: rendered(tags.script("a", T("i", 5), "b"))),
)
show("custom_returns_none", with_log(lambda: rendered(div("a", T("n", None), "b"))))
show(
    "custom_returns_list",
    with_log(lambda: rendered(div("a", T("n", ["x", "y"]), "b"))),
)
show(
    "taglist_with_number_children",
    with_log(lambda: rendered(div(T("n", TagList(1, 2.5, True, None, ["k", [3]]))))),
)


class Boom:
    def tagify(self):
        LOG.append("boom")
        raise KeyError("boom")


show("tagify_raises", with_log(lambda: rendered(TagList(T("z", "z"), Boom(), T("a", "a")))))
show(
    "tagify_raises_doc",
    with_log(lambda: docrendered(HTMLDocument(T("z", "z"), Boom(), T("a", "a")))),
)


class ReprBoom:
    def _repr_html_(self):
        LOG.append("reprboom")
        raise ValueError("rb")


show("repr_raises", with_log(lambda: rendered(TagList(R("1"), ReprBoom(), R("2")))))
show(
    "unexpanded_after_repr",
    with_log(lambda: TagList(R("1"), T("t", "x"), R("2")).get_html_string()),
)
show(
    "unexpanded_in_nested",
    with_log(lambda: div(R("1"), div(span(T("t", "x"))), R("2")).get_html_string()),
)
show(
    "unexpanded_both_ok",
    with_log(lambda: div(Both("k", "never"), "s").get_html_string()),
)

# --------------------------------------------------------------------------------------
# 3. get_html_string() arguments / whitespace handling around expansions
# --------------------------------------------------------------------------------------
def ghs_matrix():
    out = []
    base = TagList(
        "s1",
        span("in1", _add_ws=False),
        R("r1"),
        div("blk"),
        HTML("<raw/>"),
        dep("skip"),
        span("in2", _add_ws=False),
        "s2",
        R("r2"),
    )
    for indent in (0, 1, 3):
        for eol in ("\n", "", "\r\n", "|"):
            for add_ws in (True, False):
                for esc in (True, False):
                    out.append(
                        base.get_html_string(
                            indent, eol, add_ws=add_ws, _escape_strings=esc
                        )
                    )
    return out


show("ghs_matrix", with_log(ghs_matrix))
show("ghs_empty", lambda: TagList().get_html_string(2, "X"))
show("ghs_only_meta", lambda: TagList(dep("a"), dep("b")).get_html_string(2, "X"))
show("ghs_meta_first", lambda: TagList(dep("a"), "x", dep("b"), "y").get_html_string(1))
show("ghs_bad_indent", lambda: TagList("x").get_html_string("1"))
show("ghs_bad_indent_empty", lambda: TagList().get_html_string("1"))
show("ghs_bad_indent_tagonly", lambda: TagList(div()).get_html_string(None))
show(
    "ghs_bad_indent_repr", with_log(lambda: TagList(R("q")).get_html_string(None))
)
show(
    "ghs_bad_indent_unexpanded",
    with_log(lambda: TagList(T("q", "x")).get_html_string(None)),
)
show("ghs_bad_eol", lambda: TagList("x", "y").get_html_string(0, None))
show("ghs_kw", lambda: div("a", span("b"), "c").get_html_string(indent=2, eol="\r\n"))


class ReprReturnsHTML:
    def _repr_html_(self):
        return HTML("<h>")


class ReprReturnsInt:
    def _repr_html_(self):
        return 7


show("repr_returns_html", lambda: repr(TagList("a<", ReprReturnsHTML(), "b<").get_html_string()))
show("repr_returns_html_type", lambda: type(TagList("a<", ReprReturnsHTML(), "b<").get_html_string()).__name__)
show("repr_returns_int", lambda: TagList("a", ReprReturnsInt(), "b").get_html_string())

# --------------------------------------------------------------------------------------
# 4. HTMLDocument: <html> / <body> / fragment chosen by the expansion
# --------------------------------------------------------------------------------------
def doc_cases():
    return {
        "frag": lambda: HTMLDocument("a", T("x", TagList(div("b"), dep("fd")))),
        "empty": lambda: HTMLDocument(),
        "empty_expansion": lambda: HTMLDocument(T("e", TagList())),
        "body_direct": lambda: HTMLDocument(tags.body("bb", T("x", "in-body"), id="B")),
        "body_expanded": lambda: HTMLDocument(T("x", tags.body("bb", dep("bd")))),
        "body_in_list": lambda: HTMLDocument(T("x", TagList(tags.body("bb")))),
        "body_plus": lambda: HTMLDocument(T("x", TagList(tags.body("bb"), "more"))),
        "body_and_dep": lambda: HTMLDocument(tags.body("bb"), dep("side")),
        "html_direct": lambda: HTMLDocument(
            tags.html(tags.head(tags.title("t")), tags.body(T("x", "hb"), dep("hd")))
        ),
        "html_expanded": lambda: HTMLDocument(
            T("x", tags.html(tags.body("no head", T("y", dep("yd")))))
        ),
        "html_dep_first": lambda: HTMLDocument(
            tags.html(dep("first"), tags.head(tags.meta(name="k")), tags.body("q"))
        ),
        "html_plus": lambda: HTMLDocument(tags.html(tags.body("q")), "extra"),
        "html_attrs": lambda: HTMLDocument(
            tags.html(tags.body("q"), lang="fr", class_="k"), lang="en", data_x=1
        ),
        "body_attrs": lambda: HTMLDocument(tags.body("q"), lang="en"),
        "mytag_html": lambda: HTMLDocument(MyTag("html", MyTag("body", "q"))),
        "mytag_body": lambda: HTMLDocument(MyTag("body", "q", T("z", dep("zz")))),
        "head_tag_only": lambda: HTMLDocument(tags.head(tags.title("x"))),
        "str_only": lambda: HTMLDocument("just <text>"),
        "repr_only": lambda: HTMLDocument(R("dr")),
        "both": lambda: HTMLDocument(Both("db", tags.body("from both"))),
        "dup_deps": lambda: HTMLDocument(
            T("a", TagList(dep("dd", "1.0"), dep("dd", "2.0"))), div(dep("dd", "1.5"))
        ),
        "unexpanded_inner": lambda: HTMLDocument(T("o", lambda: div(T("p", "never")))),
        "bad_name": lambda: HTMLDocument(Tag("HTML", "caps")),
    }


for name, make in doc_cases().items():
    show(f"doccase[{name}]", with_log(lambda: docrendered(make())))
    show(
        f"doccase_nolib[{name}]",
        with_log(lambda: docrendered(make(), lib_prefix=None, include_version=False)),
    )
    show(
        f"doccase_lib[{name}]",
        with_log(lambda: docrendered(make(), lib_prefix="my/lib")),
    )


def doc_not_mutated():
    t = T("x", TagList("a", "b"))
    body = tags.body("k", t)
    doc = HTMLDocument(body, lang="en")
    r1 = docrendered(doc)
    r2 = docrendered(doc)
    return (
        r1 == r2,
        len(doc._content),
        doc._content[0] is body,
        len(body.children),
        body.children[1] is t,
        dict(body.attrs),
    )


show("doc_not_mutated", with_log(doc_not_mutated))


def html_not_mutated():
    h = tags.html(tags.head(), tags.body("k", T("x", dep("hx"))))
    doc = HTMLDocument(h, lang="en")
    r1 = docrendered(doc)
    r2 = docrendered(doc)
    return (r1 == r2, dict(h.attrs), str(h), len(h.children[0].children))


show("html_not_mutated", with_log(html_not_mutated))

show("gen_tree_type", lambda: type(HTMLDocument(MyTag("html"))._gen_html_tag_tree("lib", include_version=True)).__name__)
show("gen_tree_type_body", lambda: type(HTMLDocument(MyTag("body"))._gen_html_tag_tree(None, include_version=False)).__name__)
show("gen_tree_positional", lambda: str(HTMLDocument("x")._gen_html_tag_tree("lib", True)))

# --------------------------------------------------------------------------------------
# 5. str()/repr()/_repr_html_ and the json dependency mode
# --------------------------------------------------------------------------------------
def json_mode():
    old = htmltools.html_dependency_render_mode
    out = []
    try:
        for mode in ("json", "none", "other"):
            htmltools.html_dependency_render_mode = mode
            x = div("a", T("j", TagList(dep("j1"), "mid", dep("j2", "3.1"))))
            out.append((mode, str(x), repr(x), x._repr_html_(), type(str(x)).__name__))
            y = TagList(T("j", TagList(dep("j1"))), T("k", dep("j1")))
            out.append((mode, str(y), repr(y), y._repr_html_()))
            out.append((mode, str(TagList()), str(div())))
    finally:
        htmltools.html_dependency_render_mode = old
    return out


show("json_mode", with_log(json_mode))


class ModeSwitcher:
    """tagify() that flips the render mode while rendering is under way."""

    def tagify(self):
        htmltools.html_dependency_render_mode = "json"
        return dep("sw")


def mode_switch():
    old = htmltools.html_dependency_render_mode
    try:
        htmltools.html_dependency_render_mode = "none"
        return str(div(ModeSwitcher()))
    finally:
        htmltools.html_dependency_render_mode = old


show("mode_switch", mode_switch)


class RenderOverride(Tag):
    def tagify(self):
        LOG.append("ro.tagify")
        return super().tagify()

    def get_dependencies(self, dedup=True):
        LOG.append(f"ro.deps:{dedup}")
        return super().get_dependencies(dedup=dedup)

    def get_html_string(self, indent=0, eol="\n"):
        LOG.append(f"ro.html:{indent}:{eol!r}")
        return super().get_html_string(indent, eol)


show(
    "subclass_dispatch_order",
    with_log(lambda: rendered(RenderOverride("div", "a", T("s", dep("sd"))))),
)
show(
    "subclass_dispatch_order_str",
    with_log(lambda: str(RenderOverride("div", "a", T("s", dep("sd"))))),
)
show(
    "subclass_dispatch_in_list",
    with_log(lambda: rendered(TagList("q", RenderOverride("div", T("s", dep("sd")))))),
)


class ListOverride(TagList):
    def tagify(self):
        LOG.append("lo.tagify")
        return super().tagify()

    def get_dependencies(self, *, dedup=True):
        LOG.append(f"lo.deps:{dedup}")
        return super().get_dependencies(dedup=dedup)

    def get_html_string(self, indent=0, eol="\n", *, add_ws=True, _escape_strings=True):
        LOG.append("lo.html")
        return super().get_html_string(
            indent, eol, add_ws=add_ws, _escape_strings=_escape_strings
        )


show(
    "listsubclass_dispatch",
    with_log(lambda: (rendered(ListOverride("a", T("s", dep("sd")))), type(ListOverride("a").tagify()).__name__)),
)

# --------------------------------------------------------------------------------------
# 6. normalisation helpers used when splicing
# --------------------------------------------------------------------------------------
conv = _core._tagchilds_to_tagnodes
show("conv_str", lambda: conv("abc"))
show("conv_empty_str", lambda: conv(""))
show("conv_mixed", lambda: [(type(v).__name__, getattr(v, "label", None) or str(v)) for v in conv([1, 2.5, True, None, "s", HTML("h"), [3, (4, [None, 5.0])], TagList("t", 6), div("d"), dep("x"), R("r"), T("t", "u")])])
show("conv_tuple", lambda: conv(("a", None, 0, -0.0, float("inf"))))
show("conv_gen", lambda: conv(c for c in ["g", 1, None]))
show("conv_empty", lambda: conv([]))
show("conv_taglist", lambda: conv(TagList("a", TagList("b", 1))))
show("conv_bad_object", lambda: conv(["ok", object.__new__(object).__class__]))
show("conv_bad_dict", lambda: conv(["ok", {"a": 1}]))
show("conv_bad_bytes", lambda: conv([b"x"]))
show("conv_bad_set_nested", lambda: conv(["a", ["b", [frozenset()]]]))
show("conv_bad_after_num", lambda: conv([1, 2, complex(1, 2), 3]))
show("conv_not_iterable", lambda: conv(5))
show("conv_none", lambda: conv(None))
show("conv_html_input", lambda: conv(HTML("abc")))


def conv_no_alias():
    src = [1, "a", [2]]
    out = conv(src)
    return (src, out, out is src)


show("conv_no_alias", conv_no_alias)

show("flatten_basic", lambda: flatten([1, [2, (3, None, [4])], None, TagList("a", "b"), "str", range(2)]))
show("flatten_empty", lambda: flatten([]))
show("flatten_nones", lambda: flatten([None, [None, (None,)]]))
show("flatten_str", lambda: flatten("abc"))
show("flatten_not_iterable", lambda: flatten(3))
show("flatten_falsy", lambda: flatten([0, "", 0.0, False, [], (), TagList()]))

show("is_tag_node", lambda: [_core.is_tag_node(v) for v in ("s", HTML("h"), div(), TagList(), dep("x"), R("r"), T("t", 1), 1, None, [], 2.0, object())])

# TagList mutators route through the same normalisation
def mutators():
    x = TagList("a")
    x.append(1, None, [2.5, T("m", "n")])
    x.extend([None, "e", (True,)])
    x.insert(0, TagList("i1", "i2"))
    x += ["p", 3]
    y = x + "tail"
    z = "front" + x
    return ([str(c) if not isinstance(c, T) else "T" for c in x], len(y), len(z), rendered(y)[0])


show("mutators", with_log(mutators))
show("append_bad", lambda: TagList().append({"a": 1}))
show("div_bad_child", lambda: div(object()))
