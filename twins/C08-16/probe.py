# Probe for refactoring 1: TagList.tagify / __add__ / __radd__ / _equals_impl
import copy

from htmltools import HTML, HTMLDependency, Tag, TagList, div, span, tags
from htmltools._core import MetadataNode, _equals_impl

LOG = []


def show(label, fn):
    try:
        res = fn()
        print(label, "->", type(res).__name__, repr(res))
    except BaseException as e:  # noqa: BLE001
        print(label, "-> EXC", type(e).__name__, str(e))


class Expands:
    def __init__(self, name, result):
        self.name = name
        self.result = result

    def tagify(self):
        LOG.append(self.name)
        r = self.result
        if isinstance(r, BaseException):
            raise r
        if callable(r):
            return r()
        return r


class Meta(MetadataNode):
    def __init__(self, v):
        self.v = v

    def __copy__(self):
        LOG.append("copy-meta-%s" % self.v)
        return Meta(self.v)

    def __eq__(self, other):
        return isinstance(other, Meta) and other.v == self.v


class BothMetaAndTagifiable(MetadataNode):
    def tagify(self):
        LOG.append("both")
        return "both-tagified"


def structure(x, depth=0):
    """Deterministic structural dump (types, names, attrs, children)."""
    pad = "  " * depth
    if isinstance(x, Tag):
        out = [pad + "Tag %s ws=%r attrs=%r" % (x.name, x.add_ws, dict(x.attrs))]
        for c in x.children:
            out.extend(structure(c, depth + 1))
        return out
    if isinstance(x, TagList):
        out = [pad + "TagList len=%d" % len(x)]
        for c in x:
            out.extend(structure(c, depth + 1))
        return out
    if isinstance(x, HTMLDependency):
        return [pad + "Dep %s %s" % (x.name, x.version)]
    if isinstance(x, Meta):
        return [pad + "Meta %r" % x.v]
    return [pad + "%s %r" % (type(x).__name__, x)]


dep = HTMLDependency("d", "1.0", head="<meta>")
m1 = Meta(1)

cases = {
    "empty": lambda: TagList(),
    "plain": lambda: TagList("a", HTML("<b>"), 3, 2.5, None, ["x", ["y"]]),
    "tags": lambda: TagList(div("a", span("b", id="i")), "t", dep, m1),
    "expand-str": lambda: TagList("s", Expands("e1", "text"), "e"),
    "expand-html": lambda: TagList(Expands("e1", HTML("<i>")), Expands("e2", "z")),
    "expand-tag": lambda: TagList(Expands("e1", div("x")), Expands("e2", span())),
    "expand-empty-list": lambda: TagList("a", Expands("e1", TagList()), "b"),
    "expand-list": lambda: TagList(
        "a", Expands("e1", TagList("p", div("q"), dep, m1)), "b", Expands("e2", TagList("r", "s", "t"))
    ),
    "expand-nested": lambda: TagList(
        Expands("outer", lambda: TagList(Expands("inner", "deep"), "x").tagify()),
        div(Expands("in-div", TagList("k1", "k2")), m1),
    ),
    "expand-meta": lambda: TagList(Expands("e1", m1), Meta(2), Expands("e3", dep)),
    "both": lambda: TagList(BothMetaAndTagifiable(), Meta(3)),
    "raises-mid": lambda: TagList(Expands("first", "ok"), Expands("bad", ValueError("boom")), Expands("last", "ok")),
    "returns-int": lambda: TagList(Expands("e1", 5)),
    "returns-none": lambda: TagList("a", Expands("e1", None)),
}

for name, mk in cases.items():
    del LOG[:]
    x = mk()
    before = structure(x)
    try:
        t = x.tagify()
    except BaseException as e:  # noqa: BLE001
        print(name, "tagify EXC", type(e).__name__, e, "log", LOG)
        print(name, "unchanged after exc", structure(x) == before)
        continue
    print(name, "log", LOG)
    print(name, "result", structure(t))
    print(name, "orig unchanged", structure(x) == before)
    print(name, "type", type(t).__name__, "is-not-orig", t is not x, "data-not-shared", t.data is not x.data)
    del LOG[:]
    try:
        t2 = t.tagify()
        print(name, "fixed point", structure(t2) == structure(t), "eq", t2 == t, "log", LOG)
    except BaseException as e:  # noqa: BLE001
        print(name, "retagify EXC", type(e).__name__, e)
    try:
        print(name, "eq-orig", t == x, x == t)
    except BaseException as e:  # noqa: BLE001
        print(name, "eq EXC", type(e).__name__, e)
    # independence
    t.append("extra")
    print(name, "orig len after mutating copy", len(x))
    for a, b in zip(x, t):
        if isinstance(a, Tag) and isinstance(b, Tag):
            print(name, "child tag shared", a is b, a.children is b.children, a.attrs is b.attrs)
        if isinstance(a, MetadataNode) and not hasattr(a, "tagify"):
            print(name, "meta shared", a is b)

# Tag.tagify goes through TagList.tagify
del LOG[:]
d = div(Expands("a", TagList("1", "2")), span(Expands("b", "3")), dep, m1, id="x")
td = d.tagify()
print("tag tagify", structure(td), LOG)
print("tag render", repr(d.render()["html"]), repr(str(d)), d.render()["dependencies"])

# __add__ / __radd__ / __iadd__
base = lambda: TagList("a", div("b"))  # noqa: E731


def gen():
    yield "g1"
    yield ["g2", None, 7]


class Weird:
    pass


operands = {
    "str": lambda: "xyz",
    "empty-str": lambda: "",
    "list": lambda: ["l1", ["l2"], None],
    "tuple": lambda: ("t1", 2),
    "empty-list": lambda: [],
    "taglist": lambda: TagList("q", span("r")),
    "gen": gen,
    "html": lambda: HTML("<x>"),
    "int": lambda: 5,
    "none": lambda: None,
    "tag": lambda: div("k"),
    "dict": lambda: {"a": 1},
    "bad-items": lambda: [Weird()],
    "bytes": lambda: b"ab",
    "range": lambda: range(3),
}
for name, mk in operands.items():
    b = base()
    show("add %s" % name, lambda: structure(b + mk()))
    print("  base after add", structure(b))
    b = base()
    show("radd %s" % name, lambda: structure(mk() + b))
    print("  base after radd", structure(b))
    b = base()

    def iadd():
        c = b
        c += mk()
        return (c is b, structure(c))

    show("iadd %s" % name, iadd)
    r = None
    show("result type add %s" % name, lambda: type(base() + mk()).__name__)

# operands are not mutated / result independent
b = base()
other = TagList("o1", div("o2"))
s = b + other
s.append("zzz")
s[1].append("mut")
print("add shares child tags (by design)", s[1] is b[1], structure(b), structure(other))

# Equality
a1 = div("x", span("y"), id="a", class_="c")
a2 = div("x", span("y"), id="a", class_="c")
print("eq same", a1 == a2, a1 != a2)
print("eq name", div("x") == span("x"), Tag("div", "x") == div("x"))
print("eq ws", Tag("div", "x", _add_ws=False) == Tag("div", "x"))
print("eq attrs", div(id="a") == div(id="b"), div(id="a") == div(), div(a="1", b="2") == div(b="2", a="1"))
print("eq children", div("a") == div("b"), div("a", "b") == div("ab"), div(span("a")) == div(span("a")))
print("eq html vs str", div(HTML("a")) == div("a"), div("a") == div(HTML("a")))
print("eq kinds", div("a") == TagList(div("a")), TagList("a") == ["a"], TagList("a") == TagList("a"), div() == "x", div() == None)  # noqa: E711
print("eq taglist", TagList("a", div()) == TagList("a", div()), TagList("a") == TagList("a", "b"), TagList() == TagList())
print(
    "eq dep",
    HTMLDependency("a", "1.0") == HTMLDependency("a", "1.0"),
    HTMLDependency("a", "1.0") == HTMLDependency("a", "1.1"),
    HTMLDependency("a", "1.0") == HTMLDependency("b", "1.0"),
    HTMLDependency("a", "1.0", head="x") == HTMLDependency("a", "1.0", head="x"),
    HTMLDependency("a", "1.0", script={"src": "s.js"}) == HTMLDependency("a", "1.0"),
    HTMLDependency("a", "1.0") == "a",
)
print("eq copy", copy.copy(a1) == a1, a1.tagify() == a1)


class SubTag(Tag):
    pass


st = SubTag("div", "x")
print("eq subclass", Tag("div", "x") == st, st == Tag("div", "x"))
extra = div("x")
extra.foo = 1
print("eq extra field", extra == div("x"), div("x") == extra)
missing = div("x")
del missing.__dict__["add_ws"]
show("eq missing field 1", lambda: missing == div("x"))
show("eq missing field 2", lambda: div("x") == missing)


class NoDict:
    __slots__ = ()


show("equals_impl no __dict__", lambda: _equals_impl(NoDict(), NoDict()))
show("equals_impl other type", lambda: _equals_impl(1, "a"))


class Raiser:
    def __init__(self):
        self.a = 1

    def __eq__(self, other):
        raise KeyError("eqboom")

    __ne__ = __eq__


t1 = div("x")
t1.r = Raiser()
t2 = div("x")
t2.r = Raiser()
show("eq raising field", lambda: t1 == t2)

with_tag = div("w")
with with_tag:
    pass
print("eq after with", with_tag == div("w"))
