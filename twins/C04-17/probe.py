# Probe for TagAttrDict.update (merging of duplicate attributes, plain vs HTML()).
import itertools
from htmltools import HTML, Tag, div, span, tags
from htmltools._core import TagAttrDict


def desc(v):
    return (type(v).__name__, str(v))


def show(label, fn):
    try:
        r = fn()
        print(label, "->", r)
    except BaseException as e:  # noqa
        print(label, "-> EXC", type(e).__name__, str(e)[:100])


def dump(d):
    return [(k, type(k).__name__) + desc(v) for k, v in d.items()]


class MyStr(str):
    pass


vals = [
    "p", "<p>&\"'\n\r", "", HTML("<h>&\"'"), HTML(""), HTML("&amp;"), MyStr("m\"<"),
    1, 2.5, True, False, None, 0,
]

# two-way and three-way merges through every entry point
for a, b in itertools.product(vals, repeat=2):
    show(f"ctor2 {a!r} {b!r}", lambda: dump(TagAttrDict({"x": a}, {"x": b})))
    show(f"kw    {a!r} {b!r}", lambda: dump(TagAttrDict({"x_": a}, x=b)))
    show(f"tag   {a!r} {b!r}", lambda: str(Tag("div", {"class": a}, class_=b, _add_ws=False)))

    def upd():
        d = TagAttrDict(x="old", y=HTML("<keep>"))
        d.update({"x": a, "z": "z"}, {"x": b})
        return dump(d)

    show(f"upd   {a!r} {b!r}", upd)

trip_vals = ["<a>", HTML("<b>"), "\"c\"", HTML("\"d\""), None, True, 3]
for a, b, c in itertools.product(trip_vals, repeat=3):
    show(f"ctor3 {a!r} {b!r} {c!r}", lambda: dump(TagAttrDict({"k": a}, {"k_": b, "other": c}, k=c)))
    show(f"tag3  {a!r} {b!r} {c!r}", lambda: str(span({"title": a}, {"title": b}, title=c)))

# name normalisation collisions inside ONE mapping and across mappings
show("collide", lambda: dump(TagAttrDict({"data_x": "1<", "data-x": HTML("2<"), "data_x_": "3<"})))
show("collide2", lambda: dump(TagAttrDict({"a_b": HTML("<1>")}, {"a-b": "<2>"}, a_b_="<3>")))
show("order", lambda: dump(TagAttrDict({"b": "1", "a": "2"}, {"a": HTML("3"), "c": "4"}, b="5")))

# update() only merges within the call; existing keys are replaced
d = TagAttrDict(cls="one")
d.update(cls=HTML("<two>"))
print(dump(d))
d.update({"cls": "a\""}, {"cls": HTML("b\"")}, cls="c\"")
print(dump(d))
d["cls"] = "set<"
d["none"] = None
d["t"] = True
print(dump(d))
d.update()
d.update({})
print(dump(d))

# add_class / add_style use update() with two mappings
for cur, new in itertools.product([None, "c<1", HTML("h<1;")], ["n\"2;", HTML("m\"2;")]):
    for prepend in (False, True):
        show(f"add_class {cur!r} {new!r} {prepend}", lambda: str(div(class_=cur).add_class(new, prepend=prepend)))
        show(f"add_style {cur!r} {new!r} {prepend}", lambda: str(div(style=cur).add_style(new, prepend=prepend)))

# failures: invalid value types / non-mappings; self unchanged when it fails half-way
for bad in ([1], (1,), {"a": 1}, b"b", object, 1j):
    d = TagAttrDict(x="1", y=HTML("<y>"))
    show(f"bad value {type(bad).__name__}", lambda: d.update({"x": "2"}, {"x": bad}))
    print("   after:", dump(d))
for badarg in (["x"], "xy", 5, None, [("a", "b")]):
    d = TagAttrDict(x="1")
    show(f"bad arg {type(badarg).__name__}", lambda: d.update({"x": "2"}, badarg))
    print("   after:", dump(d))
show("bad key", lambda: dump(TagAttrDict({1: "a"})))
show("bad key2", lambda: dump(TagAttrDict({"a": "1"}, {None: "a"})))

# direct use of dict-level results when rendering
print(str(div({"title": "a\"<"}, title=HTML("b\"<"), id="i&", data_z=HTML("&z"))))
print(str(tags.input({"value": HTML("<v>")}, {"value": HTML("<w>")}, value="<x>")))
print(div(class_="a").attrs == TagAttrDict({"class": "a"}), type(div().attrs).__name__)
