# Probe for refactoring 1: html_escape() (text and attribute mode) and its users.
import itertools
import random

import htmltools
from htmltools import HTML, TagList, div, span, tags, html_escape
from htmltools import _util


def show(label, fn):
    try:
        r = fn()
        print(label, "->", type(r).__name__, repr(r))
    except BaseException as e:  # noqa: BLE001
        print(label, "-> EXC", type(e).__name__)


ALPHABET = ["&", "<", ">", '"', "'", "\r", "\n", "a", ";", "#", "&amp;", "&lt;", " "]

# exhaustive over all strings of up to 3 alphabet tokens
for n in range(0, 4):
    for combo in itertools.product(ALPHABET, repeat=n):
        s = "".join(combo)
        print(repr(s), repr(html_escape(s)), repr(html_escape(s, attr=True)))

# longer pseudo-random strings
rnd = random.Random(20240202)
for _ in range(300):
    s = "".join(rnd.choice(ALPHABET + ["é", " ", "\x00", "\ud800", "]]>", "<!--", "&#38;"]) for _ in range(rnd.randrange(0, 25)))
    a = html_escape(s)
    b = html_escape(s, True)
    print(repr(s), repr(a), repr(b), type(a) is str, type(b) is str)

# identity is kept when nothing needs escaping
for s in ["", "plain", "a;b#c", 'q"uote', "new\nline"]:
    print(repr(s), html_escape(s) is s, html_escape(s, attr=True) is s)

# truthiness of `attr`
for flag in [0, 1, None, "", "x", [], [0]]:
    show("attr=%r" % (flag,), lambda: html_escape("<'&\n>", flag))


# str subclass, and non-str inputs
class S(str):
    pass


show("subclass-clean", lambda: html_escape(S("abc")))
show("subclass-dirty", lambda: html_escape(S("a<b")))
show("subclass-dirty-attr", lambda: html_escape(S("a'b"), attr=True))
for bad in [5, 1.5, None, b"a<b", bytearray(b"<"), HTML("<b>"), ["<"], object]:
    show("bad %s" % type(bad).__name__, lambda: html_escape(bad))
    show("bad-attr %s" % type(bad).__name__, lambda: html_escape(bad, attr=True))

# alias and the tables
print(_util._html_escape is _util.html_escape, htmltools.html_escape is _util.html_escape)
print(list(_util.HTML_ESCAPE_TABLE.items()))
print(list(_util.HTML_ATTRS_ESCAPE_TABLE.items()))

# users of html_escape: children, attributes, HTML concatenation
texts = ["a<b>&c", "&amp;", "</div><script>x</script>", "<!-- c -->", "<!DOCTYPE x>", "&#60;", "q\"'\r\n", ""]
for t in texts:
    print(repr(str(div(t))))
    print(repr(str(div(t, "x", span(t)))))
    print(repr(str(TagList(t, [t, (t,)]))))
    print(repr(str(div(title=t, data_x=HTML(t)))))
    print(repr(HTML("<i>") + t), repr(t + HTML("<i>")), repr(HTML(t) + HTML(t)))
    print(repr(str(tags.script(t))), repr(str(tags.style(t))))
    x = div()
    x.append(t, 3, 2.5)
    x.extend([t, [t]])
    x.insert(0, t)
    print(repr(x.get_html_string()), repr(x.render()["html"]))
print(repr(str(div(1, 2.5, True, -0.0, 10**20, float("inf")))))
