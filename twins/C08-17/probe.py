# Probe for refactoring 2: TagAttrDict.__setitem__ / TagAttrDict.update / attribute merging
import copy
from collections import OrderedDict
from types import MappingProxyType

from htmltools import HTML, Tag, TagList, consolidate_attrs, div, span
from htmltools._core import TagAttrDict


def dump(d):
    return [(k, type(v).__name__, str(v)) for k, v in d.items()]


def show(label, fn):
    try:
        res = fn()
        print(label, "->", repr(res))
    except BaseException as e:  # noqa: BLE001
        print(label, "-> EXC", type(e).__name__, str(e))


class Obj:
    pass


class LoggingMapping:
    """Mapping-like (only .items()) that records iteration."""

    def __init__(self, name, pairs, log):
        self.name, self.pairs, self.log = name, pairs, log

    def items(self):
        for k, v in self.pairs:
            self.log.append((self.name, k))
            yield k, v


# ---- construction / update -------------------------------------------------
ctor_cases = {
    "empty": lambda: TagAttrDict(),
    "empty-dict": lambda: TagAttrDict({}),
    "kw": lambda: TagAttrDict(id="a", class_="b", data_x_y=1, for_="f", _under="u", __="dunder"),
    "dicts": lambda: TagAttrDict({"id": "a"}, {"class": "x"}, {"class": "y", "id": "b"}),
    "dict+kw": lambda: TagAttrDict({"class": "x", "a_b": "1"}, {"class_": "y"}, class_="z", a_b_="2"),
    "values": lambda: TagAttrDict(a=None, b=False, c=True, d=0, e=1.5, f="", g=HTML("<h>"), h=-3, i=float("inf")),
    "merge-none": lambda: TagAttrDict({"class": None}, {"class": "x"}, {"class": False}, {"class": True}, class_=None),
    "merge-plain": lambda: TagAttrDict({"x": 'a"<&'}, {"x": "b'>"}),
    "merge-html-first": lambda: TagAttrDict({"x": HTML("<i>&")}, {"x": 'p"<&\n\r\''}),
    "merge-html-second": lambda: TagAttrDict({"x": 'p"<&\n'}, {"x": HTML("<i>&")}),
    "merge-html-both": lambda: TagAttrDict({"x": HTML("<a>")}, {"x": HTML("<b>")}),
    "merge-three": lambda: TagAttrDict({"x": "a<"}, {"x": HTML("<b>")}, {"x": "c>"}, x="d&"),
    "merge-three-b": lambda: TagAttrDict({"x": "a<"}, {"x": "b<"}, {"x": HTML("<c>")}, {"x": 4}),
    "merge-empty": lambda: TagAttrDict({"x": ""}, {"x": True}, {"x": "v"}, {"x": ""}),
    "merge-names": lambda: TagAttrDict({"a_b": "1"}, {"a-b": "2"}, {"a_b_": "3"}, {"a_b__": "4"}),
    "same-dict-twice": lambda: (lambda d: TagAttrDict(d, d, d))({"class": "k", "id": HTML("<i>")}),
    "order": lambda: TagAttrDict({"z": "1", "a": "2"}, {"m": "3", "z": "4"}, b="5", a="6"),
    "ordered": lambda: TagAttrDict(OrderedDict([("q", "1"), ("p", "2")])),
    "proxy": lambda: TagAttrDict(MappingProxyType({"q": "1"})),
    "tagattrdict": lambda: TagAttrDict(TagAttrDict(id="a", x=HTML("<h>")), id="b"),
    "bad-value": lambda: TagAttrDict({"a": "1", "b": Obj()}),
    "bad-value-list": lambda: TagAttrDict(a=["x"]),
    "bad-value-bytes": lambda: TagAttrDict(a=b"x"),
    "bad-arg-list": lambda: TagAttrDict([("a", "1")]),
    "bad-arg-str": lambda: TagAttrDict("abc"),
    "bad-arg-none": lambda: TagAttrDict(None),
    "bad-key-int": lambda: TagAttrDict({1: "a"}),
    "bad-key-none": lambda: TagAttrDict({None: "a"}),
    "html-key": lambda: TagAttrDict({HTML("k_"): "a"}),
    "bool-subclass-like": lambda: TagAttrDict(a=1, b=True, c=0, d=False),
}
for name, mk in ctor_cases.items():
    show("ctor " + name, lambda: dump(mk()))

# ---- update on an existing dict: existing values are overwritten, not merged --
def upd(*args, **kwargs):
    d = TagAttrDict(id="orig", class_="c0", keep="k")
    try:
        r = d.update(*args, **kwargs)
    except BaseException as e:  # noqa: BLE001
        return ("EXC", type(e).__name__, str(e), dump(d))
    return (r, dump(d))


print("upd none", upd())
print("upd empty", upd({}))
print("upd overwrite", upd({"id": "new"}))
print("upd merge within call", upd({"class": "a"}, {"class": "b"}, class_="c"))
print("upd None keeps old", upd({"id": None}, keep=False))
print("upd mixed", upd({"class": HTML("<a>")}, {"class": "b<"}))
print("upd exc leaves dict untouched", upd({"id": "new"}, {"zzz": Obj()}))
print("upd exc leaves dict untouched 2", upd({"id": "new"}, 5))
print("upd kw named like params", upd(self_="s", args="a", kwargs="k"))

# order of iteration over the sources
log = []
d = TagAttrDict()
d.update(
    LoggingMapping("m1", [("a", "1"), ("b", None), ("c_", "3")], log),
    LoggingMapping("m2", [("c", HTML("<x>")), ("a", "4")], log),
    z="last",
    a="kw",
)
print("iteration log", log)
print("iteration result", dump(d))

log = []
d = TagAttrDict(pre="p")
try:
    d.update(
        LoggingMapping("m1", [("a", "1"), ("b", "2")], log),
        LoggingMapping("m2", [("c", "3"), ("bad", Obj()), ("never", "x")], log),
        LoggingMapping("m3", [("d", "4")], log),
    )
except TypeError as e:
    print("exc midway", type(e).__name__, log, dump(d))

# ---- __setitem__ -------------------------------------------------------------
d = TagAttrDict(id="a")
for k, v in [
    ("class_", "x"),
    ("class", "y"),
    ("data_a_b", 5),
    ("t", True),
    ("f", False),
    ("n", None),
    ("id", None),
    ("id", False),
    ("h", HTML("<h>")),
    ("fl", 2.50),
    ("_", "underscore"),
    ("", "empty"),
]:
    try:
        d[k] = v
    except BaseException as e:  # noqa: BLE001
        print("setitem EXC", k, type(e).__name__, e)
    print("setitem", repr(k), repr(v), dump(d))
for k, v in [("bad", Obj()), (5, "x"), (None, "x"), (5, None), ("lst", [1])]:
    try:
        d[k] = v
        print("setitem ok", repr(k), dump(d))
    except BaseException as e:  # noqa: BLE001
        print("setitem EXC", repr(k), type(e).__name__, e, dump(d))

# setdefault / |= / copy go through dict, not through the overrides
d = TagAttrDict(a="1")
print("setdefault", d.setdefault("b_c", 5), dump(d))
cp = copy.copy(d)
cp["zz"] = "1"
print("copy", type(cp).__name__, dump(cp), dump(d), cp == d)
print("eq", TagAttrDict(a=1) == TagAttrDict(a="1"), TagAttrDict(a=1) == {"a": "1"}, TagAttrDict(a=HTML("x")) == TagAttrDict(a="x"))


# subclass overriding the normalisers is still honoured
class Upper(TagAttrDict):
    @staticmethod
    def _normalize_attr_name(x):
        return x.upper()

    @staticmethod
    def _normalize_attr_value(x):
        return None if x == "skip" else str(x) + "!"


u = Upper({"a": "1", "b": "skip"}, {"A": "2"}, c=3)
u["d"] = "skip"
u["e"] = None
print("subclass", dump(u))

# ---- through Tag ---------------------------------------------------------------
t = div({"class": "a", "style": "color:red;"}, {"class": "b"}, "child", {"id": HTML("<i>")}, class_="c", id="p<")
print("tag", str(t), dump(t.attrs))
print("tag render twice", t.render() == t.render(), repr(t.get_html_string()))
t2 = copy.copy(t)
t2.attrs["class"] = "changed"
t2.attrs.update({"new": "1"}, new="2")
print("copy independent", dump(t.attrs), dump(t2.attrs))
tt = t.tagify()
tt.attrs.update(id="q")
print("tagify independent", dump(t.attrs), dump(tt.attrs), tt.attrs is not t.attrs)

t = span()
print("add_class", str(t.add_class("a").add_class("b").add_class("c", prepend=True)))
print("add_class html", str(span(class_=HTML("<x>")).add_class('q"<')), str(span(class_='q"<').add_class(HTML("<x>"), prepend=True)))
print("add_style", str(span().add_style("a:b;").add_style(HTML("c:'d';")).add_style("e:\"f\";", prepend=True)))
show("add_style bad", lambda: span().add_style("a:b"))
print("remove_class", str(span(class_="a b  c a").remove_class("a")), str(span(class_="a").remove_class("a")), str(span().remove_class("a")))
print("has_class", span(class_="a b").has_class("b"), span(class_="a b").has_class("c"), span().has_class("a"))
show("tag bad attr", lambda: div(a=Obj()))
show("tag attr dict and kw merge", lambda: str(Tag("x", {"a_": 1}, {"a": True}, a=HTML("&amp;"))))
show("consolidate", lambda: (lambda r: (type(r[0]).__name__, dump(r[0]), r[1]))(consolidate_attrs({"class": "a"}, "kid", {"class": HTML("<b>")}, ["l"], class_="c&", id=None)))
print("taglist of tags", str(TagList(div(class_="a"), span({"class": "b"}, class_="c"))))
