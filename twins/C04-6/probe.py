"""Probe for refactoring 1: html_escape() with precompiled search patterns."""
from htmltools import HTML, TagList, div, html_escape, span, tags
from htmltools._util import _html_escape


def show(label, fn):
    try:
        res = fn()
        print(label, "->", type(res).__name__, repr(res))
    except Exception as e:  # noqa: BLE001
        print(label, "-> EXC", type(e).__name__)


TEXTS = [
    "",
    "plain",
    "a&b",
    "<",
    ">",
    "<<>>&&",
    "&amp;",
    "&amp;lt;",
    'say "hi"',
    "it's",
    "line1\nline2",
    "cr\rlf\r\n",
    "tab\tonly",
    "|",
    "a|b",
    "\\n",
    "unicode é中<é>",
    "\x00<\x00",
    "' \" & < > \r \n" * 3,
    "x" * 50 + "&" + "y" * 50,
]

ATTR_FLAGS = [False, True, 0, 1, None, "", "yes", [], [0]]

for t in TEXTS:
    for a in ATTR_FLAGS:
        show(f"html_escape({t!r}, attr={a!r})", lambda: html_escape(t, a))
    show(f"html_escape({t!r})", lambda: html_escape(t))
    show(f"_html_escape({t!r}, True)", lambda: _html_escape(t, True))
    # identity (not just equality) of the returned object when nothing to escape
    show(f"same-object({t!r})", lambda: html_escape(t) is t)
    show(f"same-object-attr({t!r})", lambda: html_escape(t, attr=True) is t)

# Non-str inputs: exception types must be unchanged.
for bad in [None, 3, 2.5, b"a<b", HTML("<b>"), ["<"], ("&",), object]:
    show(f"html_escape({bad!r})", lambda: html_escape(bad))
    show(f"html_escape({bad!r}, attr=True)", lambda: html_escape(bad, attr=True))


class MyStr(str):
    pass


show("str subclass", lambda: html_escape(MyStr("a<b")))
show("str subclass clean", lambda: html_escape(MyStr("ab")))
show("str subclass clean type", lambda: type(html_escape(MyStr("ab"))).__name__)

# Through the public rendering paths
for t in TEXTS:
    show(f"div child {t!r}", lambda: str(div(t)))
    show(f"div attr {t!r}", lambda: str(div(title=t)))
    show(f"div HTML child {t!r}", lambda: str(div(HTML(t))))
    show(f"div HTML attr {t!r}", lambda: str(div(title=HTML(t))))
    show(f"script {t!r}", lambda: str(tags.script(t)))
    show(f"style {t!r}", lambda: str(tags.style(t, t)))
    show(f"taglist {t!r}", lambda: str(TagList(t, HTML(t), span(t))))
    show(f"HTML + {t!r}", lambda: HTML("<i>") + t)
    show(f"{t!r} + HTML", lambda: t + HTML("<i>"))
    show(f"attr merge {t!r}", lambda: str(div({"class": t}, class_=HTML(t))))
    show(f"attr merge2 {t!r}", lambda: str(div({"class": HTML(t)}, class_=t)))
