# Probe for refactoring 1: htmltools._util.html_escape
import htmltools
from htmltools import HTML, TagList, div, html_escape, span
from htmltools import _util


class S(str):
    pass


def show(label, fn):
    try:
        r = fn()
        print(label, "->", type(r).__name__, repr(r))
    except Exception as e:  # noqa: BLE001
        print(label, "-> EXC", type(e).__name__)


TEXTS = [
    "",
    "plain",
    "&",
    "<",
    ">",
    "&amp;",
    "&lt;script&gt;",
    "<script>alert('x')</script>",
    "<!-- c -->",
    "<!DOCTYPE html>",
    "]]>",
    "a & b < c > d",
    "&&&<<<>>>",
    "&#60;&#x3c;",
    "\"quoted\" 'single'",
    "line1\nline2\r\nline3\rline4",
    "tab\there\x00nul",
    "unicode é中\U0001f600   <é>",
    "|",
    "a|b",
    "\\&",
    "&" * 50 + "x" * 50 + "<" * 3,
]

for t in TEXTS:
    show(f"esc({t!r})", lambda t=t: html_escape(t))
    show(f"esc({t!r}, False)", lambda t=t: html_escape(t, False))
    show(f"esc({t!r}, attr=True)", lambda t=t: html_escape(t, attr=True))
    show(f"_html_escape({t!r})", lambda t=t: _util._html_escape(t))

# identity preserved when nothing to escape (same object returned)
for t in ["plain", "", S("sub"), "quote\"only"]:
    print("identity", repr(t), html_escape(t) is t, html_escape(t, attr=True) is t)

# str subclasses
show("S plain", lambda: html_escape(S("abc")))
show("S special", lambda: html_escape(S("a<b")))
show("S special attr", lambda: html_escape(S("a\"b"), attr=True))

# truthy / falsy non-bool attr flags
for flag in [0, 1, None, "", "x", [], [0]]:
    show(f"attr={flag!r}", lambda flag=flag: html_escape("<'\n&>", flag))

# wrong types
for bad in [None, 5, 1.5, b"<b>", HTML("<i>"), ["<"], object]:
    show(f"bad {type(bad).__name__}", lambda bad=bad: html_escape(bad))
    show(f"bad attr {type(bad).__name__}", lambda bad=bad: html_escape(bad, attr=True))

# through the rendering paths
for t in TEXTS:
    show(f"div({t!r})", lambda t=t: str(div(t)))
    show(f"div(a,{t!r})", lambda t=t: str(div("a", t, span(t))))
    show(f"TagList({t!r})", lambda t=t: str(TagList(t, [t, (t,)])))
    show(f"attr({t!r})", lambda t=t: str(div(title=t)))
    show(f"HTML+({t!r})", lambda t=t: repr(HTML("<b>") + t))
    show(f"+HTML({t!r})", lambda t=t: repr(t + HTML("<b>")))

show("numbers", lambda: str(div(1, 2.5, True, -0.0, 10**30, float("inf"))))
print("exported same", htmltools.html_escape is _util.html_escape, _util._html_escape is _util.html_escape)
print("tables", _util.HTML_ESCAPE_TABLE, _util.HTML_ATTRS_ESCAPE_TABLE)
