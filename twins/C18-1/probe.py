"""Probe for refactoring 1: htmltools._core._resolve_dependencies."""
from htmltools import HTMLDependency, HTMLDocument, TagList, div, head_content, span, tags
from htmltools._core import _resolve_dependencies


def dep(name, version, **kw):
    return HTMLDependency(name, version, **kw)


def show(label, fn):
    try:
        res = fn()
    except BaseException as e:  # noqa: BLE001
        print(label, "-> EXC", type(e).__name__)
    else:
        print(label, "->", repr(res))


def ids(deps):
    return [(d.name, str(d.version), id_tag.get(id(d), "?")) for d in deps]


id_tag = {}


def mk(tag, name, version):
    d = dep(name, version)
    id_tag[id(d)] = tag
    return d


a1 = mk("a1", "a", "1.0")
a2 = mk("a2", "a", "2.0")
a2b = mk("a2b", "a", "2.0")
a2c = mk("a2c", "a", "2.0.0")
a10 = mk("a10", "a", "1.10")
a9 = mk("a9", "a", "1.9")
b1 = mk("b1", "b", "1.0")
b0 = mk("b0", "b", "0.1")
c1 = mk("c1", "c", "3.1.4")
e = mk("e", "", "0")
A1 = mk("A1", "A", "5")

cases = {
    "empty": [],
    "single": [a1],
    "same-object-twice": [a1, a1],
    "upgrade-keeps-position": [a1, b1, a2],
    "downgrade-ignored": [a2, b1, a1],
    "equal-version-first-wins": [a2, a2b, a2c],
    "equal-version-first-wins-rev": [a2c, a2b, a2],
    "numeric-not-lexical": [a9, a10],
    "numeric-not-lexical-rev": [a10, a9],
    "interleaved": [c1, b0, a1, b1, a10, c1, a9, b0, a2, e, A1],
    "case-sensitive-names": [a1, A1, a2],
    "empty-name": [e, a1, e],
}
for label, lst in cases.items():
    before = list(lst)
    show("resolve " + label, lambda: ids(_resolve_dependencies(lst)))
    assert lst == before and all(x is y for x, y in zip(lst, before))

# Input container kinds
show("tuple input", lambda: ids(_resolve_dependencies((a1, b1, a2))))
show("generator input", lambda: ids(_resolve_dependencies(d for d in [b1, a1, b0, a2])))
show("returns list type", lambda: type(_resolve_dependencies([a1])).__name__)
show("fresh list each call", lambda: _resolve_dependencies([a1]) is _resolve_dependencies([a1]))

# Non-Version versions (passed through untouched by HTMLDependency)
i1 = mk("i1", "n", 1)
i2 = mk("i2", "n", 2)
f15 = mk("f15", "n", 1.5)
show("int versions", lambda: ids(_resolve_dependencies([i1, i2, f15])))
show("int versions rev", lambda: ids(_resolve_dependencies([i2, f15, i1])))
nv = mk("nv", "a", 7)
show("Version vs int (later)", lambda: ids(_resolve_dependencies([a1, nv])))
show("int vs Version (later)", lambda: ids(_resolve_dependencies([nv, a1])))
show("mixed but distinct names ok", lambda: ids(_resolve_dependencies([a1, i1])))
nn = mk("nn", "z", None)
show("None version single", lambda: ids(_resolve_dependencies([nn])))
show("None version twice", lambda: ids(_resolve_dependencies([nn, nn])))


class Weird:
    """Comparison returning a non-bool truthy/falsy object."""

    def __init__(self, v, truth):
        self.v, self.truth = v, truth

    def __gt__(self, other):
        print("   __gt__ called:", self.v, ">", other.v)
        return [1] if self.truth else []

    def __str__(self):
        return "W" + str(self.v)


w1 = mk("w1", "w", Weird(1, True))
w2 = mk("w2", "w", Weird(2, False))
w3 = mk("w3", "w", Weird(3, True))
show("weird gt truthiness", lambda: ids(_resolve_dependencies([w1, w2, w3, w2])))


class Boom:
    def __gt__(self, other):
        raise ZeroDivisionError("boom")

    def __str__(self):
        return "Boom"


bm1 = mk("bm1", "q", Boom())
bm2 = mk("bm2", "q", Boom())
show("gt raises", lambda: ids(_resolve_dependencies([bm1, bm2])))
show("gt not called for single", lambda: ids(_resolve_dependencies([a1, bm1])))

# Names that are not plain strings
ul = mk("ul", ["x"], "1")
show("unhashable name", lambda: ids(_resolve_dependencies([ul])))
show("unhashable name second", lambda: ids(_resolve_dependencies([a1, ul])))
t1 = mk("t1", ("x", 1), "1")
t2 = mk("t2", ("x", 1), "2")
show("tuple names", lambda: ids(_resolve_dependencies([t1, a1, t2])))
n1 = mk("n1", 1, "1")
n1f = mk("n1f", 1.0, "2")
nT = mk("nT", True, "3")
show("1 == 1.0 == True names collide", lambda: ids(_resolve_dependencies([n1, n1f, nT])))
show("no name attr", lambda: _resolve_dependencies([object()]))
show("None input", lambda: _resolve_dependencies(None))


class NoisyName:
    """Name object that logs every hash / eq, to pin down lookup order."""

    def __init__(self, s):
        self.s = s

    def __hash__(self):
        print("   hash", self.s)
        return hash(len(self.s))

    def __eq__(self, other):
        print("   eq", self.s, getattr(other, "s", other))
        return isinstance(other, NoisyName) and self.s == other.s

    def __str__(self):
        return self.s


class NoisyDep:
    """Duck-typed dependency logging attribute reads."""

    def __init__(self, tag, name, version):
        self._tag, self._name, self._version = tag, name, version

    @property
    def name(self):
        print("   read name of", self._tag)
        return self._name

    @property
    def version(self):
        print("   read version of", self._tag)
        return self._version


nd = [
    NoisyDep("x1", NoisyName("xx"), 1),
    NoisyDep("y1", NoisyName("yy"), 1),
    NoisyDep("x3", NoisyName("xx"), 3),
    NoisyDep("x2", NoisyName("xx"), 2),
    NoisyDep("y1b", NoisyName("yy"), 1),
]
show("noisy access order", lambda: [d._tag for d in _resolve_dependencies(nd)])

# Through the public API
hc1 = head_content(tags.title("T"))
hc2 = head_content(tags.title("T"))
hc3 = head_content(tags.title("U"))
tree = TagList(
    div(a1, span("x", b1, hc1), a2),
    b0,
    hc3,
    div(hc2, c1, div(a10)),
)
show("get_dependencies dedup", lambda: [(d.name, str(d.version)) for d in tree.get_dependencies()])
show(
    "get_dependencies nodedup",
    lambda: [(d.name, str(d.version)) for d in tree.get_dependencies(dedup=False)],
)
show("render deps", lambda: [repr(d) for d in tree.render()["dependencies"]])
show("render html", lambda: tree.render()["html"])
show("doc html", lambda: HTMLDocument(tree).render(lib_prefix=None)["html"])
show("doc deps", lambda: [repr(d) for d in HTMLDocument(tree).render()["dependencies"]])
show("tag render deps", lambda: [repr(d) for d in div(a2, a1, b1, a2b).render()["dependencies"]])
# history independence
for _ in range(3):
    _resolve_dependencies([c1, b1, a1])
show("after history", lambda: ids(_resolve_dependencies([a1, b1, a2])))
