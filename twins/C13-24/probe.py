"""Probe for HTMLDependency.as_dict / as_html_tags and the head markup built from them (refactoring 4)."""
import copy
import htmltools
from htmltools import HTMLDependency, HTMLTextDocument, HTMLDocument, TagList, Tag, tags, div, HTML, head_content


def show(label, fn):
    try:
        r = fn()
    except BaseException as e:  # noqa
        print(label, "->", "EXC", type(e).__name__, repr(str(e)))
    else:
        print(label, "->", type(r).__name__, repr(r))


def mk():
    return {
        "bare": HTMLDependency("a", "1.0"),
        "subdir": HTMLDependency("b", "2.1.3", source={"subdir": "x/y"}, script={"src": "b.js"}),
        "href": HTMLDependency(
            "c", "0.0.1", source={"href": "https://e.com/lib/"},
            script=[{"src": "c1.js", "defer": ""}, {"src": "sub dir/c 2.js?x=1&y=é", "type": "module"}],
            stylesheet=[{"href": "c.css"}, {"href": "/abs/d.css", "rel": "preload", "media": "print"}],
            meta=[{"name": "m", "content": "</SCRIPT><script>&\"'"}, {"name": "n", "content": ""}],
            all_files=True, head="<title>t</ScRiPt ></title>\r\nline2\n",
        ),
        "pkg": HTMLDependency("e", "9.9", source={"package": "htmltools", "subdir": "libtest/testdep"},
                              script={"src": "testdep.js"}, stylesheet={"href": "testdep.css"}),
        "nosource_files": HTMLDependency("f", "1", script={"src": "/f.js"}, stylesheet={"href": "f%20.css"}),
        "head_tags": HTMLDependency("g<\"", "3", head=TagList(tags.title("x"), tags.style("a > b {}"), "txt & <")),
        "head_tag": HTMLDependency("h", "2.0", head=tags.script("if (a </ b) {}")),
        "head_empty": HTMLDependency("i", "1", head=TagList()),
        "head_content": head_content(tags.link(rel="icon", href="f.ico"), HTML("<!-- c -->")),
        "empty_paths": HTMLDependency("j", "1", source={"href": ""}, script={"src": ""}, stylesheet={"href": ""}),
        "html_attr": HTMLDependency("k", "1", source={"subdir": "s"}, script={"src": "k.js", "integrity": HTML("a&b")}),
    }


KW = [
    {},
    {"lib_prefix": None},
    {"lib_prefix": ""},
    {"lib_prefix": "my/lib/", "include_version": False},
    {"include_version": False},
]

for name in mk():
    for i, kw in enumerate(KW):
        d = mk()[name]
        show("as_dict[%s][%d]" % (name, i), lambda: d.as_dict(**kw))
        show("as_html_tags[%s][%d]" % (name, i), lambda: d.as_html_tags(**kw))
        show("tags_str[%s][%d]" % (name, i), lambda: d.as_html_tags(**kw).get_html_string())
    d = mk()[name]
    before = (copy.deepcopy(d.script), copy.deepcopy(d.stylesheet), copy.deepcopy(d.meta))
    out = d.as_dict()
    show("not_mutated[%s]" % name, lambda: (d.script, d.stylesheet, d.meta) == before)
    show("copies[%s]" % name, lambda: (
        [a is b for a, b in zip(out["script"], d.script)],
        [a is b for a, b in zip(out["stylesheet"], d.stylesheet)],
        out["meta"] is d.meta,
        list(out.keys()),
    ))
    show("str[%s]" % name, lambda: str(d))
    tl = d.as_html_tags()
    show("head_nodes_shared[%s]" % name, lambda: [any(n is h for h in (d.head or [])) for n in tl])

# corner cases reached by mutating a dependency after construction
def mutated(**attrs):
    d = HTMLDependency("m", "1", source={"subdir": "s"}, script={"src": "m.js"}, stylesheet={"href": "m.css"},
                       meta={"name": "a", "content": "b"})
    for k, v in attrs.items():
        setattr(d, k, v)
    return d

class NoUpdate:
    """Subscriptable, deep-copyable, but not a dict: has no update()."""

    def __getitem__(self, key):
        return "file for " + key


cases = {
    "script_no_src": dict(script=[{"nosrc": "x"}]),
    "style_no_href": dict(stylesheet=[{"rel": "stylesheet"}]),
    "style_no_rel": dict(stylesheet=[{"href": "q.css"}]),
    "src_not_str": dict(script=[{"src": 5}]),
    "href_bytes": dict(stylesheet=[{"href": b"by tes.css"}]),
    "meta_nonstr_key": dict(meta=[{1: 2}]),
    "meta_children_key": dict(meta=[{"name": "a", "content": "b", "_add_ws": False}]),
    "script_nonstr_key": dict(script=[{"src": "a.js", 2: 3}]),
    "script_not_dicts": dict(script=["abc"]),
    "head_str": dict(head="raw <b>"),
    "head_int": dict(head=5),
    "version_obj": dict(version=3.5),
    "name_int": dict(name=7),
    "source_no_subdir": dict(source={"package": "htmltools"}),
    "source_bad_pkg": dict(source={"package": "no_such_pkg_zz", "subdir": "s"}),
    "script_mapping_no_update": dict(script=[NoUpdate()]),
    "script_mapping_no_update_bad_href": dict(script=[NoUpdate()], source={"href": 5}),
    "source_href_int": dict(source={"href": 5}),
    "style_tuple": dict(stylesheet=[("href", "x")]),
    "meta_not_dicts": dict(meta=["ab"]),
    "meta_generator_like": dict(meta=({"name": "z", "content": str(i)} for i in range(2))),
    "several_bad": dict(script=[{"nosrc": 1}], stylesheet=[{"nohref": 1}], meta=[{1: 2}], head=5),
    "bad_meta_and_script": dict(meta=[{1: 2}], script=[{"src": "a.js", 2: 3}]),
}
for k, attrs in cases.items():
    if k != "meta_generator_like":  # (its repr would contain a memory address)
        show("mut_as_dict[%s]" % k, lambda: mutated(**attrs).as_dict())
    show("mut_tags[%s]" % k, lambda: mutated(**attrs).as_html_tags(lib_prefix="p").get_html_string())

# the same markup inside documents
ds = list(mk().values())
for i, kw in enumerate(KW):
    show("htmldoc[%d]" % i, lambda: HTMLDocument(div("x", *ds)).render(**kw)["html"])
    show("textdoc[%d]" % i, lambda: HTMLTextDocument("<head>@@</head>@@", deps=list(ds), deps_replace_pattern="@@").render(**kw)["html"])
ok = [x for x in ds if x.name != "k"]  # "k" holds an HTML() attribute value, which JSON cannot carry
show("serialize_k", lambda: mk()["html_attr"].serialize_to_script_json().get_html_string())
ser = "".join(x.serialize_to_script_json().get_html_string() for x in ok)
for i, kw in enumerate(KW):
    show("roundtrip[%d]" % i, lambda: HTMLTextDocument("<head>@@</head>" + ser, deps_replace_pattern="@@").render(**kw)["html"])
    show("direct[%d]" % i, lambda: HTMLDocument(*ok).render(**kw)["html"])
