"""Probe for property C14 (child lists hold only normalised nodes).

Prints deterministic reprs / exception types+messages for a spread of TagList / Tag
child operations, flatten(), is_tag_child() and is_tag_node().
"""
from __future__ import annotations

import collections
import copy
import decimal
import fractions

import htmltools
from htmltools import HTML, HTMLDependency, Tag, TagList, div, span
from htmltools import is_tag_child, is_tag_node
from htmltools._core import MetadataNode, _tagchilds_to_tagnodes
from htmltools._util import flatten

LOG: list[str] = []


class Tagi:
    """Tagifiable object with a stable repr."""

    def __init__(self, name: str = "t") -> None:
        self.name = name

    def tagify(self):
        return span(self.name)

    def __repr__(self) -> str:
        return f"Tagi({self.name!r})"


class Rep:
    def _repr_html_(self) -> str:
        return "<b>rep</b>"

    def __repr__(self) -> str:
        return "Rep()"


class Meta(MetadataNode):
    def __repr__(self) -> str:
        return "Meta()"


class Plain:
    def __repr__(self) -> str:
        return "Plain()"


class MyInt(int):
    def __str__(self) -> str:
        LOG.append(f"MyInt.__str__({int(self)})")
        return f"<myint {int(self)}>"

    __repr__ = __str__


class MyFloat(float):
    def __str__(self) -> str:
        return "myfloat"


class IntWithTagify(int):
    def tagify(self):
        return "never"


class MyStr(str):
    pass


class MyList(list):
    pass


class MyTuple(tuple):
    pass


class NT(collections.namedtuple("NT", "a b")):
    pass


class Spy:
    """Object that records attribute probing (protocol isinstance checks)."""

    def __init__(self, name: str, has: tuple[str, ...] = ()) -> None:
        object.__setattr__(self, "_name", name)
        object.__setattr__(self, "_has", has)

    def __getattr__(self, attr: str):
        LOG.append(f"{self._name}.getattr({attr})")
        if attr in self._has:
            return lambda: "x"
        raise AttributeError(attr)

    def __repr__(self) -> str:
        return f"Spy({self._name})"


class MySeq(collections.abc.Sequence):
    def __init__(self, *items):
        self.items = items

    def __getitem__(self, i):
        return self.items[i]

    def __len__(self):
        return len(self.items)

    def __repr__(self):
        return f"MySeq{self.items!r}"


def gen(*items, tag="g"):
    for it in items:
        LOG.append(f"{tag}:yield {it!r}")
        yield it
    LOG.append(f"{tag}:done")


def boom_gen():
    yield "a"
    yield 1
    raise KeyError("boom")


def describe(x) -> str:
    if isinstance(x, Tag):
        return f"Tag<{x.name} attrs={dict(x.attrs)!r} kids={describe_list(x.children)}>"
    if isinstance(x, TagList):
        return f"{type(x).__name__}{describe_list(x)}"
    if isinstance(x, HTML):
        return f"HTML({x.as_string()!r})"
    if isinstance(x, HTMLDependency):
        return f"Dep({x.name})"
    return f"{type(x).__name__}:{x!r}"


def describe_list(xs) -> str:
    return "[" + ", ".join(describe(x) for x in xs) + "]"


def flush_log() -> None:
    global LOG
    if LOG:
        print("    log:", LOG)
    LOG[:] = []


def run(label: str, fn) -> None:
    try:
        res = fn()
    except BaseException as e:  # noqa: BLE001
        print(f"{label} -> EXC {type(e).__name__}: {e}")
    else:
        if isinstance(res, (TagList, Tag)):
            ok = all(is_tag_node(c) for c in (res.children if isinstance(res, Tag) else res))
            print(f"{label} -> {describe(res)} nodes_ok={ok}")
        else:
            print(f"{label} -> {res!r}")
    flush_log()


dep = HTMLDependency("dep", "1.0", source={"subdir": "x"}, script={"src": "a.js"})

VALUES = {
    "None": None,
    "str": "abc",
    "empty_str": "",
    "MyStr": MyStr("ms"),
    "int": 5,
    "zero": 0,
    "neg": -3,
    "bool_t": True,
    "bool_f": False,
    "float": 2.5,
    "nan": float("nan"),
    "inf": float("-inf"),
    "big": 10**30,
    "MyInt": MyInt(7),
    "MyFloat": MyFloat(1.5),
    "IntWithTagify": IntWithTagify(4),
    "complex": 1 + 2j,
    "Decimal": decimal.Decimal("1.5"),
    "Fraction": fractions.Fraction(1, 3),
    "bytes": b"xy",
    "bytearray": bytearray(b"q"),
    "range": range(3),
    "dict": {"a": 1},
    "set": {1},
    "frozenset": frozenset(),
    "Plain": Plain(),
    "Tagi": Tagi(),
    "Rep": Rep(),
    "Meta": Meta(),
    "dep": dep,
    "HTML": HTML("<i>h</i>"),
    "Tag": div("k", id="x"),
    "TagList": TagList("a", 1),
    "empty_TagList": TagList(),
    "list": ["a", [1, None, ("b", 2.0)]],
    "empty_list": [],
    "tuple": ("t", (None,), []),
    "empty_tuple": (),
    "MyList": MyList(["ml", 3]),
    "MyTuple": MyTuple(("mt", None)),
    "NT": NT("n", 9),
    "MySeq": MySeq("q", 1),
    "deque": collections.deque(["d"]),
    "type": int,
    "func": len,
    "Ellipsis": ...,
    "NotImplemented": NotImplemented,
    "class_Tagi": Tagi,
    "memoryview": memoryview(b"ab"),
    "bad_in_list": ["ok", [1, Plain()], "after"],
    "dict_in_tuple": ("x", {"a": 1}),
    "list_w_TagList": [TagList("p", [None, 2]), [TagList()], div()],
}


def section(title: str) -> None:
    print()
    print(f"==== {title} ====")


# ---------------------------------------------------------------------------
section("is_tag_child / is_tag_node")
for k, v in VALUES.items():
    run(f"pred {k}", lambda v=v: (is_tag_child(v), is_tag_node(v)))
for has in [(), ("tagify",), ("_repr_html_",), ("tagify", "_repr_html_")]:
    run(f"is_tag_node spy{has}", lambda has=has: is_tag_node(Spy("s", has)))
    run(f"is_tag_child spy{has}", lambda has=has: is_tag_child(Spy("s", has)))
run("types of results", lambda: [type(is_tag_child(v)).__name__ for v in (None, 1, "a", Plain(), [], div())])
run("types of results node", lambda: [type(is_tag_node(v)).__name__ for v in (None, 1, "a", Plain(), [], div())])

# ---------------------------------------------------------------------------
section("flatten")
run("flatten nested", lambda: flatten([1, [2, None, (3, [None, [4]])], None, "ab", TagList("x", ["y"])]))
run("flatten empty", lambda: flatten([]))
run("flatten tuple", lambda: flatten((None, (), [[]], [None])))
run("flatten str", lambda: flatten("abc"))
run("flatten gen", lambda: flatten(gen(1, [2, None], None, (3,))))
run("flatten nested gen not expanded", lambda: [type(x).__name__ for x in flatten([gen(1)])])
run("flatten subclasses", lambda: flatten([MyList([1, MyTuple((2, None))]), NT(3, [4])]))
run("flatten keeps other iterables", lambda: flatten([range(2), {1: 2}, b"x", MySeq(1)]))
run("flatten falsy kept", lambda: flatten([0, "", False, 0.0, [], (), None]))
run("flatten int", lambda: flatten(5))
run("flatten None", lambda: flatten(None))
run("flatten boom", lambda: flatten(boom_gen()))
run("flatten TagList arg", lambda: flatten(TagList("a", 1, None)))
run("flatten dict", lambda: flatten({"a": [1]}))
inp = [1, [2, [3]]]
run("flatten fresh list", lambda: (flatten(inp) is not inp, inp))

# ---------------------------------------------------------------------------
section("_tagchilds_to_tagnodes")
run("t2n str", lambda: _tagchilds_to_tagnodes("abc"))
run("t2n MyStr", lambda: [type(x).__name__ for x in _tagchilds_to_tagnodes(MyStr("q"))])
run("t2n empty", lambda: _tagchilds_to_tagnodes([]))
run("t2n numbers", lambda: _tagchilds_to_tagnodes([1, 2.50, True, -0.0, 1e100, 10**25, float("nan")]))
run("t2n MyInt order", lambda: _tagchilds_to_tagnodes([MyInt(1), [MyInt(2)], MyFloat(3.0), IntWithTagify(4)]))
run("t2n invalid after MyInt", lambda: _tagchilds_to_tagnodes([MyInt(1), Plain(), MyInt(2)]))
run("t2n invalid gen consumed", lambda: _tagchilds_to_tagnodes(gen("a", Plain(), MyInt(3), "z")))
run("t2n spies", lambda: _tagchilds_to_tagnodes([Spy("a", ("tagify",)), Spy("b", ("_repr_html_",)), Spy("c")]))
run("t2n int", lambda: _tagchilds_to_tagnodes(3))
run("t2n None", lambda: _tagchilds_to_tagnodes(None))
run("t2n boom", lambda: _tagchilds_to_tagnodes(boom_gen()))
for k, v in VALUES.items():
    run(f"t2n [{k}]", lambda v=v: describe_list(_tagchilds_to_tagnodes([v])))
src = [1, ["a", None]]
run("t2n input untouched", lambda: (_tagchilds_to_tagnodes(src), src))
run("t2n identity kept", lambda: (lambda d: _tagchilds_to_tagnodes([d])[0] is d)(div()))
run("t2n returns list", lambda: type(_tagchilds_to_tagnodes(("a",))).__name__)

# ---------------------------------------------------------------------------
section("TagList construction")
run("TagList()", lambda: TagList())
for k, v in VALUES.items():
    run(f"TagList({k})", lambda v=v: TagList(v))
run("TagList many", lambda: TagList("a", None, 1, [2.5, ("b", None, TagList("c", [3]))], div("d"), HTML("<e>"), dep, Tagi(), Rep()))
run("TagList(x, Plain)", lambda: TagList("x", Plain()))
run("TagList(gen)", lambda: TagList(gen("a")))

# ---------------------------------------------------------------------------
section("append / extend / insert / += (in place, unchanged on error)")


def mutate(op, v):
    tl = TagList("s", 0)
    before = list(tl.data)
    try:
        r = op(tl, v)
    except BaseException as e:  # noqa: BLE001
        return f"EXC {type(e).__name__}: {e} | unchanged={tl.data == before} {describe(tl)}"
    return f"ret={r if r is None else describe(r)} same_obj={r is tl if r is not None else None} | {describe(tl)} ok={all(is_tag_node(c) for c in tl)}"


def do_iadd(tl, v):
    orig = tl
    tl += v
    assert tl is orig or True
    return tl


OPS = {
    "append": lambda tl, v: tl.append(v),
    "extend": lambda tl, v: tl.extend(v),
    "insert0": lambda tl, v: tl.insert(0, v),
    "insert1": lambda tl, v: tl.insert(1, v),
    "insert-1": lambda tl, v: tl.insert(-1, v),
    "insert99": lambda tl, v: tl.insert(99, v),
    "iadd": do_iadd,
}
for opname, op in OPS.items():
    for k, v in VALUES.items():
        run(f"{opname}({k})", lambda op=op, v=v: mutate(op, v))

run("append multi", lambda: mutate(lambda tl, v: tl.append("a", None, [1, (2,)], v), div()))
run("append multi bad", lambda: mutate(lambda tl, v: tl.append("a", v, "b"), Plain()))
run("append none", lambda: mutate(lambda tl, v: tl.append(), None))
run("extend gen", lambda: mutate(lambda tl, v: tl.extend(v), gen("a", [1, None], Plain(), "z")))
run("iadd gen", lambda: mutate(do_iadd, gen(1, (2, [3]))))
run("extend self", lambda: mutate(lambda tl, v: tl.extend(tl), None))
run("iadd self", lambda: mutate(lambda tl, v: do_iadd(tl, tl), None))
run("insert bad index", lambda: mutate(lambda tl, v: tl.insert("x", v), "a"))
run("insert None index", lambda: mutate(lambda tl, v: tl.insert(None, v), "a"))


class Idx:
    def __init__(self, n):
        self.n = n

    def __index__(self):
        LOG.append(f"__index__({self.n})")
        return self.n


run("insert Idx", lambda: mutate(lambda tl, v: tl.insert(Idx(1), v), ["a", 7]))

# ---------------------------------------------------------------------------
section("+ / reflected + / slicing / repetition")
for k, v in VALUES.items():
    run(f"TagList + {k}", lambda v=v: TagList("s", 0) + v)
    run(f"{k} + TagList", lambda v=v: v + TagList("s", 0))
run("add leaves operands", lambda: (lambda a, b: (describe(a + b), describe(a), b))(TagList("a"), ["b", 1]))
run("radd leaves operands", lambda: (lambda a, b: (describe(b + a), describe(a), b))(TagList("a"), ["b", 1]))
run("add new object", lambda: (lambda a: (a + []) is a)(TagList("a")))
run("add gen", lambda: TagList("a") + gen(1, [None, "b"]))
run("radd via __radd__ gen", lambda: TagList("a").__radd__(gen(1, [None, "b"])))
run("radd via __radd__ str", lambda: TagList("a").__radd__("xyz"))
run("radd via __radd__ MyStr", lambda: TagList("a").__radd__(MyStr("xyz")))
run("radd via __radd__ int", lambda: TagList("a").__radd__(3))
run("add via __add__ int", lambda: TagList("a").__add__(3))
run("add via __add__ None", lambda: TagList("a").__add__(None))
run("radd via __radd__ None", lambda: TagList("a").__radd__(None))
run("add bad gen", lambda: TagList("a") + gen("x", Plain(), "y"))
run("radd bad gen", lambda: TagList("a").__radd__(gen("x", Plain(), "y")))
run("sum", lambda: sum([TagList("a"), TagList(1)], TagList()))
run("sum0", lambda: sum([TagList("a"), TagList(1)]))

big = TagList("a", 1, div("d"), None, [2.5, HTML("<h>")], dep)
run("slice[1:4]", lambda: big[1:4])
run("slice[::-1]", lambda: big[::-1])
run("slice[::2]", lambda: big[::2])
run("slice empty", lambda: big[10:])
run("item[0]", lambda: big[0])
run("item[-1]", lambda: describe(big[-1]))
run("item[99]", lambda: big[99])
run("mul 2", lambda: TagList("a", 1) * 2)
run("rmul 2", lambda: 2 * TagList("a", 1))
run("mul 0", lambda: TagList("a", 1) * 0)
run("mul -1", lambda: TagList("a", 1) * -1)
run("mul bad", lambda: TagList("a", 1) * "x")


def imul():
    t = TagList("a", 1)
    t *= 3
    return t


run("imul 3", imul)
run("copy", lambda: copy.copy(big))
run("setitem slice raw", lambda: (lambda t: (t.__setitem__(slice(0, 1), ["z", "w"]), describe(t))[1])(TagList("a", "b")))

# ---------------------------------------------------------------------------
section("subclass of TagList")


class SubTL(TagList):
    def extend(self, other):
        LOG.append(f"SubTL.extend({type(other).__name__})")
        super().extend(other)

    def __setitem__(self, i, v):
        LOG.append(f"SubTL.setitem({i!r})")
        super().__setitem__(i, v)


class ExpandStr(TagList):
    def _should_not_expand(self, x):
        LOG.append(f"_should_not_expand({x!r})")
        return False


run("SubTL ctor", lambda: SubTL("a", [1]))
run("SubTL append", lambda: (lambda t: (t.append("b", 2), t)[1])(SubTL("a")))
run("SubTL insert", lambda: (lambda t: (t.insert(0, ["b", 2]), t)[1])(SubTL("a")))
run("SubTL iadd", lambda: do_iadd(SubTL("a"), ["q"]))
run("SubTL add", lambda: SubTL("a") + ["q"])
run("SubTL radd", lambda: ["q"] + SubTL("a"))
run("SubTL slice", lambda: SubTL("a", "b", "c")[1:])
run("SubTL mul", lambda: SubTL("a") * 2)
run("ExpandStr add str", lambda: ExpandStr("a") + "xyz")
run("ExpandStr radd str", lambda: "xyz" + ExpandStr("a"))
run("ExpandStr add list", lambda: ExpandStr("a") + ["xyz", 1])

# ---------------------------------------------------------------------------
section("Tag child operations")
for k, v in VALUES.items():
    run(f"div({k})", lambda v=v: div(v))
run("div many", lambda: div("a", None, 1, {"id": "i"}, [2.5, ("b", TagList("c"))], span("d"), class_="k"))
run("Tag ctor", lambda: Tag("x-y", "a", [1, None], {"a": "b"}, _add_ws=False))
run("Tag bad add_ws", lambda: Tag("x", _add_ws=1))


def tag_mut(op, v):
    t = div("s", 0)
    before = list(t.children.data)
    try:
        op(t, v)
    except BaseException as e:  # noqa: BLE001
        return f"EXC {type(e).__name__}: {e} | unchanged={t.children.data == before}"
    return describe(t) + f" ok={all(is_tag_node(c) for c in t.children)}"


TOPS = {
    "t.append": lambda t, v: t.append(v),
    "t.extend": lambda t, v: t.extend(v),
    "t.insert": lambda t, v: t.insert(1, v),
}
for opname, op in TOPS.items():
    for k in ["None", "str", "int", "float", "bool_t", "list", "tuple", "TagList", "Tag", "Plain", "dict", "bad_in_list", "MyInt", "HTML", "dep", "range", "bytes", "set", "NT", "MySeq"]:
        run(f"{opname}({k})", lambda op=op, k=k: tag_mut(op, VALUES[k]))
run("t.append multi", lambda: tag_mut(lambda t, v: t.append("a", [1, None], v), span()))
run("t.append none", lambda: tag_mut(lambda t, v: t.append(), None))

# ---------------------------------------------------------------------------
section("render / tagify smoke")
run("render", lambda: str(TagList("a<", 1, [2.5, None, div("x", span(3)), HTML("<b>")], Tagi("tt"))))
run("tagify", lambda: TagList(Tagi("q"), "a", [TagList(Tagi("r"))]).tagify())
run("div render", lambda: str(div(1, [None, "b", (2.0,)], TagList(True))))

# ---------------------------------------------------------------------------
section("flatten: deep nesting / recursion limit (focus of this refactoring)")


def nest(n, kind=list):
    x = kind(["leaf", None, 1])
    for _ in range(n):
        x = kind([x])
    return x


def depth_ok(n):
    try:
        flatten(nest(n))
        return True
    except RecursionError:
        return False


def max_depth():
    lo, hi = 1, 5000
    while hi - lo > 1:
        mid = (lo + hi) // 2
        if depth_ok(mid):
            lo = mid
        else:
            hi = mid
    return lo


run("flatten depth 500 list", lambda: flatten(nest(500)))
run("flatten depth 500 tuple", lambda: flatten(nest(500, tuple)))
run("TagList depth 300", lambda: TagList(nest(300)))
run("flatten depth 4000", lambda: flatten(nest(4000)))
run("TagList depth 4000", lambda: TagList(nest(4000)))
run("max nesting depth before RecursionError", max_depth)
run("flatten wide", lambda: len(flatten([[i, None, (str(i),)] for i in range(2000)])))
run("flatten mixed containers", lambda: flatten([TagList("a", ["b"]), (TagList(), [None]), [[[]]], "s", 0]))
