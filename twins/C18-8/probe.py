"""Probe for refactoring 3: HTMLDocument._hoist_head_content / HTMLTextDocument.render."""
from htmltools import (
    HTML,
    HTMLDependency,
    HTMLDocument,
    HTMLTextDocument,
    Tag,
    TagList,
    div,
    head_content,
    span,
    tags,
)


def show(label, fn):
    try:
        res = fn()
    except BaseException as e:  # noqa: BLE001
        print(label, "-> EXC", type(e).__name__, str(e)[:100])
    else:
        print(label, "->", repr(res))


def rendered(r):
    return (r["html"], [(d.name, str(d.version)) for d in r["dependencies"]])


a1 = HTMLDependency("a", "1.0", source={"subdir": "libdir"}, script={"src": "a.js"})
a2 = HTMLDependency(
    "a",
    "2.0",
    source={"href": "https://x.org/a"},
    script=[{"src": "a b.js", "defer": ""}, {"src": "c.js"}],
    stylesheet={"href": "a.css"},
    meta={"name": "viewport", "content": "w"},
    head="<!-- raw head -->",
)
b = HTMLDependency("b", "0.1", head=TagList(tags.title("B"), tags.link(rel="icon")))
nohead = HTMLDependency("z", "9")
hc1 = head_content(tags.title("T"))
hc1b = head_content(tags.title("T"))
hc2 = head_content(tags.title("U"))

bodies = {
    "empty": (),
    "text": ("hi",),
    "one dep": (div("x", a1),),
    "many": (div(a1, span(b, hc1), a2), hc1b, hc2, nohead),
    "only nohead": (nohead,),
    "html tag": (tags.html(tags.head(tags.title("own")), tags.body(a1, "x")),),
    "html tag, no head": (tags.html(tags.body(b, "x")),),
    "html tag, dep first": (tags.html(a2, tags.head(tags.title("own"), hc1), tags.body("x")),),
    "html tag, two heads": (tags.html(tags.head("h1"), tags.head("h2"), tags.body(hc2)),),
    "html tag, head nested": (tags.html(tags.body(tags.head("inner"), a1)),),
    "html tag, text first": (tags.html("txt", tags.head(), tags.body()),),
    "html empty": (tags.html(),),
    "body tag": (tags.body(div(a1), class_="c"),),
    "two tags": (tags.html(), tags.body()),
}
for label, args in bodies.items():
    for kw in [{}, {"lib_prefix": None}, {"lib_prefix": "x/y", "include_version": False}]:
        show("doc %s %r" % (label, kw), lambda: rendered(HTMLDocument(*args, lang="en").render(**kw)))

# _hoist_head_content directly
hoist = HTMLDocument._hoist_head_content
show("hoist non-html", lambda: hoist(div(), "lib", True))
x = tags.html(tags.head(tags.title("own")), tags.body(a1, hc1))
before = str(x.get_html_string())
show("hoist", lambda: hoist(x, "lib", True).get_html_string())
print("input untouched:", x.get_html_string() == before)
show("hoist no version", lambda: hoist(x, None, False).get_html_string())
y = tags.html("a", "b")
before_y = y.get_html_string()
show("hoist no head", lambda: hoist(y, "lib", True).get_html_string())
print("input untouched:", y.get_html_string() == before_y, len(y.children))


# Error in a dependency while hoisting
bad = HTMLDependency("bad", "1")
bad.name = 5
show("hoist bad name", lambda: hoist(tags.html(tags.body(a1, bad)), "lib", True).get_html_string())
bad2 = HTMLDependency("bad2", "1", script={"src": "s.js"})
bad2.script = [{"nosrc": 1}]
show("hoist bad script", lambda: hoist(tags.html(tags.body(a1, bad2)), "lib", True).get_html_string())

# HTMLTextDocument
tmpl = "<html><head>@@DEPS@@</head><body>@@DEPS@@</body></html>"
for label, deps in {
    "no deps": [],
    "one": [a1],
    "several (not deduped)": [a1, a2, b, hc1, hc1b, nohead],
}.items():
    for kw in [{}, {"lib_prefix": None, "include_version": False}]:
        show(
            "textdoc %s %r" % (label, kw),
            lambda: rendered(HTMLTextDocument(tmpl, deps=list(deps), deps_replace_pattern="@@DEPS@@").render(**kw)),
        )
show("textdoc no pattern in text", lambda: rendered(HTMLTextDocument("<p></p>", deps=[a1], deps_replace_pattern="@@").render()))
show("textdoc deps w/o pattern", lambda: HTMLTextDocument("<p></p>", deps=[a1]))
show("textdoc nothing", lambda: rendered(HTMLTextDocument("<p>@</p>", deps_replace_pattern="@").render()))
ser = str(a2.serialize_to_script_json()) + str(hc1.serialize_to_script_json())
show(
    "textdoc serialized",
    lambda: rendered(HTMLTextDocument("<head>@@</head>" + ser + ser, deps=[b], deps_replace_pattern="@@").render()),
)
show("textdoc tuple deps", lambda: HTMLTextDocument("x", deps=(a1,), deps_replace_pattern="x"))
show("textdoc bad name", lambda: rendered(HTMLTextDocument("x", deps=[a1, bad], deps_replace_pattern="x").render()))
show("textdoc bad script", lambda: rendered(HTMLTextDocument("x", deps=[a1, bad2], deps_replace_pattern="x").render()))
doc = HTMLTextDocument(tmpl, deps=[a1, b], deps_replace_pattern="@@DEPS@@")
show("textdoc render twice", lambda: (rendered(doc.render()) == rendered(doc.render()), len(doc._deps)))
