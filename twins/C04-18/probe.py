# Probe for Tag.get_html_string (opening tag + attributes, empty/void tags, inlined
# single text child, <script>/<style> verbatim text, multi-children path).
import itertools
from htmltools import HTML, HTMLDependency, Tag, TagList, div, span, tags
from htmltools._core import TagAttrDict


def show(label, fn):
    try:
        r = fn()
        print(label, "->", type(r).__name__, repr(str(r)))
    except BaseException as e:  # noqa
        print(label, "-> EXC", type(e).__name__, str(e)[:100])


class Raw:
    def __init__(self, s):
        self.s = s

    def _repr_html_(self):
        return self.s


class Flip:
    """_repr_html_ that changes the parent tag while it is being rendered."""

    def __init__(self):
        self.parent = None

    def _repr_html_(self):
        self.parent.add_ws = not self.parent.add_ws
        return "<flip&>"


class MyStr(str):
    pass


dep = HTMLDependency("d", "1.0", source={"href": "x"}, script={"src": "s.js"})
names = ["div", "span", "script", "style", "SCRIPT", "br", "img", "link", "x-y", "", "Style"]
attrsets = [
    {},
    {"id": "a"},
    {"title": "<t>&\"'\n\r", "data_x": HTML("<h>&\"'"), "hidden": True, "n": 3, "f": 1.5, "skip": None, "no": False},
    {"class_": HTML("")},
    {"class": MyStr("m<")},
]
childsets = [
    (),
    ("",),
    ("a<b&c>\"'",),
    (HTML("a<b&c>\"'"),),
    (HTML(""),),
    (MyStr("<ms>"),),
    (Raw("<raw&>"),),
    (dep,),
    (dep, "t<"),
    (dep, dep),
    ("a<", "b&"),
    ("a<", HTML("<b>")),
    (HTML("<a>"), HTML("<b>")),
    (5, 2.5),
    (span("in<", _add_ws=False),),
    (span("in<"), "tail>", HTML("<raw>"), Raw("<r2>")),
    (TagList("x<", HTML("<y>")),),
    ([["deep<"], None, (HTML("<deep>"),)],),
]
for name, attrs, kids in itertools.product(names, attrsets, childsets):
    for ws in (True, False):
        t = Tag(name, *kids, _add_ws=ws, **attrs)
        show(f"{name!r} {sorted(attrs)} {len(kids)} ws={ws}", lambda: t.get_html_string())
    t = Tag(name, *kids, **attrs)
    show(f"{name!r} indent=2 eol=CRLF", lambda: t.get_html_string(2, "\r\n"))
    show(f"{name!r} str", lambda: str(t))
    show(f"{name!r} in div", lambda: str(div(t, "sib<")))

# keyword / positional variants of the signature, odd indent / eol values
t = div("a<", span("b"), title="q\"")
for args, kw in [((), {}), ((1,), {}), ((1, ""), {}), ((), {"indent": 3}), ((), {"eol": "|"}), ((0, "\n"), {}),
                 ((True,), {}), ((-1,), {}), (("2",), {}), ((None,), {}), ((1.5,), {}), ((1, None), {}), ((1, 5), {}),
                 ((), {"add_ws": False}), ((1, "", 3), {})]:
    show(f"args {args} {kw}", lambda: t.get_html_string(*args, **kw))
    show(f"args-empty {args} {kw}", lambda: div(id="e").get_html_string(*args, **kw))
    show(f"args-single {args} {kw}", lambda: div("one<", id="e").get_html_string(*args, **kw))
    show(f"args-void {args} {kw}", lambda: tags.br().get_html_string(*args, **kw))

# attrs replaced by a plain dict / values put in behind the normaliser's back
t = div("x")
t.attrs = {"a": "1<", "b": HTML("2<")}
show("plain dict attrs", lambda: t.get_html_string())
t = div("x")
dict.__setitem__(t.attrs, "n", 5)
show("int attr value", lambda: t.get_html_string())
t = div("x")
dict.__setitem__(t.attrs, 7, "v\"")
show("int attr key", lambda: t.get_html_string())
t = div("x")
t.attrs = None
show("attrs None", lambda: t.get_html_string())

# unusual names
for nm in (HTML("di<v"), None, 5, ["div"], MyStr("script"), MyStr("br"), b"div"):
    for kids in ((), ("t<",), ("t<", "u&"), (HTML("<k>"),)):
        show(f"name {type(nm).__name__} {len(kids)}", lambda: Tag(nm, *kids, title="a<\"").get_html_string())

# children list poked directly
t = div()
t.children.data.append(5)
show("raw int child", lambda: t.get_html_string())
t.children.data.append("s<")
show("raw int child + str", lambda: t.get_html_string())
t = tags.script()
t.children.data.extend([5, "s<"])
show("script raw int child", lambda: t.get_html_string())
t = div()
t.children = ["a<", HTML("<b>")]
show("children plain list", lambda: t.get_html_string())
t = div()
t.children = ["a<"]
show("children plain list single", lambda: t.get_html_string())

# a child that mutates the parent's add_ws while rendering
for ws in (True, False):
    f = Flip()
    t = div("a<", f, "b>", _add_ws=ws)
    f.parent = t
    show(f"flip ws={ws}", lambda: t.get_html_string(1))
    show(f"flip again ws={ws}", lambda: t.get_html_string(1))

# not tagified
class T:
    def tagify(self):
        return span("t")
show("non-tagified single", lambda: div(T()).get_html_string())
show("non-tagified multi", lambda: div("a", T()).get_html_string())
show("script non-tagified", lambda: tags.script(T()).get_html_string())
show("rendered", lambda: div("a", T()).render()["html"])
