# Probe for refactoring 4: shared attrs/children partition of Tag.__init__ and
# consolidate_attrs.
import collections
import types

from htmltools import (
    HTML,
    HTMLDependency,
    Tag,
    TagList,
    consolidate_attrs,
    div,
    is_tag_node,
    span,
    tags,
)
from htmltools._core import MetadataNode, TagAttrDict


def kids(x):
    out = []
    for c in x:
        if isinstance(c, (str, Tag, HTMLDependency)):
            out.append(type(c).__name__ + ":" + str(c).replace("\n", "\\n"))
        else:
            out.append("<" + type(c).__name__ + ">")
    return out


def show(label, fn):
    try:
        r = fn()
    except BaseException as e:  # noqa: BLE001
        print(label, "->", "EXC", type(e).__name__, str(e))
        return None
    print(label, "->", r)
    return r


class MyDict(dict):
    pass


class Rep:
    def _repr_html_(self):
        return "<b>r</b>"


dep = HTMLDependency("a", "1.0", source={"subdir": "."}, script={"src": "a.js"})
od = collections.OrderedDict([("data-o", "1"), ("class", "od")])
dd = collections.defaultdict(str, {"data-d": 2})

argsets = {
    "empty": (),
    "only_children": ("a", 1, None, 2.5),
    "only_dicts": ({"id": "x"}, {"class": "c1"}, {"class": "c2"}),
    "interleaved": ("a", {"id": "x"}, ["b", None, (1, {"not": "attr"}.get("not"))], {"class": "k"}, span("s"), {"class": "k2"}, 3),
    "empty_dict": ({}, "a", {}),
    "dict_subclasses": (MyDict(title="t"), od, dd, TagAttrDict({"data-t": True}), "kid"),
    "attr_values": ({"a": None, "b": False, "c": True, "d": 1.5, "e": HTML("<&>"), "f": "<&>"}, "kid"),
    "attr_underscore": ({"class_": "x", "data_y": "y", "for_": "z"},),
    "nested_lists": ([["a", ["b", [None, [1, [2.5]]]]]], ("t", ("u",))),
    "taglists": (TagList("x", 1), TagList(), [TagList("y")]),
    "nodes": (dep, MetadataNode(), Rep(), HTML("<i>h</i>"), div("d")),
    "dict_inside_list": (["a", {"id": "inner"}],),
    "mappingproxy": (types.MappingProxyType({"id": "mp"}),),
    "userdict": (collections.UserDict({"id": "ud"}),),
    "bad_child": ("ok", object()),
    "bad_child_bytes": (b"bytes",),
    "bad_attr_value": ({"id": object()}, "kid"),
    "bad_attr_and_bad_child": ({"id": [1]}, object()),
    "bad_child_then_bad_attr": (object(), {"id": [1]}),
    "non_str_key": ({1: "one"}, "kid"),
    "bool_children": (True, False, {"hidden": True}),
    "string_kept_whole": ("hello world", ["split", "not"]),
    "dict_keys_obj": ({"a": 1}.keys(),),
    "generator_child": ((x for x in "ab"),),
    "range_child": (range(3),),
}

kwsets = {
    "nokw": {},
    "kw": {"id": "kwid", "class_": "kwc", "data_n": 3},
}

for an, args in argsets.items():
    for kn, kw in kwsets.items():
        label = f"{an}/{kn}"
        if an == "generator_child":
            args = ((x for x in "ab"),)

        def build():
            t = Tag("x-tag", *args, **kw)
            return (
                dict(t.attrs),
                kids(t.children),
                all(is_tag_node(c) for c in t.children),
                type(t.children).__name__,
                type(t.attrs).__name__,
                str(t).replace("\n", "\\n"),
            )

        show("Tag " + label, build)
        if an == "generator_child":
            args = ((x for x in "ab"),)

        def cons():
            attrs, children = consolidate_attrs(*args, **kw)
            expected = [a for a in args if not isinstance(a, dict)]
            return (
                type(attrs).__name__,
                attrs,
                type(children).__name__,
                len(children),
                all(a is b for a, b in zip(children, expected)) and len(children) == len(expected),
                [type(c).__name__ for c in children],
            )

        show("consolidate " + label, cons)

# the tag functions go through Tag.__init__
show("div", lambda: repr(div({"class": "a"}, "x", {"class": "b"}, 1, None, [2], class_="c")))
show("tags.ul", lambda: repr(tags.ul({"id": "l"}, [tags.li(i) for i in range(3)], (None, "tail"))))
show("span _add_ws", lambda: repr(div(span("a", {"id": "s"}), span("b"), {"id": "d"})))
show("bad _add_ws", lambda: Tag("x", "a", {"id": "i"}, _add_ws="yes"))
show("bad _add_ws wins over bad child", lambda: Tag("x", object(), _add_ws=None))

# the returned children list of consolidate_attrs is a fresh list each time
a = ("x", {"id": "1"}, ["y"])
r1 = consolidate_attrs(*a)
r2 = consolidate_attrs(*a)
print("fresh lists:", r1[1] is not r2[1], r1[1] == r2[1], r1[0] is not r2[0], r1[0] == r2[0])
r1[1].append("z")
print("independent:", len(r1[1]), len(r2[1]))
# round trip
attrs, children = consolidate_attrs({"class": "a"}, "k1", ["k2", None, 3], class_="b", id="i")
print("round trip:", repr(div(attrs, *children)))


# subclass of Tag
class Card(Tag):
    def __init__(self, *args, **kwargs):
        super().__init__("card", {"class": "card"}, *args, **kwargs)


c = Card("body", {"class": "extra"}, 1, id="c")
print("subclass:", dict(c.attrs), kids(c.children), sorted(c.__dict__.keys()), list(c.__dict__.keys()))
