"""Probe for property C17: Tag context manager / displayhook wrapper / child rules.

Prints a deterministic transcript; must be byte-identical before and after the
refactoring.
"""
import copy
import re
import sys

import htmltools
from htmltools import HTML, HTMLDependency, Tag, TagList, div, span, tags
from htmltools import wrap_displayhook_handler
from htmltools._core import _tagchilds_to_tagnodes

LOG = []


_ADDR = re.compile(r" at 0x[0-9a-fA-F]+")


def out(*parts):
    # memory addresses are the only non-deterministic thing in the transcript
    print(_ADDR.sub(" at 0xADDR", " ".join(str(p) for p in parts)))


def base_hook(value):
    LOG.append(("base", type(value).__name__, str(value)))


def other_hook(value):
    LOG.append(("other", type(value).__name__, str(value)))


def attempt(label, fn):
    try:
        res = fn()
        out(label, "->", repr(res))
    except BaseException as e:  # noqa: BLE001
        out(label, "!!", type(e).__name__, str(e))


class Repr:
    def __init__(self, s="<b>r</b>"):
        self.s = s
        self.calls = 0

    def _repr_html_(self):
        self.calls += 1
        return self.s


class ReprBad:
    def _repr_html_(self):
        raise ValueError("boom in _repr_html_")


class ReprNonStr:
    def _repr_html_(self):
        return 42


class Tagif:
    def tagify(self):
        return span("tagified")


class Both:
    def __init__(self):
        self.calls = 0

    def tagify(self):
        return span("both-tagify")

    def _repr_html_(self):
        self.calls += 1
        return "<i>both-repr</i>"


class EqNone:
    """Compares equal to everything, including None and Ellipsis."""

    def __eq__(self, other):
        return True

    def __hash__(self):
        return 0


class EqNoneStr(str):
    def __eq__(self, other):
        return True

    def __hash__(self):
        return 0


class EqRaises:
    def __eq__(self, other):
        raise RuntimeError("eq raises")


class EqRaisesRepr(EqRaises):
    def _repr_html_(self):
        return "<u>eqraises</u>"


class LoudInt(int):
    def __str__(self):
        LOG.append(("LoudInt.__str__", int(self)))
        return "loud%d" % int(self)


class BadStrFloat(float):
    def __str__(self):
        raise ArithmeticError("no str for you")


class AttrSpy:
    """Records which attributes isinstance(..., Protocol) looks up."""

    def __getattr__(self, name):
        LOG.append(("getattr", name))
        raise AttributeError(name)


def flush(label):
    out(label, "LOG:", LOG)
    del LOG[:]


sys.displayhook = base_hook

# ---------------------------------------------------------------------------
out("== 1. wrapper identity/metadata")
w = wrap_displayhook_handler(base_hook)
out(w.__name__, w.__qualname__, w.__module__)
out(wrap_displayhook_handler(handler=other_hook).__name__)
out(w is wrap_displayhook_handler(base_hook))
out(sorted(w.__code__.co_freevars), w.__defaults__, w.__kwdefaults__)
attempt("w()", lambda: w())
attempt("w(1,2)", lambda: w(1, 2))
attempt("w(value=3)", lambda: w(value=3))
flush("1")

# ---------------------------------------------------------------------------
out("== 2. wrapper on every kind of value")
both = Both()
rep = Repr()
values = [
    ("str", "plain <text>"),
    ("empty str", ""),
    ("int", 7),
    ("zero", 0),
    ("float", 1.5),
    ("nan", float("nan")),
    ("True", True),
    ("False", False),
    ("None", None),
    ("Ellipsis", ...),
    ("NotImplemented", NotImplemented),
    ("Tag", div("x", id="a")),
    ("empty Tag", div()),
    ("TagList", TagList("a", span("b"))),
    ("empty TagList", TagList()),
    ("HTML", HTML("<hr>")),
    ("Repr", rep),
    ("ReprBad", ReprBad()),
    ("ReprNonStr", ReprNonStr()),
    ("Tagif", Tagif()),
    ("Both", both),
    ("dep", HTMLDependency("d", "1.0")),
    ("list", ["a", None, [1, 2.5]]),
    ("tuple", ("t", (None, ...))),
    ("empty list", []),
    ("dict", {"a": 1}),
    ("set", {1}),
    ("bytes", b"by"),
    ("complex", 1j),
    ("object", object),
    ("lambda-type", type),
    ("EqNone", EqNone()),
    ("EqNoneStr", EqNoneStr("eqnonestr")),
    ("EqRaises", EqRaises()),
    ("EqRaisesRepr", EqRaisesRepr()),
    ("LoudInt", LoudInt(5)),
    ("BadStrFloat", BadStrFloat(2.0)),
    ("AttrSpy", AttrSpy()),
    ("Repr class (not instance)", Repr),
    ("Tag class", Tag),
    ("tags.div function", tags.div),
]
for label, v in values:
    attempt("wrap(base) " + label, lambda v=v: w(v))
    flush("   ")
out("rep.calls", rep.calls, "both.calls", both.calls)

# ---------------------------------------------------------------------------
out("== 3. same values displayed inside a with block")
for label, v in values:
    t = div()
    try:
        with t:
            hook_in = sys.displayhook
            sys.displayhook(v)
    except BaseException as e:  # noqa: BLE001
        out("with", label, "!!", type(e).__name__, str(e))
    out("with", label, "children:", [(type(c).__name__, str(c)) for c in t.children])
    out("   restored:", sys.displayhook is base_hook, "prev:", t.prev_displayhook,
        "inner name:", hook_in.__name__)
    flush("   ")

# ---------------------------------------------------------------------------
out("== 4. ordering and nesting")
outer = div(id="outer")
mid = span(id="mid")
inner = tags.p(id="inner")
with outer:
    h_outer = sys.displayhook
    sys.displayhook("o1")
    with mid:
        h_mid = sys.displayhook
        out("mid.prev is outer hook:", mid.prev_displayhook is h_outer)
        sys.displayhook("m1")
        sys.displayhook(None)
        with inner:
            out("inner.prev is mid hook:", inner.prev_displayhook is h_mid)
            sys.displayhook(1)
            sys.displayhook(...)
            sys.displayhook(Repr("<em>e</em>"))
            sys.displayhook(2.25)
        out("after inner: hook is mid hook:", sys.displayhook is h_mid, inner.prev_displayhook)
        sys.displayhook("m2")
    out("after mid: hook is outer hook:", sys.displayhook is h_outer, mid.prev_displayhook)
    sys.displayhook(["o2", ["o3", None], TagList("o4")])
out("after outer: base:", sys.displayhook is base_hook, outer.prev_displayhook)
out(str(outer))
out([type(c).__name__ for c in outer.children])
out("inner is the same object inside mid:", mid.children[1] is inner)
out("mid is the same object inside outer:", outer.children[1] is mid)
flush("4")

# ---------------------------------------------------------------------------
out("== 5. exceptions inside blocks")
a = div(id="a")
b = div(id="b")
try:
    with a:
        sys.displayhook("a1")
        with b:
            sys.displayhook("b1")
            raise KeyError("inside b")
        sys.displayhook("unreachable")
except KeyError as e:
    out("caught", repr(e))
out(sys.displayhook is base_hook, a.prev_displayhook, b.prev_displayhook)
out(str(a))
flush("5a")

# invalid value -> TypeError propagates out, tags still delivered
a = div(id="a")
b = div(id="b")
try:
    with a:
        with b:
            sys.displayhook("ok")
            sys.displayhook({"bad": 1})
except TypeError as e:
    out("caught TypeError:", str(e))
out(sys.displayhook is base_hook, str(a))
flush("5b")

# BaseException
a = div(id="a")
try:
    with a:
        sys.displayhook("x")
        raise KeyboardInterrupt()
except KeyboardInterrupt:
    out("caught KeyboardInterrupt")
out(sys.displayhook is base_hook, a.prev_displayhook, str(a))
flush("5c")


# enclosing hook raises on exit
def raising_hook(value):
    LOG.append(("raising_hook", str(value)))
    raise OSError("enclosing hook failed")


sys.displayhook = raising_hook
a = div(id="a")
try:
    with a:
        sys.displayhook("x")
except OSError as e:
    out("caught", repr(e))
out(sys.displayhook is raising_hook, a.prev_displayhook)
flush("5d")

# body raises AND enclosing hook raises
a = div(id="a")
try:
    with a:
        raise KeyError("body")
except BaseException as e:  # noqa: BLE001
    out("caught", type(e).__name__, repr(e), "context:", repr(e.__context__))
out(sys.displayhook is raising_hook, a.prev_displayhook)
flush("5e")
sys.displayhook = base_hook

# ---------------------------------------------------------------------------
out("== 6. re-entry")
t = div(id="t")
with t:
    h = sys.displayhook
    sys.displayhook("first")
    try:
        with t:
            sys.displayhook("never")
    except RuntimeError as e:
        out("RuntimeError:", str(e))
    out("hook intact:", sys.displayhook is h, "prev intact:", t.prev_displayhook is base_hook)
    try:
        t.__enter__()
    except RuntimeError as e:
        out("RuntimeError again:", e.args)
    sys.displayhook("second")
out(sys.displayhook is base_hook, t.prev_displayhook, str(t))
flush("6a")

# re-entry via a nested different tag
t = div(id="t")
u = span(id="u")
try:
    with t:
        with u:
            hu = sys.displayhook
            try:
                with t:
                    pass
            except RuntimeError as e:
                out("RuntimeError:", str(e))
            out("hook intact:", sys.displayhook is hu)
            sys.displayhook("in-u")
except BaseException as e:  # noqa: BLE001
    out("unexpected", type(e).__name__, e)
out(sys.displayhook is base_hook, str(t))
flush("6b")

# sequential reuse of the same tag
t = div(id="t")
for i in range(3):
    with t:
        sys.displayhook("round%d" % i)
out(str(t))
flush("6c")

# __enter__ return value, __exit__ return value
t = div()
r = t.__enter__()
out("enter returns", repr(r))
r = t.__exit__(None, None, None)
out("exit returns", repr(r))
with div() as bound:
    pass
out("as-binding:", repr(bound))
flush("6d")

# exit without enter
t = div(id="never-entered")
saved = sys.displayhook
try:
    t.__exit__(None, None, None)
except BaseException as e:  # noqa: BLE001
    out("exit w/o enter:", type(e).__name__, str(e))
out("displayhook now:", repr(sys.displayhook), "prev:", t.prev_displayhook)
sys.displayhook = saved
flush("6e")

# double exit
t = div(id="dbl")
t.__enter__()
t.__exit__(None, None, None)
try:
    t.__exit__(None, None, None)
except BaseException as e:  # noqa: BLE001
    out("double exit:", type(e).__name__, str(e))
out("displayhook now:", repr(sys.displayhook))
sys.displayhook = base_hook
flush("6f")

# sys.displayhook missing at entry
t = div(id="nohook")
del sys.displayhook
try:
    with t:
        pass
except BaseException as e:  # noqa: BLE001
    out("no displayhook:", type(e).__name__, str(e))
out("prev:", t.prev_displayhook, "has hook:", hasattr(sys, "displayhook"))
sys.displayhook = base_hook
flush("6g")

# hook swapped by user code inside the block
t = div(id="swap")
with t:
    sys.displayhook = other_hook
    sys.displayhook("goes to other")
out(sys.displayhook is base_hook, str(t))
flush("6h")

# non-callable / odd previous hooks
t = div(id="odd")
sys.displayhook = "not callable"
try:
    with t:
        sys.displayhook("x")
except BaseException as e:  # noqa: BLE001
    out("odd prev:", type(e).__name__, str(e))
out(repr(sys.displayhook), t.prev_displayhook)
sys.displayhook = base_hook
flush("6i")

# ---------------------------------------------------------------------------
out("== 7. instance state, equality, copy")
t = div("k", id="t")
out(list(t.__dict__.keys()))
u = div("k", id="t")
out("eq before:", t == u)
with t:
    out("eq during:", t == u, u == t)
    out("dict keys during:", list(t.__dict__.keys()))
    c = copy.copy(t)
    out("copy prev is same hook:", c.prev_displayhook is t.prev_displayhook)
out("eq after:", t == u, u == t)
out("copy still entered:", c.prev_displayhook is base_hook)
try:
    with c:
        pass
except RuntimeError as e:
    out("copy re-entry:", str(e))
out(sys.displayhook is base_hook)
c.__exit__(None, None, None)
out(sys.displayhook is base_hook, c.prev_displayhook)
flush("7")

# subclass overriding append
class MyTag(Tag):
    def append(self, *args):
        LOG.append(("MyTag.append", args))
        super().append(*args)


m = MyTag("my-tag")
with m:
    sys.displayhook("s")
    sys.displayhook(3)
    sys.displayhook(None)
    sys.displayhook(Repr())
out(str(m))
flush("7b")

# append replaced on the instance *after* entering: wrapper bound at entry time
t = div(id="late")
with t:
    t.append = lambda *a: LOG.append(("late append", a))
    sys.displayhook("still goes to original bound append")
del t.append
out(str(t))
flush("7c")

# ---------------------------------------------------------------------------
out("== 8. _tagchilds_to_tagnodes / TagList / Tag.append child rules")
cases = [
    ("str", "abc"),
    ("empty str", ""),
    ("list", ["a", 1, 2.5, None, True]),
    ("nested", ["a", ("b", ["c", TagList("d", [None, 3])])]),
    ("generator", (x for x in ["g", 1, None])),
    ("empty", []),
    ("only None", [None, [None], ()]),
    ("bad last", ["ok", 1, {"x": 1}]),
    ("bad first", [object(), "never"]),
    ("bad set", [{1, 2}]),
    ("bytes", [b"x"]),
    ("ellipsis", [...]),
    ("complex", [1j]),
    ("LoudInts then bad", [LoudInt(1), LoudInt(2), b"bad", LoudInt(3)]),
    ("BadStrFloat", [LoudInt(9), BadStrFloat(1.0), LoudInt(10)]),
    ("bool", [True, False]),
    ("inf/nan", [float("inf"), float("-inf"), float("nan"), -0.0, 10**30]),
    ("reprhtml", [Repr()]),
    ("tagifiable", [Tagif(), Both()]),
    ("tag+html+dep", [div("x"), HTML("<br>"), HTMLDependency("d", "1.0")]),
    ("AttrSpy", [AttrSpy()]),
    ("str subclass", [EqNoneStr("sub")]),
    ("int (not iterable)", 5),
    ("None (not iterable)", None),
    ("dict iterates keys", {"k1": 1, "k2": 2}),
    ("bytes top-level iterates ints", b"AB"),
]
for label, x in cases:
    try:
        res = _tagchilds_to_tagnodes(x)
        out(label, "->", type(res).__name__, [(type(i).__name__, str(i)) for i in res])
    except BaseException as e:  # noqa: BLE001
        out(label, "!!", type(e).__name__, str(e))
    flush("   ")

src = ["a", 1, [2.0, None]]
res = _tagchilds_to_tagnodes(src)
out("input unchanged:", src, "result:", res, "fresh:", res is not src)
s = "literal"
out("str passthrough:", _tagchilds_to_tagnodes(s), _tagchilds_to_tagnodes(s)[0] is s)
keep = div("same")
res = _tagchilds_to_tagnodes([keep, [keep]])
out("identity kept:", res[0] is keep, res[1] is keep)

t = div()
attempt("append()", lambda: t.append())
attempt("append(a,b,None,[1])", lambda: t.append("a", "b", None, [1]))
attempt("append(bad)", lambda: t.append("pre", object))
attempt("extend(gen)", lambda: t.extend(x for x in (1, 2)))
attempt("insert", lambda: t.insert(0, [0.5, "z"]))
attempt("insert bad", lambda: t.insert(0, {1}))
out(str(t), len(t.children))
tl = TagList()
attempt("TagList.append()", lambda: tl.append())
attempt("TagList.append(1,[2,(3,)],None)", lambda: tl.append(1, [2, (3,)], None))
attempt("TagList(bad)", lambda: TagList("a", 1j))
out(list(tl))
flush("8")

# ---------------------------------------------------------------------------
out("== 9. wrapper around arbitrary handlers")
seen = []
w2 = wrap_displayhook_handler(seen.append)
for v in [1, None, "s", ..., Repr("<x>"), div("d"), [None], (), 0.0, False, Both()]:
    w2(v)
out([(type(v).__name__, str(v)) for v in seen])


def handler_raises(v):
    raise LookupError("handler: %r" % (v,))


w3 = wrap_displayhook_handler(handler_raises)
for v in [None, ..., 1, Repr(), div(), EqNone()]:
    attempt("w3 %s" % type(v).__name__, lambda v=v: w3(v))
attempt("wrap(None)(1)", lambda: wrap_displayhook_handler(None)(1))
attempt("wrap(None)(None)", lambda: wrap_displayhook_handler(None)(None))
w4 = wrap_displayhook_handler(w)
w4("double wrapped")
w4(Repr("<dw>"))
flush("9")
out("final hook is base:", sys.displayhook is base_hook)
