"""Probe for refactoring 4: Tag.remove_class() / Tag.has_class()."""
from htmltools import HTML, div, span, tags


def state(t):
    return (str(t), [(k, type(v).__name__, str(v)) for k, v in t.attrs.items()])


def show(label, fn):
    try:
        out = fn()
        print(label, "->", repr(out))
    except Exception as e:  # noqa: BLE001
        print(label, "-> EXC", type(e).__name__, str(e))


class Falsy:
    def __bool__(self):
        return False

    def __str__(self):
        return "a"


class StrA:
    def __str__(self):
        return " a "


class BadBool:
    def __bool__(self):
        raise RuntimeError("no truth value")


initials = [
    {},
    {"id": "i"},
    {"class_": ""},
    {"class_": " "},
    {"class_": " \t\n "},
    {"class_": "a"},
    {"class_": "a a a"},
    {"class_": "a b"},
    {"class_": "b a"},
    {"class_": "a b a c a"},
    {"class_": "  b   a \t c\n"},
    {"class_": "ab a-b a_b A"},
    {"class_": " a b"},
    {"class_": HTML("a <b> c")},
    {"class_": HTML("")},
    {"class_": HTML("a")},
    {"class_": "5 True None"},
    {"class_": True},
    {"id": "i", "class_": "a b", "style": "s:1;"},
    {"id": "i", "class_": "a", "style": "s:1;"},
]
targets = ["a", "b", "c", "zz", "", " ", " a ", "a b", "A", "<b>", HTML("<b>"), HTML("a"), "é",
           None, 0, 5, True, False, Falsy(), StrA(), BadBool(), ["a"], ("a",), b"a"]


def lab(x):
    return x if isinstance(x, (str, bytes, int, type(None), list, tuple)) and not isinstance(x, HTML) else type(x).__name__ + ":" + (str(x) if not isinstance(x, BadBool) else "?")


for init in initials:
    for tg in targets:
        def rm(init=init, tg=tg):
            t = div(**init)
            before = state(t)
            try:
                r = t.remove_class(tg)
            except Exception as e:  # noqa: BLE001
                return ("EXC", type(e).__name__, str(e), state(t) == before)
            return (r is t, state(t))

        def has(init=init, tg=tg):
            t = div(**init)
            r = t.has_class(tg)
            return (type(r).__name__, r, state(t))

        show("remove %r %r" % (init, lab(tg)), rm)
        show("has %r %r" % (init, lab(tg)), has)

# add / has / remove interplay
show("roundtrip", lambda: state(span(class_="x").add_class("y").add_class("z", prepend=True).remove_class("x")))
show("roundtrip all", lambda: state(span(class_="x", id="k").remove_class("x").add_class("q")))
show("twice", lambda: state(div(class_="a b").remove_class("a").remove_class("a").remove_class("b")))
show("remove then has", lambda: [div(class_="a b a").remove_class("a").has_class(c) for c in "abc"])
show("key order", lambda: state(tags.a(href="h", class_="c d", id="i").remove_class("c")))
show("key order drop", lambda: state(tags.a(href="h", class_="c", id="i").remove_class("c")))


def plain_dict(cls, tg):
    t = div()
    t.attrs = {"class": cls, "id": "i"}
    r = t.remove_class(tg)
    return (r is t, type(t.attrs).__name__, list(t.attrs.items()), t.has_class("a"), t.has_class("b"))


show("plain dict keep", lambda: plain_dict("a  b", "a"))
show("plain dict drop", lambda: plain_dict(" a ", "a"))
show("plain dict none", lambda: plain_dict("", "a"))
