# Probe for refactoring 2: TagAttrDict.update merge path (_join_attr_values + sentinel lookup)
import itertools
from collections import OrderedDict
from htmltools import HTML, Tag, div, span, tags, TagList
from htmltools._core import TagAttrDict


def desc(d):
    return [(k, type(v).__name__, str(v)) for k, v in dict.items(d)]


def show(label, fn):
    try:
        r = fn()
        print(label, "->", type(r).__name__, repr(r))
    except BaseException as e:  # noqa
        print(label, "-> EXC", type(e).__name__)


class MyHTML(HTML):
    pass


nasty = "a\"b'c<d>e&f\rg\nh"
values = [
    "x", "", " ", nasty, HTML("x"), HTML(""), HTML(nasty), HTML("&amp;"), MyHTML("<m>"),
    1, 0, -2.5, 1e100, float("nan"), True, False, None,
]

# every ordered pair and a spread of triples merged under one name
for a, b in itertools.product(values, repeat=2):
    d = TagAttrDict({"k": a}, {"k": b})
    print("pair", repr(a), repr(b), desc(d), repr(str(Tag("div", d))))
for a, b, c in itertools.product(values[:9:2] + [True, None, 3], repeat=3):
    d = TagAttrDict({"k": a}, {"k": b}, k=c)
    print("triple", repr(a), repr(b), repr(c), desc(d), repr(str(Tag("i", d))))

# names that normalise to the same name, within one mapping and across mappings
show("alias1", lambda: desc(TagAttrDict({"class_": "a", "class": "b"}, class_=HTML("<c>"))))
show("alias2", lambda: desc(TagAttrDict({"data_x": "1", "data-x": HTML("2"), "data_x_": "'3'"})))
show("alias3", lambda: desc(TagAttrDict(OrderedDict([("a_b", "<"), ("a-b", ">")]), **{"a_b_": HTML("&")})))
show("empty", lambda: desc(TagAttrDict()))
show("empty maps", lambda: desc(TagAttrDict({}, {}, {})))
show("kwargs only", lambda: desc(TagAttrDict(a="1", b=HTML("2"), c=None)))

# update() on an existing dict overwrites earlier stored values but merges within the call
d = TagAttrDict(class_="old", id="i")
d.update({"class": "n1"}, {"class": HTML("<n2>")}, id=None)
print("overwrite", desc(d))
d.update({"class": None}, {"class": False})
print("none keeps", desc(d))
d.update({"class": True}, {"class": True})
print("true true", desc(d))
d.update()
print("noop", desc(d))
r = d.update({"z": "1"})
print("returns", r, desc(d))

# exception half-way: nothing is stored
d = TagAttrDict(a="1")
show("bad value", lambda: d.update({"a": "2", "b": HTML("<")}, {"b": "x", "c": object()}, d="never"))
print("after bad value", desc(d))
show("bad value list", lambda: d.update({"a": ["x"]}))
show("bad key int", lambda: d.update({1: "x"}))
show("bad key none skipped value", lambda: d.update({1: None}))
show("bad key none", lambda: d.update({None: "x"}))
show("bad key tuple", lambda: d.update({("a",): "x"}))
show("bad mapping", lambda: d.update([("a", "b")]))
show("bad mapping none", lambda: d.update(None))
print("after bad", desc(d))
show("bytes key", lambda: desc(TagAttrDict({b"a_": "x"})))
show("HTML keys", lambda: desc(TagAttrDict({HTML("a_b_"): "x"}, {HTML("a-b"): HTML("<y>")}, {"a-b": "'z'"})))


# a name normaliser returning an unhashable value
class Weird(TagAttrDict):
    @staticmethod
    def _normalize_attr_name(x):
        return [x]


show("unhashable nm", lambda: Weird(a="1"))


class Upper(TagAttrDict):
    @staticmethod
    def _normalize_attr_name(x):
        return x.upper()

    @staticmethod
    def _normalize_attr_value(x):
        return None if x == "skip" else x


show("subclass hooks", lambda: desc(Upper({"a": "1", "A": HTML("<2>")}, a="skip", b="'")))

# through the public API
show("tag ctor", lambda: str(div({"class": "a b"}, {"class": HTML("c&d")}, class_="e'f", id="x")))
show("tag ctor2", lambda: str(span({"style": HTML("color:red;")}, style='font:"x";', title=nasty)))
t = div(class_="a")
show("add_class", lambda: str(t.add_class("b<").add_class(HTML("c>"), prepend=True).add_class("d'", prepend=True)))
show("add_style", lambda: str(t.add_style("x:'1';").add_style(HTML("y:\"2\";"), prepend=True)))
show("has_class", lambda: (t.has_class("a"), t.has_class("b<"), t.has_class("c>")))
show("remove_class", lambda: str(t.remove_class("a")))
show("attrs types", lambda: desc(t.attrs))
show("tags.a", lambda: str(tags.a("link", {"href": "/?a=1&b=2"}, href=HTML("#frag"), target=True, hidden=False)))
show("render", lambda: div({"x": "1\n2"}, x=HTML("3\r4")).render()["html"])
